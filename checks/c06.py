"""C06 — the standard security handler agrees with ISO 32000 Algorithms 1, 1.A, 2, 2.A, 2.B, 3-13."""
import copy, json, os
from concurrent.futures import ThreadPoolExecutor
import vlib
from vlib import Check, tlc, run_bin, workdir, write_ndjson, read_ndjson, log

META = {
    "property_id": "C06",
    "level": "model_checking",
    "technique": "TLA+ spec (SecurityAlgorithms: ISO 32000 Algorithms 1-13 as a term language over uninterpreted MD5/SHA-2/RC4/AES) "
                 "model-checked by TLC on the symbolic term algebra; the term DAGs TLC emits are evaluated by an independent "
                 "interpreter (own RC4, CBC/ECB, PKCS#5, loop control) against lopdf in both directions; every comparison is "
                 "judged by Trace_SecurityAlgorithms",
    "text": "TLC checks the protocol for revisions 2-6 x key lengths x EncryptMetadata x RC4/AESV2/AESV3 x password classes "
            "(empty, short, Latin-1, exactly 32 / 127 bytes, longer, multi-byte character at the 127-byte cut, absent owner password): a password authenticates as user "
            "(owner) iff it is canonically equal to the user (owner) password (Algorithm 7 inverts Algorithm 3 only with the 20 RC4 "
            "passes in reverse key order, Algorithm 12 needs U: both mutants are refuted), every authenticated password recovers "
            "the writer's file key (Algorithms 2 / 2.A from UE and OE), Perms validates, and decryption inverts encryption for every "
            "kind of string / stream. TLC emits the term of every observable per configuration; the interpreter evaluates them. "
            "lopdf -> reference: lopdf encrypts seeded documents, O, U, UE, OE, Perms, file key, every object key and every "
            "ciphertext byte are recomputed (salts / IVs read from lopdf's output), then a reader knowing only dictionary + password "
            "decrypts everything. reference -> lopdf: the interpreter encrypts seeded documents per the ISO rule, lopdf's "
            "load_mem + decrypt must return the plaintext for the user and the owner password and fail for the others.",
    "note": "Trusted: TLC; the transcription of ISO 32000-1/-2 7.6 in SecurityAlgorithms.tla; the block primitives of the md-5, sha2 "
            "and aes crates (known-answer tests RFC 6229 / FIPS 197 / SP 800-38A / FIPS 180 / RFC 1321 at every start of the "
            "harness); lopdf's writer and loader as transport of already encrypted payloads (documents that do not survive an "
            "unencrypted save + load are skipped). Passwords are restricted to classes where PDFDocEncoding / SASLprep are the "
            "identity or the Latin-1 code (ASCII, e-acute, u-umlaut; for R5/R6 also U+20AC, U+20000 and siblings). MD5/SHA-2/AES internals are uninterpreted in the spec. "
            "Configurations are enumerated exhaustively by TLC, documents / salts / IVs / permission words are seeded samples.",
    "bins": ["c06"],
    "modules": ["MC_SecurityAlgorithms.tla", "Trace_SecurityAlgorithms.tla"],
    "design_ref": "DESIGN.md section 4 C06",
}

ASSUMPTIONS = [
    "Password classes: empty, 4-6 ASCII bytes, three Latin-1 letters (a, U+00E9, U+00FC: PDFDocEncoding = Latin-1 code, SASLprep = "
    "identity), exactly 32 bytes, 41 bytes, exactly 127 bytes, 133 bytes; for revisions 5-6 also passwords with a 2-, 3- or 4-byte "
    "character (U+00E9, U+20AC, U+20000) at the 127-byte cut with 1..k-1 of its bytes before the cut, exactly 127 / 128 bytes ending in such a "
    "character, each as user and as owner password, tried with itself, with a sibling character sharing the leading bytes (U+00E3, U+20A9, "
    "U+2000B: same first 127 bytes, must open) and cut at the character boundary (must not open); stringprep 0.1.5 maps all of these to "
    "themselves (probed; U+1F600 is prohibited by SASLprep and therefore not used). The reference prepares passwords itself (no stringprep).",
    "Revisions 2-4 also: passwords with the Euro sign, bullet, dagger (PDFDocEncoding 0xA0, 0x80, 0x81 - other codes or none in WinAnsi, "
    "MacRoman, Standard). History: besides the undisturbed run, both directions are repeated in worker processes that first call "
    "Document::encode_text (through a font dictionary's get_font_encoding) with predefined encodings in a given order - quick 6 orders, "
    "thorough all 16 orders of length 1 and 2 - before any password is converted; the model enumerates all histories of length <= 2.",
    "'Absent owner password' is the empty string (the only way lopdf's API can express it); Algorithm 3 (a) then uses the user password.",
    "Algorithm 5 (f): only the first 16 bytes of U are compared for revisions 3-4 (UCmpLen in the spec); the 4 random bytes of Perms, the "
    "salts in U[32..48] / O[32..48] and every AES IV are read from lopdf's output and substituted into the terms.",
    "Algorithm 2.B stop rule as implemented by every known reader: after round r >= 64 stop iff last byte of E <= r - 32 (rounds counted from 1).",
    "Revisions 5-6: the reference truncates the prepared password to 127 bytes on the writing side too (Algorithm 2.A (b) read as part of the "
    "password preparation); independently of that reading, an ISO reader cannot authenticate a longer password lopdf wrote (r.auth records).",
    "reference -> lopdf files are built as lopdf Documents with already encrypted payloads (ciphertext strings in hexadecimal form) and laid "
    "out by lopdf's writer (classical xref table or xref stream, seeded); object streams are not produced (the writer drops them).",
    "When the loader decrypts a document itself (empty password authenticates) the other passwords are tried with decrypt() on the in-memory "
    "encrypted document (route 'mem').",
    "Legal forms of the Length entry (Table 20: defined only for V 2/3, default 40; elsewhere the key length follows from V and the entry "
    "does not apply): V 1 absent or 40; V 2 the key length, or absent for 40 bits; V 4 absent or 128; V 5 absent or 256. The reference writes "
    "each form in turn; a failure is attributed to the form only if the same attempt succeeds with the canonical form (V 1 absent, V 4 128, "
    "V 5 absent). /Length 40 or 128 with V 5 (not legal, accepted by lopdf) is not generated.",
    "Application of the handler to a document (reference direction, one deviation from the canonical document at a time, every second document "
    "canonical): the standard crypt filter Identity as StmF / StrF, named or by default (absent entry); /EncryptMetadata false below V 4 (no "
    "meaning there); the Encrypt dictionary written directly in the trailer; a signature dictionary whose hexadecimal Contents is not encrypted; "
    "streams with a Crypt filter without decode parameters / with a null entry / without Name (Identity from V 4 on, ordinary streams below). "
    "A failure is attributed to the variant only if the same attempt succeeds on the canonical document (same keys and passwords).",
    "Not generated: Crypt filters naming a filter of CF (C05), public-key handlers, object streams, page-level Metadata streams with EncryptMetadata "
    "false (implementations differ), P words with reserved bits set, passwords SASLprep prohibits.",
]

# deviations still switched on in spec/MC_SecurityAlgorithms_{quick,thorough,mut_*}.cfg (= confirmed and not yet repaired);
# both are repaired (fix: 44ea712, c09ccb6), as are streamdict.string (48a6296), password-over-127.R56 (4d4c742) and the
# two Perms findings (8d25bb9); signatures come from Trace_SecurityAlgorithms' input classes
MODEL_DEV = {"h12": False, "ownerAbsent": False}
# legal forms of the Length entry on which the model of lopdf (Dev_length, still TRUE in the cfgs) derives another key
# length than the reader of the standard or rejects the dictionary; set() once the repairs are applied and Dev_length = FALSE
MODEL_DEV_LENGTH = set()
# how the handler is APPLIED to a document - deviations still switched on in the cfgs (Dev_identity, Dev_emBelowV4, Dev_encDirect,
# Dev_sig, Dev_cryptNoParams): kinds of items lopdf transforms differently, forms of the dictionary it reads differently;
# set() / set() once the repairs are applied and the switches are FALSE
MODEL_DEV_KINDS = set()
MODEL_DEV_FORMS = set()          # repaired by 1a492b6 (V5.256) and ce1e5ee (V1.40, V4.absent)

MUTANTS = [("MC_SecurityAlgorithms_mut_alg7.cfg", "AuthOwnerComplete"), ("MC_SecurityAlgorithms_mut_alg12.cfg", "AuthOwnerComplete"),
           # "the conversion table is built on the first call and kept": refuted by a history WinAnsi/MacRoman/Standard-first
           ("MC_SecurityAlgorithms_mut_table.cfg", "PrepIsFunction")]

# first-call orders of the public text-encoding entry points, one worker process each (a process-wide cache can only be
# observed from a fresh process); MC_SecurityAlgorithms!Disturb enumerates all histories of length <= 2
ENCS = ["PDFDoc", "WinAnsi", "MacRoman", "Standard"]
ORDERS_QUICK = [["WinAnsi"], ["MacRoman"], ["Standard"], ["PDFDoc", "WinAnsi"], ["WinAnsi", "MacRoman"], ["Standard", "PDFDoc"]]
ORDERS_THOROUGH = [[a] for a in ENCS] + [[a, b] for a in ENCS for b in ENCS if a != b]


def _ascii_run(key, n):
    kb = key.encode()
    return bytes(kb[i] if i < len(kb) else 48 + ((i * 7 + kb[0]) % 10) for i in range(n))


_CUT = {(2, 0): "\u00e9", (2, 1): "\u00e3", (3, 0): "\u20ac", (3, 1): "\u20a9", (4, 0): "\U00020000", (4, 1): "\U0002000b"}


def seg_bytes(s):
    """mirror of seg_bytes in harness/src/bin/c06.rs (for the details of a report only)"""
    i, n = s["id"], s["len"]
    if i == "lat":
        return "a\u00e9\u00fc".encode()
    if len(i) >= 2 and i[0] == "c" and i[1].isdigit():
        return "".join({0x80: "\u2022", 0x81: "\u2020", 0xA0: "\u20ac"}.get(int(c), chr(int(c))) for c in i[1:].split("_")).encode()
    if len(i) == 3 and i[0] in "HTUC" and i[1:].isdigit():
        k, j = int(i[1]), int(i[2])
        ch, sib = _CUT[(k, 0)].encode(), _CUT[(k, 1)].encode()
        if i[0] == "H":
            return _ascii_run("H%d%d" % (k, j), n - j) + ch[:j]
        if i[0] == "C":
            return _ascii_run("H%d%d" % (k, j), n)
        return (ch if i[0] == "T" else sib)[j:] + _ascii_run(i, n - (k - j))
    if len(i) == 2 and i[0] in "FG" and i[1].isdigit():
        k = int(i[1])
        return _ascii_run("F%d" % k, n - k) + _CUT[(k, 0)].encode() if i[0] == "F" else _ascii_run("F%d" % k, n)
    return _ascii_run(i, n)


def pw_text(segs):
    return b"".join(seg_bytes(s) for s in segs).decode("utf-8", "replace")


def split_at_cut(segs):
    """the 127-byte cut falls inside a multi-byte character (Trace_SecurityAlgorithms!SplitAtCut)"""
    return len(segs) >= 3 and segs[1].get("split") == 1


def detail(rec):
    d = {k: rec[k] for k in rec if k not in ("user", "owner", "try")}
    for k in ("user", "owner", "try"):
        if k in rec:
            d[k + "_password"] = pw_text(rec[k])
    return d


def emitted(r):
    out = []
    for tag in ("TERMS", "CASE", "PREP"):
        for d in r.tagged(tag):
            d["kind"] = tag
            out.append(d)
    return out


def check_generated(lines):
    """anti-vacuity of the model run, from what it emitted: every action of Next fired and the interesting classes are
    there (TLC's -coverage runs out of an 8 GB heap on this module, see MC_SecurityAlgorithms.tla)"""
    terms = [l for l in lines if l["kind"] == "TERMS"]
    cases = [l for l in lines if l["kind"] == "CASE"]
    cfgs = {(t["cfg"]["R"], t["cfg"]["bits"], t["cfg"]["meta"], t["cfg"]["stmf"], t["cfg"]["strf"], t["absent"]) for t in terms}
    need = [("R", r) for r in (2, 3, 4, 5, 6)]
    if {c[0] for c in cfgs} != {2, 3, 4, 5, 6} or len(cfgs) < 28:
        raise vlib.ToolError("vacuous: TLC emitted terms for %d configurations only" % len(cfgs))
    if not any(c[5] for c in cfgs) or not any(not c[2] for c in cfgs) or {c[3] for c in cfgs} != {"V2", "AESV2", "AESV3", "Identity"}:
        raise vlib.ToolError("vacuous: absent owner / EncryptMetadata false / a method missing from the configurations")
    for t in terms:
        names = {d["n"] for d in t["defs"]}
        want = {"O", "U", "fk", "objkey.str", "objkey.stm", "ct.str", "ct.stm", "pt.str", "pt.stm", "r.auth.user", "r.auth.owner",
                "r.fk.user", "r.fk.owner"} | ({"OE", "UE", "Perms", "r.perms.ok"} if t["cfg"]["R"] >= 5 else {"okey", "r.upw"})
        if not want <= names:
            raise vlib.ToolError("TERMS line lacks %s" % sorted(want - names))
    # Configure: a TERMS line; WriteDict + Attempt: a CASE line; DecryptItem + Finish: items = 11; Reject: not expected to open
    if not any(c["items"] == 11 for c in cases) or not any(not (c["expUser"] or c["expOwner"]) and c["items"] == 0 for c in cases):
        raise vlib.ToolError("vacuous: DecryptItem/Finish or Reject never taken")
    for r in (2, 3, 4, 5, 6):
        cs = [c for c in cases if c["cfg"]["R"] == r]
        if not (any(c["expUser"] and not c["expOwner"] for c in cs) and any(c["expOwner"] and not c["expUser"] for c in cs)
                and any(c["expOwner"] and c["expUser"] for c in cs)):
            raise vlib.ToolError("vacuous: password classes of revision %d lack user-only / owner-only / both" % r)
    # the input classes of the modelled deviations (owner-only password at R <= 4; absent owner password with a non-empty
    # user password) must occur whatever the switches say; the deviation itself only where its Dev_ switch is still on
    if not any(c["cls"]["h12"] for c in cases) or not any(c["cls"]["ownerAbsent"] for c in cases):
        raise vlib.ToolError("vacuous: the input classes of the modelled deviations never occur")
    for k, on in MODEL_DEV.items():
        if any(c["model"][k] for c in cases) != on:
            raise vlib.ToolError("modelled deviation %s %s in the design as the code is" % (k, "never occurs" if on else "still occurs"))
    # revisions 5-6: passwords with a 2-, 3- and 4-byte character at the 127-byte cut (1 .. k-1 bytes before it), exactly
    # 127 / 128 bytes ending in such a character, as user and as owner password; tried: the password, a different
    # password with the same first 127 bytes (opens), the password cut at the character boundary (does not open)
    for r in (5, 6):
        for who in ("user", "owner"):
            cs = [c for c in cases if c["cfg"]["R"] == r]
            heads = {c[who][1]["id"] for c in cs if len(c[who]) == 3 and c[who][1]["split"] == 1}
            if heads != {"H21", "H31", "H32", "H41", "H42", "H43"}:
                raise vlib.ToolError("vacuous: revision %d %s passwords cut inside a character: %s" % (r, who, sorted(heads)))
            if {c[who][1]["id"] for c in cs if len(c[who]) == 2} & {"F2", "F3", "F4"} != {"F2", "F3", "F4"}:
                raise vlib.ToolError("vacuous: revision %d %s passwords of exactly 127 bytes ending in a multi-byte character missing" % (r, who))
            if {c[who][1]["id"] for c in cs if split_at_cut(c[who]) and c[who][2]["len"] < 4} != {"H21", "H32", "H43"}:
                raise vlib.ToolError("vacuous: revision %d %s passwords of exactly 128 bytes ending in a multi-byte character missing" % (r, who))
            exp = "expUser" if who == "user" else "expOwner"
            other = "expOwner" if who == "user" else "expUser"
            mine = [c for c in cs if split_at_cut(c[who]) and not c[other]]
            if not any(c[exp] and c["try"] == c[who] for c in mine) or \
               not any(c[exp] and split_at_cut(c["try"]) and c["try"] != c[who] for c in mine) or \
               not any(not c[exp] and len(c["try"]) == 2 and c["try"][1]["id"][0] == "C" for c in mine):
                raise vlib.ToolError("vacuous: revision %d %s: cut-in-character password not tried with itself / sibling / boundary cut" % (r, who))
    # history: every predefined encoding occurs as the first conversion of the process, with texts on which it differs from
    # PDFDocEncoding and texts on which it does not; the modelled cache (Dev_tableCache) is off in the design as the code is
    preps = [l for l in lines if l["kind"] == "PREP"]
    firsts = {(p["hist"][0], p["sensitive"][p["hist"][0]]) for p in preps if p["hist"]}
    if not {("WinAnsi", True), ("WinAnsi", False), ("MacRoman", True), ("Standard", True), ("PDFDoc", False)} <= firsts \
       or not any(len(p["hist"]) == 2 for p in preps) or not any(not p["hist"] for p in preps):
        raise vlib.ToolError("vacuous: histories of text conversions missing from the model run: %s" % sorted(firsts))
    if any(p["dev"] for p in preps):
        raise vlib.ToolError("the conversion-table cache is switched on in the design as the code is")
    for r in (2, 3, 4):
        if not any(c["cfg"]["R"] == r and any(s["txt"] and "euro" in s["txt"] for s in c["user"]) for c in cases) or \
           not any(c["cfg"]["R"] == r and any(s["txt"] and "bullet" in s["txt"] for s in c["owner"]) for c in cases):
            raise vlib.ToolError("vacuous: revision %d has no user / owner password on which the one-byte encodings differ" % r)
    # the Length entry: every legal form per V is emitted; the modelled deviation occurs exactly in the listed classes
    forms = {(t["cfg"]["V"], m["cls"]) for t in terms for m in t["lengthModel"]}
    if not {(1, "none"), (1, "V1.40"), (2, "none"), (2, "V2.absent"), (4, "none"), (4, "V4.absent"), (5, "none"), (5, "V5.256")} <= forms:
        raise vlib.ToolError("vacuous: legal forms of the Length entry missing: %s" % sorted(forms))
    if any(t["lengths"] != [m["len"] for m in t["lengthModel"]] or t["canonLength"] not in t["lengths"] for t in terms):
        raise vlib.ToolError("TERMS line: inconsistent Length forms")
    if {m["cls"] for t in terms for m in t["lengthModel"] if m["dev"]} != MODEL_DEV_LENGTH:
        raise vlib.ToolError("modelled Length deviation differs from MODEL_DEV_LENGTH")
    # application of the handler: Identity filters (named and by default), forms of the dictionary, signature Contents, Crypt
    # filters without parameters are all emitted; the model of lopdf deviates exactly in the listed classes
    idc = [t for t in terms if "Identity" in (t["cfg"]["stmf"], t["cfg"]["strf"])]
    if {t["cfg"]["V"] for t in idc} != {4, 5} or not any(t["cfg"]["stmf"] == "Identity" for t in idc) or not any(t["cfg"]["strf"] == "Identity" for t in idc):
        raise vlib.ToolError("vacuous: no configuration with the Identity crypt filter")
    fs = {(t["cfg"]["V"] >= 4, f["f"]) for t in terms for f in t["forms"]}
    if not {(False, "em.false"), (False, "enc.direct"), (True, "enc.direct"), (True, "stmf.absent"), (True, "strf.absent"), (True, "canon")} <= fs:
        raise vlib.ToolError("vacuous: forms of the encryption dictionary missing: %s" % sorted(fs))
    if any(t["subjects"]["str.sigcontents"] for t in terms) or any(t["subjects"]["stream.cryptid"] != (t["cfg"]["V"] < 4) for t in terms):
        raise vlib.ToolError("TERMS line: signature Contents / Crypt-without-parameters streams are not exempt as the standard says")
    devk = set()
    for t in terms:
        ident = "Identity" in (t["cfg"]["stmf"], t["cfg"]["strf"])
        for k, dv in t["devItems"].items():
            if dv:
                devk.add(k if k in ("str.sigcontents", "stream.cryptid") or not ident else "identity")
    devf = {("identity" if f["f"] in ("canon", "stmf.absent", "strf.absent") else f["f"]) for t in terms for f in t["forms"] if f["dev"]}
    if devk != MODEL_DEV_KINDS or devf != MODEL_DEV_FORMS:
        raise vlib.ToolError("modelled deviations in applying the handler differ from MODEL_DEV_KINDS / MODEL_DEV_FORMS: %s %s" % (sorted(devk), sorted(devf)))
    groups = {(json.dumps(c["cfg"], sort_keys=True), c["absent"], json.dumps(c["user"]), json.dumps(c["owner"])) for c in cases}
    return len(terms), len(cases), len(groups)


def mutate_terms(lines):
    """negative control of the binding: three transcription mistakes the interpreter must expose against lopdf"""
    def walk(t):
        if isinstance(t, dict):
            if t.get("op") == "int" and t.get("n") == [50]:
                t["n"] = [49]                       # 49 instead of 50 MD5 rounds (Algorithms 2, 3)
            if t.get("op") == "rep" and t.get("n") == [64]:
                t["n"] = [63]                       # 63 instead of 64 repetitions (Algorithm 2.B)
            if t.get("op") == "lit" and t.get("n") == [115, 65, 108, 84]:
                t["n"] = [115, 65, 108, 116]        # "sAlt" instead of "sAlT" (Algorithm 1)
            for v in t.values():
                walk(v)
        elif isinstance(t, list):
            for v in t:
                walk(v)
    out = copy.deepcopy(lines)
    for l in out:
        if l["kind"] == "TERMS":
            walk(l["defs"])
    return out


def judge(chk, name, recs, chunks):
    bounds = [i for i, r in enumerate(recs) if i == 0 or r["doc"] != recs[i - 1]["doc"] or r["dir"] != recs[i - 1]["dir"]]
    vs, st, tr = vlib.validate_trace("Trace_SecurityAlgorithms.tla", "Trace_SecurityAlgorithms.cfg", recs, name,
                                     boundaries=bounds, chunks=chunks, timeout=1800)
    if len(vs) != len(recs):
        raise vlib.ToolError("trace validator judged %d of %d records" % (len(vs), len(recs)))
    chk.states += st
    chk.transitions += tr
    return vs


def run(tier):
    chk = Check("C06", META["level"], tier)
    chk.assumptions = list(ASSUMPTIONS)
    chk.rule = ("one case = one document encrypted under one (configuration, user password class, owner password class) enumerated by "
                "TLC, in one direction; every case compares >= 30 observables (dictionary entries, keys, ciphertexts, plaintexts) or "
                "tries >= 4 passwords; distinct by (direction, configuration, password classes, document seed)")
    w = workdir("c06")
    thorough = tier != "quick"
    run_bin("c06", ["selftest"])             # known-answer tests of the interpreter's primitives (exit 2 if wrong)

    # ---------------------------------------------------------------- (M) TLC on the symbolic algebra
    main_cfg = "MC_SecurityAlgorithms_thorough.cfg" if thorough else "MC_SecurityAlgorithms_quick.cfg"
    jobs = [(main_cfg, False, False)] + [(c, True, False) for c, _ in MUTANTS]
    if thorough:
        # the three repaired defects seeded back: the Impl*Refines invariants then assert that the model deviates from the
        # declarative layer exactly in the classes the switches name
        jobs += [("MC_SecurityAlgorithms_seeded.cfg", False, False)]

    def mc(job):
        cfg, allow, cov = job
        return tlc("MC_SecurityAlgorithms.tla", cfg, workers=4, allow_violation=allow, coverage=cov, timeout=1500,
                   name=os.path.splitext(cfg)[0])
    with ThreadPoolExecutor(max_workers=len(jobs)) as ex:
        res = list(ex.map(mc, jobs))
    r0 = res[0]
    chk.add_tlc(r0)
    for (cfg, want), r in zip(MUTANTS, res[1:1 + len(MUTANTS)]):
        if r.violation != want:
            raise vlib.ToolError("mutant %s is not refuted by %s (got %s)" % (cfg, want, r.violation))
    chk.extra["mutants_refuted"] = len(MUTANTS)
    if thorough:
        chk.add_tlc(res[1 + len(MUTANTS)])         # the design with the repaired defects seeded back deviates exactly where the switches say
    lines = emitted(r0)
    nterms, ncases, ngroups = check_generated(lines)
    chk.exhaustive = True
    chk.extra["configurations"] = nterms
    chk.extra["password_attempt_cases"] = ncases
    tf = os.path.join(w, "terms.ndjson")
    write_ndjson(tf, lines)

    # ---------------------------------------------------------------- (G) + (V)
    rounds = 6 if thorough else 1
    # history: the same two directions in processes that first convert text with other predefined encodings, one process per
    # first-call order; the groups whose passwords have characters on which the encodings differ come first
    nsens = len({(json.dumps(c["cfg"], sort_keys=True), c["absent"], json.dumps(c["user"]), json.dumps(c["owner"]))
                 for c in lines if c["kind"] == "CASE" and any(s["txt"] for s in c["user"] + c["owner"])})
    orders = ORDERS_THOROUGH if thorough else ORDERS_QUICK
    jobs = []                                     # (round tag, direction, history, seed, n)
    for k in range(rounds):
        jobs += [(k, "gen", "", vlib.seed() + 7919 * k, ngroups, "%d/3" % part) for part in range(3)]      # the long job, in three parts
        jobs += [(k, "record", "", vlib.seed() + 7919 * k, ngroups, "0/1")]
    for k, o in enumerate(orders):
        jobs += [(100 + k, d, ",".join(o), vlib.seed() + 104729 * (k + 1), nsens + 40, "0/1") for d in ("gen", "record")]

    def harness(job):
        tag, d, h, sd, n, part = job
        outp = os.path.join(w, "%s%d-%s.ndjson" % (d[0], tag, part[0]))
        run_bin("c06", [d] + (["--hist", h] if h else []) + ["--terms", tf, "--seed", sd, "--n", n, "--part", part, "--out", outp])
        return read_ndjson(outp)
    recs = []
    with ThreadPoolExecutor(max_workers=8) as ex:
        for job, rs in zip(jobs, ex.map(harness, jobs)):
            for r in rs:
                r["round"] = job[0]
                recs.append(r)
    chk.extra["histories_run"] = [",".join(o) for o in orders]
    vs = judge(chk, "c06", recs, 8 if thorough else 4)

    stats = {"env_skipped": 0, "saved_same": 0, "saved_other": 0, "ok": 0}
    seen = set()
    okrecs = []
    for v in vs:
        rec = recs[v["i"]]
        verdict = v["v"]
        key = (rec["dir"], rec["round"], rec["doc"])
        if verdict == "spec-inconsistent":
            raise vlib.ToolError("the spec disagrees with itself / the record is malformed: %s" % json.dumps(rec)[:400])
        if verdict.startswith("ok"):
            if verdict == "ok-env":
                stats["env_skipped"] += 1
            elif verdict.startswith("ok-saved-"):
                stats["saved_same" if verdict == "ok-saved-same" else "saved_other"] += 1
            else:
                stats["ok"] += 1
                chk.traces += 1
                okrecs.append(rec)
                if rec["ev"] in ("obs", "open") and key not in seen:
                    seen.add(key)
                    chk.case(json.dumps([rec["dir"], rec["cfg"], rec.get("user"), rec.get("owner"), rec["round"], rec["doc"]]))
            continue
        d = detail(rec)
        d["algorithm"] = v["alg"]
        chk.violation("C06:" + verdict, d)

    # ---------------------------------------------------------------- (B) anti-vacuity of the recorded sets
    vac = []
    obs_seen = {(r["cfg"]["R"], r["obs"]) for r in recs if r["ev"] == "obs"}
    for R in (2, 3, 4, 5, 6):
        need = {"O", "U", "fk", "objkey", "ct", "pt", "r.auth", "r.fk"} | ({"UE", "OE", "Perms", "r.perms.ok"} if R >= 5 else set())
        miss = {o for o in need if (R, o) not in obs_seen}
        if miss:
            vac.append("revision %d: observables never compared: %s" % (R, sorted(miss)))
        opens = [r for r in recs if r["ev"] == "open" and r["cfg"]["R"] == R]
        if not any(r["res"] == "err" and not r.get("expUser", True) and not r.get("expOwner", True) for r in opens):
            vac.append("revision %d: no wrong password tried" % R)
        if not any(r.get("expUser") for r in opens) or not any(r.get("expOwner") and not r.get("expUser") for r in opens):
            vac.append("revision %d: user / owner password never tried" % R)
        if not any(r["route"] == "file" for r in opens) or not any(r["route"] in ("auto", "load") for r in opens):
            vac.append("revision %d: file route / loader auto-decrypt never exercised" % R)
        if R >= 5:
            for who, obsname in (("user", "U"), ("owner", "O")):
                if not any(r["ev"] == "obs" and r["cfg"]["R"] == R and r["obs"] == obsname and split_at_cut(r[who]) for r in recs):
                    vac.append("revision %d: %s never recomputed for a %s password cut inside a character" % (R, obsname, who))
                if not any(split_at_cut(r[who]) and r["try"] == r[who] and r["route"] == "file" for r in opens):
                    vac.append("revision %d: no file opened with a %s password cut inside a character" % (R, who))
    # history: for every order run, passwords sensitive to its first encoding were judged in both directions, revisions 2-4
    def sens(r, who):
        return any(s.get("txt") for s in r.get(who, []))
    for k, o in enumerate(orders):
        rs = [r for r in recs if r["round"] == 100 + k]
        if any(r["hist"] != o for r in rs):
            vac.append("history %s not recorded in its records" % o)
        for R in (2, 3, 4):
            if not any(r["ev"] == "obs" and r["obs"] == "O" and r["cfg"]["R"] == R and (sens(r, "user") or sens(r, "owner")) for r in rs) or \
               not any(r["ev"] == "open" and r["cfg"]["R"] == R and sens(r, "try") and (r.get("expUser") or r.get("expOwner")) for r in rs):
                vac.append("history %s: no sensitive password judged for revision %d" % (o, R))
    # application of the handler: every form / optional content / Identity configuration reached lopdf in both directions
    gopen = [r for r in recs if r["ev"] == "open" and (r.get("expUser") or r.get("expOwner"))]
    for f in ("enc.direct", "em.false", "stmf.absent", "strf.absent"):
        if not any(r["form"] == f for r in gopen):
            vac.append("dictionary form never tried with a right password: %s" % f)
    for ft in ("sig", "crypt"):
        for V in (1, 2, 4, 5):
            if not any(r["feature"] == ft and r["cfg"]["V"] == V for r in gopen):
                vac.append("optional content %s never opened with a right password for V %d" % (ft, V))
            if not any(r["ev"] == "obs" and r["obs"] == "ct" and r["cfg"]["V"] == V and r["kind"] == ("str.sigcontents" if ft == "sig" else "stream.cryptid") for r in recs):
                vac.append("optional content %s never encrypted by lopdf for V %d" % (ft, V))
    for V in (4, 5):
        if not any(r["cfg"]["V"] == V and "Identity" in (r["cfg"]["stmf"], r["cfg"]["strf"]) for r in gopen) or \
           not any(r["ev"] == "obs" and r["obs"] == "ct" and r["cfg"]["V"] == V and "Identity" in (r["cfg"]["stmf"], r["cfg"]["strf"]) for r in recs):
            vac.append("Identity filter never exercised for V %d" % V)
    # every legal form of the Length entry was given to lopdf with a right password (and opened, unless a listed deviation)
    lenforms = {}
    for r in recs:
        if r["ev"] == "open" and (r.get("expUser") or r.get("expOwner")):
            k = (r["cfg"]["V"], "absent" if r["dlen"] < 0 else str(r["dlen"]))
            lenforms[k] = lenforms.get(k, 0) + (1 if r["res"] == "ok" and not r["bad"] else 0)
    for k in [(1, "absent"), (1, "40"), (2, "absent"), (2, "40"), (2, "128"), (4, "absent"), (4, "128"), (5, "absent"), (5, "256")]:
        if k not in lenforms:
            vac.append("Length form never tried: V %d / %s" % k)
        elif lenforms[k] == 0 and "V%d.%s" % k not in MODEL_DEV_LENGTH:
            vac.append("no document with Length form V %d / %s opened" % k)
    kinds = {r["kind"] for r in recs if r["ev"] == "obs" and r["obs"] == "ct"}
    if not {"str.dict", "str.nested", "str.top", "str.streamdict", "stream", "stream.meta", "stream.xref", "str.id"} <= kinds:
        vac.append("item kinds never compared: %s" % kinds)
    if stats["env_skipped"] * 10 > ngroups * rounds:
        vac.append("lopdf's writer/loader did not transport %d documents" % stats["env_skipped"])
    good_ct = sum(r["n"] - r["bad"] for r in recs if r["ev"] == "obs" and r["obs"] == "ct" and r["kind"] not in ("str.id", "stream.xref"))
    if good_ct < 5 * ngroups:
        vac.append("only %d ciphertexts reproduced byte for byte" % good_ct)
    chk.extra["ciphertexts_reproduced"] = good_ct

    # ---------------------------------------------------------------- (B) negative controls
    nneg = 0
    try:
        def pick(cond, what):
            x = next((copy.deepcopy(r) for r in okrecs if cond(r)), None)
            if x is None:
                raise vlib.ToolError("no record suitable for the negative control (%s)" % what)
            return x
        neg = []
        a = pick(lambda r: r["ev"] == "obs" and r["obs"] == "O" and r["cfg"]["R"] == 3 and len(r["owner"]) > 0, "O of revision 3")
        a["bad"] = 1
        neg.append((a, lambda v: v == "O.R3"))
        b = pick(lambda r: r["ev"] == "obs" and r["obs"] == "ct" and r["kind"] == "stream" and r["cfg"]["R"] == 6 and r["cfg"]["stmf"] == "AESV3", "stream ciphertext R6")
        b["bad"] = 1
        neg.append((b, lambda v: v == "ct.R6.AESV3.stream"))
        c = pick(lambda r: r["ev"] == "open" and not r.get("expUser", True) and not r.get("expOwner", True) and r["res"] == "err",
                 "rejected wrong password")
        c["res"] = "ok"
        neg.append((c, lambda v: v.startswith("wrong-password.accepted")))
        d = pick(lambda r: r["ev"] == "open" and r.get("expUser") and r["fk"] == "eq", "opened with the user password")
        d["fk"] = "ne"
        neg.append((d, lambda v: v.startswith("key.")))
        e = pick(lambda r: r["ev"] == "open" and r.get("expUser") and r["authU"] == "yes" and not split_at_cut(r["try"]),
                 "authenticated user password")
        e["authU"] = "no"
        neg.append((e, lambda v: v.startswith("auth.user.rejected")))
        g = pick(lambda r: r["ev"] == "open" and r["cfg"]["R"] == 6 and r.get("expOwner") and not r.get("expUser") and r["authO"] == "yes"
                 and split_at_cut(r["try"]), "owner password cut inside a character")
        g["authO"], g["res"], g["fk"] = "no", "err", "na"
        neg.append((g, lambda v: v == "password-cut-in-character.R56"))
        h = pick(lambda r: r["ev"] == "open" and r["cfg"]["V"] == 2 and r["dlen"] == -1 and r.get("expUser") and r["res"] == "ok",
                 "V 2 document without Length opened with the user password")
        h["authU"], h["res"], h["fk"], h["canonOpens"] = "no", "err", "na", "yes"
        neg.append((h, lambda v: v == "length.V2.absent"))
        k = pick(lambda r: r["ev"] == "open" and r["round"] >= 100 and r["hist"][0] != "PDFDoc" and r["cfg"]["R"] == 3 and r.get("expUser")
                 and r["authU"] == "yes" and any("euro" in s.get("txt", []) for s in r["try"]), "Euro password after another encoding")
        k["authU"], k["res"], k["fk"] = "no", "err", "na"
        neg.append((k, lambda v: v == "password-encoding.history.R234"))
        m = pick(lambda r: r["ev"] == "open" and r["cfg"]["V"] == 2 and r["form"] == "canon" and r["feature"] == "none" and r["dlen"] == r["cfg"]["bits"]
                 and r.get("expUser") and r["res"] == "ok", "canonical V 2 document opened with the user password")
        m["form"], m["bad"], m["canonOpens"] = "em.false", ["stream.meta"], "yes"
        neg.append((m, lambda v: v == "encryptmetadata.below-V4"))
        f = pick(lambda r: r["ev"] == "dict", "Encrypt dictionary")
        f["d"]["P"] += 1
        neg.append((f, lambda v: v.startswith("dict.P")))
        # the binding itself: wrong transcriptions in the terms must surface as mismatches against lopdf
        mf, mo = os.path.join(w, "terms_mut.ndjson"), os.path.join(w, "vmut.ndjson")
        write_ndjson(mf, mutate_terms(lines))
        run_bin("c06", ["record", "--terms", mf, "--seed", vlib.seed(), "--n", 56, "--out", mo])
        mrecs = read_ndjson(mo)
        nrecs = [x for x, _ in neg] + mrecs
        ntr = os.path.join(w, "neg.ndjson")
        write_ndjson(ntr, nrecs)
        rn = tlc("Trace_SecurityAlgorithms.tla", "Trace_SecurityAlgorithms.cfg", workers=1, env={"TRACE": ntr}, deque=True, name="c06neg")
        nv = rn.tagged("VERDICT")
        if len(nv) != len(nrecs):
            raise vlib.ToolError("negative-control trace not fully judged")
        for (rec, ok), v in zip(neg, nv):
            if not ok(v["v"]):
                raise vlib.ToolError("negative control not rejected as expected: %s -> %s" % (json.dumps(rec)[:200], v["v"]))
        msigs = {v["v"] for v in nv[len(neg):]}
        for want in ("fk.R3", "fk.R4", "U.R6", "objkey.R4.AESV2"):
            if not any(s.startswith(want) for s in msigs):
                raise vlib.ToolError("mutated terms not exposed against lopdf: no %s mismatch (got %s)" % (want, sorted(msigs)[:12]))
        nneg = len(neg) + 3  # + the three mutated transcriptions
    except vlib.ToolError as ex:
        vac.append(str(ex))
    chk.extra["negative_controls_rejected"] = nneg

    if vac and not chk.violations:
        raise vlib.ToolError("; ".join(vac))
    if vac:
        chk.extra["vacuity_notes"] = vac

    # ---------------------------------------------------------------- samples, bookkeeping
    t0 = next(l for l in lines if l["kind"] == "TERMS" and l["cfg"]["R"] == 3)
    chk.sample({"tlc_term": "objkey.str (Algorithm 1) for R=3, %d-bit key" % t0["cfg"]["bits"],
                "json": next(d["t"] for d in t0["defs"] if d["n"] == "objkey.str")})
    s1 = next((r for r in okrecs if r["ev"] == "obs" and r["obs"] == "ct" and r["kind"] == "stream" and r["cfg"]["R"] == 6), None)
    if s1:
        chk.sample({"direction": "lopdf -> reference", "cfg": s1["cfg"], "user_password": pw_text(s1["user"]), "owner_password": pw_text(s1["owner"]),
                    "observable": "ciphertext of %d streams recomputed byte for byte from the term ct.stm with lopdf's IVs" % s1["n"]})
    s2 = next((r for r in okrecs if r["ev"] == "open" and r.get("expOwner") and not r.get("expUser") and r["cfg"]["R"] == 6), None)
    if s2:
        chk.sample({"direction": "reference -> lopdf", "cfg": s2["cfg"], "user_password": pw_text(s2["user"]), "owner_password": pw_text(s2["owner"]),
                    "tried": pw_text(s2["try"]), "lopdf": {"authenticate_owner_password": s2["authO"], "decrypt": s2["res"], "file_key": s2["fk"],
                                                            "items_compared": s2["nitems"]}})
    s3 = next((r for r in okrecs if r["ev"] == "open" and not r.get("expOwner", True) and not r.get("expUser", True)), None)
    if s3:
        chk.sample({"direction": "reference -> lopdf", "cfg": s3["cfg"], "tried_wrong_password": pw_text(s3["try"]), "lopdf_decrypt": s3["res"],
                    "error": s3["err"]})
    chk.extra["documents_reference_to_lopdf"] = len({(r["round"], r["doc"]) for r in recs if r["dir"] == "G"})
    chk.extra["documents_lopdf_to_reference"] = len({(r["round"], r["doc"]) for r in recs if r["dir"] == "V"})
    chk.extra["records_judged"] = len(recs)
    chk.extra["env_skipped"] = stats["env_skipped"]
    chk.extra["saved_file_same_ciphertext"] = stats["saved_same"]
    chk.extra["saved_file_not_comparable"] = stats["saved_other"]
    chk.extra["length_forms_opened"] = {"V%d/%s" % k: v for k, v in sorted(lenforms.items())}
    return chk.finish()
