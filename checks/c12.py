"""C12 — page enumeration is the depth-first order of the page tree."""
import json, os
import vlib
from vlib import Check, tlc, run_bin, workdir, write_ndjson, read_ndjson, log

META = {
    "property_id": "C12",
    "level": "model_checking",
    "technique": "TLA+ spec (PageTree/PageTreeIter) model-checked by TLC; TLC-enumerated graphs replayed into lopdf; recorded lopdf enumerations judged by Trace_PageTree",
    "text": "TLC explores every page graph within small bounds (all node types, Kids sequences with dangling, duplicate and cyclic "
            "entries) and checks that the iterator automaton transcribed from PageTreeIter yields exactly the declarative DFS on "
            "well-formed trees, only Page objects on any graph, and terminates within its variant. Every enumerated graph is then "
            "built as a real Document and enumerated by lopdf (result must equal the spec's DFS); larger random trees, deep chains "
            "around the depth limit and malformed variants are enumerated by lopdf and judged by TLC against the declarative layer.",
    "note": "Trusted: TLC, the transcription of ISO 32000-1 7.7.3 in PageTree!WellFormed/Dfs, the harness's document builder. "
            "Exhaustive only within the model bounds (<=4 nodes, <=3 kids); beyond that sampled.",
    "bins": ['c12'],
    "modules": ['MC_PageTree.tla', 'Trace_PageTree.tla'],
    "design_ref": "DESIGN.md section 4 C12",
}


def judge_replay(chk, cases, results):
    for c, r in zip(cases, results):
        g = c["g"]
        key = json.dumps(g["nodes"])
        chk.case(key if (c["wf"] and len(c["dfs"]) > 0) or not c["wf"] else None)
        types = {n["id"]: n["typ"] for n in g["nodes"]}
        if "skipped" in r:
            chk.extra["skipped_after_hangs"] = chk.extra.get("skipped_after_hangs", 0) + 1
            continue
        if "hang" in r or "crash" in r or "panic" in r:
            kind = "hang" if "hang" in r else ("crash" if "crash" in r else "panic")
            chk.violation("C12:" + kind, {"graph": g, "detail": r.get("crash") or r.get("panic") or "no answer within 10 s"})
            continue
        pages = r["pages"]
        if any(types.get(p) != "Page" for p in pages):
            chk.violation("C12:non-page-yielded", {"graph": g, "got": pages})
        elif c["wf"] and pages != c["dfs"]:
            chk.violation("C12:order", {"graph": g, "got": pages, "expected_dfs": c["dfs"]})
        elif r["nums"] != list(range(1, len(pages) + 1)) or r["gp"] != pages:
            chk.violation("C12:numbering", {"graph": g, "page_iter": pages, "get_pages_keys": r["nums"], "get_pages_values": r["gp"]})
        elif c["wf"] and pages != c["impl"]:
            chk.extra["model_drift"] = chk.extra.get("model_drift", 0) + 1
        chk.traces += 1


def run(tier):
    chk = Check("C12", META["level"], tier)
    chk.rule = ("graphs enumerated by TLC (MC_PageTree) and seeded random graphs; a case is non-trivial when the graph is "
                "malformed or is a well-formed tree with at least one page; distinct by node table")
    w = workdir("c12")
    # (M)+(G) model checking + generation of every graph within bounds
    cfgs = ["MC_PageTree_quick.cfg"] if tier == "quick" else ["MC_PageTree_quick.cfg", "MC_PageTree_thorough.cfg"]
    for cfg in cfgs:
        r = tlc("MC_PageTree.tla", cfg, workers=4 if tier == "quick" else 16, coverage=True, timeout=3000,
                xmx="8g" if tier != "quick" else "4g")
        vlib.require_coverage(r, ["Build", "Start", "TakeS", "PopS"])
        chk.add_tlc(r)
        cases = r.tagged("REPLAY")
        if not cases:
            raise vlib.ToolError("generator produced no behaviours")
        if not any(c["wf"] and len(c["dfs"]) >= 2 for c in cases):
            raise vlib.ToolError("vacuous: no well-formed tree with >= 2 pages generated")
        cin, cout = os.path.join(w, "gen.ndjson"), os.path.join(w, "gen.out.ndjson")
        write_ndjson(cin, cases)
        run_bin("c12", ["replay", "--in", cin, "--out", cout])
        results = read_ndjson(cout)
        if len(results) != len(cases):
            raise vlib.ToolError("replay lost cases")
        judge_replay(chk, cases, results)
        chk.sample({"generated_graph": cases[len(cases) // 2]["g"], "spec_dfs": cases[len(cases) // 2]["dfs"],
                    "lopdf_pages": results[len(cases) // 2].get("pages")})
        chk.extra.setdefault("replayed_behaviours", 0)
        chk.extra["replayed_behaviours"] += len(cases)
    chk.exhaustive = True
    # (V) recorded lopdf runs judged by the declarative layer
    n = 300 if tier == "quick" else 4000
    tr = os.path.join(w, "trace.ndjson")
    run_bin("c12", ["record", "--seed", vlib.seed(), "--n", n, "--deep", 1, "--out", tr])
    recs = read_ndjson(tr)
    for rec in recs:
        if "panic" in rec:
            kind = rec["panic"].split(":")[0]
            if kind != "skipped":
                chk.violation("C12:" + kind, {"graph": rec["g"], "detail": rec["panic"]})
    validate(chk, tr, recs, w)
    # (B) negative control: corrupt one record of a well-formed tree, the validator must reject it
    neg = None
    for rec in recs:
        if len(rec["pages"]) >= 2 and "panic" not in rec:
            neg = json.loads(json.dumps(rec))
            neg["pages"][0], neg["pages"][1] = neg["pages"][1], neg["pages"][0]
            neg["gp"] = neg["pages"]
            break
    if neg is None:
        raise vlib.ToolError("no record suitable for the negative control")
    ntr = os.path.join(w, "neg.ndjson")
    write_ndjson(ntr, [neg])
    r = tlc("Trace_PageTree.tla", "Trace_PageTree.cfg", workers=1, env={"TRACE": ntr}, deque=True, name="c12neg")
    v = r.tagged("VERDICT")
    rejected = len(v) == 1 and not v[0]["v"].startswith("ok")
    chk.extra["negative_controls_rejected"] = 1 if rejected else 0
    if not rejected:
        # wf trees only: a swap of two pages of a well-formed tree must be rejected
        wfneg = any(x["v"] == "ok" for x in v)
        if not wfneg:
            raise vlib.ToolError("negative control was not rejected by Trace_PageTree: %s" % v)
    return chk.finish()


def validate(chk, tr, recs, w):
    r = tlc("Trace_PageTree.tla", "Trace_PageTree.cfg", workers=1, env={"TRACE": tr}, deque=True, timeout=1800,
            name="c12trace")
    chk.add_tlc(r)
    verdicts = r.tagged("VERDICT")
    if len(verdicts) != len(recs):
        raise vlib.ToolError("trace validator judged %d of %d records" % (len(verdicts), len(recs)))
    nwf = 0
    for v in verdicts:
        rec = recs[v["i"] - 1]
        chk.case(json.dumps(rec["g"]["nodes"]))
        if v["v"].startswith("ok"):
            chk.traces += 1
            if v["v"] == "ok-wf":
                nwf += 1
            if v["v"] == "ok-drift":
                chk.extra["model_drift"] = chk.extra.get("model_drift", 0) + 1
        else:
            chk.violation("C12:" + v["v"], {"graph": rec["g"], "lopdf_pages": rec["pages"], "nums": rec["nums"]})
    if nwf < len(recs) // 4:
        raise vlib.ToolError("vacuous trace set: only %d well-formed trees of %d" % (nwf, len(recs)))
    chk.extra["wellformed_traces"] = nwf
    s = recs[0]
    chk.sample({"recorded_graph_nodes": s["g"]["nodes"][:12], "lopdf_pages": s["pages"][:12]})
