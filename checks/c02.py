"""C02 — well-formed PDFs from any producer load to their content."""
import json, os, collections
from concurrent.futures import ThreadPoolExecutor
import vlib
from vlib import Check, tlc, run_bin, workdir, write_ndjson, read_ndjson

META = {
    "property_id": "C02",
    "level": "model_checking",
    "technique": "TLA+ Producer (SyntaxProducer/Spellings) model-checked against the TLA+ StrictReader; TLC-generated files replayed into lopdf's loader and judged by TLC (Trace_Lifecycle)",
    "text": "The specification contains a nondeterministic reference PDF writer (every separator/comment choice between tokens, all name, "
            "literal/hex string and number spellings incl. raw end-of-line markers, octal forms and line continuations, dictionary and object "
            "order, one or many xref subsections with the three legal entry line ends, xref streams with five W layouts and split or single "
            "Index, direct and indirect stream Length, bytes before the header). TLC proves on a test universe (all names and strings over a "
            "21-byte critical alphabet up to length 2, all styles, all separators; nested containers in the thorough tier) that whatever "
            "the Producer spells the spec's StrictReader reads back (RoundTrip), then generates whole files in simulation mode (RoundTrip "
            "re-checked on each). lopdf loads every generated file; TLC compares the loaded document with the strict reading of the bytes.",
    "note": "Trusted: TLC, the transcription of ISO 32000-1 7.2-7.5 in Syntax/FileStructure/Spellings/SyntaxProducer (both directions are "
            "checked against each other by TLC), the harness projection. Not yet produced: object streams, filtered xref streams "
            "(covered for multi-revision files by C07 when built). Files are sampled by TLC's simulator from VERIF_SEED.",
    "bins": ["c02"],
    "modules": ["MC_Syntax.tla", "Gen_File.tla", "Trace_Lifecycle.tla", "MC_FileBeyond.tla"],
    "design_ref": "DESIGN.md section 4 C02",
}

PRODUCER_ACTIONS = ["EmitTok", "XNull", "XBool", "XInt", "XReal", "XName", "XLit", "XHex", "XRef", "XArr", "XDict"]


def gen_files(w, tag, ndocs, nfiles, seed, max_objects=6, max_revs=1, cfg="Gen_File.cfg", deep=False, free=False):
    """seeded abstract documents (histories when max_revs > 1) -> TLC Producer in simulation mode -> files"""
    docs = os.path.join(w, "docs-%s.ndjson" % tag)
    run_bin("c02", ["docs", "--seed", seed, "--n", ndocs, "--max-objects", max_objects, "--max-revs", max_revs, "--deep", 1 if deep else 0, "--out", docs]
            + (["--free", 1] if free else []))
    r = tlc("Gen_File.tla", cfg, workers=1, simulate=nfiles, depth=8000, env=dict(DOCS=docs), timeout=3000,
            name="genfile-" + tag, xmx="3g", seed_override=seed & 0x7FFFFFFF)
    return r, r.tagged("REPLAY")


def run(tier):
    chk = Check("C02", META["level"], tier)
    chk.rule = ("files emitted by the TLA+ Producer in TLC simulation over seeded abstract documents; distinct by bytes; non-trivial when "
                "the file defines at least one object")
    chk.assumptions = [META["note"]]
    w = workdir("c02")
    # (M) the Producer and the StrictReader agree (the spec's own consistency proof)
    for cfg in (["MC_Syntax_atoms.cfg"] if tier == "quick" else ["MC_Syntax_atoms.cfg", "MC_Syntax_nested1.cfg"]):
        r = tlc("MC_Syntax.tla", cfg, workers=4 if tier == "quick" else 16, timeout=3000, xmx="8g")
        chk.add_tlc(r)
    # anti-vacuity: per-action coverage of the Producer (separate run without the invariants: -coverage makes
    # the byte-level fold of the reader orders of magnitude slower)
    r = tlc("MC_Syntax.tla", "MC_Syntax_atoms_cov.cfg", workers=4, coverage=True, timeout=600, name="mcsyntax-cov")
    vlib.require_coverage(r, ["A_EmitTok", "A_XNull", "A_XBool", "A_XInt", "A_XReal", "A_XName", "A_XLit", "A_XHex", "A_XRef"])
    # (G) whole files
    if tier == "quick":
        runs = [("q", 30, 200, vlib.seed())]
    else:
        runs = [("t%d" % i, 60, 500, vlib.seed() * 31 + i) for i in range(10)]
    with ThreadPoolExecutor(max_workers=10) as ex:
        res = list(ex.map(lambda a: gen_files(w, *a), runs))
    files = []
    for r, cases in res:
        chk.add_tlc(r)
        files += cases
    if not files:
        raise vlib.ToolError("Producer generated no files")
    kinds = collections.Counter(f["xref"] for f in files)
    for k in ("table1", "tableN", "stream1", "streamN"):
        if kinds[k] == 0:
            raise vlib.ToolError("vacuous: no generated file with cross-reference style %s" % k)
    chk.extra["xref_styles"] = dict(kinds)
    chk.extra["w_layouts"] = dict(collections.Counter(str(f["w"]) for f in files if f["xref"].startswith("stream")))
    chk.extra["files_with_object_streams"] = sum(1 for f in files if f["ncomp"] > 0)
    chk.extra["structural_stream_filters"] = dict(collections.Counter("%s/ft%s" % (f["sfilter"], f["pngft"]) for f in files if f["xref"].startswith("stream")))
    if not any(f["sfilter"] == "pred" and f["pngft"] >= 5 for f in files):
        raise vlib.ToolError("vacuous: no generated file with per-row PNG filter types on a structural stream")
    if chk.extra["files_with_object_streams"] == 0:
        raise vlib.ToolError("vacuous: no generated file uses object streams")
    fin, tr = os.path.join(w, "files.ndjson"), os.path.join(w, "trace.ndjson")
    write_ndjson(fin, files)
    run_bin("c02", ["load", "--in", fin, "--out", tr])
    recs = read_ndjson(tr)
    bounds = [i for i, r in enumerate(recs) if r["ev"] == "File"]
    verdicts, states, trans = vlib.validate_trace("Trace_Lifecycle.tla", "Trace_Lifecycle.cfg", recs, "c02",
                                                  boundaries=bounds, chunks=1 if tier == "quick" else 12)
    chk.states += states
    chk.transitions += trans
    if len(verdicts) != len(recs):
        raise vlib.ToolError("trace validator judged %d of %d events" % (len(verdicts), len(recs)))
    for v in verdicts:
        rec = recs[v["i"]]
        if rec["ev"] == "File":
            if not v["v"].startswith("ok"):
                # the Producer's own RoundTrip invariant should have caught this: machinery error, not lopdf's
                raise vlib.ToolError("StrictReader rejects a Producer file: %s" % v["d"])
            continue
        f = recs[v["i"] - 1]
        chk.case(json.dumps(f["bytes"]))
        if v["v"].startswith("ok"):
            chk.traces += 1
            continue
        d = v["d"]
        detail = {"verdict": d, "knobs": f["knobs"], "bytes": f["bytes"], "loaded": rec["doc"], "load_result": rec["res"]}
        for sig in signatures("C02", v):
            chk.violation(sig, detail)
    for f in files[:2]:
        chk.sample({"knobs": {k: f[k] for k in ("xref", "w", "order", "junk")}, "file_ascii": bytes(f["bytes"]).decode("latin-1")[:500]})
    # (B) negative control: a loaded document with one string byte changed must be rejected
    neg = None
    for i, r in enumerate(recs):
        if r["ev"] == "Load" and r["res"] == "ok" and verdicts[i]["v"] == "ok":
            j = json.dumps(r)
            if '"k": "str"' in j or '"k":"str"' in j:
                m = json.loads(j)
                if mutate_first_string(m["doc"]):
                    neg = [recs[i - 1], m]
                    break
    if neg is None:
        raise vlib.ToolError("no record suitable for the negative control")
    vs, _, _ = vlib.validate_trace("Trace_Lifecycle.tla", "Trace_Lifecycle.cfg", neg, "c02-neg")
    if vs[1]["v"].startswith("ok"):
        raise vlib.ToolError("negative control accepted: corrupted loaded string not detected")
    chk.extra["negative_controls_rejected"] = 1
    try:
        beyond_the_statement(chk, w, tier)
    except vlib.ToolError as e:
        # trouble in the phase beyond the statement must not mask a violation of the statement itself
        if not chk.violations:
            raise
        vlib.log("beyond-the-statement phase abandoned (%s); reporting the violations found before it" % e)
    return chk.finish()


# ---------------------------------------------------------------------------------------------------------------
# Beyond the statement of C02.  The property's quantifier leaves two legal features of ISO 32000-1 7.5.4 / 7.5.8.4
# outside its claimed domain: free entries (an update deletes an object) and hybrid-reference files (table +
# XRefStm).  The specification covers both (Revisions: `free`; SyntaxProducer: knobs hybrid/hycont/hyself/hymark/
# flink; FileStructure: the StrictReader reads them; Gen_File: RoundTrip, and the loader-shaped lookup model with one
# switch per deviation read off reader.rs).  This phase binds that part of the specification to lopdf:
#   * MC_FileBeyond: RoundTrip + ImplRefines exhaustively over the structural knobs for small histories,
#   * Gen_File_{free,hybrid,beyond}.cfg: TLC simulation with every lexical freedom (RoundTrip + ImplRefines on each file),
#   * every file and every prefix that ends at a revision boundary is loaded by lopdf and judged by Trace_Lifecycle
#     (Lifecycle!JudgeLoad against the strict reading), and the verdict is compared with what the loader-shaped
#     model predicted for that file.
# Nothing in here can produce a VIOLATION or change the exit code: these inputs are outside the statement.  A
# disagreement between lopdf and the declared view is reported as MODEL-DRIFT with the deviation(s) it is owed to;
# machinery trouble (a Producer file the StrictReader rejects, a vacuous run) is a ToolError as everywhere else.
# (needsprev / afterprev / newestonly - the three XRefStm deviations of the pinned tree - were repaired by /repo e756b84;
#  hybrid-reference histories are inside C07's statement and judged there)
DEVIATIONS = {
    "freeignored": "free entries (`f` / type 0) are not recorded: an object deleted by an update comes back",
}


def beyond_the_statement(chk, w, tier):
    quick = tier == "quick"
    # (M) exhaustive over the structural knobs, lexical choices pinned; the files are also emitted
    cfg = os.path.join(w, "MC_FileBeyond_emit.cfg")
    src = open(os.path.join(vlib.SPEC, "MC_FileBeyond_quick.cfg" if quick else "MC_FileBeyond_thorough.cfg")).read()
    src = src.replace("Emit = FALSE", "Emit = TRUE").replace("INVARIANTS RoundTrip ImplRefines", "INVARIANTS RoundTrip ImplRefines EmitInv")
    if "Emit = TRUE" not in src or "EmitInv" not in src:
        raise vlib.ToolError("MC_FileBeyond configuration has an unexpected shape")
    open(cfg, "w").write(src)
    jobs = [("mc", None)]
    if quick:
        jobs += [("bf", ("Gen_File_free.cfg", 24, 40, vlib.seed() + 21)), ("bh", ("Gen_File_hybrid.cfg", 24, 40, vlib.seed() + 22)),
                 ("bb", ("Gen_File_beyond.cfg", 24, 50, vlib.seed() + 23))]
    else:
        for i in range(4):
            jobs += [("bf%d" % i, ("Gen_File_free.cfg", 60, 300, vlib.seed() * 41 + i)), ("bh%d" % i, ("Gen_File_hybrid.cfg", 60, 300, vlib.seed() * 43 + i)),
                     ("bb%d" % i, ("Gen_File_beyond.cfg", 60, 400, vlib.seed() * 47 + i))]

    def one(job):
        tag, a = job
        if a is None:
            r = tlc("MC_FileBeyond.tla", cfg, workers=4 if quick else 12, timeout=3000, xmx="6g", name="mcfilebeyond")
            return tag, r, r.tagged("REPLAY")
        r, cases = gen_files(w, tag, a[1], a[2], a[3], 6, 3, cfg=a[0], free=True)
        return tag, r, cases

    with ThreadPoolExecutor(max_workers=7) as ex:
        res = list(ex.map(one, jobs))
    mc_files, sim_files = [], []
    for tag, r, cases in res:
        chk.add_tlc(r)
        for f in cases:
            f["origin"] = tag
        (mc_files if tag == "mc" else sim_files).extend(cases)
    chk.extra["beyond_statement_mc_states"] = [r.distinct for tag, r, _ in res if tag == "mc"][0]
    chk.extra["beyond_statement_mc_files"] = len(mc_files)
    # the exhaustive files are many and small: all of them in the thorough tier, a deterministic sample in quick
    mc_files.sort(key=lambda f: json.dumps([f[k] for k in ("doc", "xref", "order", "w", "sfilter", "hybrid", "hycont", "hyself", "hymark", "flink")]))
    files = sim_files + (mc_files[::7] if quick else mc_files)
    # anti-vacuity, from the inputs only
    classes = collections.Counter()
    for f in mc_files + sim_files:
        n = f["nrevs"]
        classes["hybrid"] += bool(f["hybrid"])
        classes["hybrid-without-prev"] += f["hybrid"] == [1] and n == 1
        classes["hybrid-newest-with-prev"] += n > 1 and n in f["hybrid"]
        classes["hybrid-older"] += any(r < n for r in f["hybrid"])
        classes["hidden-in-table"] += bool(f["hybrid"]) and (f["hycont"] == "intable" or f["hyself"] == "intable")
        classes["hidden-unlisted"] += bool(f["hybrid"]) and f["hymark"] == "unlisted"
        classes["free-in-table"] += f["nfree"] > 0 and f["xref"].startswith("table")
        classes["free-in-stream"] += f["nfree"] > 0 and f["xref"].startswith("stream")
        classes["free-list-chained"] += f["flink"] == "chain"
        classes["number-used-again"] += f["reused"] > 0
        for d in DEVIATIONS:
            classes["predicts-" + d] += any(d in p["owedto"] for p in f["pred"])
    chk.extra["beyond_statement_input_classes"] = dict(classes)
    empty = sorted(k for k in ("hybrid", "hybrid-without-prev", "hybrid-newest-with-prev", "hybrid-older", "hidden-in-table", "hidden-unlisted",
                               "free-in-table", "free-in-stream", "free-list-chained", "number-used-again") if classes[k] == 0)
    if empty:
        raise vlib.ToolError("vacuous (beyond the statement): no generated file of class %s" % empty)
    fin, tr = os.path.join(w, "beyond-files.ndjson"), os.path.join(w, "beyond-trace.ndjson")
    write_ndjson(fin, files)
    run_bin("c02", ["load", "--in", fin, "--out", tr])
    recs = read_ndjson(tr)
    bounds = [i for i, r in enumerate(recs) if r["ev"] == "File"]
    verdicts, states, trans = vlib.validate_trace("Trace_Lifecycle.tla", "Trace_Lifecycle.cfg", recs, "c02-beyond",
                                                  boundaries=bounds, chunks=4 if quick else 12)
    chk.states += states
    chk.transitions += trans
    if len(verdicts) != len(recs):
        raise vlib.ToolError("trace validator judged %d of %d events (beyond the statement)" % (len(verdicts), len(recs)))
    drift = collections.Counter()
    examples = {}
    loads = as_declared = as_predicted = lit_eol = 0
    for v in verdicts:
        rec = recs[v["i"]]
        if rec["ev"] == "File":
            if not v["v"].startswith("ok"):
                raise vlib.ToolError("StrictReader rejects a Producer file (beyond the statement): %s" % v["d"])
            continue
        fl = recs[v["i"] - 1]
        f = files[fl["case"]]
        j = f["nrevs"] - fl["prefix"]            # the prefix ends after revision j
        p = f["pred"][j - 1]
        loads += 1
        owed = "+".join(sorted(p["owedto"]))
        v, lit = without_known_lit_eol(v)
        lit_eol += lit
        outcome = compare_with_prediction(v, p)
        if v["v"].startswith("ok"):
            as_declared += 1
            if outcome != "as-predicted":
                # lopdf returns the declared view although the model of its reader predicts a deviation
                cls = "beyond.not-reproduced.%s" % (owed or "interaction")
            else:
                continue
        elif outcome == "as-predicted":
            as_predicted += 1
            cls = "beyond.%s" % (owed or "interaction")
        else:
            cls = "beyond.unexplained.%s" % v["v"]
        drift[cls] += 1
        if cls not in examples or len(fl["bytes"]) < examples[cls]["len"]:
            examples[cls] = {"len": len(fl["bytes"]), "class": cls, "verdict": {k: x for k, x in v["d"].items() if k != "why"},
                             "predicted": {k: p[k] for k in ("missing", "stale", "extra", "owedto")},
                             "knobs": {k: f[k] for k in ("xref", "hybrid", "hycont", "hyself", "hymark", "flink", "nrevs", "origin")},
                             "ends_after_revision": j, "file_ascii": bytes(fl["bytes"]).decode("latin-1")[:1500]}
    chk.extra["beyond_statement_files"] = len(files)
    chk.extra["beyond_statement_loads"] = loads
    chk.extra["beyond_statement_loads_as_declared"] = as_declared
    chk.extra["beyond_statement_loads_deviating_as_modelled"] = as_predicted
    chk.extra["beyond_statement_loads_showing_known_lit_rawCR"] = lit_eol
    chk.extra["beyond_statement_model_drift"] = dict(drift)
    chk.extra["beyond_statement_deviations"] = DEVIATIONS
    chk.extra["beyond_statement_examples"] = sorted(examples.values(), key=lambda e: e["class"])[:8]
    for cls, n in sorted(drift.items()):
        vlib.log("MODEL-DRIFT: property=C02 %s (%d files)" % (cls, n))


def without_known_lit_eol(v):
    """The lexical deviation C02:lit.rawCR (a known finding of the statement proper) also shows in these files.  It is
    taken out of the verdict here: objects whose only difference is `lit-eol` (Lifecycle!WhyObject), a trailer that
    equals the reading without end-of-line normalisation."""
    d = v["d"]
    if v["v"] == "load-trailer-differs" and d.get("verbatim") is True:
        return {"v": "ok-but-lit-eol", "d": {"v": "ok-but-lit-eol"}, "i": v["i"]}, 1
    if v["v"] == "load-object-differs":
        lit = {x["num"] for x in d["why"] if x["why"] == "lit-eol"}
        if lit:
            rest = sorted(set(d["nums"]) - lit)
            if not rest:
                return {"v": "ok-but-lit-eol", "d": {"v": "ok-but-lit-eol"}, "i": v["i"]}, 1
            return {"v": v["v"], "d": dict(d, nums=rest, why=[x for x in d["why"] if x["num"] not in lit]), "i": v["i"]}, 1
    return v, 0


def compare_with_prediction(v, p):
    """does the verdict of Lifecycle!JudgeLoad equal what the loader-shaped model (Gen_File!Prediction, all deviations on)
    says lopdf returns?  JudgeLoad reports the first failing clause only: missing objects, then objects that differ from
    the view or that the view does not have (stale and resurrected ones), so the comparison follows that order."""
    d = v["d"]
    nums = sorted(d.get("nums", []))
    if p["missing"]:
        ok = v["v"] == "load-object-missing" and nums == p["missing"]
    elif p["stale"] or p["extra"]:
        # a stale copy can coincide with the newest value; a stream whose Length object is stale may or may not differ
        ok = v["v"] == "load-object-differs" and set(p["extra"]) <= set(nums) <= set(p["stale"]) | set(p["extra"]) | set(p["maybe"])
    else:
        ok = v["v"].startswith("ok") or (v["v"] == "load-object-differs" and set(nums) <= set(p["maybe"]))
    return "as-predicted" if ok else "differs"


def signatures(pid, v):
    """narrow signatures of a failed Load verdict (classes computed by the spec: Lifecycle!WhyObjects)"""
    d = v["d"]
    if v["v"] == "load-object-differs":
        sigs = set()
        for w in d["why"]:
            if w["why"] == "lit-eol":
                sigs.add("C02:lit.rawCR")
            elif w["why"].startswith("stale."):
                sigs.add("C07:" + w["why"])
            else:
                sigs.add("%s:load-object-differs:%s" % (pid, "+".join(sorted(w["kinds"]))))
        return sorted(sigs)
    if v["v"] == "load-trailer-differs" and d.get("verbatim") is True:
        return ["C02:lit.rawCR"]
    if d.get("kinds"):
        return ["%s:%s:%s" % (pid, v["v"], "+".join(sorted(d["kinds"])))]
    return ["%s:%s" % (pid, v["v"])]


def mutate_first_string(doc):
    def walk(o):
        if isinstance(o, dict):
            if o.get("k") == "str":
                o["v"] = o["v"] + [88]
                return True
            if o.get("k") == "arr":
                return any(walk(x) for x in o["v"])
            if o.get("k") in ("dict", "stream"):
                return any(walk(p[1]) for p in o["v"])
        return False
    def bookkeeping(o):
        # cross-reference and object streams that lopdf keeps as objects are not part of the document the file
        # defines (the judge does not compare them): a string of their dictionaries (ID in an XRef stream) is no control
        if not (isinstance(o, dict) and o.get("k") == "stream"):
            return False
        return any(p[0] == [84, 121, 112, 101] and isinstance(p[1], dict) and p[1].get("k") == "name"
                   and bytes(p[1]["v"]) in (b"XRef", b"ObjStm") for p in o["v"])
    for ob in doc["objects"]:
        if not bookkeeping(ob[2]) and walk(ob[2]):
            return True
    return False
