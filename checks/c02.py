"""C02 — well-formed PDFs from any producer load to their content."""
import json, os, collections
from concurrent.futures import ThreadPoolExecutor
import vlib
from vlib import Check, tlc, run_bin, workdir, write_ndjson, read_ndjson

META = {
    "property_id": "C02",
    "level": "model_checking",
    "technique": "TLA+ Producer (SyntaxProducer/Spellings) model-checked against the TLA+ StrictReader; TLC-generated files replayed into lopdf's loader and judged by TLC (Trace_Lifecycle)",
    "text": "The specification contains a nondeterministic reference PDF writer (every separator/comment choice between tokens, all name, "
            "literal/hex string and number spellings incl. raw end-of-line markers, octal forms and line continuations, dictionary and object "
            "order, one or many xref subsections with the three legal entry line ends, xref streams with five W layouts and split or single "
            "Index, direct and indirect stream Length, bytes before the header). TLC proves on a test universe (all names and strings over a "
            "21-byte critical alphabet up to length 2, all styles, all separators; nested containers in the thorough tier) that whatever "
            "the Producer spells the spec's StrictReader reads back (RoundTrip), then generates whole files in simulation mode (RoundTrip "
            "re-checked on each). lopdf loads every generated file; TLC compares the loaded document with the strict reading of the bytes.",
    "note": "Trusted: TLC, the transcription of ISO 32000-1 7.2-7.5 in Syntax/FileStructure/Spellings/SyntaxProducer (both directions are "
            "checked against each other by TLC), the harness projection. Not yet produced: object streams, filtered xref streams "
            "(covered for multi-revision files by C07 when built). Files are sampled by TLC's simulator from VERIF_SEED.",
    "bins": ["c02"],
    "modules": ["MC_Syntax.tla", "Gen_File.tla", "Trace_Lifecycle.tla"],
    "design_ref": "DESIGN.md section 4 C02",
}

PRODUCER_ACTIONS = ["EmitTok", "XNull", "XBool", "XInt", "XReal", "XName", "XLit", "XHex", "XRef", "XArr", "XDict"]


def gen_files(w, tag, ndocs, nfiles, seed, max_objects=6, max_revs=1, cfg="Gen_File.cfg", deep=False):
    """seeded abstract documents (histories when max_revs > 1) -> TLC Producer in simulation mode -> files"""
    docs = os.path.join(w, "docs-%s.ndjson" % tag)
    run_bin("c02", ["docs", "--seed", seed, "--n", ndocs, "--max-objects", max_objects, "--max-revs", max_revs, "--deep", 1 if deep else 0, "--out", docs])
    r = tlc("Gen_File.tla", cfg, workers=1, simulate=nfiles, depth=8000, env=dict(DOCS=docs), timeout=3000,
            name="genfile-" + tag, xmx="3g", seed_override=seed & 0x7FFFFFFF)
    return r, r.tagged("REPLAY")


def run(tier):
    chk = Check("C02", META["level"], tier)
    chk.rule = ("files emitted by the TLA+ Producer in TLC simulation over seeded abstract documents; distinct by bytes; non-trivial when "
                "the file defines at least one object")
    chk.assumptions = [META["note"]]
    w = workdir("c02")
    # (M) the Producer and the StrictReader agree (the spec's own consistency proof)
    for cfg in (["MC_Syntax_atoms.cfg"] if tier == "quick" else ["MC_Syntax_atoms.cfg", "MC_Syntax_nested1.cfg"]):
        r = tlc("MC_Syntax.tla", cfg, workers=4 if tier == "quick" else 16, timeout=3000, xmx="8g")
        chk.add_tlc(r)
    # anti-vacuity: per-action coverage of the Producer (separate run without the invariants: -coverage makes
    # the byte-level fold of the reader orders of magnitude slower)
    r = tlc("MC_Syntax.tla", "MC_Syntax_atoms_cov.cfg", workers=4, coverage=True, timeout=600, name="mcsyntax-cov")
    vlib.require_coverage(r, ["A_EmitTok", "A_XNull", "A_XBool", "A_XInt", "A_XReal", "A_XName", "A_XLit", "A_XHex", "A_XRef"])
    # (G) whole files
    if tier == "quick":
        runs = [("q", 30, 200, vlib.seed())]
    else:
        runs = [("t%d" % i, 60, 500, vlib.seed() * 31 + i) for i in range(10)]
    with ThreadPoolExecutor(max_workers=10) as ex:
        res = list(ex.map(lambda a: gen_files(w, *a), runs))
    files = []
    for r, cases in res:
        chk.add_tlc(r)
        files += cases
    if not files:
        raise vlib.ToolError("Producer generated no files")
    kinds = collections.Counter(f["xref"] for f in files)
    for k in ("table1", "tableN", "stream1", "streamN"):
        if kinds[k] == 0:
            raise vlib.ToolError("vacuous: no generated file with cross-reference style %s" % k)
    chk.extra["xref_styles"] = dict(kinds)
    chk.extra["w_layouts"] = dict(collections.Counter(str(f["w"]) for f in files if f["xref"].startswith("stream")))
    chk.extra["files_with_object_streams"] = sum(1 for f in files if f["ncomp"] > 0)
    chk.extra["structural_stream_filters"] = dict(collections.Counter("%s/ft%s" % (f["sfilter"], f["pngft"]) for f in files if f["xref"].startswith("stream")))
    if not any(f["sfilter"] == "pred" and f["pngft"] >= 5 for f in files):
        raise vlib.ToolError("vacuous: no generated file with per-row PNG filter types on a structural stream")
    if chk.extra["files_with_object_streams"] == 0:
        raise vlib.ToolError("vacuous: no generated file uses object streams")
    fin, tr = os.path.join(w, "files.ndjson"), os.path.join(w, "trace.ndjson")
    write_ndjson(fin, files)
    run_bin("c02", ["load", "--in", fin, "--out", tr])
    recs = read_ndjson(tr)
    bounds = [i for i, r in enumerate(recs) if r["ev"] == "File"]
    verdicts, states, trans = vlib.validate_trace("Trace_Lifecycle.tla", "Trace_Lifecycle.cfg", recs, "c02",
                                                  boundaries=bounds, chunks=1 if tier == "quick" else 12)
    chk.states += states
    chk.transitions += trans
    if len(verdicts) != len(recs):
        raise vlib.ToolError("trace validator judged %d of %d events" % (len(verdicts), len(recs)))
    for v in verdicts:
        rec = recs[v["i"]]
        if rec["ev"] == "File":
            if not v["v"].startswith("ok"):
                # the Producer's own RoundTrip invariant should have caught this: machinery error, not lopdf's
                raise vlib.ToolError("StrictReader rejects a Producer file: %s" % v["d"])
            continue
        f = recs[v["i"] - 1]
        chk.case(json.dumps(f["bytes"]))
        if v["v"].startswith("ok"):
            chk.traces += 1
            continue
        d = v["d"]
        detail = {"verdict": d, "knobs": f["knobs"], "bytes": f["bytes"], "loaded": rec["doc"], "load_result": rec["res"]}
        for sig in signatures("C02", v):
            chk.violation(sig, detail)
    for f in files[:2]:
        chk.sample({"knobs": {k: f[k] for k in ("xref", "w", "order", "junk")}, "file_ascii": bytes(f["bytes"]).decode("latin-1")[:500]})
    # (B) negative control: a loaded document with one string byte changed must be rejected
    neg = None
    for i, r in enumerate(recs):
        if r["ev"] == "Load" and r["res"] == "ok" and verdicts[i]["v"] == "ok":
            j = json.dumps(r)
            if '"k": "str"' in j or '"k":"str"' in j:
                m = json.loads(j)
                if mutate_first_string(m["doc"]):
                    neg = [recs[i - 1], m]
                    break
    if neg is None:
        raise vlib.ToolError("no record suitable for the negative control")
    vs, _, _ = vlib.validate_trace("Trace_Lifecycle.tla", "Trace_Lifecycle.cfg", neg, "c02-neg")
    if vs[1]["v"].startswith("ok"):
        raise vlib.ToolError("negative control accepted: corrupted loaded string not detected")
    chk.extra["negative_controls_rejected"] = 1
    return chk.finish()


def signatures(pid, v):
    """narrow signatures of a failed Load verdict (classes computed by the spec: Lifecycle!WhyObjects)"""
    d = v["d"]
    if v["v"] == "load-object-differs":
        sigs = set()
        for w in d["why"]:
            if w["why"] == "lit-eol":
                sigs.add("C02:lit.rawCR")
            elif w["why"].startswith("stale."):
                sigs.add("C07:" + w["why"])
            else:
                sigs.add("%s:load-object-differs:%s" % (pid, "+".join(sorted(w["kinds"]))))
        return sorted(sigs)
    if v["v"] == "load-trailer-differs" and d.get("verbatim") is True:
        return ["C02:lit.rawCR"]
    if d.get("kinds"):
        return ["%s:%s:%s" % (pid, v["v"], "+".join(sorted(d["kinds"])))]
    return ["%s:%s" % (pid, v["v"])]


def mutate_first_string(doc):
    def walk(o):
        if isinstance(o, dict):
            if o.get("k") == "str":
                o["v"] = o["v"] + [88]
                return True
            if o.get("k") == "arr":
                return any(walk(x) for x in o["v"])
            if o.get("k") in ("dict", "stream"):
                return any(walk(p[1]) for p in o["v"])
        return False
    for ob in doc["objects"]:
        if walk(ob[2]):
            return True
    return False
