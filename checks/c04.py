"""C04 — parsing untrusted bytes never panics, aborts or hangs."""
import json, os, collections, hashlib, random, re, shutil, subprocess, sys, time
from concurrent.futures import ThreadPoolExecutor
import vlib
from vlib import Check, tlc, run_bin, workdir, write_ndjson, read_ndjson, log

META = {
    "property_id": "C04",
    "level": "exploration",
    "technique": "TLA+ Adversary (spec/Adversary.tla): named mutation actions (FlipByte, Truncate, SpliceToken, SetNumber at every numeric "
                 "site the Producer logs, SetHex, NestDeep, MakeCycle, DropKeyword, SwapEntry) composed with the TLA+ Producer and "
                 "instantiated for every byte-level entry point; TLC generates the adversarial inputs in simulation mode and evaluates "
                 "the StrictReader on each (totality); guard models (spec/MC_Guards.tla: Prev loop, indirect-Length recursion, MAX_BRACKET, "
                 "MAX_NESTING, search_substring) model-checked for a variant, termination and refinement, and re-checked with the guard removed; every "
                 "input runs in an isolated lopdf worker (panic, stack overflow, abort, hang, oversized allocation are data); TLC "
                 "(Trace_Adversary) judges each outcome against the resource bound and names violations",
    "text": "TLC lays out whole PDF files with the specification's Producer (all lexical freedoms, cross-reference tables and streams, "
            "object streams, Prev-chained updates) while a site log records where every number stands and what it is (Length, Size, "
            "W[i], Index, Prev, N, First, startxref, table offsets and generations, object numbers). The Adversary then takes up to MaxMut "
            "steps: flip a byte, truncate, splice a grammar token, set a number to -1/0/1/2^31-1/2^32/2^63-1/10^18/2^64-1, replace a hex "
            "string, nest strings/arrays/dictionaries 3-150 deep (amplified x30/x300 by the harness), make Prev or indirect-Length cycles, "
            "drop a keyword, swap two entries, repeat a marker line up to 3x10^5 times, pad the tail, insert a key the library looks up (vocabulary harvested from its sources) with an adversarial value. After the parse comes the use: the loaded document / parsed CMap / decoded content is driven through the public calls (stream decompression, page content decoding, font encodings, text extraction; CMap lookups at the boundary codes of the mutated program's own ranges) under the same guard. The same actions run on legal inputs of the other entry points (content streams, ToUnicode "
            "CMap programs, ASCII85/LZW/Flate payloads with predictor parameters, object streams, cross-reference streams, text strings, "
            "PNG rows, one-byte encodings) and on real files (repository assets, files saved by lopdf). TLC evaluates its StrictReader on "
            "every emitted input (a TLC evaluation error = the specification is not total). Each input is given to lopdf in a child "
            "process with an accounting allocator (largest request, refusal above 64 MiB + 4096 x input length), a fixed 8 MiB stack and "
            "a time limit scaled to the input; the outcome must be a value or an error.",
    "note": "Oracle: absence of panic / stack overflow / abort / time-out / out-of-proportion allocation request, observed from outside "
            "the worker process and judged by TLC against Bound(len) = 64 MiB + 4096 x len (requests above 2^46 bytes that are refused and "
            "handled count as handled). Inputs are sampled by TLC's simulator (seeded), not enumerated; nesting is generated 3-150 deep by "
            "TLC and multiplied by the harness (the multiplied inputs are not re-read by the StrictReader). Integer-overflow checks are on "
            "in the harness build (as the property demands). Memory safety itself is not examined (lopdf forbids unsafe code). Time limits "
            "make 'hang' a bounded observation: no answer within 3 s + 20 us/byte, confirmed alone with three times the limit.",
    "bins": ["c04", "c02"],
    "modules": ["Adversary.tla", "MC_Guards.tla", "Trace_Adversary.tla"],
    "design_ref": "DESIGN.md section 4 C04",
}

ACTIONS = ["FlipByte", "Truncate", "SpliceToken", "SetNumber", "SetHex", "NestDeep", "MakeCycle", "DropKeyword", "SwapEntry",
           "RepeatToken", "PadTail", "InsertKey", "MakeChain", "DecoyKeyword"]
GUARDS = ["prev", "len", "lendepth", "bracket", "nest", "search", "window"]
GUARD_ACTIONS = {"prev": ["StepPrevFirst", "StepPrevIter"], "len": ["StepLen"], "lendepth": ["StepLen"], "bracket": ["StepBracket"], "nest": ["StepNest"],
                 "search": ["StepSearch"], "window": ["StepSearch"]}
GROUP = {"load": "file", "incload": "file"}
MIB = 1 << 20


def limits(n):
    """time / allocation limits of one case as a function of the input length (mirrored in harness c04.rs `bulk`)"""
    tmo = 3000 + n // 50
    tmo = ((tmo + 999) // 1000) * 1000
    return {"tmo_ms": tmo, "req_limit": mem_budget(n), "live_limit": mem_budget(n)}


def mem_budget(n):
    """M(n) of spec/Trace_Adversary.tla"""
    return 64 * MIB + min(4096 * min(n, 300000), 1 << 30) + 32 * min(n, 20000000)


def time_budget_us(n):
    """T(n) of spec/Trace_Adversary.tla"""
    return 1500000 + n // 4


def amplify(b, nests, amp):
    """multiply the depth of the nesting blocks TLC inserted: [s, e, open-run length, close-run length, unit lengths]"""
    b = list(b)
    for n in sorted(nests, key=lambda x: -x[0]):
        s, e, olen, clen = n[0], n[1], n[2], n[3]
        openrun = b[s - 1:s - 1 + olen]
        closerun = b[e - clen:e] if clen else []
        mid = b[s - 1 + olen:e - clen]
        b = b[:s - 1] + openrun * amp + mid + closerun * amp + b[e:]
    return b


def is_int(v):
    return isinstance(v, dict) and v.get("k") == "int"


def w_zero(d):
    for k, v in d or []:
        if bytes(k) == b"W" and v.get("k") == "arr" and len(v["v"]) >= 3:
            return all(is_int(x) and not x.get("neg") and x["v"] == [0] for x in v["v"][:3])
    return False


W000 = re.compile(rb"/W\s*\[\s*0+\s+0+\s+0+\s*\]")
BIGNUM = re.compile(rb"(?<![0-9])[0-9]{10,19}(?![0-9])")


def big_number_windows(b):
    """what the classifier needs of a whole file: every huge number with the 80 bytes before it (the name it stands under)"""
    out = []
    for m in BIGNUM.finditer(b):
        out.append(b[max(0, m.start() - 80):m.end()])
        if len(out) >= 40:
            break
    return b"\n".join(out) + b"\n" if out else b""


def count_huge(d):
    """Index count or Size with at least 7 digits"""
    for k, v in d or []:
        if bytes(k) == b"Size" and is_int(v) and not v.get("neg") and len(v["v"]) >= 7:
            return True
        if bytes(k) == b"Index" and v.get("k") == "arr":
            if any(is_int(x) and not x.get("neg") and len(x["v"]) >= 7 for x in v["v"][1::2]):
                return True
    return False


LOOKUP = re.compile(r'\b(?:get|get_mut|get_deref|has|remove|get_dict_in_dict|get_abbr|get_object_in_dict)\s*\(\s*(?:[A-Za-z_&.]+\s*,\s*)?b"([A-Za-z][A-Za-z0-9]{0,30})"')
NAMELIT = re.compile(r'b"([A-Z][A-Za-z0-9]{0,30})"')
ABBR = re.compile(r'get_abbr\s*\(\s*b"([A-Za-z0-9]+)"\s*,\s*b"([A-Za-z0-9]+)"')


def harvest_vocabulary():
    """the names lopdf itself looks up in dictionaries: every b"Name" literal handed to get / has / get_deref / remove / ...
    in the sources of the tree under test (VERIF_REPO or /repo), read when the check runs"""
    names = set()
    root = os.path.join(vlib.REPO, "src")
    for dp, _, fs in os.walk(root):
        for f in fs:
            if f.endswith(".rs"):
                text = open(os.path.join(dp, f), encoding="utf-8", errors="replace").read()
                cut = text.find("#[cfg(test)]\nmod test")
                if cut > 0:
                    text = text[:cut]
                names.update(LOOKUP.findall(text))
                names.update(NAMELIT.findall(text))          # names handed over through a variable or a table
                for a, b in ABBR.findall(text):
                    names.update((a, b))
    return sorted(names)


def value_class(m):
    return m["a"].split(".", 1)[1] + ":" + bytes(m["v"]).decode("latin-1")[:24]


def private_bin(w):
    """The harness binary copied into this run's work directory.  With VERIF_REPO the build lives in a shadow crate under
    .work/ that other runs (mutant evaluation) clean away; the generation phase takes minutes, so the later steps must not
    depend on it."""
    dst = os.path.join(w, "c04-bin")
    shutil.copy2(os.path.join(vlib.build_harness("c04"), "c04"), dst)

    def call(args, timeout=3000):
        t0 = time.time()
        try:
            p = subprocess.run([dst] + [str(a) for a in args], stdout=subprocess.PIPE, stderr=subprocess.PIPE, text=True, timeout=timeout)
        except subprocess.TimeoutExpired:
            raise vlib.ToolError("harness c04 %s timed out after %ss" % (args, timeout))
        if p.returncode != 0:
            sys.stdout.write(p.stdout[-3000:])
            sys.stdout.write(p.stderr[-3000:])
            raise vlib.ToolError("harness c04 %s exited %d" % (args, p.returncode))
        log("[harness] c04 %s %.1fs" % (" ".join(str(a) for a in args)[:200], time.time() - t0))
        return p
    return call


def run(tier):
    chk = Check("C04", META["level"], tier)
    quick = tier == "quick"
    chk.rule = ("inputs emitted by TLC's simulation of spec/Adversary.tla (Producer files and seeded legal inputs of every byte-level entry "
                "point, each with 1-3 named mutations; nesting multiplied x30/x300 by the harness) plus seeded byte-level mutants of real "
                "files; one evaluation = one input given to one entry point in an isolated worker; non-trivial = the input differs from "
                "the legal input it was derived from; distinct by entry point + bytes + stream dictionary")
    chk.assumptions = [
        "TLC; the transcription of reader.rs / parser/mod.rs guards in spec/MC_Guards.tla",
        "the worker's accounting allocator and the supervisor's time limit (3 s + 20 us/byte; a lost case is re-run alone with 3x the limit, "
        "stderr captured, before it counts)",
        "Bound(len) = 64 MiB + 4096 x len as the 'modest function of the input size' for a single allocation request",
    ]
    w = workdir("c04")
    for f in os.listdir(vlib.REPLAYS) if os.path.isdir(vlib.REPLAYS) else []:
        if f.startswith("C04-"):
            os.remove(os.path.join(vlib.REPLAYS, f))
    seed = vlib.seed()
    rng = random.Random(seed)

    # ---------------------------------------------------------------- seeds for the generator
    seeds, docs = os.path.join(w, "seeds.ndjson"), os.path.join(w, "docs.ndjson")
    c04 = private_bin(w)
    c04(["seeds", "--seed", seed, "--n", 4 if quick else 10, "--out", seeds])
    run_bin("c02", ["docs", "--seed", seed, "--n", 16 if quick else 48, "--max-objects", 5, "--max-revs", 2, "--out", docs])
    vocab = harvest_vocabulary()
    if len(vocab) < 40 or "Length" not in vocab or "DecodeParms" not in vocab:
        raise vlib.ToolError("vocabulary harvest from %s/src looks broken: %d names" % (vlib.REPO, len(vocab)))
    vpath = os.path.join(w, "vocab.ndjson")
    write_ndjson(vpath, [{"name": list(v.encode())} for v in vocab])
    chk.extra["vocabulary_names"] = len(vocab)
    env = {"SEEDS": seeds, "DOCS": docs, "VOCAB": vpath}
    cseeds = os.path.join(w, "seeds-cmap.ndjson")
    write_ndjson(cseeds, [x for x in read_ndjson(seeds) if x["ep"] == "cmap" and x["txt"]])

    # ---------------------------------------------------------------- (M) guard models + (G) generation, all in parallel
    jobs = []
    for g in GUARDS:
        jobs.append(("guard-on", g))
        jobs.append(("guard-off", g))
    if quick:
        jobs += [("producer", i, 30) for i in range(3)] + [("seeds", i, 150) for i in range(2)] + [("cmap", 0, 260)]
    else:
        jobs += [("producer", i, 340) for i in range(11)] + [("seeds", i, 1900) for i in range(3)] + [("cmap", i, 2500) for i in range(2)]

    def one(job):
        if job[0] == "guard-on":
            return tlc("MC_Guards.tla", "MC_Guards_%s_on.cfg" % job[1], workers=2, coverage=True, timeout=900, name="guards-%s-on" % job[1])
        if job[0] == "guard-off":
            return tlc("MC_Guards.tla", "MC_Guards_%s_off.cfg" % job[1], workers=2, allow_violation=True, timeout=900,
                       name="guards-%s-off" % job[1])
        mode, i, n = job
        if mode == "cmap":      # the CMap programs once more on their own: range bounds moved by one are rare events
            return tlc("Adversary.tla", "Adversary_seeds.cfg", workers=1, simulate=n, depth=9000, env=dict(env, SEEDS=cseeds), timeout=3000,
                       name="adv-cmap-%d" % i, xmx="3g", seed_override=(seed * 131 + 17 * i + 11) & 0x7FFFFFFF)
        return tlc("Adversary.tla", "Adversary_%s.cfg" % mode, workers=1, simulate=n, depth=9000, env=env, timeout=3000,
                   name="adv-%s-%d" % (mode, i), xmx="3g", seed_override=(seed * 131 + 17 * i + (0 if mode == "producer" else 7)) & 0x7FFFFFFF)

    with ThreadPoolExecutor(max_workers=16) as ex:
        results = list(ex.map(one, jobs))
    guard_states = {}
    records = []
    for job, r in zip(jobs, results):
        if job[0] == "guard-on":
            vlib.require_coverage(r, GUARD_ACTIONS[job[1]])
            guard_states[job[1]] = r.distinct
            chk.add_tlc(r)
        elif job[0] == "guard-off":
            if r.violation != "Variant":
                raise vlib.ToolError("guard model '%s' with the guard removed no longer violates its variant (got %s): the model is vacuous"
                                     % (job[1], r.violation))
        else:
            recs = r.tagged("REPLAY")
            if not recs:
                raise vlib.ToolError("Adversary simulation %s emitted no inputs" % (job,))
            for x in recs:
                x["_mode"] = job[0]
            records += recs
            chk.add_tlc(r)
    chk.extra["guard_models"] = {g: {"states": guard_states[g], "variant+refinement+termination": "hold",
                                     "guard_removed": "variant violated (counter-example)"} for g in GUARDS}

    # anti-vacuity: every named adversary action was applied (effectively, not as a no-op) and every entry point was fed
    applied = collections.Counter()
    noops = collections.Counter()
    for r in records:
        for m in r["muts"]:
            (noops if m["a"] == "noop" else applied)[m["k"]] += 1
    missing = [a for a in ACTIONS if applied[a] == 0]
    if missing:
        raise vlib.ToolError("vacuous generation: adversary actions never applied: %s" % missing)
    eps_seen = collections.Counter(r["ep"] for r in records)
    for e in ("file", "content", "cmap", "onebyte", "filter", "objstm", "xrefstm", "textstr", "png"):
        if eps_seen[e] == 0:
            raise vlib.ToolError("vacuous generation: no input for entry point %s" % e)
    strict_ok = sum(1 for r in records if r["ep"] == "file" and r["round"] > 0 and r["rdok"])
    chk.extra.update({"tlc_inputs": len(records), "actions_applied": dict(applied), "actions_noop": dict(noops),
                      "entry_point_inputs": dict(eps_seen),
                      "strict_reader_total_on": len(records),
                      "mutated_files_still_strictly_valid": strict_ok,
                      "mutated_files_semantically_neutral": sum(1 for r in records if r["neutral"])})

    # ---------------------------------------------------------------- cases
    cases, meta, seen = [], [], set()

    def add(ep, data, d, m, reps=None, chain=None):
        key = hashlib.sha1(("%s|%s|%s|%s|%s" % (ep, bytes(data).hex(), json.dumps(d, sort_keys=True), reps, chain)).encode()).hexdigest()
        if key in seen:
            return
        seen.add(key)
        c = {"id": len(cases), "ep": ep, "hex": bytes(data).hex(), "dict": d}
        n = len(data)
        if reps:
            # the worker writes n copies where TLC wrote a few; limits follow the real length; the stack is that of an
            # ordinary spawned thread (2 MiB), which is where an application's parser runs
            c["reps"] = reps
            c["stack_kb"] = 2048
            n += sum((r[3] - (r[1] - r[0] + 1) // max(r[2], 1)) * r[2] for r in reps)
        if chain:
            # the worker writes the chain with n objects where TLC wrote three (about 90 bytes each)
            c["chain"] = chain
            c["chain_check"] = bool(m.get("chain_last"))
            c["stack_kb"] = 2048
            n += chain[2] * (160 if chain[5] == "bigfirst" else 90)
        c.update(limits(n))
        if m.get("use"):
            c["use"] = m["use"]
        if m.get("probes"):
            c["probes"] = m["probes"]
        if ep == "load" and m.get("dig"):
            c["want_dig"] = True
        cases.append(c)
        m = dict(m, key=key, group=GROUP.get(ep, ep), n=n)
        # an input derived from an amplification seed keeps that shape's name, whatever else was done to it - except when
        # it was then written out as a chain of >= 100 objects: what such a file costs is the chain's doing (seed 3 drew
        # MakeChain(nested, 15058) on the seed file-xref-shared-offset and reported the open finding chain.nested under
        # the name of a repaired shape)
        # (only the NESTED chain, whose cost is its own - chain.nested is listed by that trigger; any other chain kind
        # on an amplification seed stays with the seed: `MakeChain(prev, 575)` on file-objstm-flate2 still dies of the two
        # FlateDecode stages of its object stream)
        if ":amp:" in m["src"] and str(m.get("rep") or "") != "chain.nested":
            m["rep"] = "shape." + m["src"].split(":amp:", 1)[1].split("+")[0]
        meta.append(m)

    big_chains = collections.Counter()
    for ri, r in enumerate(records):
        src = "tlc:producer" if r["_mode"] == "producer" else "tlc:seed:" + r["tag"]
        base = {"src": src, "muts": r["muts"], "trivial": r["round"] == 0, "rdok": r["rdok"], "neutral": r["neutral"], "rec": ri, "rep": "",
                "use": r.get("use") or [], "probes": r.get("probes") or [],
                "wzero": (w_zero(r["dict"]) and count_huge(r["dict"])) or (r["ep"] == "file" and bool(W000.search(bytes(r["bytes"])))),
                "nest": []}
        eps = ["load", "incload"] if r["ep"] == "file" else [r["ep"]]
        decoys = [bytes(m["v"]).decode("latin-1") for m in r["muts"] if m["k"] == "DecoyKeyword" and m["a"] != "noop" and m["idx"] >= 2]
        if decoys:
            base["rep"] = "decoy." + re.sub(r"[^A-Za-z%]", "", decoys[0][:-1])
        if r["tag"].startswith("amp:"):
            base["rep"] = "shape." + r["tag"][4:]
        for ep in eps:
            add(ep, r["bytes"], r["dict"], dict(base, dig=(r["ep"] == "file")))
            if r.get("chains") and len(r["chains"]) == 1:
                cm = [m for m in r["muts"] if m["k"] == "MakeChain" and m["a"] != "noop"]
                ch = r["chains"][0]
                if len(cm) == 1 and ch[1] == len(r["bytes"]):
                    kind, n = cm[0]["a"], ch[2]
                    # a chain of 10^5 objects is a 9 MB file that takes lopdf ~15 s when nothing goes wrong: a few per
                    # kind are written out in full (load only), the others with 10^4 objects
                    if n > 10000:
                        big_chains[kind] += 1
                        if ep != "load" or big_chains[kind] > (1 if quick else 5):
                            n = 10000
                    add(ep, r["bytes"], r["dict"],
                        dict(base, rep=("chain." + kind) if n >= 100 else "", neutral=False, chain_last=r["muts"][-1] is cm[0]),
                        reps=r.get("reps") or None, chain=[ch[0], ch[1], n, ch[3], bytes(cm[0]["v"]).decode("latin-1"), kind])
            elif r.get("reps"):
                # the repetition written out in full; named after the unit repeated most often (>= 10^4 times)
                big = [(m["idx"], bytes(m["v"])) for m in r["muts"] if m["k"] in ("RepeatToken", "PadTail") and m["a"] != "noop" and m["idx"] >= 10000]
                rep = ""
                if big:
                    unit = max(big)[1]
                    rep = "repeat." + (re.sub(r"[^A-Za-z0-9%()<>\[\]]", "", unit.decode("latin-1")) or "x%02X" % unit[0])
                add(ep, r["bytes"], r["dict"], dict(base, rep=rep, neutral=False), reps=r["reps"])
            elif r["nests"]:
                # the array / dictionary nesting with the greatest depth is what the classifier will name
                deep = [(m["idx"], m["a"].split(".")[0]) for m in r["muts"] if m["k"] == "NestDeep" and m["a"] != "noop" and not m["a"].startswith("str")]
                for amp in (30, 300):
                    nest = []
                    if deep:
                        d, kind = max(deep, key=lambda x: (x[0], x[1] == "arr"))
                        if d * amp >= 500:
                            nest = [kind]
                    add(ep, amplify(r["bytes"], r["nests"], amp), r["dict"], dict(base, amp=amp, nest=nest, neutral=False))
    # key insertion, written out: where TLC inserted one key of the vocabulary, every other key is tried in its place
    # (one record per entry-point tag and value, so that every key meets every kind of dictionary and value)
    strata = {}
    order_r = list(range(len(records)))
    rng.shuffle(order_r)
    for ri in order_r:
        r = records[ri]
        im = [m for m in r["muts"] if m["k"] == "InsertKey" and m["a"] != "noop"]
        if len(im) != 1 or r.get("reps") or r.get("nests") or r.get("chains") or (im[0]["a"].startswith("bytes") and len(r.get("ins") or []) != 1):
            continue
        k = (r["ep"], r["tag"], value_class(im[0]))
        if k not in strata:
            strata[k] = ri
    nexp = 0
    exp_budget = 12000 if quick else 250000
    for k in sorted(strata, key=lambda k: hashlib.sha1(repr((seed, k)).encode()).hexdigest()):
        if nexp >= exp_budget:
            break
        ri = strata[k]
        r = records[ri]
        im = [m for m in r["muts"] if m["k"] == "InsertKey" and m["a"] != "noop"][0]
        src = ("tlc:producer" if r["_mode"] == "producer" else "tlc:seed:" + r["tag"]) + "+keys"
        for name in vocab:
            key = name.encode()
            if list(key) == im["nm"]:
                continue
            muts = [dict(m, nm=list(key)) if m is im else m for m in r["muts"]]
            if im["a"].startswith("bytes"):
                s0, e0 = r["ins"][0]
                data = r["bytes"][:s0 - 1] + list(key) + r["bytes"][e0:]
                d = r["dict"]
            else:
                data = r["bytes"]
                d = json.loads(json.dumps(r["dict"]))
                i, j = (im["idx"], 0) if im["idx"] < 1000 else divmod(im["idx"], 1000)
                if j == 0:
                    d[i - 1][0] = list(key)
                else:
                    d[i - 1][1]["v"][j - 1][0] = list(key)
            m = {"src": src, "muts": muts, "trivial": False, "rdok": False, "neutral": False, "rec": ri,
                 "rep": ("shape." + r["tag"][4:]) if r["tag"].startswith("amp:") else "",
                 "use": r.get("use") or [], "probes": [], "wzero": False, "nest": []}
            for ep in (["load"] if r["ep"] == "file" else [r["ep"]]):
                add(ep, data, d, m)
                nexp += 1
    chk.extra["key_insertions_written_out"] = nexp

    # decode parameters written out: SetNumber on one (or two) of Columns / Colors / BitsPerComponent is a single draw of the
    # simulation, and which branch of the decoder the number reaches depends on a SECOND entry, the /Predictor selector (the
    # TIFF branch and the PNG branch clamp and check their parameters separately).  The product  selector x parameter x
    # Adversary!Numbers  is small, so it is enumerated for one Flate and one LZW seed instead of being left to two lucky draws
    # (seeded change C04-a7: /Predictor 2 with /Columns 0 reached chunks_mut(0)).
    NUMBERS = [-1, 0, 1, 2 ** 31, 2 ** 32, 2 ** 63, 10 ** 18, 2 ** 64]      # Adversary!Numbers
    SELECTORS = [0, 1, 2, 3, 9, 10, 11, 12, 13, 14, 15, 16]
    PARMS = ["Columns", "Colors", "BitsPerComponent"]

    def tint_(v):
        return {"k": "int", "neg": v < 0, "v": [int(ch) for ch in str(abs(v))]}

    ngrid = 0
    done_tags = set()
    for r in read_ndjson(seeds):
        if r.get("tag") not in ("flate+png", "lzw+png") or r["tag"] in done_tags:
            continue
        done_tags.add(r["tag"])
        di = [i for i, kv in enumerate(r["dict"]) if bytes(kv[0]) == b"DecodeParms"][0]
        for sel in SELECTORS:
            settings = [((pn, v),) for pn in PARMS for v in NUMBERS] + [((a, 0), (b, 0)) for a in PARMS for b in PARMS if a < b]
            for setting in settings:
                d = json.loads(json.dumps(r["dict"]))
                ent = d[di][1]["v"]
                muts = []
                for name, v in (("Predictor", sel),) + setting:
                    j = [j for j, kv in enumerate(ent) if bytes(kv[0]) == name.encode()][0]
                    ent[j][1] = tint_(v)
                    muts.append({"k": "SetNumber", "nm": list(name.encode()), "idx": (di + 1) * 1000 + j + 1, "v": list(str(v).encode()), "a": "dict"})
                m = {"src": "tlc:seed:%s+parms" % r["tag"], "muts": muts, "trivial": False, "rdok": False, "neutral": False, "rec": -1,
                     "rep": "", "use": [], "probes": [], "wzero": False, "nest": []}
                add("filter", r["bytes"], d, m)
                ngrid += 1
    chk.extra["decode_parameters_written_out"] = ngrid
    ntlc = len(cases)

    # budget: of the inputs the classifier predicts to end in an already listed signature that costs wall-clock time (a hang
    # costs its time limit four times over, memory exhaustion seconds), execute a few per signature; a stack overflow or a
    # failed allocation only costs a worker restart, those inputs are all executed
    cap = {"stackoverflow": 10 ** 9, "allocabort": 4 if quick else 30, "hang": 1 if quick else 3}
    used = collections.Counter()
    order = list(range(ntlc))
    rng.shuffle(order)
    nskip = 0
    for i in order:
        m = meta[i]
        pred = []
        if m["nest"]:
            pred.append(("stackoverflow", "C04:%s:stackoverflow:nest.%s" % (m["group"], "+".join(m["nest"]))))
        if m["wzero"]:
            pred.append(("allocabort", "C04:%s:allocabort:exhausted.W000" % m["group"]))
            pred.append(("hang", "C04:%s:hang:W000" % m["group"]))
        listed = [(k, s) for k, s in pred if s in chk.known]
        if listed and len(listed) == len(pred):
            if all(used[s] >= cap[k] for k, s in listed):
                cases[i]["skip"] = True
                nskip += 1
                continue
            for k, s in listed:
                used[s] += 1

    # the observation machinery itself (B): a worker that panics, overflows its stack, asks for 8 GiB, never returns
    selftests = []
    for mode in ("panic", "overflow", "alloc", "hang", "ok"):
        c = {"id": len(cases) + len(selftests), "ep": "selftest", "hex": mode.encode().hex(), "dict": []}
        c.update(limits(8))
        if mode == "hang":
            c["tmo_ms"] = 400
        selftests.append(c)
    cin = os.path.join(w, "cases.ndjson")
    write_ndjson(cin, cases + selftests)
    # seeded byte-level mutants of real files (assets, files saved by lopdf): appended as they are
    nbulk = 700 if quick else 60000
    bpath = os.path.join(w, "bulk.ndjson")
    first_bulk = len(cases) + len(selftests)
    c04(["bulk", "--seed", seed, "--n", nbulk, "--first-id", first_bulk, "--out", bpath])
    with open(cin, "a") as f, open(bpath) as g:
        for line in g:
            f.write(line)
    cout = os.path.join(w, "results.ndjson")
    c04(["run", "--in", cin, "--out", cout, "--jobs", 12 if quick else 16, "--max-hangs", 12 if quick else 60])
    outs = read_ndjson(cout)
    if len(outs) != first_bulk + nbulk:
        raise vlib.ToolError("harness lost cases: %d of %d" % (len(outs), first_bulk + nbulk))

    # time budget T(n): a case over it is measured again, alone; over it twice it is "slow"
    case_len = {}
    for i, c in enumerate(cases):
        case_len[i] = meta[i]["n"]
    over = [i for i, o in enumerate(outs) if i < len(cases) and o.get("ran") and o.get("kind") in ("ok", "err")
            and int(o.get("us") or 0) > time_budget_us(case_len[i])]
    if over:
        rin, rout = os.path.join(w, "slow.ndjson"), os.path.join(w, "slow.out.ndjson")
        write_ndjson(rin, [cases[i] for i in over[:40]])
        c04(["run", "--in", rin, "--out", rout, "--jobs", 3, "--max-hangs", 40])
        for i, o2 in zip(over[:40], read_ndjson(rout)):
            if o2.get("kind") in ("ok", "err") and int(o2.get("us") or 0) > time_budget_us(case_len[i]):
                outs[i] = dict(outs[i], kind="slow", msg="%.1f s and %.1f s (alone) for %d bytes; budget %.1f s" % (
                    int(outs[i]["us"]) / 1e6, int(o2["us"]) / 1e6, case_len[i], time_budget_us(case_len[i]) / 1e6))
            elif o2.get("kind") not in ("ok", "err"):
                outs[i] = dict(o2, h=outs[i].get("h"))
    chk.extra["over_time_budget_first_run"] = len(over)

    # (B) the supervisor must have seen each injected failure for what it is
    want = {"panic": "panic", "overflow": "stackoverflow", "alloc": "allocabort", "hang": "hang", "ok": "ok"}
    for c, o in zip(selftests, outs[len(cases):first_bulk]):
        mode = bytes.fromhex(c["hex"]).decode()
        if o.get("kind") != want[mode]:
            raise vlib.ToolError("observation self-test '%s' was reported as %s (%s)" % (mode, o.get("kind"), o.get("msg")))
    chk.extra["negative_controls_rejected"] = 4

    # ---------------------------------------------------------------- (V) TLC judges the outcomes
    def digits(x):
        x = int(x or 0)
        return [int(ch) for ch in str(x)] if x > 0 else []

    bulk_meta = {}

    def meta_of(i):
        if i < len(cases):
            return meta[i], cases[i]
        if not bulk_meta:
            for bc in read_ndjson(bpath):
                bulk_meta[bc["id"]] = bc
        bc = bulk_meta[i]
        return {"src": bc["src"], "muts": bc["muts"], "group": "file", "n": bc["len"], "nest": [], "rep": "",
                "wzero": bool(W000.search(bytes.fromhex(bc["hex"]))), "trivial": False}, bc

    executed = 0
    kinds = collections.Counter()
    judged, jidx = [], []
    okpool = []
    slowest = (0, None)
    for i, o in enumerate(outs):
        if len(cases) <= i < first_bulk or not o.get("ran"):
            continue
        executed += 1
        kinds[o["kind"]] += 1
        if o["kind"] in ("ok", "err") and not int(o.get("refused") or 0) and int(o.get("peak") or 0) < 32 * MIB and not o.get("capped"):
            okpool.append(i)
            us = int(o.get("us") or 0)
            if us > slowest[0]:
                slowest = (us, i)
        else:
            jidx.append(i)
    rng.shuffle(okpool)
    jidx += okpool[: (300 if quick else 3000)]
    for i in jidx:
        m, c = meta_of(i)
        o = outs[i]
        need_bytes = m["group"] == "file" and (int(o.get("refused") or 0) > 0 or int(o.get("peak") or 0) >= 32 * MIB) and c.get("dict") in ([], None)
        judged.append({"id": i, "group": m["group"], "ep": c["ep"], "kind": o["kind"],
                       "loc": (o.get("loc") or "").rsplit(":", 1)[0], "mcl": o.get("mcl") or "",
                       "refused": digits(o.get("refused")), "peak": digits(o.get("peak")), "len": m["n"], "dict": c.get("dict") or [],
                       "bytes": list(big_number_windows(bytes.fromhex(c["hex"]))) if need_bytes else [],
                       "nest": m["nest"], "rep": m.get("rep", ""), "wzero": bool(m["wzero"]), "capped": bool(o.get("capped")),
                       "insx": ins_keys(m["muts"], o.get("refused"), c.get("dict"))[0],
                       "insb": ins_keys(m["muts"], o.get("refused"), c.get("dict"))[1]})
    ctl = [
        {"id": -1, "group": "file", "ep": "load", "kind": "panic", "loc": "lopdf:injected.rs", "mcl": "add-overflow", "refused": [], "peak": [], "len": 100,
         "dict": [], "bytes": [], "nest": [], "rep": "", "wzero": False, "capped": False, "insx": "", "insb": ""},
        {"id": -2, "group": "filter", "ep": "filter", "kind": "err", "loc": "", "mcl": "", "refused": digits(1 << 32), "peak": [], "len": 100,
         "dict": [], "bytes": [], "nest": [], "rep": "", "wzero": False, "capped": False, "insx": "", "insb": ""},
        {"id": -3, "group": "filter", "ep": "filter", "kind": "err", "loc": "", "mcl": "", "refused": digits((1 << 63) - 1), "peak": digits(5000), "len": 100,
         "dict": [], "bytes": [], "nest": [], "rep": "", "wzero": False, "capped": False, "insx": "", "insb": ""},
        {"id": -4, "group": "file", "ep": "load", "kind": "hang", "loc": "", "mcl": "", "refused": [], "peak": [], "len": 100,
         "dict": [], "bytes": [], "nest": [], "rep": "", "wzero": False, "capped": False, "insx": "", "insb": ""},
    ]
    verdicts, s2, t2 = vlib.validate_trace("Trace_Adversary.tla", "Trace_Adversary.cfg", judged + ctl, "c04judge",
                                           boundaries=list(range(len(judged) + len(ctl))), chunks=1 if quick else 8)
    if len(verdicts) != len(judged) + len(ctl):
        raise vlib.ToolError("the judge answered %d of %d records" % (len(verdicts), len(judged) + len(ctl)))
    cv = verdicts[len(judged):]
    ok_ctl = (cv[0]["v"] == "bad" and cv[0]["sig"] == "C04:file:panic:lopdf:injected.rs:add-overflow"
              and cv[1]["v"] == "bad" and cv[1]["sig"] == "C04:filter:bigalloc:derived"
              and cv[2]["v"] == "ok" and cv[3]["v"] == "bad" and cv[3]["sig"] == "C04:file:hang:unclassified")
    if not ok_ctl:
        raise vlib.ToolError("judge controls not answered as expected: %s" % cv)
    chk.extra["negative_controls_rejected"] += 3

    by_sig = collections.Counter()
    for v, i in zip(verdicts[: len(judged)], jidx):
        if v["v"] == "ok":
            continue
        m, c = meta_of(i)
        o = outs[i]
        by_sig[v["sig"]] += 1
        chk.violation(v["sig"], {"entry_point": c["ep"], "outcome": o["kind"], "msg": o.get("msg", ""), "loc": o.get("loc", ""),
                                 "refused_allocation": o.get("refused", 0), "peak_live_bytes": o.get("peak", 0), "source": m["src"], "mutations": fmt_muts(m["muts"]),
                                 "amplified_x": m.get("amp", 1), "input_len": m["n"], "hex": c["hex"] if len(c["hex"]) <= 8192 else c["hex"][:8192] + "...",
                                 "dict": c.get("dict") or [], "reps": c.get("reps") or [], "chain": c.get("chain") or [],
                                 "stack_kb": c.get("stack_kb", 8192),
                                 "note": o.get("note", "")})

    # drift note (C02's subject): a mutation the StrictReader calls neutral should not change what lopdf loads
    base_dig = {}
    for i in range(ntlc):
        m = meta[i]
        if cases[i]["ep"] == "load" and m["trivial"] and outs[i].get("dig"):
            r = records[m["rec"]]
            base_dig[(r["tag"], r["src"], tuple(r["bck"]))] = outs[i]["dig"]
    drift = neutral_seen = 0
    drift_sample = None
    for i in range(ntlc):
        m = meta[i]
        if cases[i]["ep"] == "load" and m["neutral"] and "amp" not in m:
            r = records[m["rec"]]
            b = base_dig.get((r["tag"], r["src"], tuple(r["bck"])))
            if b is not None and outs[i].get("ran"):
                neutral_seen += 1
                if outs[i].get("dig") != b:
                    drift += 1
                    if drift_sample is None:
                        drift_sample = {"mutations": fmt_muts(m["muts"]), "lopdf_on_mutant": outs[i]["kind"], "hex": cases[i]["hex"][:6000]}
    # counts
    for i, o in enumerate(outs):
        if len(cases) <= i < first_bulk or not o.get("ran"):
            continue
        triv = i < ntlc and meta[i]["trivial"]
        chk.case(None if triv else o.get("h", str(i)))
    chk.evaluations = executed
    chk.exhaustive = False
    chk.extra.update({
        "executed": executed, "from_tlc": ntlc - nskip, "bulk_byte_level_mutants": nbulk, "skipped_predicted_listed": nskip,
        "outcomes": dict(kinds), "failing_by_signature": dict(sorted(by_sig.items())), "records_judged_by_tlc": len(judged),
        "judge_states": s2, "neutral_mutations_compared": neutral_seen, "model_drift": drift,
        "slowest_returning_case_us": slowest[0], "model_drift_sample": drift_sample or "none",
        "worker_limits": "time 3 s + 20 us/byte; single allocation 64 MiB + 4096 B/byte; live 512 MiB + 4096 B/byte; stack 8 MiB (rayon threads 2 MiB)",
    })
    # samples
    for sig in sorted(by_sig)[:3]:
        for s, d in list(chk.known_seen.items()) + [(x[0], [x[1]]) for x in chk.violations]:
            if s == sig:
                dd = d[0]
                chk.sample({"signature": sig, "entry_point": dd["entry_point"], "mutations": dd["mutations"], "outcome": dd["outcome"],
                            "msg": dd["msg"], "input_ascii": bytes.fromhex(dd["hex"].rstrip(".")[:600]).decode("latin-1")})
                break
    for i in okpool[:2]:
        m, c = meta_of(i)
        chk.sample({"entry_point": c["ep"], "source": m["src"], "mutations": fmt_muts(m["muts"]), "outcome": outs[i]["kind"],
                    "msg": outs[i].get("msg", ""), "input_ascii": bytes.fromhex(c["hex"][:600]).decode("latin-1")})
    return chk.finish()


CLASSIFIER_NAMES = {"W", "Size", "Index", "Length", "Prev", "N", "First", "Columns", "Colors", "Predictor", "BitsPerComponent", "Ppr", "Bpp",
                    "Width", "H", "Height", "BPC"}


def ins_keys(muts, refused, d=None):
    """(key holding an integer equal to the refused size, first key holding a huge integer) among the keys the classifier has
    no name of its own for: looked up in the final stream dictionary, else in the log of inserted keys"""
    exact = big = ""
    ref = str(int(refused or 0))

    def walk(pairs):
        nonlocal exact, big
        for k, v in pairs or []:
            name = bytes(k).decode("latin-1")
            if is_int(v) and not v.get("neg") and name not in CLASSIFIER_NAMES:
                digs = "".join(str(x) for x in v["v"])
                if digs == ref and not exact:
                    exact = name
                if len(digs) >= 10 and not big:
                    big = name
            elif isinstance(v, dict) and v.get("k") == "dict":
                walk(v["v"])
    walk(d)
    for m in muts:
        if m.get("k") == "InsertKey" and isinstance(m.get("nm"), list) and m["a"].endswith(".int"):
            v = bytes(m["v"]).decode("latin-1")
            name = bytes(m["nm"]).decode("latin-1")
            if v == ref and not exact:
                exact = name
            if len(v) >= 10 and not v.startswith("-") and not big:
                big = name
    return exact, big


def fmt_muts(muts):
    out = []
    for m in muts:
        if isinstance(m.get("nm"), list):
            nm = bytes(m["nm"]).decode("latin-1")
            v = bytes(m["v"]).decode("latin-1")
            out.append({"action": m["k"], "site": ("%s#%d" % (nm, m["idx"])) if nm else "", "value": v, "arg": m["a"]})
        else:
            out.append({"action": m["k"], "site": m.get("site", ""), "value": m.get("v", ""), "arg": ""})
    return out


def replay(path):
    """bin/verif replay C04 <evidence/replays/C04-n.json>: give the stored input to the stored entry point again"""
    det = json.load(open(path))
    d = det["detail"]
    if d["hex"].endswith("..."):
        print("input was too large to store completely")
        return 2
    w = workdir("c04replay")
    c = {"id": 0, "ep": d["entry_point"], "hex": d["hex"], "dict": d.get("dict") or []}
    c.update(limits(d.get("input_len", len(d["hex"]) // 2)))
    if d.get("reps"):
        c["reps"], c["stack_kb"] = d["reps"], d.get("stack_kb", 2048)
    if d.get("chain"):
        c["chain"], c["stack_kb"] = d["chain"], d.get("stack_kb", 2048)
    cin, cout = os.path.join(w, "in.ndjson"), os.path.join(w, "out.ndjson")
    write_ndjson(cin, [c])
    run_bin("c04", ["run", "--in", cin, "--out", cout, "--jobs", 1])
    o = read_ndjson(cout)[0]
    print(json.dumps({"signature": det["signature"], "recorded": {k: d[k] for k in ("entry_point", "outcome", "msg", "loc")}, "now": o}, indent=1))
    return 0 if o["kind"] in ("ok", "err") and not int(o.get("refused") or 0) else 1
