"""C05 — encrypt then decrypt restores every string and stream."""
import json, os, copy, glob, random, re
from concurrent.futures import ThreadPoolExecutor
import vlib
from vlib import Check, tlc, run_bin, workdir, write_ndjson, read_ndjson, log

META = {
    "property_id": "C05",
    "level": "model_checking",
    "technique": "TLA+ spec (Security/SecuritySys: security-handler life-cycle with symbolic crypto) model-checked by TLC as the code is "
                 "and with the repaired defects seeded back; every TLC-generated call sequence replayed into lopdf; recorded lopdf call sequences validated by "
                 "Trace_Security (declarative Judge + impl-shaped Step)",
    "text": "TLC explores every sequence (depth <= 5 quick / 7 thorough) of MakeState, Encrypt, Decrypt(pw), AuthUser/AuthOwner/Auth(pw), Save, "
            "Load, Edit over small documents (strings nested in arrays/dictionaries, binary/empty/Metadata/XRef streams, strings in stream "
            "dictionaries, Crypt overrides in all forms, documents in the state load_mem leaves of a file with object streams and an xref "
            "stream: /ObjStm containers next to their unpacked members, the /XRef stream object; edits of the unencrypted document) x {V1, V2 x key lengths, V4 x {RC4,AES128,Identity}^2 x EncryptMetadata, R5, V5} x "
            "password pairs/offers of the classes empty, ASCII, non-Latin, >32 bytes, >127 bytes, owner=user. The impl-shaped layer "
            "transcribes encrypt_object/decrypt_object, EncryptionState::try_from/decode, authenticate_*, and the loader's auto-decrypt over "
            "symbolic payloads (Ct/Dec cancellation law); the declarative layer Judge states Restored, Hidden (ISO rule IsoSubject/IsoMethod), "
            "Rejects, EitherPw, ViaFile on what is observable of one call. Each generated sequence is driven through the real API and each "
            "recorded random run (gen.rs documents, random configurations, Unicode passwords, random call sequences) is judged call by call "
            "by TLC with the same Judge; ciphertext bytes are never compared, only equals-plaintext flags.",
    "note": "Trusted: TLC; the perfect-cipher algebra (C06 removes it); the reading of ISO 32000-2 7.6 in IsoSubject/IsoMethod; the harness's own "
            "canonical forms of passwords (PDFDocEncoding/32 bytes, UTF-8/127 bytes on alphabets where SASLprep is the identity). Exhaustive only "
            "within the model bounds; beyond that sampled. Not decided: cryptographic strength, permissions, acceptance of merely equivalent "
            "passwords, decrypt_raw called directly, signature /Contents and a direct /Encrypt dictionary (C06), the calls SaveRev / SaveInc in the "
            "model checker (judged and driven in recorded runs only; the impl-shaped layer has no multi-revision file),  V2 key lengths that are not a multiple of 8 (not a supported key length: ISO 32000 and lopdf's "
            "own reader refuse them; EncryptionVersion::V2 accepts them and the result cannot be decrypted - proposed_fixes/C05-v2-key-length-check.diff), "
            " edits that delete or add objects (a deleted object-stream member comes back on decrypt: "
            "lopdf issue 160, outside the statement), encrypted files with object streams written by other producers (C06).",
    "bins": ["c05"],
    "modules": ["MC_Security.tla", "Trace_Security.tla"],
    "design_ref": "DESIGN.md section 4 C05",
}

# Confirmed deviations of the code (DESIGN 2.9): TRUE = the impl-shaped layer behaves as lopdf does today.  When a fix is
# applied to /repo, set its switch to False here and move the finding to "fixed" in known_findings/C05.json.
# All five are repaired (fix: 44ea712 h12, 48a6296 h13, 4d4c742 t127, 54b8438 dparr, 9164604 mdict); the tags are computed
# by the declarative Judge from the input class, so a defect that comes back is reported under its old signature.
# (C05_DEV="h12:1,h13:1" overrides for experiments against a scratch worktree that lacks a fix.)
# (osrep was never a defect of the code: "Decrypt's re-expansion of object streams replaces live objects" is a seeded
# change the check missed before documents in the loaded-from-object-streams state and Edit were modelled.)
# drop / cryptv / mdstr: found by an independent audit (2026-10-03), present in /repo today, listed in known_findings/C05.json;
# proposed_fixes/C05-password-not-encodable.diff, C05-crypt-filter-below-v4.diff, C05-metadata-stream-dictionary-strings.diff.
DEV = {"h12": False, "h13": False, "t127": False, "mdict": False, "dparr": False, "osrep": False,
       "drop": False, "cryptv": False, "mdstr": False,     # repaired by 9c92c82, 175e800, f232be7
       # second audit of C05 (2026-10-03): repaired by e6ea148 (expand object streams once), 5ac6a72 (indirect Crypt parameters).
       # (No switch for "empty owner password at R5/R6": Algorithms 8/9 have no substitution, "" then IS the owner password.)
       "osres": False, "cind": False}
DEV_TAG = {"h12": "owner.R234.key", "h13": "streamdict.string", "t127": "pw.gt127.R56", "mdict": "metadata.nonstream", "dparr": "crypt.dparray",
           "osrep": "restored.objstm.member", "drop": "pw.unencodable.R234", "cryptv": "crypt.belowV4", "mdstr": "metadata.streamdict",
           "osres": "objstm.member.resurrected", "cind": "crypt.indirect"}
NEED_TAGS = ("ok-restored", "ok-rejected", "ok-loaded-enc", "ok-loaded-autodecrypted", "ok-auth", "ok-auth-rejected", "ok", "ok-edit")
FILE_DOCS = ("D5", "D6")   # MC_Security!FileDocs: documents given in the state a loader leaves


def dev_flags():
    d = dict(DEV)
    for kv in filter(None, os.environ.get("C05_DEV", "").split(",")):
        k, v = kv.split(":")
        d[k] = v not in ("0", "false", "FALSE")
    return d


def with_dev(cfg_name, w, flags):
    """copy of spec/<cfg_name> whose Dev_* constants are set from `flags` (written to the work directory)"""
    t = open(os.path.join(vlib.SPEC, cfg_name)).read()
    for k, v in flags.items():
        t = re.sub(r"Dev_%s = (TRUE|FALSE)" % k, "Dev_%s = %s" % (k, "TRUE" if v else "FALSE"), t)
    p = os.path.join(w, cfg_name)
    with open(p, "w") as f:
        f.write(t)
    return p


ACTIONS = ["MakeStateH", "EncryptH", "SaveH", "LoadH", "DecryptH", "AuthUserH", "AuthOwnerH", "AuthH", "EditH", "RekeyH", "DeleteH"]

TOK = {"E": "", "A": "user", "B": "owner", "W": "nope", "N": "пароль", "N2": "密碼",
       "L1": "a" * 32 + "TAIL1", "L2": "a" * 32 + "tail2", "S32": "a" * 32,
       "H1": "b" * 127 + "xyz", "H2": "b" * 127 + "abc", "T127": "b" * 127,
       "M": "пароль-1", "M2": "-1", "J": "\U0001F642"}


def ok_tags(tags):
    return all(t.startswith("ok") for t in tags)


def judge_events(path, n, name, parts, tcfg="Trace_Security.cfg"):
    """Run Trace_Security on an event file (split at Reset events into `parts` files judged concurrently).
    Returns the verdict dicts in event order + states/transitions."""
    lines = open(path).read().splitlines()
    if len(lines) != n:
        raise vlib.ToolError("event file %s has %d lines, expected %d" % (path, len(lines), n))
    starts = [i for i, l in enumerate(lines) if '"ev":"Reset"' in l]
    if not starts or starts[0] != 0:
        raise vlib.ToolError("event file does not start with a Reset")
    parts = max(1, min(parts, len(starts)))
    per = (len(starts) + parts - 1) // parts
    cuts = [starts[i] for i in range(0, len(starts), per)] + [len(lines)]
    jobs = []
    for k in range(len(cuts) - 1):
        cp = "%s.part%d" % (path, k)
        with open(cp, "w") as f:
            f.write("\n".join(lines[cuts[k]:cuts[k + 1]]) + "\n")
        jobs.append((cp, cuts[k], cuts[k + 1] - cuts[k], "%s-p%d" % (name, k)))

    def one(job):
        cp, lo, cnt, nm = job
        r = tlc("Trace_Security.tla", tcfg, workers=1, env={"TRACE": cp}, deque=True, timeout=3000, name=nm, xmx="2g")
        vs = r.tagged("VERDICT")
        if len(vs) != cnt:
            raise vlib.ToolError("Trace_Security judged %d of %d events" % (len(vs), cnt))
        vs.sort(key=lambda v: v["i"])
        return vs, r.distinct, r.generated

    with ThreadPoolExecutor(max_workers=len(jobs)) as ex:
        res = list(ex.map(one, jobs))
    for job in jobs:
        os.remove(job[0])
    out, d, g = [], 0, 0
    for vs, dd, gg in res:
        out += vs
        d += dd
        g += gg
    return out, d, g


def runs_of(events):
    """split an event list into runs [(reset, [calls])]"""
    runs = []
    for e in events:
        if e["ev"] == "Reset":
            runs.append((e, []))
        else:
            runs[-1][1].append(e)
    return runs


def cfg_class(cfg):
    return "V%d/R%d" % (cfg["V"], cfg["R"])


def pw_class(s):
    c = set()
    if s == "":
        c.add("empty")
    elif all(ord(ch) < 128 for ch in s):
        c.add("ascii")
    if any(ord(ch) > 255 for ch in s):
        c.add("non-latin")
    n = len(s.encode("utf-8"))
    if n > 32:
        c.add("gt32")
    if n > 127:
        c.add("gt127")
    return c


def detail_of(reset, calls, upto, inputs=None):
    """concrete description of a failing run (input + what was observed up to the failing call)"""
    d = {"cfg": {k: reset["cfg"][k] for k in ("V", "R", "klen", "em", "cf", "stmf", "strf")},
         "empty_password_relation": reset["cfg"]["e"],
         "calls": [{"call": c["call"], "rel": c["rel"], "res": c["res"], "tag": c.get("tag", ""), "tenc": c["tenc"], "nobj": c["nobj"], "same": c["same"],
                    "pw": c.get("pw", c.get("tok", "")), "pos": c.get("pos", 0),
                    "items_not_equal_plaintext": [[i + 1, it["kind"], it["len"], "in-stream-dict" if it["insd"] else "", it["otyp"], it["crypt"]["f"], it["crypt"]["n"]]
                                                  for i, it in enumerate(c["items"]) if not it["eq"]][:12],
                    "items_equal_plaintext": sum(1 for it in c["items"] if it["eq"])} for c in calls[:upto + 1]][-6:]}
    if inputs is not None:
        d["input"] = inputs
    else:
        d["document"] = reset["objs"]
    return d


def triage(chk, events, verdicts, inputs_by_case=None, predicted=None):
    """violations from the declarative verdicts; drift from the impl-shaped comparison.  `predicted`:
    case -> list of MC hist entries (replay direction).  Returns per-tag counters."""
    seen = {}
    drift = 0
    pos = 0
    ex = chk.extra.setdefault("model_drift_examples", [])

    def note(kind, reset, calls, k, more=None):
        if len(ex) < 6:
            d = detail_of(reset, calls, k)
            d.pop("document", None)
            ex.append({"kind": kind, "case": d, "predicted": more})
    for reset, calls in runs_of(events):
        vr = verdicts[pos]
        if vr.get("drift"):
            drift += 1
        pos += 1
        pred = predicted.get(reset["case"]) if predicted is not None else None
        for k, c in enumerate(calls):
            v = verdicts[pos]
            pos += 1
            if "panic" in c:
                chk.violation("C05:panic." + c["call"], detail_of(reset, calls, k, (inputs_by_case or {}).get(reset["case"])))
                continue
            if v.get("drift"):
                drift += 1
                note("impl-shaped Step disagrees with the observation", reset, calls, k)
            tags = v["tags"]
            for t in tags:
                seen[t] = seen.get(t, 0) + 1
            if not ok_tags(tags):
                det = detail_of(reset, calls, k, (inputs_by_case or {}).get(reset["case"]))
                det["verdict"] = tags
                for t in tags:
                    if not t.startswith("ok"):
                        chk.violation("C05:" + t, det)
            else:
                chk.traces += 1
            if pred is not None:
                p = pred[k]
                # ("unsure": the harness could not decide independently of the convention for characters without a
                # PDFDocEncoding code - e.g. a non-Latin owner password at R <= 4 - the call is not judged then)
                if c["call"] in ("Decrypt", "AuthUser", "AuthOwner", "Auth") and \
                        any(p["rel"][k] != c["rel"][k] and c["rel"][k] != "unsure" for k in ("u", "o")):
                    raise vlib.ToolError("password relation computed by the harness %s differs from the spec's %s (token %s)" % (c["rel"], p["rel"], p["tok"]))
                undecided = "unsure" in (c["rel"]["u"], c["rel"]["o"], reset["cfg"]["e"]["u"], reset["cfg"]["e"]["o"])
                if sorted(p["tags"]) != sorted(tags) and ok_tags(tags) and not undecided:
                    drift += 1   # the model predicted a deviation the code does not show (or another ok class)
                    note("verdict predicted by MC_Security differs", reset, calls, k, sorted(p["tags"]))
    return seen, drift


def synth_trace():
    """a conforming run written by hand (V5, AES256 strings and streams, passwords user/owner) for the negative controls"""
    def it(kind, ln, eq, insd=False, otyp="-", crypt="none"):
        return {"kind": kind, "insd": insd, "otyp": otyp, "inmd": False, "osm": ln == 5, "crypt": {"f": crypt, "n": "", "ind": False}, "len": ln, "present": True, "eq": eq, "gone": False}
    objs = [{"k": "dict", "typ": "-", "v": [{"k": "str", "pid": 1, "len": 20}, {"k": "arr", "v": [{"k": "str", "pid": 2, "len": 5}]}]},
            {"k": "stream", "typ": "-", "crypt": {"f": "none", "n": "", "ind": False}, "d": [], "pid": 3, "len": 40, "mem": []}]
    no = {"u": "diff", "o": "diff", "ud": False, "od": False, "rep": True}
    own = {"u": "diff", "o": "same", "ud": False, "od": True, "rep": True}
    cfg = {"V": 5, "R": 6, "klen": 256, "em": True, "cf": [["F1", "AES256"], ["F2", "AES256"]], "stmf": "F1", "strf": "F2",
           "ulen": 4, "olen": 5, "e": dict(no), "nobj0": 2, "urep": True, "orep": True}
    plain = [it("str", 20, True), it("str", 5, True), it("stream", 40, True)]
    enc = [it("str", 20, False), it("str", 5, False), it("stream", 40, False)]
    def call(name, rel, res, tenc, nobj, same, items):
        return {"ev": "Call", "case": 1, "call": name, "pos": 0, "rel": rel, "res": res, "tag": res, "tenc": tenc, "nobj": nobj, "same": same, "items": copy.deepcopy(items)}
    return [{"ev": "Reset", "case": 1, "cfg": cfg, "objs": objs, "nitems": 3},
            call("MakeState", no, "Ok", False, 2, True, plain),
            call("Encrypt", no, "Ok", True, 3, False, enc),
            call("Decrypt", no, "Err", True, 3, True, enc),
            call("Auth", own, "Ok", True, 3, True, enc),
            call("Save", no, "Ok", True, 3, True, enc),
            call("Load", no, "Ok", True, 3, True, enc),
            call("Decrypt", own, "Ok", False, 2, False, plain)]


NEGATIVES = [
    ("restored.content", lambda t: t[7]["items"][0].update(eq=False)),
    ("restored.content", lambda t: t[7]["items"][2].update(present=False, eq=False)),
    ("restored.objstm.member", lambda t: t[7]["items"][1].update(eq=False)),   # only items of object-stream members come back wrong
    ("restored.encdict", lambda t: t[7].update(tenc=True)),
    ("restored.encdict", lambda t: t[7].update(nobj=3)),
    ("either.rejected", lambda t: t[7].update(res="Err", tenc=True, nobj=3, same=True, items=t[6]["items"])),
    ("hidden.other", lambda t: t[2]["items"][0].update(eq=True)),
    ("hidden.other", lambda t: t[2]["items"][2].update(eq=True)),
    ("encrypt.noencdict", lambda t: t[2].update(tenc=False)),
    ("rejects.accepted", lambda t: t[3].update(res="Ok")),
    ("rejects.mutated", lambda t: t[3].update(same=False)),
    ("rejects.auth.accepted", lambda t: t[4].update(rel=dict(t[3]["rel"]))),
    ("either.auth.rejected", lambda t: t[4].update(res="Err")),
    ("viafile.load.err", lambda t: t[6].update(res="Err")),
    ("rejects.load.autodecrypt", lambda t: t[6].update(tenc=False, nobj=2, items=t[1]["items"])),
    ("viafile.hidden.other", lambda t: t[6]["items"][0].update(eq=True)),
    # revision 3: a wrong password with characters PDFDocEncoding lacks is accepted
    ("pw.unencodable.R234", lambda t: (v2(t), t[3].update(res="Ok"), t[3]["rel"].update(rep=False))),
    # V 2: a stream with a Crypt filter entry stays as it is
    ("crypt.belowV4", lambda t: (v2(t), [e["items"][2]["crypt"].update(f="name", n="F1") for e in t[1:]], t[2]["items"][2].update(eq=True))),
    # EncryptMetadata false: a string in the metadata stream's dictionary stays as it is
    # Crypt parameters through an indirect object: the stream stays as it is
    ("crypt.indirect", lambda t: ([e["items"][2]["crypt"].update(f="name", n="F1", ind=True) for e in t[1:]], t[2]["items"][2].update(eq=True))),
    # an object the caller deleted is back after decrypt
    ("objstm.member.resurrected", lambda t: [e["items"][1].update(gone=True, present=(e is t[7]), eq=(e is t[7])) for e in t[1:]]),
    ("metadata.streamdict", lambda t: (t[0]["cfg"].update(em=False), [e["items"][0].update(insd=True, otyp="Metadata") for e in t[1:]],
                                       t[2]["items"][0].update(eq=True))),
]


def v2(t):
    t[0]["cfg"].update(V=2, R=3, klen=128, cf=[], stmf="", strf="")


def synth_foreign():
    """hand-written runs with the calls SaveRev / SaveInc in which lopdf's present answers are written down"""
    base = synth_trace()
    reset, mk, enc_ev, load, dec = base[0], base[1], base[2], base[6], base[7]
    plain, enc = mk["items"], enc_ev["items"]

    def ev(src, **kw):
        e = copy.deepcopy(src)
        e.update(kw)
        return e
    stale = copy.deepcopy(plain)
    stale[1]["eq"] = False      # the object-stream member (osm) comes back with the value of the first revision
    rev = [reset, mk, ev(mk, call="SaveRev"), ev(load, items=enc), ev(dec, items=stale)]
    r2 = copy.deepcopy(reset)
    r2["cfg"]["e"] = {"u": "same", "o": "diff", "ud": True, "od": False, "rep": True}     # empty user password
    inc = [r2, mk, enc_ev, base[5], ev(base[5], call="SaveInc"), ev(load, tenc=False, nobj=2, items=enc, same=False)]
    return [("objstm.revision.stale", rev), ("incremental.encrypt.dropped", inc)]


def negative_controls(chk, w):
    base = synth_trace()
    evs = list(base)
    for tag, mut in NEGATIVES:
        t = copy.deepcopy(base)
        mut(t)
        evs += t
    extra = synth_foreign()
    for tag, t in extra:
        evs += t
    p = os.path.join(w, "neg.ndjson")
    write_ndjson(p, evs)
    vs, _, _ = judge_events(p, len(evs), "c05neg", 1)
    n = len(base)
    if not all(ok_tags(v["tags"]) for v in vs[:n]):
        raise vlib.ToolError("the hand-written conforming run is not accepted: %s" % [v["tags"] for v in vs[:n]])
    rejected = 0
    for k, (tag, _) in enumerate(NEGATIVES):
        got = set()
        for v in vs[n * (k + 1): n * (k + 2)]:
            got |= {t for t in v["tags"] if not t.startswith("ok")}
        if tag not in got:
            raise vlib.ToolError("negative control %d: expected %s, validator said %s" % (k, tag, sorted(got)))
        rejected += 1
    pos = n * (len(NEGATIVES) + 1)
    for tag, t in extra:
        got = set()
        for v in vs[pos: pos + len(t)]:
            got |= {x for x in v["tags"] if not x.startswith("ok")}
        pos += len(t)
        if got != {tag}:
            raise vlib.ToolError("negative control (%s): validator said %s" % (tag, sorted(got)))
        rejected += 1
    chk.extra["negative_controls"] = len(NEGATIVES) + len(extra)
    chk.extra["negative_controls_rejected"] = rejected


def run(tier):
    chk = Check("C05", META["level"], tier)
    chk.rule = ("one case = document x configuration x password pair x call sequence; TLC-generated sequences (MC_Security, one per reached "
                "state) and seeded random runs; non-trivial when the sequence encrypts; distinct by (configuration, passwords, document, calls)")
    w = workdir("c05")
    for f in glob.glob(os.path.join(vlib.REPLAYS, "C05-*.json")):
        os.remove(f)
    quick = tier == "quick"
    flags = dev_flags()
    known_tags = {DEV_TAG[k] for k, v in flags.items() if v}
    tcfg = with_dev("Trace_Security.cfg", w, flags)
    vlib.build_harness("c05")
    nrec = 250 if quick else 6000

    # ------------- run concurrently: (M) as the code is (+ emission), (M) as repaired, (V) recording
    def mc_asis():
        return tlc("MC_Security.tla", with_dev("MC_Security_%s_asis.cfg" % tier, w, flags), workers=4 if quick else 8, timeout=3000,
                   xmx="4g" if quick else "8g", name="c05-asis")

    def mc_rep():
        # negative control of the declarative Judge: the five repaired defects seeded back into the design
        return tlc("MC_Security.tla", "MC_Security_%s_seeded.cfg" % tier, workers=3 if quick else 6, timeout=3000,
                   xmx="3g" if quick else "6g", name="c05-seeded")

    def record():
        tr, ins = os.path.join(w, "rec.ndjson"), os.path.join(w, "rec.inputs.ndjson")
        run_bin("c05", ["record", "--seed", vlib.seed(), "--n", nrec, "--out", tr, "--inputs", ins, "--threads", 4 if quick else 12])
        evs = read_ndjson(tr)
        vs, d, g = judge_events(tr, len(evs), "c05rec", 2 if quick else 10, tcfg)
        return evs, vs, d, g, read_ndjson(ins)

    with ThreadPoolExecutor(max_workers=3) as ex:
        fa, fr, fv = ex.submit(mc_asis), ex.submit(mc_rep), ex.submit(record)
        ra, rr, (revs, rvs, rd, rg, rins) = fa.result(), fr.result(), fv.result()

    # ------------- (M)
    chk.add_tlc(ra)
    chk.add_tlc(rr)
    docs = {d["dn"]: d["objs"] for d in ra.tagged("DOC")}
    gen = ra.tagged("REPLAY")
    if not gen or not docs:
        raise vlib.ToolError("generator produced no behaviours")
    # anti-vacuity: every action of the state machine was taken (TLC's -coverage cannot be used: its cost model does
    # not terminate on the mutually recursive walk operators), read off the emitted behaviours instead
    mc_tags, taken = set(), set()
    for g in gen:
        last = g["calls"][-1]
        taken.add(last["call"] + "H")
        if not last["ok"]:
            mc_tags |= set(last["tags"])
    if set(ACTIONS) - taken:
        raise vlib.ToolError("vacuous model run: actions never taken: %s" % sorted(set(ACTIONS) - taken))
    # TLC itself must find exactly the listed (not yet repaired) deviations in the design as the code is - none since the
    # five fix: commits - and exactly the five former ones when they are seeded back
    if mc_tags != known_tags:
        raise vlib.ToolError("model as the code is: TLC found %s, expected exactly %s" % (sorted(mc_tags), sorted(known_tags)))
    chk.extra["mc_counterexample_classes_as_code_is"] = sorted(mc_tags)
    seeded_tags = set()
    for g in rr.tagged("REPLAY"):
        if not g["calls"][-1]["ok"]:
            seeded_tags |= set(g["calls"][-1]["tags"])
    if seeded_tags != set(DEV_TAG.values()):
        raise vlib.ToolError("model with the repaired defects seeded back: TLC found %s, expected exactly %s" % (
            sorted(seeded_tags), sorted(DEV_TAG.values())))
    chk.extra["mc_counterexample_classes_defects_seeded"] = sorted(seeded_tags)

    # ------------- (G) replay the generated sequences
    def key(g):
        c = g["cfg"]
        return (json.dumps([c[k] for k in ("name", "V", "R", "klen", "em", "cf", "stmf", "strf", "user", "owner", "dn", "alt")]),)
    seqs = {}
    for g in gen:
        seqs.setdefault(key(g), []).append(g)
    cases = []
    for k, gs in seqs.items():
        sigs = {tuple((c["call"], c["tok"], c["pos"]) for c in g["calls"]) for g in gs}
        for g in gs:
            s = tuple((c["call"], c["tok"], c["pos"]) for c in g["calls"])
            # a sequence that is a proper prefix of another emitted one is replayed as part of that one
            if not any(len(o) > len(s) and o[:len(s)] == s for o in sigs):
                cases.append(g)
    if quick and len(cases) > 2500:
        rnd = random.Random(vlib.seed())
        bad = [g for g in cases if any(not c["ok"] for c in g["calls"])]
        good = [g for g in cases if not any(not c["ok"] for c in g["calls"])]
        rnd.shuffle(bad)
        rnd.shuffle(good)
        # every class the anti-vacuity checks below ask for is represented, so are the loaded-from-file documents (with
        # edits), the Rekey sequences and the passwords with characters PDFDocEncoding lacks; the rest is a seeded sample
        picked, ids = [], set()

        def take(gs, n):
            for g in gs:
                if n <= 0:
                    break
                if id(g) not in ids:
                    ids.add(id(g))
                    picked.append(g)
                    n -= 1
        for t in NEED_TAGS:
            take([g for g in good if any(t in c["tags"] for c in g["calls"])], 40)
        take([g for g in good if (g["cfg"]["dn"] in FILE_DOCS and any(c["call"] == "Edit" for c in g["calls"]))
              or any(c["call"] == "Rekey" for c in g["calls"]) or not (g["cfg"]["urep"] and g["cfg"]["orep"])], 700)
        # ... and Identity filters under custom names, Identity overrides on streams with strings in their dictionaries
        take([g for g in good if any(e[1] == "Identity" and e[0] != "Identity" for e in g["cfg"]["cf"])
              and any(c["call"] == "Decrypt" and "ok-restored" in c["tags"] for c in g["calls"])], 250)
        take([g for g in good if g["cfg"]["dn"] == "D9" and any(c["call"] == "Load" for c in g["calls"])], 250)
        take([g for g in good if g["cfg"]["dn"] in ("D2", "D3", "D8") and g["cfg"]["V"] >= 4 and g["cfg"]["strf"] != "Identity"
              and any(c["call"] == "Encrypt" and c["res"] == "Ok" for c in g["calls"])], 250)
        take(bad, 1200)
        take(good, 2500 - len(picked))
        cases = picked
    cin, cout = os.path.join(w, "gen.ndjson"), os.path.join(w, "gen.out.ndjson")
    write_ndjson(cin, [{"cfg": g["cfg"], "user": TOK[g["cfg"]["user"]], "owner": TOK[g["cfg"]["owner"]], "objs": docs[g["cfg"]["dn"]],
                        "prep": "file" if g["cfg"]["dn"] in FILE_DOCS else "mem",
                        "calls": [dict({"call": c["call"], "tok": c["tok"], "pos": c["pos"]},
                                       **({"pw": TOK[c["tok"]]} if c["call"] in ("Decrypt", "AuthUser", "AuthOwner", "Auth") else
                                          {"cfg": g["cfg"]["alt"]} if c["call"] == "Rekey" else {}))
                                  for c in g["calls"]]} for g in cases])
    run_bin("c05", ["replay", "--in", cin, "--out", cout, "--seed", vlib.seed(), "--threads", 4 if quick else 12])
    gevs = read_ndjson(cout)
    if sum(1 for e in gevs if e["ev"] == "Reset") != len(cases):
        raise vlib.ToolError("replay lost cases")
    gvs, d, g2 = judge_events(cout, len(gevs), "c05gen", 4 if quick else 12, tcfg)
    chk.states += d
    chk.transitions += g2
    pred = {i + 1: g["calls"] for i, g in enumerate(cases)}
    gseen, gdrift = triage(chk, gevs, gvs, None, pred)
    for i, g in enumerate(cases):
        chk.case(json.dumps([key(g), [(c["call"], c["tok"], c["pos"]) for c in g["calls"]]]) if any(c["call"] == "Encrypt" for c in g["calls"]) else None)
    chk.extra["replayed_behaviours"] = len(cases)
    chk.extra["generated_behaviours"] = len(gen)
    have = {cfg_class(g["cfg"]) for g in cases}
    need = {"V1/R2", "V2/R3", "V4/R4", "V5/R5", "V5/R6"}
    if need - have:
        raise vlib.ToolError("vacuous generation: configurations never generated: %s" % sorted(need - have))
    # anti-vacuity from the inputs (what the model expects of the replayed sequences), not from lopdf's answers
    expected = set()
    for g in cases:
        for c in g["calls"]:
            expected |= set(c["tags"])
    for t in NEED_TAGS:
        if t not in expected:
            raise vlib.ToolError("vacuous replay: no replayed sequence contains a call the model judges %s" % t)
    # ... and the loaded-from-object-streams class: a member of a container is edited, then encrypted and decrypted in memory
    def member_roundtrip(g):
        if g["cfg"]["dn"] != "D5":
            return False
        st = 0
        for c in g["calls"]:
            if c["call"] == "Edit" and c["pos"] == 1 and st == 0:
                st = 1
            elif c["call"] == "Encrypt" and st == 1:
                st = 2
            elif c["call"] == "Load" and st >= 1:
                st = 0
            elif c["call"] == "Decrypt" and st == 2 and "ok-restored" in c["tags"]:
                return True
        return False
    if not any(member_roundtrip(g) for g in cases):
        raise vlib.ToolError("vacuous replay: no sequence edits an object-stream member and round-trips it in memory")
    if not any(g["cfg"]["stmf"] == "F1" and any(e[0] == "F1" and e[1] == "Identity" for e in g["cfg"]["cf"])
               and any("ok-restored" in c["tags"] for c in g["calls"]) for g in cases):
        raise vlib.ToolError("vacuous replay: no sequence round-trips a configuration whose default filter is an Identity filter under a custom name")
    if not any(g["cfg"]["dn"] in ("D3", "D8") and g["cfg"]["V"] >= 4 and g["cfg"]["strf"] != "Identity" and any(c["call"] == "Encrypt" and c["res"] == "Ok" for c in g["calls"])
               for g in cases):
        raise vlib.ToolError("vacuous replay: no sequence encrypts a stream with an Identity override and a long string in its dictionary under a non-identity StrF")
    def viafile_roundtrip(g):
        st = 0
        for c in g["calls"]:
            st = 1 if c["call"] == "Encrypt" and c["res"] == "Ok" else 2 if c["call"] == "Save" and st == 1 else 3 if c["call"] == "Load" and st == 2 else st
            if st == 3 and (("ok-restored" in c["tags"] and c["call"] == "Decrypt") or "ok-loaded-autodecrypted" in c["tags"]):
                return True
        return False
    if not any(g["cfg"]["dn"] == "D9" and g["cfg"]["V"] >= 4 and viafile_roundtrip(g) for g in cases):
        raise vlib.ToolError("vacuous replay: no sequence takes the stream with an indirect /Length through Encrypt, Save, Load, Decrypt under AES")
    if not any(any(c["call"] == "Rekey" for c in g["calls"][:i]) and g["calls"][i]["call"] == "Encrypt" and g["calls"][i]["res"] == "Ok"
               for g in cases for i in range(len(g["calls"]))):
        raise vlib.ToolError("vacuous replay: no sequence protects a decrypted V4/V5 document again with V2 (Rekey ; Encrypt)")
    mid = cases[len(cases) // 2]
    chk.sample({"generated": {"cfg": mid["cfg"]["name"], "user": mid["cfg"]["user"], "owner": mid["cfg"]["owner"], "doc": mid["cfg"]["dn"],
                              "calls": [[c["call"], c["tok"], c["res"], sorted(c["tags"])] for c in mid["calls"]]}})
    chk.exhaustive = True

    # ------------- (V) recorded random runs
    chk.states += rd
    chk.transitions += rg
    inputs = {r["case"]: {k: r[k] for k in ("cfg", "user", "owner", "calls", "seed", "prep", "doc", "file") if k in r} for r in rins}
    rseen, rdrift = triage(chk, revs, rvs, inputs, None)
    rruns = runs_of(revs)
    if len(rruns) != nrec:
        raise vlib.ToolError("recorder lost runs")
    def classes_of(rruns):
        """input classes of recorded runs (anti-vacuity is computed from inputs only)"""
        cfgs, pws, itemcls = set(), set(), set()
        for reset, calls in rruns:
            itemcls.add("prep." + reset["prep"])
            c0 = reset["cfg"]
            # an Identity crypt filter under a custom name as default filter; Identity overrides (every form) on streams
            # whose dictionaries hold long strings
            for nm in (c0["stmf"], c0["strf"]):
                if nm != "Identity" and any(e[0] == nm and e[1] == "Identity" for e in c0["cf"]):
                    itemcls.add("cf.custom-name.identity.default")

            # a stream whose /Length is a reference to an integer object, under a length-changing (AES) stream filter, taken
            # through Encrypt -> Save -> Load -> Decrypt with a right password
            def stm_method(o):
                cr = o["crypt"]
                nm = c0["stmf"] if cr["f"] == "none" else cr["n"] if cr["f"] in ("name", "arr") else "Identity"
                return next((e[1] for e in c0["cf"] if e[0] == nm), "Identity" if c0["V"] >= 4 else "RC4")
            if any(o["k"] == "stream" and o.get("il") and o["len"] > 0 and c0["V"] >= 4 and stm_method(o).startswith("AES") for o in reset["objs"]):
                st = 0
                for c in calls:
                    if c["call"] == "Rekey":
                        break
                    if c["call"] == "Encrypt" and c["res"] == "Ok":
                        st = 1
                    elif c["call"] == "Save" and st == 1:
                        st = 2
                    elif c["call"] == "Load" and st == 2:
                        st = 3
                    elif c["call"] == "Decrypt" and st == 3 and "same" in (c["rel"]["u"], c["rel"]["o"]):
                        itemcls.add("indirect.length.aes.viafile")
                    elif c["call"] == "Load" and st == 3 and False:
                        pass

            def has_long_str(o):
                return (o["k"] == "str" and o["len"] >= 16) or any(has_long_str(x) for x in o.get("v", []) + o.get("d", []))
            for o in reset["objs"]:
                if o["k"] == "stream" and o["crypt"]["f"] != "none" and c0["V"] >= 4 and any(has_long_str(x) for x in o["d"]):
                    cr = o["crypt"]
                    if cr["f"] in ("noname", "nodp") or cr["n"] == "Identity" or not any(e[0] == cr["n"] for e in c0["cf"]):
                        itemcls.add("identity.override.%s.dict.string" % ("missing-name" if cr["f"] in ("name", "arr") and cr["n"] != "Identity" else cr["f"]))
            if c0["R"] <= 4 and not c0["urep"]:
                itemcls.add("pw.user.unencodable")
            if c0["R"] <= 4 and not c0["orep"]:
                itemcls.add("pw.owner.unencodable")
            if any(ord(ch) >= 0x1F000 for ch in map(chr, reset["user"] + reset["owner"])):
                itemcls.add("pw.emoji")
            for nm in ("user", "owner"):
                cs = [ord(ch) < 256 for ch in map(chr, reset[nm])]
                if c0["R"] <= 4 and any(cs) and not all(cs):
                    itemcls.add("pw.mixed")
            saved_enc = tenc = False
            for i, c in enumerate(calls):
                if c["call"] == "SaveRev" and c["res"] == "Ok" and i + 1 < len(calls) and calls[i + 1]["call"] == "Load":
                    itemcls.add("two-revision.objstm.file.loaded")
                    if "same" in (c0["e"]["u"], c0["e"]["o"]):
                        itemcls.add("two-revision.objstm.file.autodecrypt")
                    if any(d["call"] == "Decrypt" and "same" in (d["rel"]["u"], d["rel"]["o"]) for d in calls[i + 2:]):
                        itemcls.add("two-revision.objstm.file.decrypt")
                if c["call"] == "Save":
                    saved_enc = tenc
                if c["call"] == "SaveInc" and saved_enc and i + 1 < len(calls) and calls[i + 1]["call"] == "Load":
                    itemcls.add("incremental.update.of.encrypted.file")
                    if "same" in (c0["e"]["u"], c0["e"]["o"]):
                        itemcls.add("incremental.update.of.encrypted.file.emptypw")
                tenc = c["tenc"]
            cur, was_dec = c0, False
            for c in calls:
                if c["call"] in ("Decrypt", "AuthUser", "AuthOwner", "Auth") and cur["R"] <= 4 and not c["rel"]["rep"] \
                        and c["rel"]["u"] == "diff" and c["rel"]["o"] == "diff" and not (cur["urep"] and cur["orep"]):
                    itemcls.add("offer.differs.in.unencodable")
                if c["call"] == "Decrypt" and c["res"] == "Ok":
                    was_dec = True
                if c["call"] == "Rekey" and c["res"] == "Ok":
                    if was_dec and cur["V"] >= 4 and c["cfg"]["V"] < 4:
                        itemcls.add("rekey.V4+.to.V2-")
                    cur = c["cfg"]
                if c["call"] == "Encrypt" and c["res"] == "Ok":
                    for itm in c["items"]:
                        if itm["kind"] == "stream" and itm["crypt"]["f"] != "none" and cur["V"] < 4 and itm["len"] >= 16:
                            itemcls.add("crypt.entry.belowV4")
                        if itm["kind"] == "str" and itm["insd"] and itm["otyp"] == "Metadata" and itm["len"] >= 16:
                            itemcls.add("metadata.dict.string.em=%s" % (cur["em"] if cur["V"] >= 4 else True))
            members = {p for o in reset["objs"] if o["k"] == "stream" for p in o["mem"]}
            st = 0
            for c in calls:   # an object-stream member edited, then encrypted and decrypted with a right password in memory
                if c["call"] == "Edit" and c["pos"] in members and c["res"] == "Ok" and st == 0:
                    st = 1
                elif c["call"] == "Encrypt" and st == 1:
                    st = 2
                elif c["call"] == "Load" and st >= 1:
                    st = 0
                elif c["call"] == "Decrypt" and st == 2 and "same" in (c["rel"]["u"], c["rel"]["o"]):
                    itemcls.add("member.edit.roundtrip")
                if c["call"] == "Edit" and c["res"] == "Ok":
                    itemcls.add("edit")
                if c["call"] == "Delete" and c["res"] == "Ok" and c["pos"] in members:
                    itemcls.add("delete.member")
                if c["call"] == "Decrypt" and c0["R"] >= 5 and c0["olen"] == 0 and c0["ulen"] > 0 and len(c.get("pw", [0])) == 0:
                    itemcls.add("empty.offer.with.empty.owner.R56")
                if c["call"] == "Encrypt" and any(itm["crypt"]["ind"] and itm["len"] >= 16 for itm in c["items"]):
                    itemcls.add("crypt.indirect.parameters")
            cfgs.add(cfg_class(reset["cfg"]))
            u, o = "".join(map(chr, reset["user"])), "".join(map(chr, reset["owner"]))
            pws |= pw_class(u) | pw_class(o) | ({"owner=user"} if u == o else set())
            chk.case(json.dumps([reset["cfg"], reset["user"], reset["owner"], reset["objs"], [[c["call"], c.get("pw", "")] for c in calls]])
                     if any(c["call"] == "Encrypt" and c["res"] == "Ok" for c in calls) else None)
            if calls:
                for itm in calls[0]["items"]:
                    if itm["kind"] == "str" and itm["insd"]:
                        itemcls.add("streamdict")
                    if itm["otyp"] == "Metadata":
                        itemcls.add("metadata")
                    if itm["crypt"]["f"] != "none":
                        itemcls.add("crypt." + itm["crypt"]["f"])
                    if itm["len"] == 0:
                        itemcls.add("empty." + itm["kind"])
                    if itm["len"] >= 16 and not itm["insd"]:
                        itemcls.add("long." + itm["kind"])
                    if itm["otyp"] == "ObjStm":
                        itemcls.add("objstm.container")
                    if itm["osm"]:
                        itemcls.add("objstm.member")
        return cfgs, pws, itemcls

    cfgs, pws, itemcls = classes_of(rruns)

    def missing_now():
        return (need - cfgs) | ({"empty", "ascii", "non-latin", "gt32", "gt127", "owner=user"} - pws) | \
                  ({"streamdict", "metadata", "crypt.name", "crypt.arr", "crypt.nodp", "crypt.noname", "empty.str", "empty.stream", "long.str", "long.stream",
                    "pw.user.unencodable", "pw.owner.unencodable", "pw.emoji", "pw.mixed", "offer.differs.in.unencodable",
                    "rekey.V4+.to.V2-", "crypt.entry.belowV4", "two-revision.objstm.file.loaded", "two-revision.objstm.file.autodecrypt",
                    "two-revision.objstm.file.decrypt", "delete.member", "indirect.length.aes.viafile", "cf.custom-name.identity.default", "identity.override.name.dict.string",
                    "identity.override.noname.dict.string", "identity.override.nodp.dict.string", "identity.override.missing-name.dict.string", "empty.offer.with.empty.owner.R56", "crypt.indirect.parameters", "incremental.update.of.encrypted.file", "incremental.update.of.encrypted.file.emptypw", "metadata.dict.string.em=True", "metadata.dict.string.em=False",
                    "prep.mem", "prep.file-objstm", "prep.file-xrefstm", "objstm.container", "objstm.member", "edit", "member.edit.roundtrip"} - itemcls)

    # A seeded sample can miss one of the (many) demanded classes: further seeded batches are recorded and judged until
    # every class is there (at most 3; what is still missing then is reported as vacuity).
    missing, batch = missing_now(), 0
    while missing and batch < 3:
        batch += 1
        tr, ins = os.path.join(w, "rec%d.ndjson" % batch), os.path.join(w, "rec%d.inputs.ndjson" % batch)
        run_bin("c05", ["record", "--seed", vlib.seed() + 7919 * batch, "--n", nrec, "--out", tr, "--inputs", ins, "--threads", 4 if quick else 12])
        evs2 = read_ndjson(tr)
        vs2, d2, g2 = judge_events(tr, len(evs2), "c05rec%d" % batch, 2 if quick else 10, tcfg)
        chk.states += d2
        chk.transitions += g2
        in2 = {r["case"]: {k: r[k] for k in ("cfg", "user", "owner", "calls", "seed", "prep", "doc", "file") if k in r} for r in read_ndjson(ins)}
        seen2, drift2 = triage(chk, evs2, vs2, in2, None)
        for k, v in seen2.items():
            rseen[k] = rseen.get(k, 0) + v
        rdrift += drift2
        more = runs_of(evs2)
        c2, p2, i2 = classes_of(more)
        cfgs |= c2
        pws |= p2
        itemcls |= i2
        rruns += more
        revs += evs2
        missing = missing_now()
    chk.extra["recorded_batches"] = 1 + batch
    if missing:
        raise vlib.ToolError("vacuous trace set: classes never recorded: %s" % sorted(missing))
    # anti-vacuity from the inputs: the call patterns that exercise each clause were driven
    pat = set()
    for reset, calls in rruns:
        enc = file_enc = False
        for c in calls:
            right = "same" in (c["rel"]["u"], c["rel"]["o"])
            wrong = c["rel"]["u"] == "diff" and c["rel"]["o"] == "diff"
            if c["call"] == "Encrypt":
                enc = True
            elif c["call"] == "Decrypt" and enc:
                pat.add("decrypt.right" if right else "decrypt.wrong" if wrong else "decrypt.equiv")
                if right and file_enc:
                    pat.add("decrypt.right.viafile")
                if right:
                    pat.add("decrypt.user" if c["rel"]["u"] == "same" else "decrypt.owner")
                    enc = False
            elif c["call"] in ("AuthUser", "AuthOwner", "Auth") and enc:
                pat.add("auth.right" if right else "auth.wrong" if wrong else "auth.equiv")
            elif c["call"] == "Save" and enc:
                pat.add("save.enc")
            elif c["call"] == "Load" and "save.enc" in pat:
                file_enc = enc
                pat.add("load")
    miss = {"decrypt.right", "decrypt.wrong", "decrypt.user", "decrypt.owner", "decrypt.right.viafile", "auth.right", "auth.wrong", "save.enc", "load"} - pat
    if miss:
        raise vlib.ToolError("vacuous trace set: call patterns never driven: %s" % sorted(miss))
    chk.extra["recorded_runs"] = len(rruns)
    chk.extra["recorded_calls"] = len(revs) - len(rruns)
    chk.extra["model_drift"] = gdrift + rdrift
    chk.extra["verdict_classes_replay"] = dict(sorted(gseen.items()))
    chk.extra["verdict_classes_recorded"] = dict(sorted(rseen.items()))
    r0, c0 = rruns[0]
    chk.sample({"recorded": {"cfg": {k: r0["cfg"][k] for k in ("V", "R", "klen", "em", "stmf", "strf")},
                             "calls": [[c["call"], c["rel"], c["res"], sum(1 for x in c["items"] if x["eq"]), len(c["items"])] for c in c0][:8]}})
    chk.assumptions = ["perfect-cipher algebra: Dec(m,k,Enc(m,k,x)) = x, a wrong key never yields the plaintext (items >= 8 bytes)",
                       "SASLprep is the identity on the password alphabets used (ASCII, Latin-1 letters, Cyrillic, CJK)",
                       "revisions 2-4: an owner password whose PDFDocEncoding form is empty means 'no owner password'; the user password "
                       "then also is the owner password (Algorithm 3 a) and the empty password is not (password relations rel.o / cfg.e.o)"]
    # ------------- (B) negative controls on a hand-written conforming run
    negative_controls(chk, w)
    if not quick and not chk.violations:
        for f in (cin, cout):
            os.remove(f)      # hundreds of MB; every case can be regenerated from the seed
    return chk.finish()
