"""Shared by C01 and C03: record save/load cycles of seeded random documents with the harness and
have TLC (Trace_Lifecycle: StrictReader + Lifecycle judgements) judge every call."""
import json, os
import vlib
from vlib import run_bin, workdir, read_ndjson, log

TWO63 = 9223372036854775808
VACUITY = None


def big_integral_reals(j):
    """does the projected value contain a real with integral value and |x| >= 2^63 ?"""
    if isinstance(j, dict):
        if j.get("k") == "real" and j.get("int") and int("".join(str(d) for d in j.get("iv", [0])) or "0") >= TWO63:
            return True
        return any(big_integral_reals(v) for v in j.values())
    if isinstance(j, list):
        return any(big_integral_reals(v) for v in j)
    return False


def obj_of(doc, num):
    for o in doc["objects"]:
        if o[0] == num:
            return o[2]
    return None


def record_and_judge(tag, tier, n_quick=150, n_thorough=3000, max_objects=8):
    w = workdir(tag)
    n = n_quick if tier == "quick" else n_thorough
    tr = os.path.join(w, "trace.ndjson")
    run_bin("c01", ["record", "--seed", vlib.seed(), "--n", n, "--max-objects", max_objects, "--out", tr])
    recs = read_ndjson(tr)
    recs = add_sequential_loads(w, recs)
    bounds = [i for i, r in enumerate(recs) if r["ev"] == "Reset"]
    verdicts, states, trans = vlib.validate_trace("Trace_Lifecycle.tla", "Trace_Lifecycle.cfg", recs, tag,
                                                  boundaries=bounds, chunks=1 if tier == "quick" else 12)
    expected = sum(1 for r in recs if r["ev"] in ("Save", "Load", "File"))
    global VACUITY
    VACUITY = None
    if not any(r["ev"] == "Save" and r.get("cycle") == 3 for r in recs):
        # reported by the caller only if the run found no violation (a broken loader prevents these saves)
        VACUITY = "vacuous: no plain save of a document loaded from a two-revision file was recorded"
    if len(verdicts) != expected:
        raise vlib.ToolError("trace validator judged %d of %d calls" % (len(verdicts), expected))
    return recs, verdicts, states, trans


def resave_and_judge(tag, files, tier):
    """files of other producers (the specification's Producer) are loaded and saved plainly by lopdf (c01 resave);
    Trace_Lifecycle judges the saved file against the loaded document and the reload against it"""
    w = workdir(tag + "-resave")
    fin, tr = os.path.join(w, "files.ndjson"), os.path.join(w, "trace.ndjson")
    vlib.write_ndjson(fin, [{"bytes": f["bytes"]} for f in files])
    run_bin("c01", ["resave", "--in", fin, "--out", tr])
    recs = read_ndjson(tr)
    bounds = [i for i, r in enumerate(recs) if r["ev"] == "Reset"]
    verdicts, states, trans = vlib.validate_trace("Trace_Lifecycle.tla", "Trace_Lifecycle.cfg", recs, tag + "-resave",
                                                  boundaries=bounds, chunks=1 if tier == "quick" else 8)
    expected = sum(1 for r in recs if r["ev"] in ("Save", "Load", "File"))
    if len(verdicts) != expected:
        raise vlib.ToolError("trace validator judged %d of %d calls (resave)" % (len(verdicts), expected))
    return recs, verdicts, states, trans


def add_sequential_loads(w, recs):
    """every first-cycle saved file is also loaded by a lopdf built without the rayon feature (harness-seq);
    the extra Load event follows the parallel build's Load and is judged against the same saved document"""
    saves = [(i, r) for i, r in enumerate(recs) if r["ev"] == "Save" and r["res"] == "ok" and r.get("cycle") == 1]
    fin, fout = os.path.join(w, "seq-in.ndjson"), os.path.join(w, "seq-out.ndjson")
    vlib.write_ndjson(fin, [{"bytes": r["bytes"]} for _, r in saves])
    run_bin("loadseq", [fin, fout], crate="harness-seq")
    loaded = read_ndjson(fout)
    if len(loaded) != len(saves):
        raise vlib.ToolError("sequential loader answered %d of %d files" % (len(loaded), len(saves)))
    extra = {}
    for (i, r), l in zip(saves, loaded):
        # insert after the Load that follows this Save (if any), else right after the Save
        pos = i + 1 if i + 1 < len(recs) and recs[i + 1]["ev"] == "Load" else i
        extra[pos] = {"ev": "Load", "case": r["case"], "cycle": r.get("cycle"), "seq": True, "res": l["res"], "doc": l["doc"]}
    out = []
    for i, r in enumerate(recs):
        out.append(r)
        if i in extra:
            out.append(extra[i])
    return out


def negative_controls(tag, recs):
    """Corrupt one recorded field at a time; Trace_Lifecycle must reject each."""
    rejected, tried = 0, 0
    # first Save with an ok result and >= 2 objects followed by a Load
    for i, r in enumerate(recs):
        if r["ev"] == "Save" and r["res"] == "ok" and len(r["doc"]["objects"]) >= 2 and i + 1 < len(recs) and recs[i + 1]["ev"] == "Load":
            base = [{"ev": "Reset", "case": 0}, r, recs[i + 1]]
            muts = []
            # (a) a byte of an xref offset / startxref value in the file
            b = list(r["bytes"])
            pos = len(b) - 7  # inside "startxref\nNNN\n%%EOF": last digit of the number
            m = json.loads(json.dumps(base))
            m[1]["bytes"][pos] = 48 + (b[pos] - 48 + 1) % 10 if 48 <= b[pos] <= 57 else b[pos]
            muts.append(("startxref-digit", m, 1))
            # (b) the saved state claims an extra object
            m = json.loads(json.dumps(base))
            m[1]["doc"]["objects"].append([9999, 0, {"k": "null"}])
            m[1]["doc"]["max_id"] = 9999
            muts.append(("state-extra-object", m, 1))
            # (c) the loaded state lost an object
            m = json.loads(json.dumps(base))
            m[2]["doc"]["objects"] = m[2]["doc"]["objects"][1:]
            muts.append(("loaded-lost-object", m, 2))
            for name, m, idx in muts:
                tried += 1
                vs, _, _ = vlib.validate_trace("Trace_Lifecycle.tla", "Trace_Lifecycle.cfg", m, tag + "-neg-" + name)
                v = [x for x in vs if x["i"] == idx][0]
                bad = (not v["v"].startswith("ok")) or (not v["rt"]["v"].startswith("ok"))
                if bad:
                    rejected += 1
                else:
                    raise vlib.ToolError("negative control %s was accepted by Trace_Lifecycle" % name)
            break
    if tried == 0:
        raise vlib.ToolError("no record suitable for negative controls")
    return rejected


def sweep(tag):
    """thorough tier: the exhaustive 256 x 256 byte-pair sweep (names, literal and hex strings, dictionary keys,
    stream bodies), 1280 documents, judged like every other save/load cycle"""
    w = workdir(tag + "-sweep")
    tr = os.path.join(w, "pairs.ndjson")
    run_bin("c01", ["pairs", "--from", 0, "--to", 256, "--out", tr])
    recs = read_ndjson(tr)
    bounds = [i for i, r in enumerate(recs) if r["ev"] == "Reset"]
    verdicts, states, trans = vlib.validate_trace("Trace_Lifecycle.tla", "Trace_Lifecycle.cfg", recs, tag + "-sweep",
                                                  boundaries=bounds, chunks=12, timeout=3000)
    expected = sum(1 for r in recs if r["ev"] in ("Save", "Load"))
    if len(verdicts) != expected:
        raise vlib.ToolError("sweep: trace validator judged %d of %d calls" % (len(verdicts), expected))
    return recs, verdicts, states, trans
