"""C03 — saved files are valid PDF for a strict third-party reader."""
import json, os
import vlib
from vlib import Check
import lifecycle

META = {
    "property_id": "C03",
    "level": "model_checking",
    "technique": "TLA+ StrictReader (Syntax.tla byte automaton + FileStructure.tla layout checks) evaluated by TLC on every file lopdf saves (trace validation)",
    "text": "Every file written by lopdf for seeded random documents (both cross-reference formats, first and repeated saves) is read by the "
            "specification's strict reader inside TLC: a linear scan consumes every byte (header, binary comment, n g obj ... endobj, "
            "stream/Length/endstream, xref sections, trailer, startxref, %%EOF), then each revision's cross-reference data is checked against "
            "what the scan found (20-byte entries, exact header offsets and generations, one-to-one correspondence with the objects, W/Index/Length "
            "of XRef streams incl. the self entry, startxref target, Size > every object number). The recovered view must equal the saved document.",
    "note": "Trusted: TLC, the transcription of ISO 32000-1 7.2-7.5 in Syntax.tla/FileStructure.tla, the harness projection. Inputs are sampled. "
            "Incremental saves: IncrementalDocument rounds on lopdf-written and Producer-written bases, judged by Lifecycle!JudgeSaveInc.",
    "bins": ['c01', 'c02', 'c07'],
    "seq_bins": ['loadseq'],
    "modules": ['Trace_Lifecycle.tla'],
    "design_ref": "DESIGN.md section 4 C03",
}


def run(tier):
    chk = Check("C03", META["level"], tier)
    chk.rule = ("every Save of seeded random documents x {table, stream} x {first save, re-save of the loaded document}; distinct by bytes; "
                "non-trivial when the document has at least one object")
    chk.assumptions = [META["note"]]
    recs, verdicts, states, trans = lifecycle.record_and_judge("c03", tier)
    chk.states, chk.transitions = states, trans
    if tier == "thorough":
        # exhaustive sub-space: all 65536 byte pairs in each of five positions
        r2, v2, s2, t2 = lifecycle.sweep("c03")
        off = len(recs)
        for v in v2:
            v["i"] += off
        recs, verdicts = recs + r2, verdicts + v2
        chk.states += s2
        chk.transitions += t2
        chk.extra["byte_pair_sweep_documents"] = sum(1 for r in r2 if r["ev"] == "Save")
        chk.extra["byte_pair_sweep_exhaustive"] = True
    for v in verdicts:
        rec = recs[v["i"]]
        if rec["ev"] != "Save":
            continue
        chk.case(json.dumps(rec["bytes"]) if rec["doc"]["objects"] else None)
        if v["v"].startswith("ok"):
            chk.traces += 1
        else:
            sig = "C03:" + v["v"] + ((":" + v["d"]["err"]) if "err" in v["d"] else "")
            chk.violation(sig, {"verdict": v["d"], "doc": rec["doc"], "bytes": rec["bytes"], "fmt": rec["fmt"]})
    # incremental saves (C03 quantifies over plain AND incremental save): rounds of IncrementalDocument edits on
    # lopdf's own files and on Producer files, the appended revision judged by the same strict reader
    import c02, c07
    from vlib import run_bin, workdir, write_ndjson, read_ndjson
    w = workdir("c03inc")
    r_gen, bases = c02.gen_files(w, "b", 30, 60 if tier == "quick" else 600, vlib.seed() + 3, 6, 2)
    chk.add_tlc(r_gen)
    bp, tr2 = os.path.join(w, "bases.ndjson"), os.path.join(w, "inc.ndjson")
    write_ndjson(bp, bases)
    run_bin("c07", ["record", "--seed", vlib.seed() + 3, "--n", 30 if tier == "quick" else 600, "--bases", bp, "--out", tr2])
    c07.judge(chk, read_ndjson(tr2), "c03inc", tier, from_producer=False, prefix="C03")
    # files of other producers, loaded and saved plainly: nothing of the old file's structure (Prev, XRefStm, W, Index, object
    # streams, cross-reference streams) may leak into the new file.  Multi-revision files, every filter form, hybrid-reference
    # sections.
    r_h, hyb = c02.gen_files(w, "hy", 24, 40 if tier == "quick" else 400, vlib.seed() + 5, 6, 3, cfg="Gen_File_hybrid.cfg")
    chk.add_tlc(r_h)
    foreign = [f for f in hyb if f.get("hybrid")][:25 if tier == "quick" else 250] + bases[:25 if tier == "quick" else 250]
    if sum(1 for f in foreign if f.get("hybrid")) < 5:
        raise vlib.ToolError("vacuous: fewer than 5 hybrid-reference files to load and save again")
    r3, v3, s3, t3 = lifecycle.resave_and_judge("c03", foreign, tier)
    chk.states += s3
    chk.transitions += t3
    chk.extra["foreign_files_loaded_and_saved"] = len(foreign)
    chk.extra["of_those_hybrid_reference_files"] = sum(1 for f in foreign if f.get("hybrid"))
    for v in v3:
        rec = r3[v["i"]]
        if rec["ev"] != "Save":
            continue
        chk.case(json.dumps(rec["bytes"]) if rec["doc"]["objects"] else None)
        if v["v"].startswith("ok"):
            chk.traces += 1
        else:
            sig = "C03:resave." + v["v"] + ((":" + v["d"]["err"]) if "err" in v["d"] else "")
            chk.violation(sig, {"verdict": v["d"], "doc": rec["doc"], "bytes": rec["bytes"], "fmt": rec["fmt"]})
    for r in recs:
        if r["ev"] == "Save" and r["res"] == "ok" and len(r["doc"]["objects"]) >= 2:
            chk.sample({"fmt": r["fmt"], "saved_bytes_ascii": bytes(r["bytes"]).decode("latin-1")[:600]}, cap=2)
    if lifecycle.VACUITY and not chk.violations:
        raise vlib.ToolError(lifecycle.VACUITY)
    if not chk.violations:
        chk.extra["negative_controls_rejected"] = lifecycle.negative_controls("c03", recs)
    return chk.finish()
