"""C18 — dates convert to PDF date strings and back."""
import json, os
import vlib
from vlib import Check, tlc, run_bin, workdir, write_ndjson, read_ndjson

META = {
    "property_id": "C18",
    "level": "model_checking",
    "technique": "TLA+ spec (Dates: proleptic Gregorian calendar, PDF date grammar) model-checked by TLC; TLC-generated "
                 "(instant, offset, string) cases replayed into lopdf's chrono/jiff/time conversions; recorded lopdf "
                 "conversions judged by Trace_Dates",
    "text": "Domain: instants of (UTC) years 0001-9999 x offsets -23:59..+23:59. TLC checks that Parse(Fmt(i, off)) = (i, off) (and the Z, minute-precision and date-only forms) for all 2879 "
            "offsets -23:59..+23:59 at fixed instants and for boundary instants (years 0001, 0999/1000, leap days, 1970, "
            "2038, 9999) x boundary offsets, that the closed-form civil calendar equals 'day 0 = 0001-01-01, then the next "
            "day', and that the steps of src/datetime.rs (strftime with %:z', the backwards scan of convert_utc_offset, the "
            "datetime_string filter, the per-backend chains of strptime attempts) refine that. Every case is then driven "
            "through Object::from(DateTime<Local>|DateTime<Utc>|Zoned|Timestamp|OffsetDateTime) and every produced string "
            "(and the spec's own strings) through as_datetime().try_into() of all three backends; results must equal the "
            "declarative layer's. Seeded random (instant, offset) pairs over the whole domain are converted by lopdf and "
            "judged record by record by TLC. The first and last second of the domain are swept over the offsets (wall clock "
            "in years 0000 and 10000; thorough: all 2879), and marked cases are parsed again in processes that see no usable "
            "time zone database (TZDIR). History and zones with rules: TLC enumerates sequences of instants around "
            "both clock changes of zones with a POSIX daylight-saving rule (northern, southern, west of UTC, half-hour "
            "shifts, odd change times, fixed) and checks that the string is a function of the instant and the rule only "
            "(the design 'offset suffix cached by the first call' is refuted by TLC); each sequence is replayed in ONE "
            "process whose TZ is that rule through DateTime<Local>, a jiff Zoned of the same zone and OffsetDateTime, and "
            "seeded sequences over 1970-2100 are judged by TLC with the zone's offset computed in the spec.",
    "note": "Trusted: TLC, the transcription of ISO 32000-1 7.9.4 in Dates!Fmt/Parse, the harness's construction of backend "
            "values from (day, second, offset). DateTime<Local> is driven in a child process per offset with TZ set to a "
            "fixed POSIX offset; instants a backend's own type cannot hold (jiff: after 9999-12-30T22:00:00Z) are skipped. "
            "Exhaustive over offsets at the fixed instants only; instants are sampled.",
    "design_ref": "DESIGN.md section 4 C18",
}

UTC_TYPES = ("chrono_utc", "jiff_timestamp")
ASSUMPTIONS = [
    "Domain, from the statement's quantifier: the INSTANT (its UTC date) lies in years 0001-9999, the offset in "
    "-23:59..+23:59. The wall clock may then fall in year 0000 (four digits: judged like any other pair, must round-trip) "
    "or in year 10000 (last 23:59 of year 9999 at a positive offset): no PDF date string denotes such a pair, demanded is "
    "only that the produced string is a date string of the same instant (Trace_Dates!JudgeFmt, fmt-inexpressible).",
    "chrono DateTime<Local> is driven by running each offset in a child process with TZ=XXX<posix offset>; if Local does "
    "not report the requested offset the conversion is skipped (counted as env_skipped), never judged.",
    "All parsing runs in a child whose zone (UTC+07:17 / UTC-03:11) differs from the offset of every parsed string. The "
    "time zone database is a dimension of its own: marked cases are parsed again with TZ unset and TZDIR pointing at an "
    "empty directory (jiff falls back to the machine's database) and at a directory with one entry that is no zone (no "
    "GMT entry), every reader x every form, judged exactly (signature suffix .tzdb-empty / .tzdb-one). Only on the "
    "machine's own database is a jiff failure with a missing GMT entry skipped (env_skipped), so that the result does not "
    "depend on the host.",
    "A value the backend's own type cannot represent is skipped (na_skipped): jiff Timestamp/Zoned end at "
    "9999-12-30T22:00:00Z (limit asked from jiff at run time), so for the last 26 hours of year 9999 the jiff writers cannot "
    "be driven and the jiff reader refuses the strings chrono and time write (and D:99991231). These instants are inside "
    "the worded quantifier, but no code in lopdf can return a jiff::Zoned for them: a limit of the backend type, reported "
    "here, not counted as a lopdf violation. Likewise jiff and time cannot hold a wall clock in year 10000.",
    "Zones with a rule: TZ is a POSIX rule string (no tz database needed); a conversion is judged only when the value "
    "handed to lopdf has the offset the spec computes from the rule for that instant (chrono's / jiff's own zone "
    "arithmetic is not under test; counted as zone_env_skipped, vacuity error above 5%); time has no local-zone path in "
    "the harness build (feature local-offset is off), it is handed the rule's offset explicitly in the same process.",
    "chrono's parsed DateTime<Local> keeps no offset from the string: only the instant is compared for that backend.",
    "For the minute-precision / date-only forms the statement only says they parse; the check also compares the value "
    "with ISO 32000-1 7.9.4 (omitted fields 0, no UT relation = GMT); such a mismatch has its own signature.",
    "From<time::Time> (a literal %Y%m%d... string) is not among the conversions the property lists and is not judged.",
    "Wall-clock now() values of the repository's own tests are not used (seeded inputs only); their two literals are.",
]


def b2s(bs):
    return bytes(bs).decode("latin-1")


def signature(kind, cls):
    """Narrow class of a failing case.  cls comes from the spec-level classifier (OffClass / YearClass / form)."""
    if kind in ("fmt-mismatch", "fmt-panic", "fmt-inexpressible"):
        return "C18:%s.%s.%s.%s" % (kind, cls[0], cls[1], cls[2])
    if kind in ("zfmt-mismatch", "zfmt-panic"):                    # backend x history phase x offset class
        return "C18:%s.%s.%s.%s" % (kind, cls[0], cls[1], cls[2])
    # the time zone database the parsing process saw is part of the class when it is not the machine's own
    env = ".tzdb-" + cls[4] if kind.startswith("parse-") and len(cls) > 4 and cls[4] != "host" else ""
    if kind == "parse-fail" and cls[1] != "full":
        return "C18:parse-fail.%s.%s%s" % (cls[0], cls[1], env)          # backend x form (x environment)
    if kind.startswith("parse-"):
        return "C18:%s.%s.%s.%s.%s%s" % (kind, cls[0], cls[1], cls[2], cls[3], env)
    return "C18:" + kind


def beyond(rec, want):
    return (want["day"], want["sod"]) > (rec["hi_day"], rec["hi_sod"])


def judge_replay(cases, by_case, stats):
    """spec -> impl: compare lopdf's records with the values the declarative layer computed in TLC.
    Returns [(signature, detail)]."""
    out = []
    for cid, c in enumerate(cases):
        recs = by_case.get(cid, [])
        if not recs:
            raise vlib.ToolError("replay lost case %d" % cid)
        for r in recs:
            if r["ev"] == "crash":
                out.append(("C18:worker-crash", {"case": [c["day"], c["sod"], c["off"]], "status": r.get("status")}))
            elif r["ev"] == "fmt":
                utc = r["b"] in UTC_TYPES
                want = c["utc"] if utc else c["str"]
                cls = [r["b"]] + (c["cls_utc"] if utc else c["cls_off"])
                det = {"backend": r["b"], "day": c["day"], "sod": c["sod"], "off": c["off"], "expected": b2s(want)}
                if r["st"] == "na":
                    stats["na_skipped"] += 1
                elif r["st"] == "env":
                    stats["env_skipped"] += 1
                elif r["st"] == "panic":
                    out.append((signature("fmt-panic", cls), dict(det, panic=r.get("msg"))))
                elif not utc and not c["expr"]:
                    # wall clock in year 10000: there is no expected string; what the produced string denotes is
                    # judged by TLC (Trace_Dates!JudgeFmt) together with the recorded calls
                    stats["to_tlc"].append(r)
                elif r["s"] != want:
                    out.append((signature("fmt-mismatch", cls), dict(det, got=b2s(r["s"]))))
                else:
                    stats["fmt_ok"] += 1
            elif r["ev"] == "parse":
                k = next((k for k, l in enumerate(c["lits"]) if l["s"] == r["in"]), None)
                if k is None:
                    # a string lopdf produced wrongly (reported by its fmt record); or, for a pair without a date string
                    # (no literals in the case), whatever was produced: nothing is demanded of reading those here
                    stats["unjudged_strings" if c["expr"] else "strings_of_inexpressible_pairs"] += 1
                    continue
                lit = c["lits"][k]
                want = lit["want"]
                cls = [r["p"]] + lit["cls"] + [r["tzdb"]]
                stats["tzdb_judged"].add((r["tzdb"], r["p"], lit["cls"][0]))
                det = {"parser": r["p"], "input": b2s(r["in"]), "produced_by": r["srcs"], "tzdb": r["tzdb"],
                       "expected": {"day": want["day"], "sod": want["sod"], "off": want["off"]}}
                if not want["ok"] or not want["indom"]:
                    raise vlib.ToolError("generated literal is not a date in the domain: %s" % b2s(r["in"]))
                if beyond(r, want):
                    stats["na_skipped"] += 1
                elif r["st"] == "env":
                    stats["env_skipped"] += 1
                elif r["st"] == "panic":
                    out.append((signature("parse-panic", cls), dict(det, panic=r.get("msg"))))
                elif r["st"] != "ok":
                    out.append((signature("parse-fail", cls), dict(det, error=r.get("msg"))))
                elif (r["day"], r["sod"]) != (want["day"], want["sod"]):
                    out.append((signature("parse-instant", cls), dict(det, got={"day": r["day"], "sod": r["sod"]})))
                elif r["hasoff"] and r["off"] != want["off"]:
                    out.append((signature("parse-offset", cls), dict(det, got_off=r["off"])))
                else:
                    stats["parse_ok"] += 1
                    stats["pairs"].update((s, r["p"]) for s in r["srcs"])
                if (r["st"] == "ok") != c["impl_nogmt" if r["tzdb"] == "one" else "impl"][r["p"]][k] and not beyond(r, want):
                    stats["model_drift"] += 1
    return out


def to_cases(gen):
    return [{"id": i, "day": g["day"], "sod": g["sod"], "off": g["off"], "fmt": True, "envs": g["envs"],
             "lits": [l["s"] for l in g["lits"]]} for i, g in enumerate(gen)]


def group(recs):
    by = {}
    for r in recs:
        by.setdefault(r["case"], []).append(r)
    return by


def new_stats():
    return {"na_skipped": 0, "env_skipped": 0, "fmt_ok": 0, "parse_ok": 0, "unjudged_strings": 0, "strings_of_inexpressible_pairs": 0, "model_drift": 0,
            "pairs": set(), "to_tlc": [], "tzdb_judged": set(), "zone_env_skipped": 0, "zfmt_judged": 0, "zfmt_ok": {}}


def rule_tz(r):
    """POSIX TZ string of a rule record (same formatting as the harness): offsets are west-positive there."""
    po = lambda east: "%s%d:%02d" % ("-" if east > 0 else "", abs(east) // 60, abs(east) % 60)
    hms = lambda t: "%d:%02d:%02d" % (t // 3600, t // 60 % 60, t % 60)
    if r["std"] == r["dst"]:
        return "XST" + po(r["std"])
    return "XST%sXDT%s,M%d.%d.%d/%s,M%d.%d.%d/%s" % (po(r["std"]), po(r["dst"]), r["sm"], r["sw"], r["sd"], hms(r["st"]),
                                                     r["em"], r["ew"], r["ed"], hms(r["et"]))


def to_seqs(zs):
    return [{"run": k, "tz": rule_tz(z["rule"]), "rule": z["rule"],
             "steps": [{"day": t["day"], "sod": t["sod"], "off": t["off"]} for t in z["steps"]]} for k, z in enumerate(zs)]


def judge_zreplay(zs, recs, stats):
    """spec -> impl for sequences in one process under a zone with a rule: every produced string must be the one the
    declarative layer computed (LocalString = Fmt(i, ZoneOffset(rule, i))).  Returns [(signature, detail)]."""
    out = []
    by = {}
    for r in recs:
        by.setdefault(r["run"], []).append(r)
    for k, z in enumerate(zs):
        rs = by.get(k, [])
        if not rs:
            raise vlib.ToolError("zreplay lost sequence %d" % k)
        tz = rule_tz(z["rule"])
        for r in rs:
            if r["ev"] == "crash":
                out.append(("C18:worker-crash", {"tz": tz, "steps": [[t["day"], t["sod"]] for t in z["steps"]],
                                                 "status": r.get("status")}))
                continue
            t = z["steps"][r["step"] - 1]
            cls = [r["b"], t["phase"], t["offclass"]]
            det = {"tz": tz, "backend": r["b"], "step": r["step"], "day": t["day"], "sod": t["sod"],
                   "zone_offset_minutes": t["off"], "expected": b2s(t["str"]),
                   "converted_before_in_this_process": [b2s(x["str"]) for x in z["steps"][:r["step"] - 1]]}
            stats["zfmt_judged"] += 1
            if r["st"] == "na":
                stats["na_skipped"] += 1
            elif r["st"] == "env":
                stats["env_skipped"] += 1
            elif r["st"] == "panic":
                out.append((signature("zfmt-panic", cls), dict(det, panic=r.get("msg"))))
            elif r["loff"] != t["off"]:
                stats["zone_env_skipped"] += 1      # the backend's own zone arithmetic / TZ gave another offset: not judged
            elif r["s"] != t["str"]:
                out.append((signature("zfmt-mismatch", cls), dict(det, got=b2s(r["s"]))))
            else:
                key = "%s.%s" % (r["b"], t["phase"])
                stats["zfmt_ok"][key] = stats["zfmt_ok"].get(key, 0) + 1
    return out


def run(tier):
    chk = Check("C18", META["level"], tier)
    chk.assumptions = list(ASSUMPTIONS)
    chk.rule = ("(instant, offset) cases enumerated by TLC (MC_Dates: all 2879 offsets at fixed instants, boundary instants x "
                "boundary offsets) and seeded random cases; every case is non-trivial (five conversions and up to fifteen "
                "parses are judged); distinct by (day, second, offset)")
    w = workdir("c18")
    thorough = tier != "quick"
    # ---------------------------------------------------------------- (M) + (G)
    stats = new_stats()
    neg_rejected = 0
    total_local = 0
    # quick cfg: with TLC's action coverage (anti-vacuity); thorough cfg: the larger case set (same actions).  Both run
    # the design as the code is (Dev_h41 = FALSE since the fix: commit for the time backend: every form parses, no
    # counter-example); then, thorough only, the repaired defect seeded back (MC_Dates_seeded: the model must deviate
    # exactly on time x every form but the full one - ParseRefines/Deviates)
    # (B) TLC's action coverage is collected on the same module with a handful of offsets (MC_Dates_cov: -coverage makes
    # TLC re-evaluate the case sets, 70 s of start-up on the quick set); the case sets below exercise the same actions
    rc = tlc("MC_Dates.tla", "MC_Dates_cov.cfg", workers=4, coverage=True, timeout=3000)
    vlib.require_coverage(rc, ["CalYear", "Pick", "PickDirect", "Direct", "ConvertStep", "StripStep", "Attempt", "Done"])
    chk.add_tlc(rc)
    runs = [("MC_Dates_quick.cfg", True)] + ([("MC_Dates_thorough.cfg", False)] if thorough else [])
    for cfg, cov in runs:
        r = tlc("MC_Dates.tla", cfg, workers=16 if thorough else 4, coverage=False, timeout=3000,
                xmx="8g" if thorough else "4g")
        chk.add_tlc(r)
        gen = r.tagged("REPLAY")
        if not gen:
            raise vlib.ToolError("generator produced no cases")
        for g in gen:
            if g["expr"] and (g["lits"][0]["s"] != g["str"] or g["lits"][2]["s"] != g["utc"]):
                raise vlib.ToolError("unexpected literal order in REPLAY record")
        # anti-vacuity of the generated set
        sweep_offs = {}
        for g in gen:
            if g["sweep"]:
                sweep_offs.setdefault((g["day"], g["sod"]), set()).add(g["off"])
        if not any(len(v) == 2879 for v in sweep_offs.values()):
            raise vlib.ToolError("vacuous: no instant with all 2879 offsets generated")
        need = {("negsub", "y4"), ("neg", "y4"), ("possub", "y4"), ("pos", "y4"), ("zero", "y4"), ("neg", "ylt1000"),
                ("pos", "ylt1000"), ("negsub", "y0000"), ("neg", "y0000"), ("possub", "y10000"), ("pos", "y10000")}
        have = {tuple(g["cls_off"]) for g in gen}
        edge_offs = {}
        for g in gen:
            if g["edge"]:
                edge_offs.setdefault((g["day"], g["sod"]), set()).add(g["off"])
        if len(edge_offs) != 2 or any(len(v) < (2879 if "thorough" in cfg else 300) for v in edge_offs.values()):
            raise vlib.ToolError("vacuous: the first / last second of the domain are not swept over the offsets")
        if not any(g["envs"] for g in gen):
            raise vlib.ToolError("vacuous: no case marked for the time-zone-database environments")
        if not need <= have:
            raise vlib.ToolError("vacuous: generated cases miss classes %s" % sorted(need - have))
        if not any(b2s(g["str"]).startswith("D:20000229") for g in gen) or \
           not any(b2s(g["str"]).startswith("D:0000") for g in gen) or \
           not any(b2s(g["utc"]).startswith("D:00010101") for g in gen) or \
           not any(b2s(g["utc"]).startswith("D:99991231") for g in gen):
            raise vlib.ToolError("vacuous: leap day / first / last day missing from the generated cases")
        cin, cout = os.path.join(w, "gen.ndjson"), os.path.join(w, "gen.out.ndjson")
        write_ndjson(cin, to_cases(gen))
        run_bin("c18", ["replay", "--in", cin, "--out", cout])
        by_case = group(read_ndjson(cout))
        for sig, det in judge_replay(gen, by_case, stats):
            chk.violation(sig, det)
        for g in gen:
            chk.case((g["day"], g["sod"], g["off"]))
        chk.traces += len(gen)
        total_local += sum(1 for rs in by_case.values() for x in rs if x["ev"] == "fmt" and x["b"] == "chrono_local")
        chk.extra["replayed_behaviours"] = chk.extra.get("replayed_behaviours", 0) + len(gen)
        if cov:
            mid = gen[len(gen) // 2]
            chk.sample({"generated_case": {"day": mid["day"], "sod": mid["sod"], "off_minutes": mid["off"]},
                        "spec_string": b2s(mid["str"]), "spec_utc_string": b2s(mid["utc"]),
                        "lopdf": {x["b"]: b2s(x["s"]) for x in by_case[len(gen) // 2]
                                  if x["ev"] == "fmt" and x["st"] == "ok"}})
            # (B) replay-side negative control: a corrupted expected string must be reported
            k0 = next(k for k, g in enumerate(gen) if g["expr"])
            bad = json.loads(json.dumps(gen[k0]))
            bad["str"][16] = 45 if bad["str"][16] == 43 else 43
            nb = judge_replay([bad], {0: by_case[k0]}, new_stats())
            neg_rejected = 1 if any(s.startswith("C18:fmt-mismatch") for s, _ in nb) else 0
            if not neg_rejected:
                raise vlib.ToolError("replay negative control not rejected")
    chk.exhaustive = True
    if thorough:
        # the repaired defect h41 seeded back: exactly its deviation; and the design with the two open findings
        # repaired (Dev_gmt = Dev_y10k = FALSE): no deviation at all
        for cfg in ("MC_Dates_seeded.cfg", "MC_Dates_repaired.cfg"):
            chk.add_tlc(tlc("MC_Dates.tla", cfg, workers=16, timeout=3000, name=cfg[:-4]))
    # ---------------------------------------------------------------- (M) + (G): local zones with a rule, history
    # one behaviour = one process converting a sequence of instants of a zone with a daylight-saving rule; the string
    # is a function of the instant and the rule, never of earlier calls
    zruns = [("MC_DatesZone_quick.cfg", True)] + ([("MC_DatesZone_thorough.cfg", False)] if thorough else [])
    for cfg, cov in zruns:
        rz = tlc("MC_DatesZone.tla", cfg, workers=16 if thorough else 4, coverage=cov, timeout=3000)
        if cov:
            vlib.require_coverage(rz, ["Convert"])
        chk.add_tlc(rz)
        zs = rz.tagged("ZSEQ")
        offs = lambda z: [t["off"] for t in z["steps"]]
        if not any(o[0] != o[1] and o[2] == o[0] for o in map(offs, zs)) or \
           not any(z["rule"]["std"] > z["rule"]["dst"] - 60 and z["rule"]["std"] != z["rule"]["dst"] for z in zs) or \
           not any(z["rule"]["sm"] > z["rule"]["em"] for z in zs) or not any(z["rule"]["std"] == z["rule"]["dst"] for z in zs):
            raise vlib.ToolError("vacuous: no sequence crossing a clock change both ways / half-hour shift / southern "
                                 "rule / fixed zone generated")
        zin, zout = os.path.join(w, "zseq.ndjson"), os.path.join(w, "zseq.out.ndjson")
        write_ndjson(zin, to_seqs(zs))
        run_bin("c18", ["zreplay", "--in", zin, "--out", zout])
        zrecs = read_ndjson(zout)
        for sig, det in judge_zreplay(zs, zrecs, stats):
            chk.violation(sig, det)
        for z in zs:
            chk.case((rule_tz(z["rule"]),) + tuple((t["day"], t["sod"]) for t in z["steps"]))
        chk.traces += len(zs)
        chk.extra["replayed_sequences"] = chk.extra.get("replayed_sequences", 0) + len(zs)
        if cov:
            z = next(z for z in zs if offs(z)[0] != offs(z)[1] and offs(z)[2] == offs(z)[0])
            k = zs.index(z)
            chk.sample({"generated_sequence_in_one_process": {"TZ": rule_tz(z["rule"]),
                                                              "instants": [[t["day"], t["sod"]] for t in z["steps"]]},
                        "spec_strings": [b2s(t["str"]) for t in z["steps"]],
                        "lopdf_chrono_local": [b2s(x["s"]) for x in zrecs
                                               if x.get("run") == k and x.get("b") == "chrono_local" and x["ev"] == "zfmt"]})
            # (B) replay-side negative control: the string of the first offset expected at a step whose offset changed
            bad = json.loads(json.dumps(z))
            bad["steps"][1]["str"] = bad["steps"][1]["str"][:16] + bad["steps"][0]["str"][16:]
            nb = judge_zreplay([bad], [dict(x, run=0) for x in zrecs if x.get("run") == k], new_stats())
            if not any(sg.startswith("C18:zfmt-mismatch") for sg, _ in nb):
                raise vlib.ToolError("zone replay negative control not rejected")
            neg_rejected += 1
    # the seeded design "offset suffix rendered by the first call of the process and reused" must be refuted by TLC on
    # the zones with two offsets (and, thorough, cannot be on fixed zones: the blind spot of one process per fixed TZ)
    rs = tlc("MC_DatesZone.tla", "MC_DatesZone_seeded.cfg", workers=4, allow_violation=True, name="MC_DatesZone_seeded")
    if rs.violation != "LocalRefines":
        raise vlib.ToolError("the model does not refute the cached-offset design on zones with two offsets")
    chk.add_tlc(rs)
    if thorough:
        chk.add_tlc(tlc("MC_DatesZone.tla", "MC_DatesZone_seeded_fixed.cfg", workers=4, name="MC_DatesZone_seeded_fixed"))
    # ---------------------------------------------------------------- (V)
    n = 4000 if thorough else 300
    tr = os.path.join(w, "trace.ndjson")
    run_bin("c18", ["record", "--seed", vlib.seed(), "--n", n, "--out", tr])
    ztr = os.path.join(w, "ztrace.ndjson")
    run_bin("c18", ["zrecord", "--seed", vlib.seed(), "--n", 1500 if thorough else 64, "--out", ztr])
    recs = read_ndjson(tr) + stats.pop("to_tlc") + read_ndjson(ztr)
    write_ndjson(tr, recs)
    okrecs = validate(chk, tr, recs, stats)
    nneg = 0
    vac = list(stats.pop("vacuity", []))
    try:
        # (B) negative controls for the trace validator: corrupt one field of records it accepted
        neg = []
        pick = lambda cond, what: next((x for x in okrecs if cond(x)), None) or _no_control(what)
        f = pick(lambda x: x["ev"] == "fmt" and x["st"] == "ok" and x["b"] in ("time_odt", "jiff_zoned", "chrono_local"),
                 "accepted conversion with an offset")
        f = json.loads(json.dumps(f))
        f["s"][16] = 45 if f["s"][16] == 43 else 43            # flip the offset sign
        neg.append((f, "fmt-mismatch"))
        p = pick(lambda x: x["ev"] == "parse" and x["st"] == "ok" and x["sod"] < 86399, "accepted parse")
        p = json.loads(json.dumps(p))
        p["sod"] += 1                                           # one second off
        neg.append((p, "parse-instant"))
        q = pick(lambda x: x["ev"] == "parse" and x["st"] == "ok" and x["hasoff"], "accepted parse that keeps the offset")
        q = json.loads(json.dumps(q))
        q["off"] += 1                                           # one minute of offset off
        neg.append((q, "parse-offset"))
        zc = pick(lambda x: x["ev"] == "zfmt" and x["b"] == "chrono_local" and x["step"] > 1, "accepted later conversion of a run")
        z1 = pick(lambda x: x["ev"] == "zfmt" and x["b"] == "chrono_local" and x["step"] == 1 and x["run"] == zc["run"],
                  "first conversion of that run")
        neg.append((z1, "ok"))
        zc = json.loads(json.dumps(zc))
        zc["s"][18] = 48 + (zc["s"][18] - 48 + 1) % 10          # another hour in the offset suffix
        neg.append((zc, "zfmt-mismatch"))
        ntr = os.path.join(w, "neg.ndjson")
        write_ndjson(ntr, [x for x, _ in neg])
        rn = tlc("Trace_Dates.tla", "Trace_Dates.cfg", workers=1, env={"TRACE": ntr}, deque=True, name="c18neg")
        vs = rn.tagged("VERDICT")
        if len(vs) != len(neg) or any(v["v"] != want for v, (_, want) in zip(vs, neg)):
            raise vlib.ToolError("negative control was not rejected by Trace_Dates: %s" % vs)
        nneg = len(neg) - 1
    except vlib.ToolError as e:
        vac.append(str(e))
    chk.extra["negative_controls_rejected"] = neg_rejected + nneg
    # ---------------------------------------------------------------- bookkeeping
    total_local += sum(1 for x in recs if x["ev"] == "fmt" and x["b"] == "chrono_local")
    if stats["env_skipped"] * 20 > total_local:
        vac.append("chrono Local could not be driven through TZ for %d of %d conversions" % (
            stats["env_skipped"], total_local))
    if stats["zone_env_skipped"] * 20 > stats["zfmt_judged"]:
        vac.append("zones with a rule could not be driven: the backend's offset differed from the rule's for %d of %d "
                   "conversions" % (stats["zone_env_skipped"], stats["zfmt_judged"]))
    missing = [k for k in ("%s.%s" % (b, ph) for b in ("chrono_local", "jiff_zoned", "time_odt")
                           for ph in ("first", "same", "changed")) if stats["zfmt_ok"].get(k, 0) < 10]
    if missing:
        vac.append("vacuous: conversions in a zone with a rule never accepted for %s" % missing)
    tz_judged = stats.pop("tzdb_judged")
    tz_missing = sorted((e, p_, f_) for e in ("host", "empty", "one") for p_ in ("chrono", "jiff", "time")
                        for f_ in ("full", "fullZ", "min", "minZ", "date") if (e, p_, f_) not in tz_judged)
    if tz_missing:
        vac.append("vacuous: no parse judged for (time zone database, reader, form) %s" % tz_missing[:6])
    chk.extra["tzdb_reader_form_classes_judged"] = len(tz_judged)
    pairs = stats.pop("pairs")
    want_pairs = {(s, p) for s in ("chrono_local", "chrono_utc", "jiff_zoned", "jiff_timestamp", "time_odt")
                  for p in ("chrono", "jiff")} | {(s, "time") for s in ("chrono_local", "jiff_zoned", "time_odt")}
    if not want_pairs <= pairs:
        vac.append("vacuous: backend pairs never agreed: %s" % sorted(want_pairs - pairs))
    # vacuity is a tool error — unless lopdf's own (reported) misbehaviour is what emptied the classes
    if vac and not chk.violations:
        raise vlib.ToolError("; ".join(vac))
    if vac:
        chk.extra["vacuity_notes"] = vac
    chk.extra.update(stats)
    chk.extra["backend_pairs_ok"] = len(pairs)
    return chk.finish()


def _no_control(what):
    raise vlib.ToolError("no record suitable for the negative control (%s)" % what)


def validate(chk, tr, recs, stats):
    r = tlc("Trace_Dates.tla", "Trace_Dates.cfg", workers=1, env={"TRACE": tr}, deque=True, timeout=1800,
            name="c18trace")
    chk.add_tlc(r)
    verdicts = r.tagged("VERDICT")
    if len(verdicts) != len(recs):
        raise vlib.ToolError("trace validator judged %d of %d records" % (len(verdicts), len(recs)))
    seen_cls = set()
    okc = 0
    okrecs = []
    for v in verdicts:
        rec = recs[v["i"] - 1]
        kind = v["v"]
        if rec["ev"] == "fmt":
            if rec["b"] == "chrono_local":
                chk.case((rec["day"], rec["sod"], rec["off"]))
            seen_cls.add(tuple(v["cls"][1:]))
        if rec["ev"] == "zfmt":
            stats["zfmt_judged"] += 1
            if rec["b"] == "chrono_local":
                chk.case((rec["tz"], rec["day"], rec["sod"]))
            if kind == "ok":
                key = "%s.%s" % (rec["b"], v["cls"][1])
                stats["zfmt_ok"][key] = stats["zfmt_ok"].get(key, 0) + 1
            elif kind == "ok-env-zone":
                stats["zone_env_skipped"] += 1
        if rec["ev"] == "parse" and v["cls"][1] != "none":
            stats["tzdb_judged"].add((rec["tzdb"], rec["p"], v["cls"][1]))
        if kind == "ok-inexpressible":
            stats["inexpressible_ok"] = stats.get("inexpressible_ok", 0) + 1
        if kind == "spec-inconsistent":
            raise vlib.ToolError("Dates disagrees with itself on %s" % json.dumps(rec))
        if kind == "trace-order":
            raise vlib.ToolError("records of one process are not consecutive in the trace: %s" % json.dumps(rec)[:300])
        if kind.startswith("ok"):
            chk.traces += 1
            okc += 1
            if kind == "ok-drift":
                stats["model_drift"] += 1
            elif kind == "ok-na":
                stats["na_skipped"] += 1
            elif kind == "ok-env":
                stats["env_skipped"] += 1
            elif kind == "ok" and rec["ev"] == "parse":
                stats["pairs"].update((s, rec["p"]) for s in rec["srcs"])
            if kind == "ok":
                okrecs.append(rec)
            continue
        det = {k: rec[k] for k in rec if k not in ("s", "in", "hi_day", "hi_sod", "rule")}
        if "s" in rec:
            det["got"] = b2s(rec["s"])
        if "in" in rec:
            det["input"] = b2s(rec["in"])
        chk.violation(signature(kind, v["cls"]), det)
    need = {("negsub", "y4"), ("neg", "y4"), ("pos", "y4"), ("zero", "y4"), ("neg", "ylt1000"), ("pos", "ylt1000"),
            ("utc", "y4"), ("utc", "ylt1000")}
    if not need <= seen_cls:
        stats.setdefault("vacuity", []).append("vacuous trace set: classes never recorded: %s" % sorted(need - seen_cls))
    if okc < len(recs) // 2:
        stats.setdefault("vacuity", []).append("vacuous trace set: only %d of %d records acceptable" % (okc, len(recs)))
    s = next((x for x in okrecs if x["ev"] == "fmt" and x["off"] < 0), None)
    if s is None:
        return okrecs
    chk.sample({"recorded_call": "Object::from(%s)" % s["b"], "day": s["day"], "sod": s["sod"], "off_minutes": s["off"],
                "lopdf_string": b2s(s["s"])})
    p = next((x for x in okrecs if x["ev"] == "parse" and x["p"] == "time"), None)
    if p is not None:
        chk.sample({"recorded_call": "as_datetime().try_into::<time::OffsetDateTime>()", "input": b2s(p["in"]),
                    "produced_by": p["srcs"], "parsed": {"day": p["day"], "sod": p["sod"], "off_minutes": p["off"]}})
    return okrecs
