"""C13 — read-only queries are total on arbitrary object graphs."""
import json, os, random, collections, re
from concurrent.futures import ThreadPoolExecutor
import vlib
from vlib import Check, tlc, run_bin, workdir, write_ndjson, read_ndjson, log

META = {
    "property_id": "C13",
    "level": "exploration",
    "technique": "TLA+ spec (Queries): walker models of dereference / get_page_contents / get_page_resources / get_outlines / "
                 "get_named_destinations / get_toc / get_page_images / PageTreeIter::size_hint model-checked by TLC over typed-chaos "
                 "documents; every TLC-enumerated document and seeded larger ones are built as lopdf Documents and every public "
                 "read-only query is run in an isolated worker process; TLC (Trace_Queries) judges the recorded outcomes",
    "text": "TLC enumerates documents of <= 4 objects in which every key a walker reads is bound to a value of every kind class "
            "(null, bool, int -/0/+/huge, real, name expected/other, string, empty/short array, array of refs, dict, stream, ref to "
            "each object incl. self, dangling ref) and checks, per walker model transcribed from the code, that it reaches a final "
            "state within its variant, terminates (liveness) and never evaluates a partial operation; run 'as the code is' "
            "(the ten deviations repaired by fix: commits switched off, the two open depth deviations on) the model yields "
            "exactly the two open depth classes, with the repaired defects seeded back it violates totality (negative control). "
            "Depth dimension: on long ACYCLIC chains through every followed link (Parent, First, Next, Kids, wide Kids, page-tree "
            "Kids, Contents array, reference-to-reference chains) of every length around and beyond the modelled limits the walker "
            "automata carry their recursion depth against a machine stack of StackFrames frames; a walker without a budget is "
            "refuted by a behaviour whose stack grows with the chain, with the budgets (loop on Parent, depth limits on First/Kids) "
            "TLC finds none, and the closed form of outcome and depth as a function of the length is checked against the automata. "
            "The same families with 1 .. 100 000 links are run in lopdf on a 2 MiB thread stack. Every enumerated document plus seeded "
            "random chaos documents (<= 12 objects) is replayed into lopdf: all public read-only queries run in a child worker "
            "(panic, abort, stack overflow, hang are recorded per call) and the outcome must be a value or an error.",
    "note": "Oracle = absence of panic / abort / stack overflow / time-out, observed from outside the worker process. Exhaustive "
            "only inside the per-walker universes; the full product of all keys x all kinds is sampled (seeded). Documents are built "
            "in memory, not parsed. Filters, CMap and content-stream decoding inside the queries are exercised with four fixed "
            "stream bodies only (properties C09/C14/C15 own those). Stack exhaustion is relative to a stack size: the chain "
            "families run on a 2 MiB thread stack (Rust's default for spawned threads and rayon workers) in the harness's "
            "release build; the model treats the capacity as an interval (1 000 .. 65 536 frames) and names a crash *.depth only "
            "when the walker as the code is needs more than 1 000 frames on that chain. /Length chains are followed only by the "
            "loader (not a read-only query; the family only checks that no query trips over them).",
    "design_ref": "DESIGN.md section 4 C13",
    "bins": ["c13"],
    "modules": ["Queries.tla", "MC_Queries.tla", "Trace_Queries.tla"],
}

ACTIONS = ["StepDeref", "StepCont", "StepRsrc", "StepNd", "StepOut", "StepToc", "StepImg", "StepPg"]

# the classes the model produces "as the code is" (one Dev_ switch each that is still TRUE in the *_asis cfgs and in
# Trace_Queries.cfg); a missing one means the model went blind, an extra one that a switch is stale.  Empty since all
# nine deviations (outline.next.cycle, outline.first.cycle, outline.dest.short, nameddest.kids.cycle, nameddest.D.absent,
# nameddest.key.notstring, nameddest.val.short, images.colorspace.empty, pages.count.huge) are repaired in lopdf.
MODEL_CLASSES = set()              # outline.first.depth repaired by 451d70b;          # nameddest.kids.depth repaired by ebc2824
# (resources.parent.depth is repaired: fix eb0343c walks the Parent links in a loop; Dev_RsrcRecursion = FALSE in the as-is cfgs.)
# The *.depth classes are the depth dimension (long ACYCLIC chains: the cycle guards end cycles, nothing bounds the depth of the
# recursion on Parent / First / Kids).  In the MC runs they are produced by scenario "chain" with the machine stack and the
# budgets scaled down (StackFrames = 9 / 300): a prediction about the scale model, not about the enumerated document,
# which lopdf handles on any real stack.  At real scale the families of `c13 chains` (10 .. 100 000 links on a 2 MiB
# thread stack) show them.
DEPTH_CLASSES = {"resources.parent.depth", "outline.first.depth", "nameddest.kids.depth"}
NONE_VAL = {"k": "none", "n": 0, "s": "", "e": [], "d": []}


def as_doc_rec(doc, obs, ran, res, via=""):
    return {"fam": "", "len": 0, "via": via, "doc": doc, "obs": obs, "ran": ran, "res": res}


def as_fam_rec(r):
    return {"fam": r["fam"], "len": r["len"], "via": "", "doc": {"objs": [], "root": NONE_VAL}, "obs": r["obs"], "ran": True, "res": r["res"]}


# ---------------------------------------------------------------------------------------------------------------------
# Key vocabulary as a function of the tree under test.  Every b"Name" literal the anchored files hand to get / get_deref /
# has / get_dict_in_dict ... is harvested from $VERIF_REPO/src when the check runs.  (a) The random chaos generator draws
# its keys from that vocabulary.  (b) A systematic sweep binds every harvested key, in every dictionary the walkers of
# that file visit (host), to a value of every kind and to references forming cycles among visited dictionaries: host[K1]
# -> X, X/Y/Z linked by K2 as a rho, a self-loop beside the entry, a ring, a ring through the host, a self-loop, an open
# chain; once with the host as it is and once with each of its own entries removed (a fallback path often needs the usual
# entry to be absent).  A (file, key) pair that is not in BASELINE_KEYS — a key the code did not read when the walker
# models were last aligned with it — is swept exhaustively; the rest is sampled (seeded).
ANCHORED = ["document.rs", "outlines.rs", "destinations.rs", "toc.rs", "parser_aux.rs", "object.rs"]
LOOKUP = re.compile(r'\b(?:get|get_mut|get_deref|has|remove|get_dict_in_dict|get_object_in_dict)\s*\(\s*(?:[A-Za-z_&.]+\s*,\s*)?'
                    r'b"([A-Za-z][A-Za-z0-9]{0,30})"')
BASELINE_KEYS = {
    "document.rs": ["Annots", "BitsPerComponent", "CF", "CFM", "ColorSpace", "Contents", "Count", "DecodeParms", "Encrypt", "Filter",
                    "Font", "Height", "Kids", "Name", "Pages", "Parent", "Resources", "Root", "Subtype", "Type", "Width", "XObject"],
    "outlines.rs": ["A", "D", "Dest", "Dests", "First", "Names", "Next", "Outlines", "S", "Title"],
    "destinations.rs": ["D", "Kids", "Names", "Page", "Title"],
    "toc.rs": ["Page", "Title"],
    "parser_aux.rs": ["Index", "Length", "Size", "W"],
    "object.rs": ["BaseEncoding", "BitsPerComponent", "Colors", "Columns", "DecodeParms", "Differences", "EarlyChange", "Encoding",
                  "Filter", "Linearized", "Predictor", "ToUnicode", "Type"],
}
# objects of the 12-object skeleton (c13.rs skeleton()) the walkers of a file visit
HOSTS = {"outlines.rs": [1, 7, 8, 9], "toc.rs": [1, 7, 8], "destinations.rs": [1, 10, 11],
         "document.rs": [1, 2, 3, 12, 6], "parser_aux.rs": [3, 4], "object.rs": [5, 6, 4]}
SHAPES = {"rho": {0: 1, 1: 2, 2: 1}, "beside": {0: 1, 1: 1}, "ring": {0: 1, 1: 2, 2: 0}, "ringhost": {0: 1, 1: 2, 2: -1},
          "self": {0: 0}, "chain": {0: 1, 1: 2}}


def harvest_keys():
    out = {}
    for f in ANCHORED:
        path = os.path.join(vlib.REPO, "src", f)
        if not os.path.exists(path):
            raise vlib.ToolError("anchored file %s missing in %s" % (f, vlib.REPO))
        text = open(path, encoding="utf-8", errors="replace").read()
        cut = text.find("#[cfg(test)]")
        out[f] = sorted(set(LOOKUP.findall(text[:cut] if cut > 0 else text)))
    if sum(len(v) for v in out.values()) < 30 or "First" not in out["outlines.rs"] or "Parent" not in out["document.rs"]:
        raise vlib.ToolError("key harvest from %s/src looks broken: %s" % (vlib.REPO, out))
    return out


def V(k, n=0, s="", e=None, d=None):
    return {"k": k, "n": n, "s": s, "e": e or [], "d": d or []}


def node_template(host):
    dest = V("arr", e=[V("ref", 3), V("name", s="Fit")])
    if host in (7, 8, 9):
        return V("dict", d=[["Title", V("str", s="a")], ["Dest", dest]])
    if host in (10, 11):
        return V("dict", d=[["Names", V("arr", e=[V("str", s="t"), V("dict", d=[["D", dest]])])]])
    if host in (2, 3):
        return V("dict", d=[["Type", V("name", s="Pages")], ["Kids", V("arr")], ["Count", V("int", 0)]])
    return V("dict", d=[["Type", V("name", s="Font")]])


def set_key(obj, key, val):
    for p in obj["d"]:
        if p[0] == key:
            p[1] = val
            return
    obj["d"].append([key, val])


def sweep_docs(skeleton, harvested, quick, rng):
    """returns (records, stats): records = {"doc", "via", "novel"}; combinations are enumerated first, documents are built
    only for the chosen ones"""
    import copy
    n0 = len(skeleton)
    kinds = [V("null"), V("bool", 1), V("int", -1), V("int", 0), V("int", 2), V("int", 1 << 30), V("real"), V("name", s="Other"),
             V("str", s="t"), V("arr"), V("arr", e=[V("int", 1)]), V("dict"), V("stream"), V("ref", 0)]
    vals = kinds + [V("ref", i) for i in range(1, n0 + 1)]
    novel_pairs, combos_novel, combos_rest = [], [], []
    for f in ANCHORED:
        keys = harvested[f]
        new = [k for k in keys if k not in BASELINE_KEYS.get(f, [])]
        novel_pairs += [(f, k) for k in new]
        for host in HOSTS[f]:
            hobj = skeleton[host - 1]
            if hobj["k"] not in ("dict", "stream"):
                continue
            dels = [None] + [p[0] for p in hobj["d"]]
            for k1 in keys:
                for vi in range(len(vals)):       # every harvested key bound to every kind / a reference to each object
                    (combos_novel if k1 in new else combos_rest).append(("kind", host, k1, vi))
                for k2 in keys:                   # cycles: host[K1] -> X, X/Y/Z linked by K2
                    tgt = combos_novel if (k1 in new or k2 in new) else combos_rest
                    for shape in SHAPES:
                        for dl in dels:
                            if dl != k1:
                                tgt.append(("cycle", host, k1, k2, shape, dl))
    cap = 2500 if quick else 40000
    rng.shuffle(combos_rest)

    def build(c, isnew):
        objs = copy.deepcopy(skeleton)
        if c[0] == "kind":
            _, host, k1, vi = c
            set_key(objs[host - 1], k1, copy.deepcopy(vals[vi]))
            via = "kind.%s" % k1
        else:
            _, host, k1, k2, shape, dl = c
            nodes = [node_template(host) for _ in range(3)]
            for x, y in SHAPES[shape].items():
                set_key(nodes[x], k2, V("ref", host if y == -1 else n0 + 1 + y))
            h = objs[host - 1]
            if dl is not None:
                h["d"] = [p for p in h["d"] if p[0] != dl]
            set_key(h, k1, V("ref", n0 + 1))
            objs += nodes
            via = "cycle.%s.%s" % (k1, k2)
        return {"doc": {"objs": objs, "root": V("ref", 1)}, "via": via, "novel": isnew}

    recs = [build(c, True) for c in combos_novel] + [build(c, False) for c in combos_rest[:cap]]
    stats = {"keys_harvested": {f: harvested[f] for f in ANCHORED},
             "keys_read_by_the_code_but_not_in_the_baseline": ["%s:%s" % p for p in novel_pairs],
             "sweep_documents_for_new_keys": len(combos_novel), "sweep_documents_sampled_of_the_rest": min(cap, len(combos_rest)),
             "sweep_combinations_rest_total": len(combos_rest)}
    return recs, stats


def dkey(doc):
    return json.dumps(doc, sort_keys=True, separators=(",", ":"))


def nontrivial(doc, res):
    """some object is a dictionary a per-object query got into, or there is a reference chain to follow"""
    if any(o["k"] == "ref" for o in doc["objs"]):
        return True
    return any(t != "na" for t in res.get("nd", []))


def select(records, preds, caps, rng):
    """Budget the time-outs: of the documents the model predicts to hang (diverge) or to overflow the stack, execute a few
    representatives per class (and source scenario); everything else is executed.  preds[i] = list of (pc, cls, scenario)."""
    order = list(range(len(records)))
    rng.shuffle(order)
    used = collections.Counter()
    nskip = 0
    for i in order:
        rec = records[i]
        hang = sorted({(c, s) for pc, c, s in preds[i] if pc == "diverge"})
        over = sorted({(c, s) for pc, c, s in preds[i] if pc == "overflow"})
        if hang:
            if all(used[("h",) + h] >= caps["hang"] for h in hang):
                rec["skip"] = True
                nskip += 1
                continue
            for h in hang:
                used[("h",) + h] += 1
            rec["singles"] = True
            rec["expect_hang"] = True
        elif over:
            if all(used[("o",) + o] >= caps["overflow"] for o in over):
                rec["skip"] = True
                nskip += 1
                continue
            for o in over:
                used[("o",) + o] += 1
    return nskip


def mc_drift(p, res):
    """disagreement between one MC prediction and lopdf's result for that very call (never a violation)"""
    w, a, pc = p["w"], p["arg"], p["pc"]
    tag = None
    if w == "outl":
        tag = res["outl"]
    elif w == "toc":
        tag = res["toc"]
    elif w == "nd":
        tag = res["nd"][a - 1]
    elif w == "img":
        tag = res["img"][a - 1]
    elif w == "deref":
        if a == 0:
            return 0
        tag = res["deref"][a - 1]
    elif w == "cont":
        r = res["cont"][a - 1]
        return 1 if (r["t"] == "ok" and (pc != "ok" or r["ids"] != p["res"])) else 0
    elif w == "rsrc":
        r = res["rsrc"][a - 1]
        return 1 if (r["t"] in ("ok", "err") and (r["t"] != pc or (pc == "ok" and r["ids"] != p["res"]))) else 0
    elif w == "pages":
        r = res["pages"]
        return 1 if (r["t"] == "ok" and (pc != "ok" or r["ids"] != p["res"])) else 0
    if tag in ("ok", "err"):
        return 1 if tag != pc else 0
    return 0


def run(tier):
    chk = Check("C13", META["level"], tier)
    quick = tier == "quick"
    chk.rule = ("documents enumerated by TLC (MC_Queries scenarios: every key a walker reads x every kind class, <= 4 objects) and "
                "seeded random typed-chaos documents (<= 12 objects: random dictionaries and a well-formed 12-object skeleton with "
                "1-4 bindings replaced by a random kind; key names = those the sources under test look up, harvested at check time), "
                "a systematic sweep of every harvested key over the dictionaries the walkers visit (every kind; references forming "
                "rho / ring / self-loop shapes among visited nodes; host entries removed in turn; new keys exhaustively, the rest "
                "sampled) and deterministic long-chain families (11 families x lengths 1 .. 100 000, "
                "one evaluation each: 7 document-level + 14 per-object queries on the fixed objects, head, middle and end of the "
                "chain); each executed document = one evaluation (all public read-only queries on "
                "every object id); non-trivial = some object is a dictionary a per-object query entered or a reference chain exists; "
                "distinct by canonical JSON of the document")
    chk.assumptions = [
        "TLC and the transcription of the walkers in spec/Queries.tla",
        "the harness's document builder (Val -> lopdf::Object) and the supervisor's time limit (a call that needs more than the "
        "limit, confirmed with 3x the limit when not predicted, counts as a hang)",
        "documents are in-memory values; integers near i64::MAX stand for the class 'huge'",
        "a 2 MiB thread stack holds at least 1 000 and at most 65 536 frames of a recursive walker (measured: 175-770 bytes "
        "per level in the release build)",
    ]
    w = workdir("c13")
    rng = random.Random(vlib.seed())
    timeout_ms = 1500 if quick else 3000

    # ---------------------------------------------------------------- (M) model checking, three ways
    asis = ["MC_Queries_quick_asis.cfg"] + ([] if quick else ["MC_Queries_thorough_asis.cfg"])
    # *_iterative: the alternative repair of the First recursion (explicit work list instead of a depth limit)
    rep = ["MC_Queries_quick_repaired.cfg"] + ([] if quick else ["MC_Queries_thorough_repaired.cfg", "MC_Queries_quick_iterative.cfg"])
    jobs = ([("asis", c) for c in asis] + [("rep", c) for c in rep] + [("cex", "MC_Queries_quick_cex.cfg")]
            + [("dcex", "MC_Queries_depth_cex.cfg")])
    wk = 4 if quick else 8

    def mc(job):
        kind, cfg = job
        if kind == "asis":
            return tlc("MC_Queries.tla", cfg, workers=wk, coverage=True, timeout=3000, xmx="4g" if quick else "8g")
        if kind == "rep":
            return tlc("MC_Queries.tla", cfg, workers=wk, timeout=3000, xmx="4g" if quick else "8g")
        return tlc("MC_Queries.tla", cfg, workers=2 if kind == "cex" else 1, allow_violation=True, timeout=600)

    with ThreadPoolExecutor(max_workers=4 if quick else 7) as ex:
        results = list(ex.map(mc, jobs))
    cases = []
    states = transitions = 0
    for (kind, cfg), r in zip(jobs, results):
        states += r.distinct
        transitions += r.generated
        if kind == "asis":
            vlib.require_coverage(r, ACTIONS if "quick" in cfg else ["StepDeref", "StepNd", "StepOut", "StepRsrc"])
            cs = r.tagged("REPLAY")
            if not cs:
                raise vlib.ToolError("MC run %s emitted no behaviours" % cfg)
            cases += cs
        elif kind == "cex":
            # negative control of TotalInv: the nine repaired defects seeded back into the model (all Dev_ switches on)
            if r.violation != "TotalInv":
                raise vlib.ToolError("the model with the repaired defects seeded back does not violate TotalInv (got %s)" % r.violation)
        elif kind == "dcex":
            # a walker without a depth budget must be refuted by a behaviour whose stack grows with the chain:
            # the counter-example ends in overflow of a *.depth class with the whole machine stack in use
            import re
            last = r.raw[r.raw.rfind("\nState "):]
            md = re.search(r"/\\ md = (\d+)", last)
            ln = re.search(r"/\\ len = (\d+)", last)
            cls = re.findall(r'cls \|-> "([\w.]*)"', last)
            if r.violation != "TotalInv" or not md or not ln or not (set(cls) & DEPTH_CLASSES) or int(md.group(1)) < 8 \
                    or int(ln.group(1)) <= int(md.group(1)):
                raise vlib.ToolError("no depth counter-example: walkers without a budget are not refuted on the chain "
                                     "scenario (violation %s, md %s, len %s, cls %s)" % (r.violation, md and md.group(1), ln and ln.group(1), cls))
            chk.extra["mc_depth_counterexample"] = {"chain_length": int(ln.group(1)), "stack_depth_reached": int(md.group(1)),
                                                    "class": sorted(set(cls) & DEPTH_CLASSES)}
    mc_classes = collections.Counter(c["cls"] for c in cases if c["pc"] not in ("ok", "err"))
    missing = MODEL_CLASSES - set(mc_classes)
    if missing:
        raise vlib.ToolError("vacuous: the model 'as the code is' produced no counter-example of class %s" % sorted(missing))
    extra = set(mc_classes) - MODEL_CLASSES
    if extra:
        raise vlib.ToolError("the model 'as the code is' produced counter-examples of unexpected class %s" % sorted(extra))
    chk.extra.update({"mc_states": states, "mc_transitions": transitions, "mc_walker_runs": len(cases),
                      "mc_counterexample_classes_as_is": dict(sorted(mc_classes.items())),
                      "mc_counterexamples_as_repaired": 0,
                      "mc_outcomes": dict(collections.Counter(c["w"] + ":" + c["pc"] for c in cases))})

    # ---------------------------------------------------------------- (G) every enumerated document into lopdf
    docs, by_doc = [], {}
    cases.sort(key=lambda c: (c["sc"], dkey(c["doc"]), c["w"], c["arg"]))     # TLC's workers print in any order
    for c in cases:
        k = dkey(c["doc"])
        if k not in by_doc:
            by_doc[k] = len(docs)
            docs.append({"doc": c["doc"], "preds": [], "src": "mc:" + c["sc"]})
        if c["cls"] in DEPTH_CLASSES or (c["sc"] == "chain" and c["scaled"]):
            continue        # outcome on the scaled-down machine stack / limits (see DEPTH_CLASSES): not about this document
        docs[by_doc[k]]["preds"].append({"w": c["w"], "arg": c["arg"], "pc": c["pc"], "cls": c["cls"], "res": c["res"], "sc": c["sc"]})
    mrecs = [{"doc": d["doc"]} for d in docs]
    caps = {"hang": 1 if quick else 4, "overflow": 4 if quick else 25}
    nskip = select(mrecs, [[(p["pc"], p["cls"], p["sc"]) for p in d["preds"]] for d in docs], caps, rng)

    # ---------------------------------------------------------------- (V) seeded random documents: predict, execute, judge
    n = 500 if quick else 16000
    gpath = os.path.join(w, "random.ndjson")
    harvested = harvest_keys()
    allkeys = sorted({k for ks in harvested.values() for k in ks})
    run_bin("c13", ["gen", "--seed", vlib.seed(), "--n", n, "--keys", ",".join(allkeys), "--out", gpath])
    rdocs = read_ndjson(gpath)
    chunks = 3 if quick else 12
    pre, s1, t1 = vlib.validate_trace("Trace_Queries.tla", "Trace_Queries.cfg",
                                      [as_doc_rec(d["doc"], [], False, {}) for d in rdocs],
                                      "c13pre", boundaries=list(range(len(rdocs))), chunks=chunks)
    if len(pre) != len(rdocs):
        raise vlib.ToolError("prediction pass judged %d of %d documents" % (len(pre), len(rdocs)))
    rrecs = [{"doc": d["doc"]} for d in rdocs]
    rpreds = [[(b["pc"], b["cls"], "random") for b in v["pbad"]] for v in pre]
    nskip_r = select(rrecs, rpreds, {"hang": 1 if quick else 4, "overflow": 6 if quick else 40}, rng)
    # anti-vacuity: the random set contains documents of the classes the (now repaired) defects failed on
    rwas = collections.Counter(b["cls"] for v in pre for b in v["pwas"])
    if len(rwas) < 3:
        raise vlib.ToolError("vacuous random set: documents of only %d formerly failing classes" % len(rwas))
    chk.extra["random_documents_calls_of_formerly_failing_classes"] = dict(sorted(rwas.items()))

    # (V3) the systematic sweep of the harvested keys over the skeleton (the generator's first document)
    srecs_meta, sweep_stats = sweep_docs(rdocs[0]["doc"]["objs"], harvested, quick, rng)
    srecs = [{"doc": m["doc"]} for m in srecs_meta]
    chk.extra["key_vocabulary"] = sweep_stats
    nran = len(rrecs)
    allrecs = mrecs + rrecs + srecs
    cin, cout = os.path.join(w, "run.ndjson"), os.path.join(w, "run.out.ndjson")
    write_ndjson(cin, allrecs)
    run_bin("c13", ["run", "--in", cin, "--out", cout, "--timeout-ms", timeout_ms, "--mem-mb", 1024], timeout=3000)
    outs = read_ndjson(cout)
    if len(outs) != len(allrecs):
        raise vlib.ToolError("harness lost cases: %d of %d" % (len(outs), len(allrecs)))

    # ---------------------------------------------------------------- (V2) long acyclic chains: deterministic families
    fpath, fout = os.path.join(w, "chains.ndjson"), os.path.join(w, "chains.out.ndjson")
    run_bin("c13", ["gen-chains", "--seed", vlib.seed(), "--tier", tier, "--out", fpath])
    run_bin("c13", ["chains", "--in", fpath, "--out", fout, "--stack-kb", 2048, "--timeout-ms", 5000 if quick else 10000,
                    "--mem-mb", 2048], timeout=3000)
    fams = read_ndjson(fout)
    if len(fams) != len(read_ndjson(fpath)):
        raise vlib.ToolError("harness lost chain families")
    if not all(any(f["fam"] == x and f["len"] >= 20000 for f in fams) for x in ("parent", "first", "kids", "next", "refchain")):
        raise vlib.ToolError("vacuous chain families: no chain of >= 20 000 links for a followed link")

    # records for the judge: every executed random document, every executed document with an observation, a sample of the rest
    judged, jsrc = [], []
    nmc = len(mrecs)
    passing_mc = [i for i in range(nmc) if outs[i]["ran"] and not outs[i]["obs"]]
    rng.shuffle(passing_mc)
    # (chain-scenario documents have hundreds of objects in the thorough tier: the recursive *Run operators of the judge
    # are not meant for them; their outcomes are checked against the automata by ChainOK and against lopdf by mc_drift)
    keep = set([i for i in passing_mc if docs[i]["src"] != "mc:chain"][: (300 if quick else 3000)])
    passing_sw = [i for i in range(nmc + nran, len(allrecs)) if outs[i]["ran"] and not outs[i]["obs"]]
    rng.shuffle(passing_sw)
    keep |= set(passing_sw[: (300 if quick else 3000)])
    executed = 0
    drift = 0
    drift_examples = []
    seen_classes = collections.Counter()
    for i, (rec, o) in enumerate(zip(allrecs, outs)):
        if not o["ran"]:
            continue
        executed += 1
        key = dkey(rec["doc"])
        chk.case(key if nontrivial(rec["doc"], o["res"]) else None)
        if i < nmc:
            for p in docs[i]["preds"]:
                dd = mc_drift(p, o["res"]) if p["pc"] in ("ok", "err") else (0 if o["obs"] else 1)   # 1: predicted failure not shown
                drift += dd
                if dd and len(drift_examples) < 5:
                    drift_examples.append({"scenario": p["sc"], "walker": p["w"], "arg": p["arg"], "model": p["pc"], "model_result": p["res"][:8],
                                           "objects": len(rec["doc"]["objs"]),
                                           "lopdf": {k: (v if not isinstance(v, list) else v[max(0, p["arg"] - 1): p["arg"]]) for k, v in o["res"].items()}})
        if nmc <= i < nmc + nran or o["obs"] or i in keep:
            via = srecs_meta[i - nmc - nran]["via"] if i >= nmc + nran else ""
            judged.append(as_doc_rec(rec["doc"], o["obs"], True, o["res"], via))
            jsrc.append(i)
    # (B) negative controls ride along: an injected observation must be rejected, with a generic (not a known) signature
    ctl = next((i for i in passing_mc if docs[i]["src"] == "mc:toc"), passing_mc[0] if passing_mc else None)
    if ctl is None:
        raise vlib.ToolError("no passing document for the negative control")
    # ... and on the chain families: a crash of get_outlines on 50 000 SIBLINGS (a loop, no recursion) must not be taken
    # for the First-depth class, a crash on 100 nested levels (well inside any stack) not either
    fnext = next(f for f in fams if f["fam"] == "next" and f["len"] >= 20000)
    fshort = next(f for f in fams if f["fam"] == "first" and f["len"] == 100)
    inj = [{"q": "get_outlines", "id": 0, "kind": "crash", "msg": "injected"}]
    neg = [
        as_doc_rec(allrecs[ctl]["doc"], [{"q": "get_page_fonts", "id": 1, "kind": "panic", "msg": "injected"}], True, outs[ctl]["res"]),
        as_doc_rec(allrecs[ctl]["doc"], [{"q": "get_outlines", "id": 0, "kind": "hang", "msg": "injected"}], True, outs[ctl]["res"]),
        as_fam_rec(dict(fnext, obs=inj)),
        as_fam_rec(dict(fshort, obs=inj)),
    ]
    frecs = [as_fam_rec(f) for f in fams]
    nj, nf = len(judged), len(frecs)
    verdicts, s2, t2 = vlib.validate_trace("Trace_Queries.tla", "Trace_Queries.cfg", judged + frecs + neg, "c13judge",
                                           boundaries=list(range(nj + nf + len(neg))), chunks=chunks)
    if len(verdicts) != nj + nf + len(neg):
        raise vlib.ToolError("trace validator judged %d of %d records" % (len(verdicts), nj + nf + len(neg)))
    nv = verdicts[nj + nf:]
    ok_neg = (nv[0]["v"] == "bad" and nv[0]["sigs"] == ["get_page_fonts.panic"]
              and nv[1]["v"] == "bad" and nv[1]["sigs"] == ["get_outlines.hang"]
              and nv[2]["v"] == "bad" and nv[2]["sigs"] == ["get_outlines.crash"]
              and nv[3]["v"] == "bad" and nv[3]["sigs"] == ["get_outlines.crash"])
    chk.extra["negative_controls_rejected"] = 4 if ok_neg else 0
    if not ok_neg:
        raise vlib.ToolError("negative controls were not rejected as expected: %s" % nv)

    for v, i in zip(verdicts[: len(judged)], jsrc):
        o = outs[i]
        drift += v["drift"] if i >= nmc else 0
        if v["v"].startswith("ok"):
            continue
        if len(v["sigs"]) != len(o["obs"]):
            raise vlib.ToolError("verdict / observation mismatch in record %d" % i)
        for sig, ob in zip(v["sigs"], o["obs"]):
            seen_classes[sig] += 1
            chk.violation("C13:" + sig, {"doc": allrecs[i]["doc"], "query": ob["q"], "id": ob["id"], "outcome": ob["kind"],
                                         "msg": ob.get("msg", ""),
                                         "source": docs[i]["src"] if i < nmc else "random" if i < nmc + nran else
                                         "sweep:" + srecs_meta[i - nmc - nran]["via"]})
    # the chain families
    fam_calls = 0
    fam_fail = collections.Counter()
    for v, f in zip(verdicts[nj: nj + nf], fams):
        executed += 1
        fam_calls += f["calls"]
        chk.case("chain:%s:%d" % (f["fam"], f["len"]) if f["len"] >= 2 else None)
        drift += v["drift"]
        if v["v"].startswith("ok"):
            continue
        if len(v["sigs"]) != len(f["obs"]):
            raise vlib.ToolError("verdict / observation mismatch in chain family %s/%d" % (f["fam"], f["len"]))
        for sig, ob in zip(v["sigs"], f["obs"]):
            seen_classes[sig] += 1
            fam_fail[(f["fam"], sig)] = min(fam_fail.get((f["fam"], sig), 1 << 30), f["len"])
            chk.violation("C13:" + sig, {"family": f["fam"], "chain_length": f["len"], "thread_stack_kb": f["stack_kb"],
                                         "doc": "c13 chains family %s, %d links (objects 10..%d)" % (f["fam"], f["len"], 9 + f["len"]),
                                         "query": ob["q"], "id": ob["id"], "outcome": ob["kind"], "msg": ob.get("msg", ""),
                                         "source": "chains"})
    chk.extra["chain_families"] = {
        "families": sorted({f["fam"] for f in fams}), "lengths": sorted({f["len"] for f in fams}),
        "documents": len(fams), "calls": fam_calls, "thread_stack_kb": 2048,
        "shortest_failing_chain_by_family_and_signature": {"%s %s" % k: n for k, n in sorted(fam_fail.items())},
    }
    chk.evaluations = executed
    chk.exhaustive = False
    chk.states = chk.extra.get("mc_states", 0) + s1 + s2
    chk.transitions = chk.extra.get("mc_transitions", 0) + s1 + s2
    chk.traces = len(judged)
    chk.extra.update({
        "trace_states": s1 + s2, "documents_enumerated_by_tlc": nmc, "documents_random": len(rrecs), "documents_key_sweep": len(srecs),
        "documents_executed": executed, "skipped_predicted_hang_or_overflow": nskip + nskip_r,
        "records_judged_by_tlc": len(judged) + nf, "model_drift": drift, "model_drift_examples": drift_examples,
        "failing_calls_by_signature": dict(sorted(seen_classes.items())),
        "queries_per_document": "7 document-level + 14 per object id (ids 1..n and one dangling id)",
        "worker_limits": {"timeout_ms": timeout_ms, "address_space_mb": 1024},
    })
    # samples: one enumerated document with a predicted and observed failure, one passing, one random
    bad_mc = next((i for i in range(nmc) if outs[i]["ran"] and outs[i]["obs"]), None)
    if bad_mc is not None:
        chk.sample({"tlc_document": allrecs[bad_mc]["doc"], "model_predictions": [
            {k: p[k] for k in ("w", "arg", "pc", "cls")} for p in docs[bad_mc]["preds"]], "lopdf_observed": outs[bad_mc]["obs"][:3]})
    if passing_mc:
        i = passing_mc[0]
        chk.sample({"tlc_document": allrecs[i]["doc"], "model_predictions": [
            {k: p[k] for k in ("w", "arg", "pc", "cls")} for p in docs[i]["preds"]], "lopdf_results": outs[i]["res"]})
    fbad = next((f for f in fams if f["obs"]), None)
    if fbad is not None:
        chk.sample({"chain_family": fbad["fam"], "links": fbad["len"], "thread_stack_kb": fbad["stack_kb"],
                    "lopdf_observed": fbad["obs"][:4], "lopdf_results": fbad["res"]})
    ri = next((i for i in range(nmc, len(allrecs)) if outs[i]["ran"]), None)
    if ri is not None:
        chk.sample({"random_document_objects": allrecs[ri]["doc"]["objs"][:4], "lopdf_observed": outs[ri]["obs"][:3],
                    "lopdf_results": outs[ri]["res"]})
    return chk.finish()


def replay(path):
    """bin/verif replay C13 <evidence/replays/C13-n.json>: run the stored document through the harness again"""
    det = json.load(open(path))
    w = workdir("c13replay")
    cin, cout = os.path.join(w, "in.ndjson"), os.path.join(w, "out.ndjson")
    if det["detail"].get("source") == "chains":
        write_ndjson(cin, [{"fam": det["detail"]["family"], "len": det["detail"]["chain_length"]}])
        run_bin("c13", ["chains", "--in", cin, "--out", cout, "--stack-kb", det["detail"]["thread_stack_kb"]])
        o = read_ndjson(cout)[0]
        print(json.dumps({"signature": det["signature"], "recorded": {k: det["detail"][k] for k in ("family", "chain_length", "query", "id", "outcome")},
                          "now": o["obs"]}, indent=1))
        return 0 if not o["obs"] else 1
    write_ndjson(cin, [{"doc": det["detail"]["doc"], "singles": True}])
    run_bin("c13", ["run", "--in", cin, "--out", cout, "--timeout-ms", 3000])
    o = read_ndjson(cout)[0]
    print(json.dumps({"signature": det["signature"], "recorded": {k: det["detail"][k] for k in ("query", "id", "outcome", "msg")},
                      "now": o["obs"]}, indent=1))
    return 0 if not o["obs"] else 1
