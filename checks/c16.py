"""C16 — text strings and one-byte encodings round-trip text."""
import json, os
import vlib
from vlib import Check, tlc, run_bin, workdir, write_ndjson, read_ndjson, log

META = {
    "property_id": "C16",
    "level": "model_checking",
    "technique": "TLA+ spec (TextString) model-checked by TLC; TLC-enumerated strings / byte strings replayed into "
                 "lopdf::text_string / decode_text_string; recorded lopdf calls (five tables cell by cell, scalar sweep, "
                 "random strings, raw bytes, text extraction before and after save+load) judged by Trace_TextString",
    "text": "TLC explores every string of up to three scalar-class representatives (TAB/LF/CR, other C0, 0x18-0x1F, printable, "
            "DEL, Latin-1, BMP, U+FEFF, noncharacter, astral) and every byte string of up to three or four bytes over the bytes of "
            "both byte-order marks, NUL, a letter and surrogate lead bytes, runs decode_text_string's dispatch / chunk / "
            "finish steps transcribed from the source and checks them against the declarative layer: the encoded form "
            "(ASCII: no mark, one byte per character; otherwise FE FF + UTF-16BE computed by integer arithmetic), the "
            "BOM-dispatch decoder (UTF-16BE, UTF-8 without the mark, PDFDocEncoding rows from ISO 32000-1 Annex D) and "
            "the round trip. Every generated case is replayed into lopdf and compared with the declarative value. In the "
            "other direction lopdf's five reachable one-byte tables are dumped through get_font_encoding + decode_text / "
            "encode_text (1280 cells: decoding never fails, one valid unit per cell, re-encoding round trips, printable and "
            "0xA0-0xFF cells equal the transcribed WinAnsi / MacRoman / PDFDoc rows), text_string / decode_text_string are "
            "recorded for all scalars 0..0xFF, class boundaries, a stride through all 1,112,064 scalars, random strings, "
            "UTF-8-with-mark and malformed byte strings, and generated pages showing table text with Tj/TJ are extracted "
            "before and after save_to + load_mem; TLC judges every record. The fonts are a variety of font dictionaries "
            "(BaseFont Helvetica / Times-Roman / Symbol / ZapfDingbats / ABCDEF+Symbol / SegoeUISymbol / Arial-BoldMT ..., Subtype "
            "Type1 / TrueType / Type3 / MMType1, with and without FirstChar/LastChar/Widths/FontDescriptor) that all name a "
            "predefined /Encoding and have no /ToUnicode: each of the five tables is dumped through each dictionary (published "
            "rows and equality with the logged table), and pages are extracted with them. Text put on a page by "
            "Document::replace_text under two or three fonts of different encodings (replacement characters whose codes differ "
            "between the tables) must come back from extraction before and after save + reload. "
            "The extractor itself is an explicit state machine (spec/TextExtract.tla: one action per content operation -- Tf with a "
            "known / unknown font, a non-name operand, no operand; Tj/TJ with strings, nested arrays, integers around -100, other "
            "operands, no current encoding; ET; other operators; end of content; fonts that cannot be built or fail to decode). "
            "TLC checks on every operation sequence within the bounds that the automaton satisfies the declarative clauses "
            "(a) nothing lost / duplicated / reordered, (b) no chunk mixes two Tf selections, (c) extract_text fails iff a chunk is "
            "Err and is the concatenation otherwise, and that inside C16's domain the shown text comes back; every sequence is built "
            "as a real page and extract_text_chunks / extract_text are compared with the model exactly, also with the content split "
            "over several streams, re-encoded by Content::encode(Content::decode(..)) and after save + reload (clause (d)); random "
            "pages are judged the same way by Trace_TextExtract. Only a loss of shown text inside the domain is a violation; exact "
            "layout / chunk / error differences are listed as model drift. The call level is explicit too (MC_TextExtractCall): "
            "extract_text_chunks(page numbers) on documents whose pages bind the same font resource name to different fonts, for "
            "every list of page numbers within the bounds (any order, repeats, numbers that name no page) must be the concatenation "
            "of the one-page results (clause (e), per-page independence); the deviation switch 'font map carried over from earlier "
            "pages of the call' is refuted by TLC; every case is replayed into real documents (own / inherited / shadowing "
            "Resources), random 2-4 page documents with colliding names are judged by Trace_TextExtract, in memory and after reload.",
    "note": "Trusted: TLC, the transcription of Annex D rows in TextString!Published (cells whose Unicode value is ambiguous "
            "or undefined are left out and only checked for self-consistency), Rust's char/str for building inputs. "
            "Exhaustive for the model bounds and the 1280 table cells; scalar values beyond the boundaries are strided, "
            "strings and pages are sampled. StandardEncoding and MacExpertEncoding are only checked for self-consistency.",
    "design_ref": "DESIGN.md section 4 C16",
}

ENCS = ("StandardEncoding", "MacRomanEncoding", "MacExpertEncoding", "WinAnsiEncoding", "PDFDocEncoding")
MARK16 = [0xFE, 0xFF]
MARK8 = [0xEF, 0xBB, 0xBF]


def vacuous(chk, msg):
    """A vacuity guard never masks a violation: with unlisted violations found the run is reported as such (exit 1)."""
    if chk.violations:
        log("[C16] vacuity guard suppressed (violations present): %s" % msg[:300])
    else:
        raise vlib.ToolError(msg)


def judge_case(c, r):
    """One replayed case: returns (list of (signature, detail), drift:bool).  Only values computed by the
    declarative layer in TLC (encreq, exp) decide; impl/alts only name confirmed deviation classes."""
    out = []
    drift = False
    mode = c["mode"]
    det = {"mode": mode, "s": c["s"], "bytes_in": c["bytes"] if mode != "rt" else None, "lopdf": r,
           "expected": c["exp"], "classes": sorted(set(c["cls"]))}
    if mode == "rt":
        enc = r["enc"]
        req = c["encreq"]
        byte_form = not (enc[:2] == MARK16 or enc[:3] == MARK8 or len(enc) != req["len"])
        if req["kind"] == "onebyte":
            if not byte_form:
                out.append(("C16:enc.ascii-stays", dict(det, required=req)))
        elif req["kind"] == "either":
            # an ASCII string with a control PDFDocEncoding does not have: the byte form or FE FF + UTF-16BE
            if not byte_form and enc != req["bytes"]:
                out.append(("C16:enc.ascii-stays", dict(det, required=req)))
        elif enc != req["bytes"]:
            out.append(("C16:enc.utf16", dict(det, required=req)))
    exp, impl = c["exp"], c["impl"]
    st, d = r["st"], r["d"]
    clause = {"rt": "textrt", "u8": "utf8too", "raw": "dec." + c["br"]}[mode]
    if st == "panic":
        out.append(("C16:%s.panic" % clause, det))
    elif exp["def"]:
        if st == "ok" and d == exp["s"]:
            drift = impl != exp
        elif st == "ok" and (mode != "rt" or r["enc"] == c["bytes"]) and any(a["impl"] == {"def": True, "s": d} for a in c["alts"]):
            # lopdf returned exactly what the impl-shaped layer predicts for a set of deviations (alts range over all
            # five classes, the two repaired ones included, so that a regression carries its own signature)
            for a in c["alts"]:
                if a["impl"] == {"def": True, "s": d}:
                    for sg in a["sigs"]:
                        out.append(("C16:" + sg, det))
        else:
            out.append(("C16:" + clause, det))
    else:
        drift = (st == "ok") != impl["def"] or (st == "ok" and d != impl["s"])
    return out, drift


def nontrivial_case(c):
    return any(x >= 0x7F or x < 0x20 for x in c["s"]) or c["mode"] != "rt"


def run_mc(chk, cfg, tier, w, emit=True):
    r = tlc("MC_TextString.tla", cfg, workers=4 if tier == "quick" else 16, coverage=True, timeout=3000,
            xmx="4g" if tier == "quick" else "8g")
    vlib.require_coverage(r, ["Pick", "CallTextString", "MakeUtf8", "PickRaw", "Dispatch", "Chunk", "Finish"])
    chk.add_tlc(r)
    if not emit:
        return
    cases = r.tagged("REPLAY")
    if not cases:
        raise vlib.ToolError("generator produced no cases")
    # anti-vacuity on the generated set
    need = {
        "astral round trip": any(c["mode"] == "rt" and "astral" in c["cls"] for c in cases),
        "pure ASCII round trip": any(c["mode"] == "rt" and c["s"] and c["encreq"]["kind"] == "onebyte" for c in cases),
        "ASCII with a control outside PDFDocEncoding": any(c["mode"] == "rt" and c["encreq"]["kind"] == "either" for c in cases),
        "utf8 with mark": any(c["mode"] == "u8" and "bmp" in c["cls"] for c in cases),
        "odd-length UTF-16": any(c["mode"] == "raw" and c["br"] == "u16" and len(c["bytes"]) % 2 == 1 for c in cases),
        "lone mark": any(c["mode"] == "raw" and c["bytes"] == MARK16 for c in cases) and any(c["mode"] == "raw" and c["bytes"] == MARK8 for c in cases),
        "mark followed by mark": any(c["mode"] == "raw" and c["bytes"][:4] == MARK16 + MARK16 for c in cases),
        "undefined (malformed) input": any(c["mode"] == "raw" and not c["exp"]["def"] for c in cases),
    }
    missing = [k for k, v in need.items() if not v]
    if missing:
        vacuous(chk, "vacuous generated set: missing %s" % missing)
    cin, cout = os.path.join(w, "gen.ndjson"), os.path.join(w, "gen.out.ndjson")
    write_ndjson(cin, cases)
    run_bin("c16", ["replay", "--in", cin, "--out", cout])
    results = read_ndjson(cout)
    if len(results) != len(cases):
        raise vlib.ToolError("replay lost cases")
    for c, r in zip(cases, results):
        if r.get("own_utf8_equal") == "no":
            raise vlib.ToolError("spec's UTF-8 differs from Rust's for %s" % c["s"])
        chk.case((c["mode"], json.dumps(c["s"]), json.dumps(c["bytes"])) if nontrivial_case(c) else None)
        viols, drift = judge_case(c, r)
        for sig, det in viols:
            chk.violation(sig, det)
        if drift:
            chk.extra["model_drift"] = chk.extra.get("model_drift", 0) + 1
        chk.traces += 1
    chk.extra["replayed_behaviours"] = chk.extra.get("replayed_behaviours", 0) + len(cases)
    mid = next(i for i, c in enumerate(cases) if c["mode"] == "rt" and "astral" in c["cls"] and len(c["s"]) == 3)
    chk.sample({"generated_case": {k: cases[mid][k] for k in ("mode", "s", "encreq", "exp")},
                "lopdf": {k: results[mid][k] for k in ("enc", "fmt", "st", "d")}})
    odd = next(i for i, c in enumerate(cases) if c["mode"] == "raw" and c["br"] == "u16" and len(c["bytes"]) % 2 == 1)
    chk.sample({"generated_case": {k: cases[odd][k] for k in ("mode", "bytes", "exp")},
                "lopdf": {k: results[odd][k] for k in ("st", "d")}})
    # (B) negative control for the replay stepper: a corrupted expectation must be reported
    good = next(i for i, c in enumerate(cases) if c["mode"] == "rt" and not c["alts"] and "astral" in c["cls"])
    bad = json.loads(json.dumps(cases[good]))
    bad["exp"]["s"][0] ^= 1
    v, _ = judge_case(bad, results[good])
    if not v or any(s in chk.known for s, _ in v):
        raise vlib.ToolError("negative control: corrupted replay expectation was not reported")
    chk.extra["negative_controls_rejected"] = chk.extra.get("negative_controls_rejected", 0) + 1


# ------------------------------------------------------------------ TextExtract: the extractor as a state machine
LAYOUT = (32, 10)
XT_ACTIONS = ["TfKnown", "TfUnknown", "TfNotName", "TfNoOperand", "Show", "ShowNothing", "QuoteOp", "SaveFont", "RestoreFont",
              "EndText", "Other", "End"]


def strip_layout(t):
    return [c for c in t if c not in LAYOUT]


def norm_chunks(ch):
    return [(c["ok"] in (True, "yes"), list(c["t"])) for c in ch]


def drift(chk, tag, n=1):
    d = chk.extra.setdefault("model_drift_extract", {})
    d[tag] = d.get(tag, 0) + n


def xt_layers(c):
    """the impl-shaped layers TLC evaluated for the case: as run (rep) and every other combination of repairs whose
    result differs: [(set of repairs, chunks, et)]"""
    return [(set(c["rep"]), c["chunks"], c["et"])] + [(set(a["rep"]), a["chunks"], a["et"]) for a in c["alts"]]


def xt_same(o, chunks, et):
    return norm_chunks(o["chunks"]) == norm_chunks(chunks) and (o["et"]["ok"] == "yes") == et["ok"] and o["et"]["t"] == et["t"]


def xt_names(c, o, base_good):
    """the signatures a lost text is reported under (same naming as Trace_TextExtract)"""
    if o["call"] in ("panic", "build-panic"):
        return ["extract.panic"]
    if o["v"] != "base" and base_good:
        return ["extract.d.split-no-eol" if o["v"] == "split-raw" and o.get("merge") == "yes" else "extract.d." + o["v"]]
    # lopdf returned exactly what a layer that lacks a repair the page needs returns: the finding(s) of that name.
    # (layers not listed in alts return what the layer as run returns)
    needs = set(c["needs"])
    listed = xt_layers(c)
    same_et = lambda et: (o["et"]["ok"] == "yes") == et["ok"] and o["et"]["t"] == et["t"]
    lacking = [rep for rep, _, et in listed if same_et(et) and not needs <= rep]
    if same_et(c["et"]):
        # every unlisted combination equals the layer as run; the largest of them that still lacks a needed repair
        listed_reps = [rep for rep, _, _ in listed]
        for k in (3, 2, 1, 0):
            for rep in (set(x) for x in __import__("itertools").combinations(["quote-ops", "gstate-font", "et-flag"], k)):
                if rep not in listed_reps and not needs <= rep:
                    lacking.append(rep)
    if lacking:
        most = max(lacking, key=len)
        return sorted("extract." + x for x in needs - most)
    return [xt_name_clause(o, c["shown"])]


def xt_name_clause(o, shown):
    # the page as built lost text: which clause explains it (same order as Trace_TextExtract)
    oks = [c["t"] for c in o["chunks"] if c["ok"] == "yes"]
    if strip_layout([x for c in oks for x in c]) != strip_layout(shown):
        return "extract.a"
    all_ok = all(c["ok"] == "yes" for c in o["chunks"])
    if (o["et"]["ok"] == "yes") != all_ok or (all_ok and o["et"]["t"] != [x for c in oks for x in c]):
        return "extract.c"
    return "extract.err-chunk"


def xt_slim(rec):
    return {"fonts": [{k: f[k] for k in ("n", "kind", "okind", "real", "codes", "cells")} for f in rec["fonts"]],
            "ops": rec["ops"], "cut": rec["cut"],
            "obs": [{k: o[k] for k in ("v", "call", "chunks", "et", "merge", "msg")} for o in rec["obs"]]}


def xt_validate(chk, tr, recs, name):
    r = tlc("Trace_TextExtract.tla", "Trace_TextExtract.cfg", workers=1, env={"TRACE": tr}, deque=True, timeout=2400, name=name, xmx="6g")
    verdicts = r.tagged("VERDICT")
    if len(verdicts) != len(recs):
        raise vlib.ToolError("TextExtract validator judged %d of %d records" % (len(verdicts), len(recs)))
    return r, verdicts


def xt_take(chk, recs, verdicts, count=True):
    cats = {}
    for v in verdicts:
        rec = recs[v["i"] - 1]
        cats[v["cat"]] = cats.get(v["cat"], 0) + 1
        if count:
            chk.case(json.dumps([rec["fonts"], rec["ops"], rec["cut"]], sort_keys=True))
            chk.traces += v["nobs"]
        for f in v["vs"]:
            chk.violation("C16:" + f, {"page": xt_slim(rec), "verdict": f, "all": v["vs"], "model": v["model"]})
        for d in v["dr"]:
            drift(chk, d)
    return cats


def run_extract(chk, tier, w):
    """(M) MC_TextExtract, (G) its cases replayed into real pages, (V) recorded random pages, all judged exactly."""
    cfgs = ["MC_TextExtract_quick.cfg"] if tier == "quick" else ["MC_TextExtract_quick.cfg", "MC_TextExtract_thorough.cfg"]
    sampled, sampled_recs = [], []
    for cfg in cfgs:
        r = tlc("MC_TextExtract.tla", cfg, workers=4 if tier == "quick" else 16, coverage=True, timeout=3000,
                xmx="4g" if tier == "quick" else "8g")
        vlib.require_coverage(r, XT_ACTIONS)          # the model run itself: every action of the automaton taken
        chk.add_tlc(r)
        cases = r.tagged("REPLAY")
        # TLC's workers print in any order; the harness derives cuts / font-dictionary variants from the case index
        cases.sort(key=lambda c: json.dumps([c["fm"], c["ops"]], sort_keys=True))
        fonts_model = r.tagged("FONTS")[0]
        if not cases:
            raise vlib.ToolError("MC_TextExtract produced no cases")
        need = {
            "in-domain page with text": any(c["indomain"] and c["shown"] for c in cases),
            "in-domain pages that need each repair": all(any(c["indomain"] and c["shown"] and x in c["needs"] for c in cases) for x in ("quote-ops", "gstate-font")),
            "a layer that differs only by the ET separator rule": any(any(a["rep"] == ["et-flag"] for a in c["alts"]) for c in cases),
            "two chunks": any(sum(1 for x in c["chunks"] if x["ok"]) >= 2 for c in cases),
            "error chunk before pending text": any(len(c["chunks"]) >= 2 and not c["chunks"][0]["ok"] and c["chunks"][1]["ok"] for c in cases) or cfg != cfgs[0],
            "failed call": any(c["chunks"] == [{"ok": False, "t": []}] for c in cases) or cfg != cfgs[0],
        }
        missing = [k for k, v in need.items() if not v]
        if missing:
            vacuous(chk, "vacuous TextExtract case set: missing %s" % missing)
        cin, cout = os.path.join(w, "xgen.ndjson"), os.path.join(w, "xgen.out.ndjson")
        write_ndjson(cin, cases)
        run_bin("c16", ["xreplay", "--in", cin, "--out", cout, "--reload-every", 8 if tier == "quick" else 16])
        results = read_ndjson(cout)
        if len(results) != len(cases):
            raise vlib.ToolError("xreplay lost cases")
        mism = 0
        for i, (c, rec) in enumerate(zip(cases, results)):
            # the harness must realise exactly the model's font map
            for f in rec["fonts"]:
                mf = fonts_model[c["fm"]][f["n"]]
                if f["okind"] != mf["kind"] or any(mf["cells"][str(code)] != cell for code, cell in zip(f["codes"], f["cells"])):
                    if f["pre"] == "yes" and f["okind"] != "table":
                        chk.violation("C16:extract.font-not-decodable", {"font": f, "case": c["ops"]})
                    else:
                        vacuous(chk, "harness font %s of map %s is not the model's: %s vs %s" % (f["n"], c["fm"], f, mf))
            chk.case(json.dumps([c["fm"], c["ops"]]) if c["ops"] else None)
            base = rec["obs"][0]
            base_good = base["et"]["ok"] == "yes" and strip_layout(base["et"]["t"]) == strip_layout(c["shown"])
            for o in rec["obs"]:
                chk.traces += 1
                # exact: lopdf returned what the layer as the code is, or with some of the proposed repairs, returns
                exact = any(xt_same(o, ch, et) for _, ch, et in xt_layers(c))
                good = o["et"]["ok"] == "yes" and strip_layout(o["et"]["t"]) == strip_layout(c["shown"])
                if c["indomain"] and not good and o["call"] != "save-load-failed":
                    # C16: inside the domain the shown text (computed by the declarative layer in TLC) must come back
                    for sg in xt_names(c, o, base_good):
                        chk.violation("C16:" + sg, {"font_map": c["fm"], "ops": c["ops"], "cut": rec["cut"], "variant": o["v"],
                                                    "shown": c["shown"], "needs": c["needs"], "lopdf": {k: o[k] for k in ("call", "chunks", "et", "msg")},
                                                    "model_as_the_code_is": {"chunks": c["chunks"], "et": c["et"]}})
                elif not exact:
                    mism += 1
                    drift(chk, "replay.exact." + o["v"])
            # every in-domain case and a sample of the others are also judged by Trace_TextExtract
            if (c["indomain"] and (c["needs"] or i % 3 == 0)) or i % (10 if cfg == cfgs[0] else 40) == 0:
                if cfg == cfgs[0] or i % 8 == 0:
                    sampled.append(c)
                    sampled_recs.append(rec)
        chk.extra["extract_replayed_pages"] = chk.extra.get("extract_replayed_pages", 0) + len(cases)
        chk.extra["extract_replay_inexact_observations"] = chk.extra.get("extract_replay_inexact_observations", 0) + mism
        if cfg == cfgs[0]:
            k = next(i for i, c in enumerate(cases) if c["indomain"] and len(c["ops"]) == 3 and sum(1 for x in c["chunks"] if x["ok"]) == 2)
            chk.sample({"extract_case_ops": cases[k]["ops"], "model_chunks": cases[k]["chunks"],
                        "lopdf": [{kk: o[kk] for kk in ("v", "chunks")} for o in results[k]["obs"]][:2]})
    # (V) random pages (recorded driver) + the sampled replay pages, judged by Trace_TextExtract
    n = 700 if tier == "quick" else 12000
    tr = os.path.join(w, "xtrace.ndjson")
    run_bin("c16", ["xrecord", "--seed", vlib.seed(), "--n", n, "--out", tr])
    recs = read_ndjson(tr)
    allrecs = recs + sampled_recs
    write_ndjson(tr, allrecs)

    def walk(v):
        yield v
        if isinstance(v, dict) and v.get("k") == "arr":
            for x in v["v"]:
                yield from walk(x)
    def operands(rec):
        for o in rec["ops"]:
            for a in o["args"]:
                yield from walk(a)
    need = {
        "nested arrays": any(any(a["k"] == "arr" and any(x["k"] == "arr" for x in a["v"]) for a in operands(rec)) for rec in recs),
        "integers around -100": all(any(any(a["k"] == "int" and a["v"] == x for a in operands(rec)) for rec in recs) for x in (-101, -100, -99)),
        "other operand kinds": any(any(a["k"] == "other" for a in operands(rec)) for rec in recs),
        "Tf without operand / with a non-name": all(any(any(o["op"] == "Tf" and p(o["args"]) for o in rec["ops"]) for rec in recs)
                                                      for p in (lambda a: not a, lambda a: a and a[0]["k"] != "name")),
        "failing, broken and ToUnicode fonts": all(any(any(f["real"].startswith(s) for f in rec["fonts"]) for rec in recs) for s in ("GBK", "no /Type", "Identity-H")),
        "a multi-character cell": any(any(len(c) > 1 for f in rec["fonts"] for c in f["cells"]) for rec in recs),
        "every predefined encoding": all(any(any(f["real"].startswith(e) for f in rec["fonts"]) for rec in recs) for e in ENCS),
        "text shown by ' and by \" under a font": all(any(any(o["op"] == q and any(a["k"] == "str" and a["v"] for a in o["args"]) for o in rec["ops"]) for rec in recs) for q in ("'", '"')),
        "q and Q around a font change": sum(1 for rec in recs if any(o["op"] == "Q" for o in rec["ops"]) and any(o["op"] == "q" for o in rec["ops"])) >= 20,
        "a table with a line-feed cell (PDFDocEncoding) showing it": any(any(f["real"].startswith("PDFDocEncoding") and [10] in f["cells"] for f in rec["fonts"]) for rec in recs),
        "split, re-encoded and reloaded observations": all(sum(1 for rec in recs if any(o["v"] == v for o in rec["obs"])) >= len(recs) // 3
                                                            for v in ("split", "split-raw", "reenc", "reload")),
    }
    missing = [k for k, v in need.items() if not v]
    if missing:
        vacuous(chk, "vacuous recorded TextExtract set: missing %s" % missing)
    r, verdicts = xt_validate(chk, tr, allrecs, "c16xtrace")
    chk.add_tlc(r)
    cats = xt_take(chk, allrecs, verdicts)
    chk.extra["extract_record_categories"] = cats
    for t_, least in (("domain-text", 100), ("domain-text-needs", 30), ("domain-empty", 20), ("outside-clean", 50), ("outside-errors", 20)):
        if cats.get(t_, 0) < least:
            vacuous(chk, "vacuous TextExtract validation: only %d pages of category %s (need %d)" % (cats.get(t_, 0), t_, least))
    ex = next((rec for rec in recs if rec["src"] == "random" and len(rec["ops"]) >= 4 and len(rec["obs"][0]["chunks"]) >= 2), recs[0])
    chk.sample({"recorded_page_ops": ex["ops"][:6], "fonts": [f["real"] for f in ex["fonts"]],
                "extract_text_chunks": ex["obs"][0]["chunks"][:4]})

    # (B) negative controls, one per clause.  They are built from the recorded *inputs* and the model's own result for
    # them (so they exist whatever lopdf did): the model's observation is accepted by construction, the corrupted one
    # must be rejected under the name of the clause.
    def clone(x):
        return json.loads(json.dumps(x))

    def synth(pred, variants=("base", "reload")):
        for v in verdicts:
            rec = allrecs[v["i"] - 1]
            m = v["model"]
            if pred(v, m):
                rec = clone(rec)
                ob = {"call": "ok", "merge": "no", "msg": "",
                      "chunks": [{"ok": "yes" if c["ok"] else "no", "t": c["t"]} for c in m["chunks"]],
                      "et": {"ok": "yes" if m["et"]["ok"] else "no", "t": m["et"]["t"]}}
                rec["obs"] = [dict(clone(ob), v=x) for x in variants]
                return rec
        return None

    def textful(v, m):
        return v["cat"] == "domain-text" and m["et"]["ok"] and strip_layout(m["et"]["t"])

    def drop_last_char(t):
        i = max(i for i, c in enumerate(t) if c not in LAYOUT)
        del t[i]
    negs, want = [], []
    n0 = synth(textful)
    if n0:                                           # the uncorrupted synthetic observation is accepted exactly
        negs.append(n0); want.append(("v", "ok-exact"))
    na = synth(textful)
    if na:                                           # (a) a character is lost from the chunks and from the text
        b = na["obs"][0]
        ch = next(c for c in reversed(b["chunks"]) if c["ok"] == "yes" and strip_layout(c["t"]))
        drop_last_char(ch["t"]); drop_last_char(b["et"]["t"])
        negs.append(na); want.append(("vs", "extract.a"))
    nb = synth(lambda v, m: textful(v, m) and sum(1 for c in m["chunks"] if c["ok"] and strip_layout(c["t"])) >= 2)
    if nb:                                           # (b) two chunks of different Tf selections merged into one
        b = nb["obs"][0]
        b["chunks"] = [{"ok": "yes", "t": [x for c in b["chunks"] for x in c["t"]]}]
        negs.append(nb); want.append(("dr", "b.base"))
    nc = synth(textful)
    if nc:                                           # (c) extract_text is not the concatenation of the chunks
        drop_last_char(nc["obs"][0]["et"]["t"])
        negs.append(nc); want.append(("vs", "extract.c"))
    nd = synth(textful)
    if nd:                                           # (d) the reloaded page gives another text
        o = nd["obs"][1]
        ch = next(c for c in reversed(o["chunks"]) if c["ok"] == "yes" and strip_layout(c["t"]))
        drop_last_char(ch["t"]); drop_last_char(o["et"]["t"])
        negs.append(nd); want.append(("vs", "extract.d.reload"))
    ne = synth(lambda v, m: v["cat"] == "outside-errors" and len(m["chunks"]) >= 2 and any(not c["ok"] for c in m["chunks"]))
    if ne:                                           # exactness outside the domain: an error chunk disappears
        b = ne["obs"][0]
        b["chunks"] = [c for c in b["chunks"] if c["ok"] == "yes"]
        negs.append(ne); want.append(("dr", "exact.base"))
    if len(negs) < 6:
        vacuous(chk, "could not build all TextExtract negative controls (%d of 6)" % len(negs))
    ntr = os.path.join(w, "xneg.ndjson")
    write_ndjson(ntr, negs)
    _, nv = xt_validate(chk, ntr, negs, "c16xneg")
    got = [(v[k] == tag) if k == "v" else (tag in v[k]) for (k, tag), v in zip(want, nv)]
    if not all(got):
        vacuous(chk, "TextExtract negative controls not rejected as expected: want %s, got %s" % (want, [(v["v"], v["vs"], v["dr"]) for v in nv]))
    else:
        chk.extra["negative_controls_rejected"] = chk.extra.get("negative_controls_rejected", 0) + len(negs) - 1


XC_ACTIONS = ["PageBegin", "UnknownPage", "OpStep", "PageEnd", "CallEnd"]


def xc_name(rec, o, shown_good):
    """the clause a text lost by a multi-page call is reported under (same naming as Trace_TextExtract!JudgeCall)"""
    if o["call"] in ("panic", "build-panic"):
        return "extract.panic"
    if len(o["nums"]) > 1 and all(shown_good(o["v"], [n]) for n in o["nums"]):
        return "extract.e.page-list"
    if o["v"] == "reload" and shown_good("mem", o["nums"]):
        return "extract.d.reload"
    return "extract.a"


def run_extract_calls(chk, tier, w):
    """Call level of TextExtract: several pages in one extract_text_chunks / extract_text call (clause (e))."""
    cfg = "MC_TextExtractCall_quick.cfg" if tier == "quick" else "MC_TextExtractCall_thorough.cfg"
    r = tlc("MC_TextExtractCall.tla", cfg, workers=4 if tier == "quick" else 16, coverage=True, timeout=3000,
            xmx="4g" if tier == "quick" else "8g")
    vlib.require_coverage(r, XC_ACTIONS)
    chk.add_tlc(r)
    # the switch "font map carried over from earlier pages of the call": TLC must refute clause (e) for it, and every
    # refutation must be a collision of resource names between two pages of the call
    rc = tlc("MC_TextExtractCall.tla", "MC_TextExtractCall_carry.cfg", workers=4 if tier == "quick" else 16, timeout=3000)
    chk.add_tlc(rc)
    rr = tlc("MC_TextExtractCall.tla", "MC_TextExtractCall_carry_refuted.cfg", workers=1, timeout=3000, allow_violation=True)
    if rr.violation != "E":
        raise vlib.ToolError("the deviation switch 'carry' was not refuted by TLC (expected a violation of invariant E, got %s)" % rr.violation)
    chk.extra["dev_switch_carry_refuted"] = True
    cases = r.tagged("REPLAY")
    cases.sort(key=lambda c: json.dumps([c["pages"], c["nums"]], sort_keys=True))
    fonts_model = r.tagged("FONTS")[0]
    need = {
        "two pages binding /F1 to different predefined encodings, in one in-domain call": any(
            c["indomain"] and c["collision"] and len(set(c["nums"])) >= 2 and c["shown"] for c in cases),
        "repeats": any(len(c["nums"]) > len(set(c["nums"])) for c in cases),
        "a number that names no page": any(any(n > len(c["pages"]) for n in c["nums"]) for c in cases),
    }
    missing = [k for k, v in need.items() if not v]
    if missing:
        vacuous(chk, "vacuous call-level case set: missing %s" % missing)
    cin, cout = os.path.join(w, "xcgen.ndjson"), os.path.join(w, "xcgen.out.ndjson")
    write_ndjson(cin, cases)
    run_bin("c16", ["xcreplay", "--in", cin, "--out", cout, "--reload-every", 4 if tier == "quick" else 8])
    results = read_ndjson(cout)
    if len(results) != len(cases):
        raise vlib.ToolError("xcreplay lost cases")
    sampled = []
    mism = 0
    for i, (c, rec) in enumerate(zip(cases, results)):
        for p, pc in zip(rec["pages"], c["pages"]):
            for f in p["fonts"]:
                mf = fonts_model[pc["fm"]][f["n"]]
                if f["okind"] != mf["kind"] or any(mf["cells"][str(code)] != cell for code, cell in zip(f["codes"], f["cells"]) if str(code) in mf["cells"]):
                    if f["pre"] == "yes" and f["okind"] != "table":
                        chk.violation("C16:extract.font-not-decodable", {"font": f, "case": c["pages"]})
                    else:
                        vacuous(chk, "harness font %s of page map %s is not the model's: %s vs %s" % (f["n"], pc["fm"], f, mf))
        chk.case(json.dumps([c["pages"], c["nums"]]) if c["nums"] else None)
        # shown text of a one-page call = what the declarative layer computed for the case with that single number:
        # here only "did the page alone come back" is needed, which the harness observed next to the list
        single_shown = {}
        def shown_good(v, nums, rec=rec, c=c):
            # in-domain pages only (the case is in the domain): the one-page observation must be ok; its text is judged
            # by the one-page cases of the same document elsewhere in the case set
            obs = [o for o in rec["calls"] if o["v"] == v and o["nums"] == nums]
            if nums == c["nums"]:
                return any(o["et"]["ok"] == "yes" and strip_layout(o["et"]["t"]) == strip_layout(c["shown"]) for o in obs)
            return any(o["et"]["ok"] == "yes" for o in obs) and single_ok.get((v, tuple(nums)), True)
        single_ok = {}
        for o in rec["calls"]:
            if o["nums"] != c["nums"]:
                continue
            chk.traces += 1
            exact = (norm_chunks(o["chunks"]) == norm_chunks(c["chunks"]) and (o["et"]["ok"] == "yes") == c["et"]["ok"]
                     and o["et"]["t"] == c["et"]["t"])
            good = o["et"]["ok"] == "yes" and strip_layout(o["et"]["t"]) == strip_layout(c["shown"])
            if c["indomain"] and not good and o["call"] != "save-load-failed":
                chk.violation("C16:" + xc_name(rec, o, shown_good), {
                    "pages": [{"fonts": [f["real"] for f in p["fonts"]], "ops": p["ops"], "res": p["res"]} for p in rec["pages"]],
                    "page_numbers": o["nums"], "variant": o["v"], "shown": c["shown"],
                    "lopdf": {k: o[k] for k in ("call", "chunks", "et", "msg")}, "model": {"chunks": c["chunks"], "et": c["et"]}})
            elif not exact:
                mism += 1
                drift(chk, "replay.exact.call." + o["v"])
        if i % 12 == 0 or (c["indomain"] and c["collision"] and i % 3 == 0):
            sampled.append(rec)
    chk.extra["extract_replayed_calls"] = len(cases)
    chk.extra["extract_replay_inexact_call_observations"] = mism
    k = next(i for i, c in enumerate(cases) if c["indomain"] and c["collision"] and c["nums"] == [2, 1])
    chk.sample({"call_case_pages": cases[k]["pages"], "page_numbers": cases[k]["nums"], "model_chunks": cases[k]["chunks"],
                "lopdf_chunks": [o["chunks"] for o in results[k]["calls"] if o["nums"] == [2, 1]][:1]})
    # (V) random documents of 2-4 pages with colliding resource names
    n = 120 if tier == "quick" else 2500
    tr = os.path.join(w, "xctrace.ndjson")
    run_bin("c16", ["xcrecord", "--seed", vlib.seed(), "--n", n, "--out", tr])
    recs = read_ndjson(tr)
    def enc_of(f):
        return f["real"].split(":")[0]
    need = {
        "pages binding one name to different predefined encodings": sum(1 for rec in recs if len({enc_of(f) for p in rec["pages"] for f in p["fonts"] if f["n"] == "F1" and f["pre"] == "yes"}) >= 2) >= len(recs) // 4,
        "a name bound to a ToUnicode font / a broken font on one page and a predefined one on another": all(
            any(any(f["real"].startswith(s) for p in rec["pages"] for f in p["fonts"]) and any(f["pre"] == "yes" for p in rec["pages"] for f in p["fonts"]) for rec in recs)
            for s in ("Identity-H", "no /Type")),
        "own, inherited and shadowing resources": all(any(any(p["res"] == x for p in rec["pages"]) for rec in recs) for x in ("own", "inherited", "both")),
        "reversed lists, repeats, unknown numbers": all(any(any(pred(o["nums"], len(rec["pages"])) for o in rec["calls"]) for rec in recs) for pred in (
            lambda l, n: len(l) >= 2 and l == sorted(l, reverse=True) and len(set(l)) == len(l),
            lambda l, n: len(l) > len(set(l)), lambda l, n: any(x == 0 or x > n for x in l))),
        "2, 3 and 4 pages": all(any(len(rec["pages"]) == k for rec in recs) for k in (2, 3, 4)),
        "reloaded documents": sum(1 for rec in recs if any(o["v"] == "reload" and o["call"] == "ok" for o in rec["calls"])) >= len(recs) // 2,
    }
    missing = [k for k, v in need.items() if not v]
    if missing:
        vacuous(chk, "vacuous recorded multi-page set: missing %s" % missing)
    allrecs = recs + sampled
    write_ndjson(tr, allrecs)
    r2, verdicts = xt_validate(chk, tr, allrecs, "c16xctrace")
    chk.add_tlc(r2)
    cats = {}
    for v in verdicts:
        rec = allrecs[v["i"] - 1]
        cats[v["cat"]] = cats.get(v["cat"], 0) + 1
        chk.case(json.dumps([[(p["fonts"], p["ops"], p["res"]) for p in rec["pages"]], [o["nums"] for o in rec["calls"]]], sort_keys=True))
        chk.traces += v["nobs"]
        for f in v["vs"]:
            chk.violation("C16:" + f, {"pages": [{"fonts": [(x["n"], x["real"]) for x in p["fonts"]], "ops": p["ops"], "res": p["res"]} for p in rec["pages"]],
                                       "calls": [{k: o[k] for k in ("v", "nums", "call", "chunks", "et")} for o in rec["calls"]][:12],
                                       "verdict": f, "all": v["vs"][:10]})
        for d in v["dr"]:
            drift(chk, d)
    chk.extra["extract_call_record_categories"] = cats
    for t_, least in (("call-domain-collision", 40), ("call-outside", 10)):
        if cats.get(t_, 0) < least:
            vacuous(chk, "vacuous multi-page validation: only %d documents of category %s (need %d)" % (cats.get(t_, 0), t_, least))
    # (B) negative controls for clause (e), built from recorded inputs + the model's own results
    def clone(x):
        return json.loads(json.dumps(x))
    def synth(cat):
        for v in verdicts:
            rec = allrecs[v["i"] - 1]
            if v["cat"] != cat:
                continue
            rec = clone(rec)
            for o, m in zip(rec["calls"], v["model"]["calls"]):
                o["call"] = "ok"
                o["chunks"] = [{"ok": "yes" if c["ok"] else "no", "t": list(c["t"])} for c in m["chunks"]]
                o["et"] = {"ok": "yes" if m["et"]["ok"] else "no", "t": list(m["et"]["t"])}
            multi = [o for o in rec["calls"] if len(set(o["nums"])) >= 2 and o["v"] == "mem" and (cat == "call-outside" or (o["et"]["ok"] == "yes" and strip_layout(o["et"]["t"])))]
            if multi:
                return rec, multi[0]
        return None, None
    negs, want = [], []
    n0, _ = synth("call-domain-collision")
    if n0:
        negs.append(n0); want.append(("v", "ok-exact"))
    n1, o = synth("call-domain-collision")
    if n1:                                           # (e) the list loses a character that every page alone returns
        ch = next(c for c in reversed(o["chunks"]) if c["ok"] == "yes" and strip_layout(c["t"]))
        i = max(i for i, c in enumerate(ch["t"]) if c not in LAYOUT); ch["t"][i] ^= 1
        j = max(i for i, c in enumerate(o["et"]["t"]) if c not in LAYOUT); o["et"]["t"][j] ^= 1
        negs.append(n1); want.append(("vs", "extract.e.page-list"))
    n2, o = synth("call-outside")
    if n2:                                           # (e) outside the domain: a chunk more than the pages alone give
        o["chunks"].insert(0, {"ok": "no", "t": []}); o["et"] = {"ok": "no", "t": []}
        negs.append(n2); want.append(("dr", "e.call.mem"))
    if len(negs) < 3:
        vacuous(chk, "could not build all call-level negative controls (%d of 3)" % len(negs))
    ntr = os.path.join(w, "xcneg.ndjson")
    write_ndjson(ntr, negs)
    _, nv = xt_validate(chk, ntr, negs, "c16xcneg")
    got = [(v[k] == tag) if k == "v" else (tag in v[k]) for (k, tag), v in zip(want, nv)]
    if not all(got):
        vacuous(chk, "call-level negative controls not rejected as expected: want %s, got %s" % (want, [(v["v"], v["vs"][:3], v["dr"][:3]) for v in nv]))
    else:
        chk.extra["negative_controls_rejected"] = chk.extra.get("negative_controls_rejected", 0) + len(negs) - 1


def table_sig(f, rec):
    if f.startswith("table.") and rec["k"] == "cell":
        return "C16:%s.%s.0x%02X" % (f, rec["e"], rec["b"])
    if f.startswith("table.") and rec["k"] == "vtab":
        return "C16:%s.%s[%s]" % (f, rec["e"], rec["fv"])
    if f.startswith("table.") and rec["k"] == "bytes":
        return "C16:%s.%s" % (f, rec["e"])
    return "C16:" + f


def validate(chk, tr, recs, name):
    r = tlc("Trace_TextString.tla", "Trace_TextString.cfg", workers=1, env={"TRACE": tr}, deque=True, timeout=2400,
            name=name, xmx="6g")
    verdicts = r.tagged("VERDICT")
    if len(verdicts) != len(recs):
        raise vlib.ToolError("trace validator judged %d of %d records" % (len(verdicts), len(recs)))
    return r, verdicts


def slim(rec):
    return {k: v for k, v in rec.items() if not (k in ("cs", "encs", "sts", "ds") and len(v) > 8)}


def run(tier):
    chk = Check("C16", META["level"], tier)
    chk.rule = ("MC cases: every string of <=3 class representatives (modes: text_string round trip, UTF-8 with mark) and every "
                "byte string over the mark alphabet within the bounds; recorded cases: 1280 table cells, seeded strings / byte "
                "strings / pages. Non-trivial: the string has a control or non-ASCII scalar, or raw bytes / a table cell / a "
                "page are involved; distinct by input (mode+string+bytes, table+byte, record inputs)")
    w = workdir("c16")
    # (M)+(G): as the code is (Dev = AsIsDevs: pdfdoc.c0 and utf8.bom.kept are repaired by fix: commits; the remaining
    # deviation classes must be exactly the classified ones), replayed into lopdf
    for cfg in (["MC_TextString_quick.cfg"] if tier == "quick" else ["MC_TextString_thorough.cfg", "MC_TextString_len4.cfg"]):
        run_mc(chk, cfg, tier, w)
    # (M): as repaired -- the impl-shaped layer without the confirmed deviations refines the declarative layer outright
    run_mc(chk, "MC_TextString_repaired.cfg", tier, w, emit=False)
    chk.exhaustive = True
    chk.extra["exhaustive_scope"] = ("model bounds (strings of <=3 representatives, byte strings over the mark alphabet) and all "
                                     "1280 cells of the five tables; scalar values are strided, strings and pages sampled")

    # (V) recorded lopdf calls judged by the declarative layer
    n, stride, next_, nrep = (300, 271, 80, 60) if tier == "quick" else (6000, 1, 1500, 1200)
    tr = os.path.join(w, "trace.ndjson")
    run_bin("c16", ["record", "--seed", vlib.seed(), "--n", n, "--stride", stride, "--ext", next_, "--rep", nrep, "--out", tr])
    recs = read_ndjson(tr)
    kinds = {}
    for rec in recs:
        kinds[rec["k"]] = kinds.get(rec["k"], 0) + 1
    # anti-vacuity on the recorded inputs
    need = {
        "1280 cells": kinds.get("cell", 0) == 1280,
        "astral string": any(rec["k"] == "ts" and any(c >= 0x10000 for c in rec["s"]) and len(rec["s"]) > 1 for rec in recs),
        "ascii string with control": any(rec["k"] == "ts" and rec["s"] and all(c < 128 for c in rec["s"]) and any(c < 32 for c in rec["s"]) for rec in recs),
        "odd utf16": any(rec["k"] == "raw" and rec["b"][:2] == MARK16 and len(rec["b"]) % 2 == 1 for rec in recs),
        "lone marks": any(rec["k"] == "raw" and rec["b"] == MARK16 for rec in recs) and any(rec["k"] == "raw" and rec["b"] == MARK8 for rec in recs),
        "scalar sweep": kinds.get("scal", 0) >= 10,
        "pages with Tj, TJ, hex, high bytes": all(any(rec["k"] == "ext" and any(pred(p) for p in rec["parts"]) for rec in recs) for pred in (
            lambda p: p["op"] == "Tj", lambda p: p["op"] == "TJ", lambda p: p["f"] == "hex", lambda p: any(b >= 0x80 for b in p["b"]),
            lambda p: any(b in (0x28, 0x29, 0x5C) for b in p["b"]))),
        "every table shown": all(any(rec["k"] == "ext" and any(p["e"] == e and p["b"] for p in rec["parts"]) for rec in recs)
                                 for e in ENCS),
        # the table named by /Encoding through every other kind of font dictionary (BaseFont, Subtype, widths, descriptor)
        "every encoding through >= 12 other font dictionaries": all(
            len({rec["fv"] for rec in recs if rec["k"] == "vtab" and rec["e"] == e}) >= 12 for e in ENCS),
        "/Encoding given as an indirect name and as a /BaseEncoding-only dictionary": all(
            any(rec["k"] == "vtab" and rec["form"] == f for rec in recs) and any(rec["k"] == "ext" and any(p["form"] == f and p["b"] for p in rec["parts"]) for rec in recs)
            for f in ("indirect-name", "base-encoding-dict", "indirect-base-encoding-dict")),
        "font dictionaries named *Symbol, ZapfDingbats, TrueType, Type3, with widths / descriptor": all(
            any(rec["k"] == "vtab" and s in rec["fv"] for rec in recs)
            for s in ("/Symbol", "+Symbol", "SegoeUISymbol", "ZapfDingbats", "TrueType/", "Type3/", "+widths", "+descriptor", "no-BaseFont")),
        "pages whose fonts are such dictionaries": all(
            any(rec["k"] == "ext" and any(s in p["fv"] and p["b"] for p in rec["parts"]) for rec in recs)
            for s in ("Symbol", "TrueType/", "Helvetica")),
        "fonts without /Encoding observed": sum(1 for rec in recs if rec["k"] == "obs") >= 10,
        # replace_text: the placeholder under >= 2 fonts of different encodings, a replacement whose codes differ between them
        "replace_text across encodings": sum(1 for rec in recs if rec["k"] == "rep" and rec["cross"] == "yes"
                                             and len({p["e"] for p in rec["parts"] if p["ph"] == "yes"}) >= 2) >= 20,
        "replace_text with every table": all(any(rec["k"] == "rep" and any(p["e"] == e and p["ph"] == "yes" for p in rec["parts"])
                                                 for rec in recs) for e in ENCS),
    }
    missing = [k for k, v in need.items() if not v]
    if missing:
        vacuous(chk, "vacuous recorded set: missing %s" % missing)
    r, verdicts = validate(chk, tr, recs, "c16trace")
    chk.add_tlc(r)
    tags, cats = {}, {}
    for v in verdicts:
        rec = recs[v["i"] - 1]
        tags[v["v"]] = tags.get(v["v"], 0) + 1
        cats[v["cat"]] = cats.get(v["cat"], 0) + 1
        if rec["k"] == "scal":
            for c in rec["cs"]:
                chk.case(c)                       # int keys: the swept scalar values
        else:
            chk.case(json.dumps({k: rec[k] for k in ("k", "e", "fv", "b", "s", "parts", "placeholder") if k in rec}, sort_keys=True))
        chk.traces += 1
        fails = list(v["vs"])
        if any(f.startswith("tool:") for f in fails):
            raise vlib.ToolError("trace record %d: %s (%s)" % (v["i"], fails, json.dumps(slim(rec))[:400]))
        if rec["k"] == "vtab":
            # fails are reported once per (clause, encoding, font dictionary) with the first offending byte
            fails = []
            for b in v["bad"]:
                for f in b["vs"]:
                    chk.violation(table_sig(f, rec), {"encoding": rec["e"], "font_dictionary": rec["fv"], "verdict": f,
                                                      "first_byte": b["c"], "cells_affected": b["n"],
                                                      "lopdf_cell": rec["ds"][b["c"]] if len(rec["ds"]) == 256 else None})
            for f in v["vs"]:
                if not v["bad"]:
                    chk.violation(table_sig(f, rec), {"encoding": rec["e"], "font_dictionary": rec["fv"], "verdict": f, "st": rec["st"],
                                                      "msg": rec.get("msg", "")})
            continue
        for f in fails:
            chk.violation(table_sig(f, rec), {"record": slim(rec), "verdict": f, "classes": sorted(set(v["cls"]))})
        for b in v["bad"]:
            j = rec["cs"].index(b["c"])
            for f in b["vs"]:
                chk.violation("C16:" + f, {"record": {"k": "ts", "s": [b["c"]], "enc": rec["encs"][j], "st": rec["sts"][j],
                                                      "d": rec["ds"][j]}, "verdict": f})
    # every clause of the declarative layer must have been reached by the recorded inputs (categories are
    # properties of the input, whatever the outcome)
    for t, least in (("published", 500), ("present", 300), ("absent", 100), ("utf16", 50), ("ascii", 20), ("utf8", 50),
                     ("raw-u16", 5), ("raw-tab", 5), ("raw-u8", 5), ("undef-u16", 5), ("undef-u8", 5), ("batch", 10),
                     ("extract", 20), ("vtab", 85), ("observed", 15), ("replace", 30)):
        if cats.get(t, 0) < least:
            vacuous(chk, "vacuous validation: only %d records of category %s (need %d): %s" % (cats.get(t, 0), t, least, cats))
    chk.extra["record_categories"] = cats
    chk.extra["verdict_tags"] = tags
    chk.extra["record_kinds"] = kinds
    chk.extra["model_drift"] = chk.extra.get("model_drift", 0) + cats.get("drift", 0)
    ex = next(rec for rec in recs if rec["k"] == "ext" and len(rec["parts"]) >= 2)
    chk.sample({"recorded_page": [{k: p[k] for k in ("e", "op", "f", "b", "t")} for p in ex["parts"]][:3],
                "extract_text": ex["r1"][:40], "after_save_load": ex["r2"][:40]})
    rx = next((rec for rec in recs if rec["k"] == "rep" and rec["cross"] == "yes" and rec["st0"] == "ok"), None)
    if rx:
        chk.sample({"replace_text_page": [{k: p[k] for k in ("e", "fv", "ph", "t")} for p in rx["parts"]][:3],
                    "placeholder": rx["placeholder"], "replacement": rx["replacement"], "extract_text": rx["r1"][:40]})
    cellx = next(rec for rec in recs if rec["k"] == "cell" and rec["e"] == "MacRomanEncoding" and rec["b"] == 0xDB)
    chk.sample({"recorded_cell": slim(cellx)})

    # (B) negative control: corrupt one field of six records, the validator must reject each
    cells = [rec for rec in recs if rec["k"] == "cell"]
    accepted = [recs[v["i"] - 1] for v in verdicts if v["v"].startswith("ok")]

    def clone(x):
        return json.loads(json.dumps(x))

    def first(pred):
        return next((clone(rec) for rec in accepted if pred(rec)), None)
    ws = (32, 9, 10, 13)
    negs, want = [], []
    n_ext = first(lambda rec: rec["k"] == "ext" and any(c not in ws for c in rec["r2"]))
    if n_ext:
        del n_ext["r2"][max(i for i, c in enumerate(n_ext["r2"]) if c not in ws)]   # extraction after reload lost a character
        negs.append(n_ext); want.append("extract.reloaded")
    n_rt = first(lambda rec: rec["k"] == "ts" and any(c >= 0x10000 for c in rec["s"]))
    if n_rt:
        n_rt["d"][-1] ^= 1                                                          # decoded string differs in one scalar
        negs.append(n_rt); want.append("textrt")
    n_enc = first(lambda rec: rec["k"] == "ts" and len(rec["enc"]) >= 4 and rec["enc"][:2] == MARK16 and rec["enc"][2] != rec["enc"][3]
                  and any(c >= 128 for c in rec["s"]))
    if n_enc:
        n_enc["enc"][2], n_enc["enc"][3] = n_enc["enc"][3], n_enc["enc"][2]         # little-endian unit
        negs.append(n_enc); want.append("enc.utf16")
    n_cell = first(lambda rec: rec["k"] == "cell" and rec["e"] == "WinAnsiEncoding" and rec["b"] in range(0xC0, 0x100))
    if n_cell:
        n_cell["d"] = [n_cell["d"][0] ^ 1]; n_cell["dd"] = n_cell["d"]              # one edited cell in the transcribed region
        negs.append(n_cell); want.append("table.published")
    n_rep = first(lambda rec: rec["k"] == "rep" and rec["st0"] == "ok" and rec["cross"] == "yes" and any(c not in ws for c in rec["r1"]))
    if n_rep:
        i = max(i for i, c in enumerate(n_rep["r1"]) if c not in ws)
        n_rep["r1"][i] ^= 1                                                         # one replaced character came back as another
        negs.append(n_rep); want.append("replace.fresh")
    n_vt = first(lambda rec: rec["k"] == "vtab" and rec["e"] == "MacRomanEncoding" and "Symbol" in rec["fv"])
    if n_vt:
        n_vt["ds"][0x22] = [0x2200]                                                 # the Symbol font's built-in code for 0x22
        negs.append(n_vt); want.append("table.published")
    # the edited duplicate cell goes last: the later records are judged with the complete logged table
    order = sorted(range(len(negs)), key=lambda i: negs[i]["k"] == "cell")
    negs, want = [negs[i] for i in order], [want[i] for i in order]
    if len(negs) < 6 and not chk.violations:
        vacuous(chk, "could not build all negative controls although nothing was rejected")
    ntr = os.path.join(w, "neg.ndjson")
    write_ndjson(ntr, cells + negs)
    _, nv = validate(chk, ntr, cells + negs, "c16neg")
    got = [v["v"] for v in nv[len(cells):]]
    if got != want:
        vacuous(chk, "negative controls not rejected as expected: got %s, want %s" % (got, want))
    chk.extra["negative_controls_rejected"] = chk.extra.get("negative_controls_rejected", 0) + len(negs)
    chk.assumptions = [
        "the transcription of ISO 32000-1 Annex D (printable ASCII and 0xA0-0xFF rows of WinAnsi, MacRoman, PDFDocEncoding) in spec/TextString.tla",
        "layout white space (space, TAB, LF, CR) added by extract_text between/after shown strings does not count as a change of the text",
        "a font dictionary with an explicit predefined /Encoding name, no /Differences and no /ToUnicode shows text with exactly that encoding, "
        "whatever its BaseFont / Subtype / widths / descriptor say (ISO 32000-1 9.10.2); fonts without /Encoding are observed, not judged",
        "if Document::replace_text returns an error nothing was shown through it (not judged)",
        "malformed input (odd-length UTF-16, unpaired surrogates, ill-formed UTF-8, bytes outside the carried PDFDoc rows) is unconstrained except that it must not panic",
    ]
    run_extract(chk, tier, w)
    run_extract_calls(chk, tier, w)
    md = chk.extra.get("model_drift_extract", {})
    if md:
        log("MODEL-DRIFT: property=C16 TextExtract observations that differ from the model outside C16's statement: %s" % json.dumps(md, sort_keys=True))
    return chk.finish()
