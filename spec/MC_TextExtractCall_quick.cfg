SPECIFICATION Spec
CONSTANTS
  NP = 2
  MaxNums = 2
  Dev <- NoDev
  Emit = TRUE
INVARIANTS FunctionForm E C Domain CarryExplained EmitInv
CHECK_DEADLOCK FALSE
