SPECIFICATION Spec
CONSTANTS
  Devs <- DevBoth
  Ops <- OpsObj
  ByteStrings <- BytesQuick
  NumSeqs <- NumsQuick
  NewObjs <- MCNewObjs
  InheritBound <- MCInheritBound
  MaxDepth = 4
  Starts <- StartsObj1
  Allowed = {"resources.shadow.incremental"}
  Emit = TRUE
  EmitMod = 2000
  EmitModV = 300
VIEW View
INVARIANTS Refines StartOk EmitViolations
CHECK_DEADLOCK FALSE
