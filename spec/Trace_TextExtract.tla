-------------------------- MODULE Trace_TextExtract --------------------------
(* impl -> spec for TextExtract.  Every record is one page the harness built (c16 xreplay / xrecord): *)
(*   fonts  the page's font map as observed: [n, kind, okind, pre, codes, cells] -- kind as built        *)
(*          ("table" | "failing" | "broken"), okind as get_font_encoding / decode_text behave, cells[i]  *)
(*          = decode_text(<<codes[i]>>) for every code that occurs in the operations                     *)
(*   ops    the content operations [op, args]                                                            *)
(*   obs    observations [v, call, chunks, et, merge] of extract_text_chunks / extract_text for the page  *)
(*          as built ("base"), with the content split over several streams ("split": each stream ends    *)
(*          with a newline, "split-raw": as Content::encode writes them; merge = "yes" when two streams   *)
(*          meet in two regular characters), re-encoded by Content::encode(Content::decode(..)) ("reenc"),*)
(*          and after save_to + load_mem ("reload")                                                       *)
(* A record with k = "xc" is a document of several pages [fonts, ops, res] and a list of calls           *)
(*   [v, nums, call, chunks, et] of extract_text_chunks / extract_text with page-number lists, in memory   *)
(*   ("mem") and after save_to + load_mem ("reload"); judged by JudgeCall (clause (e)).                     *)
(* The model is run on (fonts, ops) and every observation is compared with it EXACTLY; the clauses (a)-(d)*)
(* of the declarative layer are evaluated on the observed values.  Only what C16 states can be a          *)
(* violation (vs): inside the statement's domain (InDomain) extract_text must return the shown text; the  *)
(* clause that explains the loss names it.  Everything else -- exact layout, chunk boundaries, error       *)
(* chunks, pages outside the domain -- is reported as model drift (dr).                                   *)
EXTENDS TextExtract, Json, IOUtils

Recs == ndJsonDeserialize(IOEnv.TRACE)

VARIABLE l

Elems(s) == {s[i] : i \in 1..Len(s)}
If(c, f) == IF c THEN <<f>> ELSE <<>>

FontOf(j) ==
    CASE j.okind = "table" -> [kind |-> "table", pre |-> j.pre = "yes",
                               cell |-> [c \in Elems(j.codes) |-> j.cells[CHOOSE i \in 1..Len(j.codes) : j.codes[i] = c]]]
      [] j.okind = "failing" -> [kind |-> "failing"]
      [] OTHER -> [kind |-> "broken"]

FmOf(r) == [n \in {r.fonts[i].n : i \in 1..Len(r.fonts)} |-> FontOf(r.fonts[CHOOSE i \in 1..Len(r.fonts) : r.fonts[i].n = n])]

ChunksOf(o) == [i \in 1..Len(o.chunks) |-> IF o.chunks[i].ok = "yes" THEN OkChunk(o.chunks[i].t) ELSE ErrChunk]
EtOf(o) == [ok |-> o.et.ok = "yes", t |-> o.et.t]

Judge(r) ==
    LET fm == FmOf(r)
        ops == r.ops
        \* the layer as the code is and with every combination of the proposed repairs: an observation that equals one
        \* of them is exact (whichever repairs have been applied to the code by now)
        models == [R \in SUBSET AllReps |-> RunR(fm, ops, R)]
        mets == [R \in SUBSET AllReps |-> ExtractText(models[R])]
        model == models[{}]
        met == mets[{}]
        needs == Needs(fm, ops)
        dom == InDomain(fm, ops)
        base == r.obs[1]
        baseGood == ReturnsShown(fm, ops, EtOf(base))
        unusable == {i \in 1..Len(r.fonts) : r.fonts[i].okind # r.fonts[i].kind}
        One(o) ==
            LET ch == ChunksOf(o)
                et == EtOf(o)
                a == ClauseA(fm, ops, ch)
                b == ClauseB(fm, ops, ch)
                c == ClauseC(ch, et)
                d == ClauseD(<<ch, et>>, <<ChunksOf(base), EtOf(base)>>)
                good == ReturnsShown(fm, ops, et)
                crashed == o.call \in {"panic", "build-panic"}
                lost == dom /\ ~good /\ o.call # "save-load-failed"
                exact == \E R \in SUBSET AllReps : ch = models[R] /\ et = mets[R]
                \* the observation is what a layer that lacks a repair the page needs returns: the finding of that name
                lacking == {R \in SUBSET AllReps : et = mets[R] /\ ~(needs \subseteq R)}
                most == CHOOSE R \in lacking : \A Q \in lacking : Cardinality(Q) <= Cardinality(R)
                why == IF crashed THEN <<"extract.panic">>
                       ELSE IF o.v # "base" /\ baseGood
                            THEN (IF o.v = "split-raw" /\ o.merge = "yes" THEN <<"extract.d.split-no-eol">> ELSE <<"extract.d." \o o.v>>)
                       ELSE IF lacking # {} THEN SetToSeq({"extract." \o x : x \in needs \ most})
                       ELSE IF ~a THEN <<"extract.a">>
                       ELSE IF ~c THEN <<"extract.c">>
                       ELSE <<"extract.err-chunk">>
                explained == exact /\ lacking # {}
            IN [vs |-> IF lost THEN why ELSE <<>>,
                dr |-> If(~lost /\ ~exact, "exact." \o o.v)
                       \o If(~lost /\ ~explained /\ ~a, "a." \o o.v) \o If(~lost /\ ~explained /\ ~b, "b." \o o.v)
                       \o If(~lost /\ ~c, "c." \o o.v) \o If(~lost /\ ~d, "d." \o o.v)]
        all == [i \in 1..Len(r.obs) |-> One(r.obs[i])]
        vs == FoldLeft(LAMBDA acc, x : acc \o x.vs, <<>>, all)
              \o If(\E i \in unusable : r.fonts[i].pre = "yes", "extract.font-not-decodable")
        dr == FoldLeft(LAMBDA acc, x : acc \o x.dr, <<>>, all)
              \o If(\E i \in unusable : r.fonts[i].pre # "yes", "fontmap")
        cat == IF dom THEN (IF AllShown(fm, ops) # <<>> THEN (IF needs # {} THEN "domain-text-needs" ELSE "domain-text") ELSE "domain-empty")
               ELSE IF Clean(fm, ops) THEN "outside-clean" ELSE "outside-errors"
        \* the layer a negative control is synthesised from: the fully repaired one (it returns what the page shows)
        full == models[AllReps]
    IN [v |-> IF vs # <<>> THEN vs[1] ELSE IF dr # <<>> THEN "ok-drift" ELSE "ok-exact", cat |-> cat, vs |-> vs, dr |-> dr,
        nobs |-> Len(r.obs), model |-> [chunks |-> full, et |-> ExtractText(full)]]

\* A document of several pages and a list of calls [v, nums, call, chunks, et] ("mem" | "reload"): every call is
\* compared exactly with the call-level model; clause (e) is evaluated on the observed one-page calls.
JudgeCall(r) ==
    LET doc == [p \in 1..Len(r.pages) |-> [fm |-> FmOf(r.pages[p]), ops |-> r.pages[p].ops]]
        Obs(v, nums) == {i \in 1..Len(r.calls) : r.calls[i].v = v /\ r.calls[i].nums = nums}
        GoodAlone(v, n) == \E i \in Obs(v, <<n>>) : CallReturnsShown(doc, <<n>>, EtOf(r.calls[i]))
        unusable == {<<p, i>> \in (1..Len(r.pages)) \X (1..8) :
                        i <= Len(r.pages[p].fonts) /\ r.pages[p].fonts[i].okind # r.pages[p].fonts[i].kind}
        One(o) ==
            LET ch == ChunksOf(o)
                et == EtOf(o)
                model == CallChunks(doc, o.nums)
                dom == CallInDomain(doc, o.nums)
                good == CallReturnsShown(doc, o.nums, et)
                crashed == o.call \in {"panic", "build-panic"}
                lost == dom /\ ~good /\ o.call # "save-load-failed"
                alone == \A k \in 1..Len(o.nums) : GoodAlone(o.v, o.nums[k])
                memgood == \E i \in Obs("mem", o.nums) : CallReturnsShown(doc, o.nums, EtOf(r.calls[i]))
                singles == [k \in 1..Len(o.nums) |->
                               IF Obs(o.v, <<o.nums[k]>>) # {} THEN ChunksOf(r.calls[CHOOSE i \in Obs(o.v, <<o.nums[k]>>) : TRUE]) ELSE <<>>]
                haveSingles == \A k \in 1..Len(o.nums) : Obs(o.v, <<o.nums[k]>>) # {}
                why == IF crashed THEN "extract.panic"
                       ELSE IF Len(o.nums) > 1 /\ alone THEN "extract.e.page-list"      \* every page alone is fine, the list is not
                       ELSE IF o.v = "reload" /\ memgood THEN "extract.d.reload"
                       ELSE IF ~ClauseC(ch, et) THEN "extract.c"
                       ELSE "extract.a"
            IN [vs |-> If(lost, why),
                dr |-> If(~lost /\ o.call # "save-load-failed" /\ (ch # model \/ et # ExtractText(model)), "exact.call." \o o.v)
                       \o If(~lost /\ haveSingles /\ Len(o.nums) > 1 /\ ~ClauseE(ch, singles), "e.call." \o o.v)
                       \o If(~lost /\ ~ClauseC(ch, et), "c.call." \o o.v),
                dom |-> dom, multi |-> Len(o.nums) > 1]
        all == [i \in 1..Len(r.calls) |-> One(r.calls[i])]
        vs == FoldLeft(LAMBDA acc, x : acc \o x.vs, <<>>, all)
              \o If(\E q \in unusable : r.pages[q[1]].fonts[q[2]].pre = "yes", "extract.font-not-decodable")
        dr == FoldLeft(LAMBDA acc, x : acc \o x.dr, <<>>, all)
              \o If(\E q \in unusable : r.pages[q[1]].fonts[q[2]].pre # "yes", "fontmap")
        ndm == Cardinality({i \in 1..Len(all) : all[i].dom /\ all[i].multi})
        \* do two pages bind the same name to different fonts?
        collide == \E p, q \in 1..Len(doc) : p # q /\ \E n \in DOMAIN doc[p].fm : n \in DOMAIN doc[q].fm /\ doc[p].fm[n] # doc[q].fm[n]
    IN [v |-> IF vs # <<>> THEN vs[1] ELSE IF dr # <<>> THEN "ok-drift" ELSE "ok-exact",
        cat |-> IF ndm > 0 THEN (IF collide THEN "call-domain-collision" ELSE "call-domain") ELSE "call-outside",
        vs |-> vs, dr |-> dr, nobs |-> Len(r.calls),
        model |-> [calls |-> [i \in 1..Len(r.calls) |-> [chunks |-> CallChunks(doc, r.calls[i].nums),
                                                          et |-> ExtractText(CallChunks(doc, r.calls[i].nums))]]]]

Init == l = 1
Next == /\ l <= Len(Recs)
        /\ PrintT(<<"VERDICT", ToJson([i |-> l] @@ (IF Recs[l].k = "xc" THEN JudgeCall(Recs[l]) ELSE Judge(Recs[l])))>>)
        /\ l' = l + 1
Spec == Init /\ [][Next]_l
Consumed == TLCGet("stats").diameter = Len(Recs) + 1
=============================================================================
