-------------------------- MODULE Trace_TextString --------------------------
(* impl -> spec: every record is one observed call (or a small batch of calls) of lopdf's public   *)
(* text-string / one-byte-encoding API, logged by `c16 record`:                                    *)
(*   cell   [e, b, st, d, st2, re, dd]  table e (obtained through get_font_encoding on a font with  *)
(*          that Encoding name), byte b: d = decode_text(<<b>>), re = encode_text(d),               *)
(*          dd = decode_text(re)                                                                    *)
(*   bytes  the same for a byte string b                                                            *)
(*   ts     [s, st, enc, d]    enc = text_string(s), d = decode_text_string(enc)                    *)
(*   scal   [cs, encs, sts, ds]  a batch of ts records for the one-character strings <<cs[i]>>      *)
(*   u8     [s, b, st, d]      d = decode_text_string(b), b = EF BB BF + UTF-8(s) (made by Rust)    *)
(*   raw    [b, st, d]         d = decode_text_string(b) for arbitrary bytes                        *)
(*   ext    [parts, st1, r1, st2, r2]  a page showing parts[i].b with a font whose encoding is      *)
(*          parts[i].e; r1 = extract_text, r2 = extract_text after save_to + load_mem               *)
(*   vtab   [e, fv, form, st, ds]  the 256 cells decode_text yields through a *different* font          *)
(*          dictionary fv (other BaseFont / Subtype / widths / descriptor) with the same /Encoding     *)
(*          name e and no /ToUnicode: the encoding is named by /Encoding, so the published rows apply  *)
(*          and the table is the one logged for e                                                      *)
(*   obs    the same without an /Encoding entry: outside the statement, observed and never judged      *)
(*   rep    [parts, st0, st1, r1, st2, r2]  a page whose Tj operands were rewritten by                 *)
(*          Document::replace_text (st0) under fonts of different encodings; parts[i].t is the text    *)
(*          then shown with encoding parts[i].e; r1 / r2 as for ext                                    *)
(* st fields are "ok" | "err" | "panic" | "noenc".  The only state carried along the trace is the   *)
(* logged table constant tab[e][b] (DESIGN C16), which the later records are judged with.           *)
(* Each record is judged by the declarative layer of TextString; vs lists the failed clauses        *)
(* (empty = accepted).  A failed clause named like a deviation class means: the case lies in that   *)
(* class *and* lopdf returned exactly what the impl-shaped layer predicts for it.                   *)
EXTENDS TextString, Json, IOUtils

Recs == ndJsonDeserialize(IOEnv.TRACE)

VARIABLES l, tab, ncell

NCells == 256 * Cardinality(EncNames)

\* v: "ok-<cat>" or the first failed clause; cat: the category of the *input* (whatever the outcome), used by
\* the check script for its anti-vacuity counts
Ok(cat) == [v |-> "ok-" \o cat, cat |-> cat, vs |-> <<>>, bad |-> <<>>, cls |-> <<>>]
Fail(fails, cls) == [v |-> fails[1], cat |-> "rejected", vs |-> fails, bad |-> <<>>, cls |-> cls]
Verdict(fails, cat, cls) == IF fails = <<>> THEN Ok(cat) ELSE [Fail(fails, cls) EXCEPT !.cat = cat]
If(c, f) == IF c THEN <<f>> ELSE <<>>

ClassSeq(s) == [i \in 1..Len(s) |-> ClassOf(s[i])]

-----------------------------------------------------------------------------
JCell(r) ==
    IF r.e \notin EncNames \/ r.b \notin 0..255 THEN Fail(<<"tool:bad-cell-record">>, <<>>)
    ELSE IF r.st # "ok" THEN Fail(<<"table.decode-fails">>, <<>>)
    ELSE IF ~CellOk(r.d) THEN Fail(<<"table.cell-not-unit">>, <<>>)
    ELSE Verdict(If(~PublishedOk(r.e, r.b, r.d), "table.published")
                 \o If(r.d # <<>> /\ (r.st2 # "ok" \/ r.dd # r.d), "table.reenc"),
                 IF InPublished(r.e, r.b) THEN "published" ELSE IF r.d = <<>> THEN "absent" ELSE "present",
                 <<>>)

JBytes(r) ==
    IF r.st # "ok" THEN Fail(<<"table.decode-fails">>, <<>>)
    ELSE Verdict(If(r.st2 # "ok" \/ r.dd # r.d, "table.reenc"),
                 IF ncell = NCells /\ r.d # DecodeT(tab[r.e], r.b) THEN "drift" ELSE "bytes", <<>>)

\* failed clauses of one text_string / decode_text_string round trip
TsFails(s, enc, st, d) ==
    If(~EncOk(s, enc), IF AllAscii(s) THEN "enc.ascii-stays" ELSE "enc.utf16")
    \o (IF st = "ok" /\ d = s THEN <<>>
        ELSE IF st = "panic" THEN <<"textrt.panic">>
        ELSE IF st = "ok" /\ enc = ImplEnc(s) /\ Explained(enc, SigsRT(s, AllDevs), Def(d)) # {}
             THEN SetToSeq(Explained(enc, SigsRT(s, AllDevs), Def(d)))
        ELSE <<"textrt">>)

JTs(r) == IF ~IsString(r.s) THEN Fail(<<"tool:not-scalars">>, <<>>)
          ELSE Verdict(TsFails(r.s, r.enc, r.st, r.d), IF AllAscii(r.s) THEN "ascii" ELSE "utf16", ClassSeq(r.s))

JScal(r) ==
    LET n == Len(r.cs)
        bad == FoldLeft(LAMBDA acc, i : LET f == TsFails(<<r.cs[i]>>, r.encs[i], r.sts[i], r.ds[i]) IN
                                        IF f = <<>> THEN acc ELSE Append(acc, [c |-> r.cs[i], vs |-> f]),
                        <<>>, [i \in 1..n |-> i])
    IN IF \E i \in 1..n : ~IsScalar(r.cs[i]) THEN Fail(<<"tool:not-scalars">>, <<>>)
       ELSE IF bad = <<>> THEN Ok("batch")
       ELSE [v |-> "bad-batch", cat |-> "batch", vs |-> <<>>, bad |-> bad, cls |-> <<>>]

DecFails(b, e, st, d, clause) ==          \* e = what the declarative layer expects
    IF ~e.def THEN If(st = "panic", "dec.panic")
    ELSE IF st = "ok" /\ d = e.s THEN <<>>
    ELSE IF st = "panic" THEN <<"dec.panic">>
    ELSE IF st = "ok" /\ Explained(b, SigsDec(b, AllDevs), Def(d)) # {} THEN SetToSeq(Explained(b, SigsDec(b, AllDevs), Def(d)))
    ELSE <<clause>>

JU8(r) == IF ~IsString(r.s) \/ r.b # Bom8 \o Utf8Str(r.s) THEN Fail(<<"tool:utf8-of-harness-differs">>, <<>>)
          ELSE Verdict(DecFails(r.b, Def(r.s), r.st, r.d, "utf8too"), "utf8", ClassSeq(r.s))

JRaw(r) == IF ~IsBytes(r.b) THEN Fail(<<"tool:not-bytes">>, <<>>)
           ELSE Verdict(DecFails(r.b, Dec(r.b), r.st, r.d, "dec." \o Branch(r.b)),
                        IF Dec(r.b).def THEN "raw-" \o Branch(r.b) ELSE "undef-" \o Branch(r.b), <<>>)

JExt(r) ==
    LET n == Len(r.parts)
        ts == [i \in 1..n |-> r.parts[i].t]
    IN IF ncell # NCells THEN Fail(<<"tool:tables-not-logged-first">>, <<>>)
       ELSE IF \E i \in 1..n : r.parts[i].e \notin EncNames \/ DecodeT(tab[r.parts[i].e], r.parts[i].b) # r.parts[i].t
            THEN Fail(<<"tool:ext-case-inconsistent">>, <<>>)
       ELSE LET \* what the page would read if every font whose /Encoding is not a plain name fell back to StandardEncoding
                fb == [i \in 1..n |-> IF r.parts[i].form # "name" THEN DecodeT(tab["StandardEncoding"], r.parts[i].b) ELSE ts[i]]
                forms == {r.parts[i].form : i \in {j \in 1..n : r.parts[j].form # "name" /\ fb[j] # ts[j]}}
                Why(st, res, clause) == IF st = "ok" /\ Match(ts, res) THEN <<>>
                                        ELSE IF st = "ok" /\ forms # {} /\ Match(fb, res) THEN SetToSeq({"encoding-form." \o f : f \in forms})
                                        ELSE <<clause>>
            IN Verdict(Why(r.st1, r.r1, "extract.fresh") \o Why(r.st2, r.r2, "extract.reloaded"), "extract", <<>>)

\* the same encoding name reached through another font dictionary
JVTab(r) ==
    IF r.e \notin EncNames THEN Fail(<<"tool:bad-vtab-record">>, <<>>)
    ELSE IF ncell # NCells THEN Fail(<<"tool:tables-not-logged-first">>, <<>>)
    ELSE IF r.st # "ok" \/ Len(r.ds) # 256 THEN [Fail(<<"table.decode-fails">>, <<>>) EXCEPT !.cat = "vtab"]
    ELSE LET cell(b) == r.ds[b + 1]
             badpub == {b \in 0..255 : ~CellOk(cell(b)) \/ ~PublishedOk(r.e, b, cell(b))}
             baddep == {b \in 0..255 : cell(b) # tab[r.e][b]}
             some(S) == CHOOSE b \in S : \A c \in S : b <= c
             \* the encoding is named through a reference or a /BaseEncoding-only dictionary and what comes back is
             \* exactly the StandardEncoding table: the form of the entry was not understood (fallback)
             fallback == r.form # "name" /\ baddep # {} /\ \A b \in 0..255 : cell(b) = tab["StandardEncoding"][b]
         IN IF fallback
            THEN [Fail(<<"encoding-form." \o r.form>>, <<>>) EXCEPT !.cat = "vtab",
                      !.bad = <<[c |-> some(baddep), n |-> Cardinality(baddep), vs |-> <<"encoding-form." \o r.form>>]>>]
            ELSE
            [Verdict(If(badpub # {}, "table.published") \o If(baddep # {}, "table.fontdict"), "vtab", <<>>)
               EXCEPT !.bad = (IF badpub # {} THEN <<[c |-> some(badpub), n |-> Cardinality(badpub), vs |-> <<"table.published">>]>> ELSE <<>>)
                              \o (IF baddep # {} THEN <<[c |-> some(baddep), n |-> Cardinality(baddep), vs |-> <<"table.fontdict">>]>> ELSE <<>>)]

JObs(r) == Ok("observed")

\* text put on the page by replace_text: every character of the text now shown must be one the font's table has
JRep(r) ==
    LET n == Len(r.parts)
        ts == [i \in 1..n |-> r.parts[i].t]
        InRepertoire(e, c) == \E b \in 0..255 : tab[e][b] = <<c>>
    IN IF ncell # NCells THEN Fail(<<"tool:tables-not-logged-first">>, <<>>)
       ELSE IF \E i \in 1..n : r.parts[i].e \notin EncNames \/ \E j \in 1..Len(ts[i]) : ~InRepertoire(r.parts[i].e, ts[i][j])
            THEN Fail(<<"tool:rep-case-inconsistent">>, <<>>)
       ELSE IF r.st0 # "ok" THEN Ok("replace-not-done")         \* replace_text refused: nothing was shown through it
       ELSE Verdict(If(~(r.st1 = "ok" /\ Match(ts, r.r1)), "replace.fresh")
                    \o If(~(r.st2 = "ok" /\ Match(ts, r.r2)), "replace.reloaded"), "replace", <<>>)

Judge(r) == CASE r.k = "cell"  -> JCell(r)
              [] r.k = "vtab"  -> JVTab(r)
              [] r.k = "obs"   -> JObs(r)
              [] r.k = "rep"   -> JRep(r)
              [] r.k = "bytes" -> JBytes(r)
              [] r.k = "ts"    -> JTs(r)
              [] r.k = "scal"  -> JScal(r)
              [] r.k = "u8"    -> JU8(r)
              [] r.k = "raw"   -> JRaw(r)
              [] r.k = "ext"   -> JExt(r)
              [] OTHER -> Fail(<<"tool:unknown-record">>, <<>>)

-----------------------------------------------------------------------------
Init == /\ l = 1
        /\ tab = [e \in EncNames |-> [b \in 0..255 |-> <<>>]]
        /\ ncell = 0

IsCell(r) == r.k = "cell" /\ r.e \in EncNames /\ r.b \in 0..255

Next == /\ l <= Len(Recs)
        /\ LET r == Recs[l] IN
           /\ PrintT(<<"VERDICT", ToJson([i |-> l] @@ Judge(r))>>)
           /\ tab' = IF IsCell(r) /\ r.st = "ok" THEN [tab EXCEPT ![r.e][r.b] = r.d] ELSE tab
           /\ ncell' = IF IsCell(r) THEN ncell + 1 ELSE ncell
        /\ l' = l + 1

Spec == Init /\ [][Next]_<<l, tab, ncell>>
Consumed == TLCGet("stats").diameter = Len(Recs) + 1
=============================================================================
