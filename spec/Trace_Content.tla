--------------------------- MODULE Trace_Content ---------------------------
(* impl -> spec for C14: every record is one public call of lopdf's content-stream codec.        *)
(*   Given{bytes}            content spelled by somebody else (the TLA+ Producer, the harness's   *)
(*                           inline-image writer): becomes the current bytes                      *)
(*   Encode{ops, res, bytes} Content{operations}.encode(): the StrictReader must read the bytes   *)
(*                           back as the operations (v); they become the current bytes            *)
(*   Decode{res, ops}        Content::decode(current bytes): judged against the strict reading    *)
(*                           of the current bytes (v) and, when the current bytes were written by *)
(*                           the preceding Encode, against the operations given to it (rt): this  *)
(*                           is the property, decode(encode(x)) = x up to integral reals          *)
(*   DecodeVia{via, filters} decode of the current bytes through a Stream value / a document      *)
(*                           under a filter chain: judged like Decode (filters are transparent)   *)
(*   Reset                   a fresh thread                                                       *)
(*   Disturb{t, kind, n}     ContentHist!Disturb: thread t decoded n damaged inputs of that kind;  *)
(*                           changes nothing (history independence): later calls are judged as in *)
(*                           a fresh process, the verdict only names the history (after)           *)
(* The trace spec carries cur = [has, bytes, rd = Content!ReadOps(bytes), enc, ops].             *)
EXTENDS Content, Json, IOUtils, TLC

\* TLC orders record fields by first mention while parsing (root module first): the kind field `k` must come
\* before the payload fields so that object values of different kinds are unequal without their payloads
\* ever being compared (a function-valued `v` against a sequence-valued one is a TLC evaluation error).
KindFirst_Trace_Content(o) == <<o.k, o.neg, o.v, o.w>>

Recs == ndJsonDeserialize(IOEnv.TRACE)

VARIABLES l, cur,
          dist     \* disturbances since the last Reset: <<[t, kind]>> (history; the judgements never read it)

NoCur == [has |-> FALSE]

NoDom == [cls |-> "na", why |-> {}]
Out5(i, rec, v, rt, dom) ==
    PrintT(<<"VERDICT", ToJson([i |-> i, ev |-> rec.ev, v |-> v.v, rt |-> rt.v, d |-> v, rd |-> rt, after |-> dist, dom |-> dom])>>)
Out(i, rec, v, rt) == Out5(i, rec, v, rt, NoDom)

Ok(s) == [v |-> s]

Init == l = 1 /\ cur = NoCur /\ dist = <<>>

\* a fresh thread / process
DoReset ==
    /\ Recs[l].ev = "Reset"
    /\ cur' = NoCur /\ dist' = <<>>
    /\ Out(l, Recs[l], Ok("ok-reset"), Ok("ok-na"))
    /\ l' = l + 1

\* ContentHist!Disturb: thread t decoded damaged input of some kind.  encode / decode are functions of their
\* argument alone, so the action changes nothing the judgements below depend on: every later call is judged
\* exactly as in a fresh process.  The history is carried only to name it in the verdict.
DoDisturb ==
    /\ Recs[l].ev = "Disturb"
    /\ dist' = Append(dist, [t |-> Recs[l].t, kind |-> Recs[l].kind])
    /\ UNCHANGED cur
    /\ Out(l, Recs[l], Ok("ok-disturb"), Ok("ok-na"))
    /\ l' = l + 1

DoGiven ==
    /\ Recs[l].ev = "Given"
    /\ LET rd == ReadOps(Recs[l].bytes) IN
          /\ cur' = [has |-> TRUE, bytes |-> Recs[l].bytes, rd |-> rd, enc |-> FALSE, ops |-> <<>>]
          /\ UNCHANGED dist
          /\ Out(l, Recs[l], IF rd.ok THEN [v |-> "ok", nops |-> Len(rd.ops), img |-> InlineFacts(Recs[l].bytes)]
                             ELSE [v |-> "strict-reader-rejects", err |-> rd.err, at |-> rd.at], Ok("ok-na"))
    /\ l' = l + 1

DoEncode ==
    /\ Recs[l].ev = "Encode"
    /\ UNCHANGED dist
    /\ LET rec == Recs[l] IN
       IF rec.res # "ok"
       THEN /\ cur' = NoCur
            \* refusing is the agreed outcome outside the core domain, a failure inside it
            /\ LET dom == Domain(OpsOf(rec.ops)) IN
               Out5(l, rec, [v |-> IF dom.cls = "refusable" THEN "ok-refused" ELSE "encode-failed", res |-> rec.res], Ok("ok-na"), dom)
       ELSE LET ops == OpsOf(rec.ops)
                rd == ReadOps(rec.bytes)
                j == JudgeAgainst(ops, rd)
            IN /\ cur' = [has |-> TRUE, bytes |-> rec.bytes, rd |-> rd, enc |-> TRUE, ops |-> ops]
               /\ Out5(l, rec, j, Ok("ok-na"), Domain(ops))
    /\ l' = l + 1

\* DecodeVia{via, filters, res, ops}: the same bytes decoded THROUGH a Stream value (Stream::decode_content, the page
\* content of a document, the decode -> set content -> decode loop of an editor) whose stored content carries the named
\* filter chain.  Filters are a property of the container, not of the content (7.4, 7.8.2): the judged function is decode
\* of the plain bytes, so the event is judged exactly like Decode -- via and filters do not enter the judgement.
DoDecode ==
    /\ Recs[l].ev \in {"Decode", "DecodeVia"}
    /\ LET rec == Recs[l]
           ops == OpsOf(rec.ops)
           v  == IF ~cur.has THEN Ok("ok-skipped")
                 ELSE IF rec.res # "ok" THEN (IF cur.rd.ok THEN [v |-> "decode-failed", res |-> rec.res] ELSE Ok("ok-both-reject"))
                 ELSE LET j == JudgeAgainst(ops, cur.rd) IN
                      IF j.v = "ok" \/ cur.enc THEN j
                      ELSE [j EXCEPT !.v = IF VerbatimEolExplains(ops, cur.bytes) THEN "lit-raw-eol-kept" ELSE @]
           rt == IF ~cur.has \/ ~cur.enc THEN Ok("ok-na")
                 ELSE IF rec.res # "ok" THEN [v |-> "rt-decode-failed", res |-> rec.res]
                 ELSE JudgeSame(cur.ops, ops)
       IN Out(l, rec, v, rt)
    /\ UNCHANGED <<cur, dist>>
    /\ l' = l + 1

Next == l <= Len(Recs) /\ (DoGiven \/ DoEncode \/ DoDecode \/ DoReset \/ DoDisturb)
Spec == Init /\ [][Next]_<<l, cur, dist>>
Consumed == TLCGet("stats").diameter = Len(Recs) + 1
=============================================================================
