SPECIFICATION Spec
CONSTANTS
  Emit = TRUE
  Ghosts = FALSE
  SepMode = "all"
  Beyond <- BeyondFree
INVARIANTS RoundTrip ImplRefines EmitInv
CHECK_DEADLOCK FALSE
