SPECIFICATION Spec
CONSTANTS
  Devs <- DevAll
  Ops <- OpsAudit
  ByteStrings <- BytesQuick
  NumSeqs <- NumsQuick
  NewObjs <- MCNewObjs
  InheritBound <- MCInheritBound
  MaxDepth = 3
  Starts <- StartsAudit
  Allowed = {"resources.shadow.incremental"}
  Emit = TRUE
  EmitMod = 150
  EmitModV = 25
VIEW View
INVARIANTS Refines StartOk EmitViolations
CHECK_DEADLOCK FALSE
