------------------------------- MODULE Bytes -------------------------------
(* Byte classes of ISO 32000-1 7.2 (Tables 1 and 2) and small helpers on byte / digit sequences. *)
EXTENDS Naturals, Sequences, SequencesExt, FiniteSets

Byte == 0..255

WS    == {0, 9, 10, 12, 13, 32}                       \* NUL TAB LF FF CR SP
Delim == {40, 41, 60, 62, 91, 93, 123, 125, 47, 37}   \* ( ) < > [ ] { } / %
IsWS(b)      == b \in WS
IsDelim(b)   == b \in Delim
IsRegular(b) == b \notin WS /\ b \notin Delim
IsDigit(b)   == b >= 48 /\ b <= 57
IsOct(b)     == b >= 48 /\ b <= 55
IsEOLb(b)    == b = 10 \/ b = 13

HexVal(b) == IF b >= 48 /\ b <= 57 THEN b - 48
             ELSE IF b >= 65 /\ b <= 70 THEN b - 55
             ELSE IF b >= 97 /\ b <= 102 THEN b - 87
             ELSE 99                                    \* not a hex digit
IsHex(b) == HexVal(b) < 16

\* ASCII strings used as keywords, as byte sequences
KwTrue      == <<116, 114, 117, 101>>
KwFalse     == <<102, 97, 108, 115, 101>>
KwNull      == <<110, 117, 108, 108>>
KwR         == <<82>>
KwObj       == <<111, 98, 106>>
KwEndobj    == <<101, 110, 100, 111, 98, 106>>
KwStream    == <<115, 116, 114, 101, 97, 109>>
KwEndstream == <<101, 110, 100, 115, 116, 114, 101, 97, 109>>
KwXref      == <<120, 114, 101, 102>>
KwTrailer   == <<116, 114, 97, 105, 108, 101, 114>>
KwStartxref == <<115, 116, 97, 114, 116, 120, 114, 101, 102>>
KwN         == <<110>>
KwF         == <<102>>
KwBI        == <<66, 73>>
KwID        == <<73, 68>>
KwEI        == <<69, 73>>
PctPDF      == <<37, 80, 68, 70, 45>>                  \* %PDF-
PctPctEOF   == <<37, 37, 69, 79, 70>>                  \* %%EOF
NameLength  == <<76, 101, 110, 103, 116, 104>>         \* Length
NameType    == <<84, 121, 112, 101>>
NameXRef    == <<88, 82, 101, 102>>
NameObjStm  == <<79, 98, 106, 83, 116, 109>>
NameSize    == <<83, 105, 122, 101>>
NamePrev    == <<80, 114, 101, 118>>
NameW       == <<87>>
NameIndex   == <<73, 110, 100, 101, 120>>
NameFilter  == <<70, 105, 108, 116, 101, 114>>
NameDecodeParms == <<68, 101, 99, 111, 100, 101, 80, 97, 114, 109, 115>>
NameRoot    == <<82, 111, 111, 116>>
NameN       == <<78>>
NameFirst   == <<70, 105, 114, 115, 116>>
NameXRefStm == <<88, 82, 101, 102, 83, 116, 109>>
NameLinearized == <<76, 105, 110, 101, 97, 114, 105, 122, 101, 100>>

\* digit sequences (values 0..9, most significant first)
StripLeadingZeros(d) ==
    LET nz == SelectInSeq(d, LAMBDA x : x # 0)          \* index of first non-zero, 0 if none
    IN IF d = <<>> THEN <<0>>
       ELSE IF nz = 0 THEN <<0>>
       ELSE SubSeq(d, nz, Len(d))

StripTrailingZeros(d) ==
    LET nz == SelectLastInSeq(d, LAMBDA x : x # 0)
    IN IF nz = 0 THEN <<>> ELSE SubSeq(d, 1, nz)

\* value of a digit sequence; only meaningful below 2^31 (callers check DigitsSmall first)
DigitsSmall(d) == Len(d) <= 9
DigitsVal(d)   == FoldLeft(LAMBDA acc, x : acc * 10 + x, 0, d)

\* decimal digits of a natural number (< 2^31)
RECURSIVE NatDigits(_)
NatDigits(n) == IF n < 10 THEN <<n>> ELSE Append(NatDigits(n \div 10), n % 10)

\* big-endian byte sequence -> number; saturates at 2^31-1 (TLC integers are 32-bit; a saturated field
\* never equals a real offset, so adversarial wide fields make the reader answer "not ok", not fail)
SatVal == 2147483647
BEVal(bs) == FoldLeft(LAMBDA acc, x : IF acc > 8388607 THEN SatVal ELSE acc * 256 + x, 0, bs)

\* lexicographic / numeric comparison of *normalised* digit sequences (no leading zeros)
DigitsLE(a, b) ==
    IF Len(a) # Len(b) THEN Len(a) < Len(b)
    ELSE LET d == SelectInSeq([i \in 1..Len(a) |-> IF a[i] = b[i] THEN 0 ELSE 1], LAMBDA x : x = 1)
         IN IF d = 0 THEN TRUE ELSE a[d] < b[d]

\* comparison of fraction digit sequences (as 0.f): pad the shorter with zeros
FracLE(a, b) ==
    LET n  == IF Len(a) > Len(b) THEN Len(a) ELSE Len(b)
        pa == [i \in 1..n |-> IF i <= Len(a) THEN a[i] ELSE 0]
        pb == [i \in 1..n |-> IF i <= Len(b) THEN b[i] ELSE 0]
        d  == SelectInSeq([i \in 1..n |-> IF pa[i] = pb[i] THEN 0 ELSE 1], LAMBDA x : x = 1)
    IN IF d = 0 THEN TRUE ELSE pa[d] < pb[d]

\* non-negative decimals [ip |-> digits, fp |-> digits]: a <= b, a = b
DecEQ(a, b) == StripLeadingZeros(a.ip) = StripLeadingZeros(b.ip) /\ StripTrailingZeros(a.fp) = StripTrailingZeros(b.fp)
DecLE(a, b) ==
    LET ai == StripLeadingZeros(a.ip) bi == StripLeadingZeros(b.ip)
    IN IF ai # bi THEN DigitsLE(ai, bi) ELSE FracLE(a.fp, b.fp)
DecLT(a, b) == DecLE(a, b) /\ ~DecEQ(a, b)

IsPrefixOf(p, s) == Len(p) <= Len(s) /\ SubSeq(s, 1, Len(p)) = p

\* first index >= from at which pattern pat occurs in s (0 if none)
FindFrom(s, pat, from) ==
    LET n == Len(s) m == Len(pat)
        cands == {i \in from..(n - m + 1) : SubSeq(s, i, i + m - 1) = pat}
    IN IF cands = {} THEN 0 ELSE CHOOSE i \in cands : \A j \in cands : i <= j
=============================================================================
