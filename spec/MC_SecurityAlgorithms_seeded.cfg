SPECIFICATION Spec
CONSTANTS
  Thorough = FALSE
  Mut = "none"
  Dev_h12 = TRUE
  Dev_h13 = TRUE
  Dev_ownerAbsent = TRUE
  Dev_length = FALSE
  Dev_tableCache = TRUE
  Dev_identity = TRUE
  Dev_emBelowV4 = TRUE
  Dev_encDirect = TRUE
  Dev_sig = TRUE
  Dev_cryptNoParams = TRUE
  Emit = FALSE
INVARIANTS AuthUserSound AuthUserComplete AuthOwnerSound AuthOwnerComplete KeyAgreement NoKeyWithoutAuth Plaintext Shapes ImplDictRefines ImplKeyRefines ImplItemRefines ImplOpens ImplRejects LengthAgreement ImplLengthRefines ImplItemClasses FormAgreement ImplFormRefines ImplPrepRefines PrepMatters EmitInv
CHECK_DEADLOCK FALSE
