SPECIFICATION Spec
CONSTANTS
  Thorough = FALSE
  Mut = "none"
  Dev_h12 = TRUE
  Dev_h13 = TRUE
  Dev_ownerAbsent = TRUE
  Dev_length = FALSE
  Dev_tableCache = TRUE
  Emit = FALSE
INVARIANTS AuthUserSound AuthUserComplete AuthOwnerSound AuthOwnerComplete KeyAgreement NoKeyWithoutAuth Plaintext Shapes ImplDictRefines ImplKeyRefines ImplItemRefines ImplOpens ImplRejects LengthAgreement ImplLengthRefines ImplPrepRefines PrepMatters EmitInv
CHECK_DEADLOCK FALSE
