SPECIFICATION Spec
CONSTANTS
  Thorough = TRUE
  Dev_h41 = FALSE
  Emit = TRUE
INVARIANTS CalendarOk RoundTrip FmtRefines ParseRefines FunctionForm Terminates EmitInv
CHECK_DEADLOCK FALSE
