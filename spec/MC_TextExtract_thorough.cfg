SPECIFICATION Spec
CONSTANTS
  N = 4
  NPre = 3
  FmIds = {"domain", "plain", "broken", "partial"}
  EmitIds = {"domain"}
  Rep <- AsCode
INVARIANTS FunctionForm A B C AR BR Domain Classified FlagLayoutOnly BrokenFails EmitInv
CHECK_DEADLOCK FALSE
