SPECIFICATION Spec
CONSTANTS
  N = 4
  FmIds = {"domain", "plain", "broken", "partial"}
  EmitIds = {"domain"}
INVARIANTS FunctionForm A B C Domain BrokenFails EmitInv
CHECK_DEADLOCK FALSE
