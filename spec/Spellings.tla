----------------------------- MODULE Spellings -----------------------------
(***************************************************************************)
(* The lexical freedom ISO 32000-1 7.2-7.3 leaves to a PDF producer, as     *)
(* pure operators: every legal way (within a finite style set) to spell a   *)
(* name, a string, a number, a separator.  Used by the Producer state       *)
(* machine (SyntaxProducer.tla), which chooses styles nondeterministically. *)
(***************************************************************************)
EXTENDS PdfObjects


HexDigitU(n) == IF n < 10 THEN 48 + n ELSE 55 + n          \* 0-9 A-F
HexDigitL(n) == IF n < 10 THEN 48 + n ELSE 87 + n          \* 0-9 a-f
HexPairU(b) == <<HexDigitU(b \div 16), HexDigitU(b % 16)>>
HexPairL(b) == <<HexDigitL(b \div 16), HexDigitL(b % 16)>>

Concat(seqs) == FoldLeft(LAMBDA acc, s : acc \o s, <<>>, seqs)

-----------------------------------------------------------------------------
(* Names (7.3.5): a byte must be written as #XX iff it is not a regular character or is '#'. *)
NameStyles == {"min", "hexall", "alt"}

NameMustEscape(b) == ~IsRegular(b) \/ b = 35

NameSpell(bytes, style) ==
    <<47>> \o Concat([i \in 1..Len(bytes) |->
        LET b == bytes[i] IN
        IF NameMustEscape(b) \/ style = "hexall" THEN <<35>> \o HexPairU(b)
        ELSE IF style = "alt" /\ i % 2 = 1 THEN <<35>> \o HexPairL(b)
        ELSE <<b>>])

-----------------------------------------------------------------------------
(* Literal strings (7.3.4.2) *)
LitStyles == {"min", "escparens", "oct3", "named", "octshort", "cont", "eolcr", "eolcrlf", "bsignored"}

\* balanced parentheses?
Balanced(bytes) ==
    LET r == FoldLeft(LAMBDA acc, b : IF acc < 0 THEN acc
                                      ELSE IF b = 40 THEN acc + 1
                                      ELSE IF b = 41 THEN (IF acc = 0 THEN 0 - 1 ELSE acc - 1)
                                      ELSE acc, 0, bytes)
    IN r = 0

Oct3(b) == <<92, 48 + (b \div 64), 48 + ((b \div 8) % 8), 48 + (b % 8)>>

\* shortest octal escape that is unambiguous given the next byte (1-3 digits)
OctShort(b, next) ==
    LET nextOct == next >= 48 /\ next <= 55 IN
    IF nextOct THEN Oct3(b)
    ELSE IF b < 8 THEN <<92, 48 + b>>
    ELSE IF b < 64 THEN <<92, 48 + (b \div 8), 48 + (b % 8)>>
    ELSE Oct3(b)

LitByteSpell(bytes, i, style, bal) ==
    LET b == bytes[i]
        next == IF i < Len(bytes) THEN bytes[i + 1] ELSE 0
    IN
    IF style = "oct3" THEN Oct3(b)
    ELSE IF b = 92 THEN <<92, 92>>
    ELSE IF b = 40 \/ b = 41 THEN (IF bal /\ style = "min" THEN <<b>> ELSE <<92, b>>)
    ELSE IF b = 13 THEN (IF style = "octshort" THEN OctShort(13, next) ELSE <<92, 114>>)
    ELSE IF b = 10 THEN
        (IF style = "named" THEN <<92, 110>>
         ELSE IF style = "eolcr" THEN <<13>>               \* a raw end-of-line marker reads as LF
         ELSE IF style = "eolcrlf" THEN <<13, 10>>
         ELSE IF style = "octshort" THEN OctShort(10, next)
         ELSE <<10>>)
    ELSE IF style = "named" /\ b = 9 THEN <<92, 116>>
    ELSE IF style = "named" /\ b = 8 THEN <<92, 98>>
    ELSE IF style = "named" /\ b = 12 THEN <<92, 102>>
    ELSE IF style = "octshort" /\ (b < 32 \/ b > 126) THEN OctShort(b, next)
    \* a backslash before a character that needs no escape is ignored by the reader
    ELSE IF style = "bsignored" /\ b >= 65 /\ b <= 90 THEN <<92, b>>
    ELSE <<b>>

LitSpell(bytes, style) ==
    LET bal == Balanced(bytes)
        body == [i \in 1..Len(bytes) |-> LitByteSpell(bytes, i, style, bal)]
        \* "cont": a backslash-EOL pair (line continuation, reads as nothing) after the 1st and 2nd byte
        withcont == [i \in 1..Len(bytes) |->
                        IF style = "cont" /\ i = 1 THEN body[i] \o <<92, 10>>
                        ELSE IF style = "cont" /\ i = 2 THEN body[i] \o <<92, 13, 10>>
                        ELSE IF style = "cont" /\ i = 3 THEN body[i] \o <<92, 13>>
                        ELSE body[i]]
        \* a continuation with CR alone must not be followed by a raw LF (it would be swallowed)
    IN <<40>> \o Concat(withcont) \o <<41>>

\* "cont" after byte 3 ends with backslash CR: unsafe if byte 4 is spelled as a raw LF
LitStyleOk(bytes, style) ==
    IF style = "cont" THEN ~(Len(bytes) >= 4 /\ bytes[4] = 10) ELSE TRUE

-----------------------------------------------------------------------------
(* Hexadecimal strings (7.3.4.3) *)
HexStyles == {"upper", "lower", "spaced", "odd"}

HexSpell(bytes, style) ==
    LET n == Len(bytes)
        pairs == [i \in 1..n |->
                    IF style = "lower" THEN HexPairL(bytes[i])
                    ELSE IF style = "spaced" THEN (IF i % 2 = 0 THEN <<10>> ELSE <<32>>) \o <<HexDigitU(bytes[i] \div 16), 9, HexDigitL(bytes[i] % 16)>>
                    ELSE HexPairU(bytes[i])]
        all == Concat(pairs)
        \* a final 0 nibble may be omitted
        dropped == IF style = "odd" /\ n > 0 /\ bytes[n] % 16 = 0 THEN SubSeq(all, 1, Len(all) - 1) ELSE all
    IN <<60>> \o dropped \o (IF style = "spaced" THEN <<13, 10>> ELSE <<>>) \o <<62>>

-----------------------------------------------------------------------------
(* Numbers (7.3.3) *)
IntStyles == {"plain", "plus", "zeros"}
RealStyles == {"plain", "plus", "zeros", "dot"}

DigitBytes(d) == [i \in 1..Len(d) |-> 48 + d[i]]

IntSpell(o, style) ==
    LET sign == IF o.neg THEN <<45>> ELSE IF style = "plus" THEN <<43>> ELSE <<>>
        lead == IF style = "zeros" THEN <<48, 48>> ELSE <<>>
    IN sign \o lead \o DigitBytes(o.v)

RealSpell(o, style) ==
    LET sign == IF o.neg THEN <<45>> ELSE IF style = "plus" THEN <<43>> ELSE <<>>
        ip == IF style = "zeros" THEN <<48>> \o DigitBytes(o.v)
              ELSE IF style = "dot" /\ o.v = <<0>> /\ o.w # <<>> THEN <<>>        \* ".5"
              ELSE DigitBytes(o.v)
        fp == IF style = "zeros" THEN DigitBytes(o.w) \o <<48, 48>>
              ELSE IF style = "dot" THEN DigitBytes(o.w)                          \* "4." when integral
              ELSE IF o.w = <<>> THEN <<48>> ELSE DigitBytes(o.w)
    IN sign \o ip \o <<46>> \o fp

-----------------------------------------------------------------------------
(* Separators: white-space (Table 1) and comments *)
AllSeps == { <<>>, <<32>>, <<10>>, <<13>>, <<13, 10>>, <<9>>, <<12>>, <<0>>, <<32, 32>>, <<10, 10>>,
             <<37, 99, 10>>, <<32, 37, 13, 10>>, <<37, 40, 13>> }          \* "%c LF", " % CR LF", "%( CR"
FewSeps == { <<>>, <<32>>, <<37, 99, 10>> }
\* white-space that every content-stream parser in the field accepts (SP TAB CR LF; no FF, NUL, comments)
ContentSeps == { <<>>, <<32>>, <<10>>, <<13>>, <<13, 10>>, <<9>>, <<32, 32>> }
ContentFewSeps == { <<>>, <<32>>, <<13, 10>> }
SepsOf(mode) == IF mode = "all" THEN AllSeps ELSE IF mode = "few" THEN FewSeps
                ELSE IF mode = "content" THEN ContentSeps ELSE IF mode = "contentfew" THEN ContentFewSeps
                ELSE { <<>>, <<10>> }
EOLs == { <<10>>, <<13>>, <<13, 10>> }

\* A separator is required between two tokens when the second starts with a regular character and
\* the first would absorb it: it ends with a regular character, or it is the empty name "/".
NeedSep(out, tok) ==
    out # <<>> /\ tok # <<>> /\ IsRegular(tok[1]) /\ (IsRegular(out[Len(out)]) \/ out[Len(out)] = 47)
=============================================================================
