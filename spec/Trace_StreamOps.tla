-------------------------- MODULE Trace_StreamOps --------------------------
(* impl -> spec: every record is one public call observed on a small lopdf document            *)
(*   [run, op, sid (1-based stream, 0 = whole document), arg, res, post |-> pi(every stream)]    *)
(* dk / dnow = kind of the thread's most recent disturbance / whether it came right before the call, *)
(* op = "reset" starts a new document (post = the streams as built).  The spec carries the       *)
(* stream states, judges each call with the declarative layer of StreamOps (LengthOK,            *)
(* SetContentOK, SetPlainOK, CompressOK, DecompressOK, DecodeAgrees for the logged results of     *)
(* decompressed_content / get_plain_content), reports the first broken clause and                *)
(* re-synchronises to the logged state.  Real deflate output is not inflated by the spec: the     *)
(* check script inflates it with Python's zlib and logs the result as the field `orc`.           *)
(* Verdicts: "ok", "ok-drift" (declarative contract holds, but the state differs from the        *)
(* impl-shaped action), the class of a repaired defect that came back ("png.avg",                *)
(* "decodeparms.array", "compress.stale-decodeparms": broken *exactly* as the deviation switch     *)
(* predicts, on an input of that class), or the name of the broken clause.                        *)
EXTENDS StreamOps, Json, IOUtils

Recs == ndJsonDeserialize(IOEnv.TRACE)

VARIABLES l, st
vars == <<l, st>>

StateOf(j) ==
    [filters |-> j.filters, ff |-> j.fform, form |-> j.form, parms |-> j.parms, length |-> j.length, content |-> j.content,
     allows |-> j.allows, orc |-> j.orc, ind |-> j.ind, abs |-> j.abs]

\* broken clauses in reporting order: generic ones first, so that a recognised regression class in the same
\* record never masks anything else; the three classes of repaired defects last
Order == <<"panic", "stream-count", "unknown-op", "length", "set_content", "set_plain_content", "compress.longer",
           "compress.lossy", "decompress.failed", "decompress.content", "untouched-stream-changed",
           "decompressed_content", "get_plain_content",
           "png.encode_row", "png.encode-avg", "indirect.filter", "indirect.filter-elem", "indirect.parms", "indirect.parms-elem",
           "indirect.value", "doc-decompress.content", "get_page_content", "doc-indirect.filter", "doc-indirect.filter-elem",
           "doc-indirect.parms", "doc-indirect.parms-elem", "doc-indirect.value", "filter.empty-array", "compress.stale-decodeparms", "decodeparms.array", "png.avg">>
First(bad) == Order[CHOOSE k \in 1..Len(Order) : Order[k] \in bad /\ \A j \in 1..(k - 1) : Order[j] \notin bad]

\* a decode result [ok, data] that should be View(s): "" when it agrees, else the class / clause
DecodeIssue(s, r, clause) ==
    IF DecodeAgrees(s, r) THEN ""
    ELSE LET ks == {k \in KnownClasses(s, "query") : r.ok /\ r.data = ImplViewFor(s, k).data}
         IN IF ks # {} THEN First(ks) ELSE clause

\* get_plain_content also answers for streams without filters
PlainIssue(s, r) ==
    IF s.filters = <<>> THEN (IF r.ok /\ r.data = s.content THEN "" ELSE "get_plain_content")
    ELSE DecodeIssue(s, r, "get_plain_content")

\* Document::get_page_content with the stream as the content of a page (logged as field pc of the state)
DocReadIssues(s, j) ==
    {IF DocReadAgrees(s, j.pc) THEN ""
     ELSE IF s.ind # "none" /\ j.pc.data = Append(s.content, 10) THEN "doc-indirect." \o s.ind ELSE "get_page_content"}

QueryIssues(s, j) == {DecodeIssue(s, j.dc, "decompressed_content"), PlainIssue(s, j.gp)} \cup DocReadIssues(s, j)

CompressIssues(pre, post) ==
    {IF LengthOK(post) THEN "" ELSE "length",
     IF Len(post.content) <= Len(pre.content) THEN "" ELSE "compress.longer",
     IF Decodable(pre) => View(post) = View(pre) THEN ""
     ELSE IF "compress.stale-decodeparms" \in KnownClasses(pre, "compress") /\ post = ImplCompress(pre, post.content, TRUE)
          THEN "compress.stale-decodeparms" ELSE "compress.lossy"}

DecompressIssues(pre, post, res) ==
    {IF LengthOK(post) THEN "" ELSE "length",
     IF DecompressOK(pre, [post EXCEPT !.length = Len(post.content)]) THEN ""
     ELSE LET ks == {k \in KnownClasses(pre, "decompress") : post.filters = <<>> /\ post.content = ImplViewFor(pre, k).data}
          IN IF ks # {} THEN First(ks)
             ELSE IF res # "ok" THEN "decompress.failed" ELSE "decompress.content"}

\* Document::decompress holds the referenced objects: references resolved, then the Stream contract.  Class
\* doc-indirect.<entry>: the stream with an entry written as a reference is left exactly as it was.
DocDecompressIssues(pre, post) ==
    IF pre.ind = "none" THEN DecompressIssues(pre, post, "ok")
    ELSE {IF LengthOK(post) THEN "" ELSE "length",
          IF DocDecompressOK(pre, [post EXCEPT !.length = Len(post.content)]) THEN ""
          ELSE IF post = pre THEN "doc-indirect." \o pre.ind ELSE "doc-decompress.content"}


\* issues of stream i for record rec (pre = carried state)
StreamIssues(pre, rec, i) ==
    LET post == StateOf(rec.post[i])
        touched == rec.sid = 0 \/ rec.sid = i
    IN IF ~touched THEN {IF post = pre[i] THEN "" ELSE "untouched-stream-changed"}
                        \cup (IF rec.dnow THEN QueryIssues(post, rec.post[i]) ELSE {})     \* queried after a disturbance
       ELSE QueryIssues(post, rec.post[i]) \cup
            CASE rec.op = "set_content"       -> {IF SetContentOK(pre[i], rec.arg, post) THEN "" ELSE "set_content"}
              [] rec.op = "set_plain_content" -> {IF SetPlainOK(pre[i], rec.arg, post) THEN "" ELSE "set_plain_content"}
              [] rec.op \in {"compress", "doc_compress"}     -> CompressIssues(pre[i], post)
              [] rec.op = "decompress" -> DecompressIssues(pre[i], post, rec.res)
              [] rec.op = "doc_decompress" -> DocDecompressIssues(pre[i], post)
              [] OTHER -> {"unknown-op"}

ImplPost(pre, rec, i) ==
    LET post == StateOf(rec.post[i]) IN
    IF ~(rec.sid = 0 \/ rec.sid = i) THEN pre[i]
    ELSE CASE rec.op = "set_content"       -> ImplSetContent(pre[i], rec.arg)
           [] rec.op = "set_plain_content" -> ImplSetPlain(pre[i], rec.arg)
           [] rec.op = "compress"          -> ImplCompress(pre[i], post.content, FALSE)
           [] rec.op = "doc_compress"      -> IF pre[i].allows THEN ImplCompress(pre[i], post.content, FALSE) ELSE pre[i]
           [] OTHER                        -> ImplDecompress(pre[i], FALSE, FALSE, FALSE, FALSE, FALSE)    \* as the code is: a002bcd repaired filter.empty-array, a93209f indirect.*

Drift(pre, rec, i) ==
    LET post == StateOf(rec.post[i]) ip == ImplPost(pre, rec, i)
    IN [post EXCEPT !.orc = NoOracle] # [ip EXCEPT !.orc = NoOracle]

\* Disturb: rec.dnow says that, on the same thread, some other stream (kind rec.dk; most of them fail part-way)
\* was decoded immediately before the call and before each decode query of the projection; otherwise rec.dk is
\* the kind of the most recent disturbance of the thread ("none": never disturbed).  A disturbance changes no
\* state of the specification - decoding is a function of (content, dictionary) - so every record is judged
\* exactly like an undisturbed one.  Only the *name* of a broken decode clause depends on it: when a thread that
\* never decoded anything gives another answer for the same call (rec.fresh_same, post[i].hs; logged by the
\* harness for naming, never for judging) the verdict is history.<kind of the most recent disturbance>.
HistClauses == {"decompressed_content", "get_plain_content", "decompress.content", "decompress.failed", "compress.lossy",
                "untouched-stream-changed"}
Named(v, rec) ==
    IF v \in HistClauses /\ (~rec.fresh_same \/ \E i \in 1..Len(rec.post) : rec.post[i].hs)
    THEN "history." \o (IF rec.dk = "none" THEN "earlier-call" ELSE rec.dk) ELSE v

\* op "row": png::encode_row on a random raw row, then decode_row on the result (no stream involved): the encoded row
\* is what PNG 9 defines and decoding gives the raw row back.  Class png.encode-avg: an Average row that comes out
\* exactly as the deviation "left + above added in u8" predicts.
RowIssue(r) ==
    IF r.enc = PngEncodeRow(r.ft, Min2(r.bpp, Len(r.raw)), r.prev, r.raw) /\ r.dec = r.raw THEN ""
    ELSE IF r.ft = 3 /\ r.enc = ImplPngEncodeRow(r.ft, r.bpp, r.prev, r.raw, TRUE) THEN "png.encode-avg"
    ELSE "png.encode_row"

Judge(pre, rec) ==
    LET n == Len(rec.post)
        issues == IF rec.res = "panic" THEN {"panic"}
                  ELSE IF rec.op = "row" THEN {RowIssue(rec.row)}
                  ELSE IF rec.op = "reset"
                  THEN UNION {QueryIssues(StateOf(rec.post[i]), rec.post[i])
                              \cup {IF LengthOK(StateOf(rec.post[i])) THEN "" ELSE "length"} : i \in 1..n}
                  ELSE IF n # Len(pre) THEN {"stream-count"}
                  ELSE UNION {StreamIssues(pre, rec, i) : i \in 1..n}
        bad   == issues \ {""}
    IN IF bad # {} THEN Named(First(bad), rec)
       ELSE IF rec.op \notin {"reset", "row"} /\ \E i \in 1..n : Drift(pre, rec, i) THEN "ok-drift"
       ELSE "ok"

Init == l = 1 /\ st = <<>>
Next == /\ l <= Len(Recs)
        /\ PrintT(<<"VERDICT", ToJson([i |-> l, v |-> Judge(st, Recs[l])])>>)
        /\ st' = [i \in 1..Len(Recs[l].post) |-> StateOf(Recs[l].post[i])]     \* re-synchronise to the logged state
        /\ l' = l + 1
Spec == Init /\ [][Next]_vars
Consumed == TLCGet("stats").diameter = Len(Recs) + 1
=============================================================================
