SPECIFICATION Spec
CONSTANTS
  Universe = "atoms"
  Emit = FALSE
  SepMode = "all"
INVARIANTS RoundTrip EmitInv
CHECK_DEADLOCK FALSE
