----------------------------- MODULE Trace_CMap -----------------------------
(* impl -> spec: every record is one CMap the driver rendered as program text and gave to lopdf:  *)
(*   [defs  |-> the definitions in the order of the program text, lo/hi as code bytes,             *)
(*    codes |-> the mapped codes that were decoded (byte strings),                                 *)
(*    per   |-> lopdf's result for every code alone  [p |-> 0 ok / 1 panic / 2 error, chars],      *)
(*    whole |-> lopdf's result for the concatenation of all codes,                                 *)
(*    err   |-> "" or why get_font_encoding gave no encoding,                                     *)
(*    sty   |-> the style of the rendering (CMap!sty), font |-> the /Encoding form next to /ToUnicode]. *)
(* Only the declarative layer of CMap judges (Lookup, Text, WellFormed, Class).  4-byte codes are  *)
(* represented as value - 2^31 (TLC integers are 32 bit); Lookup only compares and subtracts.      *)
EXTENDS CMap, Json, IOUtils

Recs == ndJsonDeserialize(IOEnv.TRACE)

VARIABLE l

NumOf(bs) == FoldLeft(LAMBDA n, b : n * 256 + b, 0, bs)               \* at most 3 bytes
CodeOf(bs) == IF Len(bs) = 4 THEN (NumOf(SubSeq(bs, 1, 3)) - 8388608) * 256 + bs[4] ELSE NumOf(bs)

DefOf(j) == MkDef(j.kind, j.len, CodeOf(j.lo), CodeOf(j.hi), [k |-> j.k, u |-> j.u, a |-> j.a])

\* byte-level side conditions of the domain: code bytes have the stated length, a range varies only
\* in its last byte, and no mapped code is a proper prefix of another one
BytesOK(jd) ==
    /\ \A i \in 1..Len(jd) : /\ Len(jd[i].lo) = jd[i].len /\ Len(jd[i].hi) = jd[i].len
                             /\ SubSeq(jd[i].lo, 1, jd[i].len - 1) = SubSeq(jd[i].hi, 1, jd[i].len - 1)
                             /\ \A b \in 1..jd[i].len : jd[i].lo[b] \in 0..255 /\ jd[i].hi[b] \in 0..255
    /\ \A i, j \in 1..Len(jd) : jd[j].len < jd[i].len =>
          LET m == jd[j].len IN
          ~(NumOf(SubSeq(jd[i].lo, 1, m)) <= NumOf(jd[j].hi) /\ NumOf(jd[j].lo) <= NumOf(SubSeq(jd[i].hi, 1, m)))

Judge(rec) ==
    LET defs  == SubSeq([i \in 1..Len(rec.defs) |-> DefOf(rec.defs[i])], 1, Len(rec.defs))
        n     == Len(rec.codes)
        idx   == [i \in 1..n |-> i]
        cs    == SubSeq([i \in 1..n |-> <<Len(rec.codes[i]), CodeOf(rec.codes[i])>>], 1, n)
        \* per code, computed once (SubSeq forces the tuple): winner, defined units, text, input class
        info  == SubSeq([i \in 1..n |->
                    LET S == CoveringIdx(defs, cs[i][1], cs[i][2]) IN
                    IF S = {} THEN [cov |-> FALSE, units |-> <<>>, exp |-> <<>>, cls |-> "", bom |-> FALSE]
                    ELSE LET w == MaxOf(S)
                             u == TargetAt(defs[w], cs[i][2])
                         IN [cov |-> TRUE, units |-> u, exp |-> Text(u),
                             cls |-> CaseClassAt(defs, w, cs[i][1], cs[i][2]), bom |-> BomStart(u)]], 1, n)
        \* the one respect in which the spelling / the font dictionary departs from the tolerated one (CMap!sty)
        sty   == [k |-> rec.sty.k, a |-> rec.sty.a, b |-> rec.sty.b, s |-> rec.sty.s]
        inDom == /\ Len(defs) >= 1 /\ n >= 1 /\ BytesOK(rec.defs) /\ WellFormed(defs)
                 /\ \A i \in 1..n : info[i].cov
                 /\ StyleLegal(sty) /\ rec.font \in FontForms
                 /\ (sty.k = "font" => sty.a = rec.font)
                 /\ (rec.font \in BaseForms => \A i \in 1..Len(defs) : defs[i].len = 1)
    IN
    IF ~inDom THEN [v |-> "outside-domain", bad |-> <<>>, cls |-> <<>>, w |-> "skip"]
    ELSE IF rec.err # "" THEN [v |-> "no-encoding", bad |-> <<>>, cls |-> <<>>, w |-> "skip"]
    ELSE IF Len(rec.per) # n THEN [v |-> "short-result", bad |-> <<>>, cls |-> <<>>, w |-> "skip"]
    ELSE
    LET okAt(i) == rec.per[i].p = 0 /\ rec.per[i].chars = info[i].exp
        badIdx == SelectSeq(idx, LAMBDA i : ~okAt(i))
        bad   == [b \in 1..Len(badIdx) |-> [c |-> badIdx[b], cls |-> info[badIdx[b]].cls, exp |-> info[badIdx[b]].exp]]
        allUnits == FoldLeft(LAMBDA acc, i : acc \o info[i].units, <<>>, idx)
        wc    == rec.whole.chars
        wholeOK == rec.whole.p = 0 /\ wc = Text(allUnits)
        \* A wrong whole string is explained by wrong codes when it is the concatenation of the per-code
        \* results, where a BOM-class code that is not the first one may also show its expected text
        \* (the sniffing only looks at the start of a string).  pos = set of matched prefix lengths.
        anyP  == \E i \in 1..n : rec.per[i].p # 0
        opts(i) == {rec.per[i].chars} \cup (IF i > 1 /\ info[i].bom THEN {info[i].exp} ELSE {})
        pos   == FoldLeft(LAMBDA S, i : {p + Len(x) : <<p, x>> \in
                                           {px \in S \X opts(i) : /\ px[1] + Len(px[2]) <= Len(wc)
                                                                    /\ SubSeq(wc, px[1] + 1, px[1] + Len(px[2])) = px[2]}},
                          {0}, idx)
        explained == Len(badIdx) > 0 /\ (IF anyP THEN rec.whole.p # 0 ELSE rec.whole.p = 0 /\ Len(wc) \in pos)
    IN [v |-> IF Len(badIdx) = 0 /\ wholeOK THEN "ok" ELSE IF Len(badIdx) > 0 THEN "codes" ELSE "whole",
        bad |-> bad,
        cls |-> [i \in 1..n |-> info[i].cls],
        w |-> IF wholeOK THEN "ok" ELSE IF explained THEN "explained"
              ELSE IF BomStart(allUnits) THEN "bom" ELSE "bad"]

Init == l = 1
StyleClassOf(rec) == StyleClass([k |-> rec.sty.k, a |-> rec.sty.a, b |-> rec.sty.b, s |-> rec.sty.s])
Next == /\ l <= Len(Recs)
        /\ LET j == Judge(Recs[l]) IN
           PrintT(<<"VERDICT", ToJson([i |-> l, v |-> j.v, bad |-> j.bad, cls |-> j.cls, w |-> j.w, sc |-> StyleClassOf(Recs[l])])>>)
        /\ l' = l + 1
Spec == Init /\ [][Next]_l
Consumed == TLCGet("stats").diameter = Len(Recs) + 1
=============================================================================
