SPECIFICATION Spec
CONSTANTS
  Layouts <- LayoutsQuick
  DangIds <- DangQuick
  Starts = {1, 2, 5}
  DevChain = FALSE
  DevDang = FALSE
  DevUnder = FALSE
  DevDup = FALSE
  DevClash = FALSE
  DevBmDang = FALSE
  DevReach = FALSE
  DevZero = FALSE
  DevFit = "none"
  Limit = 20
  Allowed = {"ok"}
  Emit = TRUE
  EmitMod = 1
INVARIANTS Refines Consistent FunctionForm RepairedRefines EmitInv
CHECK_DEADLOCK FALSE
