SPECIFICATION Spec
CONSTANTS
  Layouts <- LayoutsQuick
  DangIds <- DangQuick
  Starts = {1, 2, 5}
  DevChain = FALSE
  DevDang = FALSE
  DevUnder = FALSE
  Allowed = {"ok"}
  Emit = TRUE
  EmitMod = 1
INVARIANTS Refines Consistent FunctionForm EmitInv
CHECK_DEADLOCK FALSE
