------------------------------- MODULE Dates -------------------------------
(***************************************************************************)
(* PDF dates (ISO 32000-1 7.9.4) and the proleptic Gregorian calendar      *)
(* (property C18).                                                          *)
(*                                                                          *)
(* All arithmetic stays below 2^31: an instant is a record                  *)
(*     [day |-> n, sod |-> s]                                               *)
(* n = whole days since 0001-01-01 (UTC), s = second of that UTC day.      *)
(* A UTC offset is a number of minutes, east positive (-1439..1439).        *)
(* Strings are sequences of byte values.                                    *)
(*                                                                          *)
(* Two layers (DESIGN 2.9):                                                 *)
(*  - declarative: the calendar (day 0 = 0001-01-01, Succ), Fmt / FmtUtc /  *)
(*    FmtMin / FmtMinZ / FmtDate (what the date string of an instant is)    *)
(*    and Parse (what instant and offset a date string denotes).  Only this *)
(*    layer decides.                                                        *)
(*  - impl-shaped: what src/datetime.rs does: strftime with "%:z'", the     *)
(*    backwards scan of convert_utc_offset, datetime_string's filter and    *)
(*    the per-backend chains of strptime attempts.                          *)
(***************************************************************************)
EXTENDS Integers, Sequences, SequencesExt

MaxDay == 3652058            \* 9999-12-31
MaxOff == 1439               \* 23:59

-----------------------------------------------------------------------------
(* Declarative layer: calendar *)

IsLeap(y) == (y % 4 = 0 /\ y % 100 # 0) \/ y % 400 = 0

DaysInMonth(y, m) ==
    IF m \in {1, 3, 5, 7, 8, 10, 12} THEN 31
    ELSE IF m = 2 THEN (IF IsLeap(y) THEN 29 ELSE 28) ELSE 30

\* (year 0000 can be written with four digits: it is the local year of instants of 0001-01-01 at negative offsets)
ValidCivil(y, m, d) == y \in 0..9999 /\ m \in 1..12 /\ d \in 1..DaysInMonth(y, m)

\* whole years before year y: 365 days each plus one per leap year
DaysBeforeYear(y) == LET p == y - 1 IN 365 * p + p \div 4 - p \div 100 + p \div 400

DaysBeforeMonth(y, m) ==
    LET f[k \in 0..12] == IF k = 0 THEN 0 ELSE f[k - 1] + DaysInMonth(y, k) IN f[m - 1]

DaysFromCivil(y, m, d) == DaysBeforeYear(y) + DaysBeforeMonth(y, m) + d - 1

\* the day after a civil date (this and "day 0 is 0001-01-01" define the calendar)
Succ(c) ==
    IF c.d < DaysInMonth(c.y, c.m) THEN [c EXCEPT !.d = c.d + 1]
    ELSE IF c.m < 12 THEN [y |-> c.y, m |-> c.m + 1, d |-> 1]
    ELSE [y |-> c.y + 1, m |-> 1, d |-> 1]

\* Closed form of "apply Succ n times to 0001-01-01" (eras of 400 years starting on 1 March;
\* MC_Dates checks it against Succ and DaysFromCivil on every day of years 0001..9999).
CivilFromDays(n) ==
    LET z   == n + 306                       \* days since 0000-03-01
        era == z \div 146097
        doe == z % 146097
        yoe == (doe - doe \div 1460 + doe \div 36524 - doe \div 146096) \div 365
        doy == doe - (365 * yoe + yoe \div 4 - yoe \div 100)
        mp  == (5 * doy + 2) \div 153
        d   == doy - (153 * mp + 2) \div 5 + 1
        m   == IF mp < 10 THEN mp + 3 ELSE mp - 9
        y0  == yoe + era * 400
    IN [y |-> IF m <= 2 THEN y0 + 1 ELSE y0, m |-> m, d |-> d]

-----------------------------------------------------------------------------
(* Declarative layer: instants, offsets, strings *)

\* shift an instant by k minutes (|k| <= 1439): the wall clock of instant i at offset k
Shift(i, k) ==
    LET t == i.sod + k * 60 + 172800         \* > 0
    IN [day |-> i.day + t \div 86400 - 2, sod |-> t % 86400]

LocalOf(i, off) == Shift(i, off)

\* the statement's quantifier: the INSTANT lies in years 0001..9999 (an instant has no zone: its UTC date), any offset
InDomain(i, off) == i.day \in 0..MaxDay /\ i.sod \in 0..86399 /\ off \in -MaxOff..MaxOff

\* D:YYYY... has four year digits: the wall clock of (i, off) can be written iff its year is 0000..9999.  In the domain
\* the only pairs that cannot are instants of the last 23:59 of year 9999 at an offset that carries them into year
\* 10000.  For those no PDF date string denotes (i, off); the most a conversion can do is keep the instant.
MinDay == -366               \* 0000-01-01
Expressible(i, off) == LocalOf(i, off).day \in MinDay..MaxDay

D2(n) == <<48 + (n \div 10), 48 + (n % 10)>>
D4(n) == <<48 + (n \div 1000), 48 + ((n \div 100) % 10), 48 + ((n \div 10) % 10), 48 + (n % 10)>>

cD == 68   cColon == 58   cApos == 39   cPlus == 43   cMinus == 45   cZ == 90

Abs(x) == IF x < 0 THEN -x ELSE x

DateDigits(w) == LET c == CivilFromDays(w.day) IN D4(c.y) \o D2(c.m) \o D2(c.d)
HM(w)  == D2(w.sod \div 3600) \o D2((w.sod \div 60) % 60)
HMS(w) == HM(w) \o D2(w.sod % 60)
OffTail(off) == <<IF off < 0 THEN cMinus ELSE cPlus>> \o D2(Abs(off) \div 60) \o <<cApos>>
                \o D2(Abs(off) % 60) \o <<cApos>>

\* D:YYYYMMDDHHmmSS+HH'mm'  — local wall clock, then the offset
Fmt(i, off)    == LET w == LocalOf(i, off) IN <<cD, cColon>> \o DateDigits(w) \o HMS(w) \o OffTail(off)
\* D:YYYYMMDDHHmmSSZ
FmtUtc(i)      == <<cD, cColon>> \o DateDigits(i) \o HMS(i) \o <<cZ>>
\* the shorter forms of 7.9.4 (seconds omitted; time omitted)
FmtMin(i, off) == LET w == LocalOf(i, off) IN <<cD, cColon>> \o DateDigits(w) \o HM(w) \o OffTail(off)
FmtMinZ(i)     == <<cD, cColon>> \o DateDigits(i) \o HM(i) \o <<cZ>>
FmtDate(i)     == <<cD, cColon>> \o DateDigits(i)

IsDigit(b) == b \in 48..57
AllDigits(s, a, b) == \A k \in a..b : IsDigit(s[k])
N2(s, a) == (s[a] - 48) * 10 + (s[a + 1] - 48)
N4(s, a) == N2(s, a) * 100 + N2(s, a + 2)

NoParse == [ok |-> FALSE, form |-> "none", day |-> 0, sod |-> 0, off |-> 0, indom |-> FALSE]

\* What a date string denotes.  Forms: full (23 bytes), fullZ (17), min (21), minZ (15), date (10).
\* Omitted seconds / time are 0; "Z" and an omitted UT relation are offset 0 (7.9.4: "shall be
\* considered to be GMT").  instant = wall clock - offset.
Parse(s) ==
    LET n  == Len(s)
        nd == IF n = 10 THEN 8 ELSE IF n \in {15, 21} THEN 12 ELSE IF n \in {17, 23} THEN 14 ELSE 0
    IN IF nd = 0 \/ s[1] # cD \/ s[2] # cColon \/ ~AllDigits(s, 3, 2 + nd) THEN NoParse
       ELSE
       LET y  == N4(s, 3)   mo == N2(s, 7)   d == N2(s, 9)
           h  == IF nd >= 12 THEN N2(s, 11) ELSE 0
           mi == IF nd >= 12 THEN N2(s, 13) ELSE 0
           se == IF nd = 14 THEN N2(s, 15) ELSE 0
           p  == 3 + nd                                 \* position of the UT relation
           tail == IF n = 10 THEN "none" ELSE IF n \in {15, 17} THEN "Z" ELSE "off"
           tailOk == IF tail = "none" THEN TRUE
                     ELSE IF tail = "Z" THEN s[p] = cZ
                     ELSE /\ s[p] \in {cPlus, cMinus} /\ AllDigits(s, p + 1, p + 2) /\ s[p + 3] = cApos
                          /\ AllDigits(s, p + 4, p + 5) /\ s[p + 6] = cApos
       IN IF ~tailOk THEN NoParse
          ELSE
          LET oh  == IF tail = "off" THEN N2(s, p + 1) ELSE 0
              om  == IF tail = "off" THEN N2(s, p + 4) ELSE 0
              off == IF tail = "off" /\ s[p] = cMinus THEN -(oh * 60 + om) ELSE oh * 60 + om
          IN IF ~(ValidCivil(y, mo, d) /\ h < 24 /\ mi < 60 /\ se < 60 /\ oh < 24 /\ om < 60) THEN NoParse
             ELSE LET w == [day |-> DaysFromCivil(y, mo, d), sod |-> h * 3600 + mi * 60 + se]
                      i == Shift(w, -off)
                  IN [ok |-> TRUE,
                      form |-> IF n = 23 THEN "full" ELSE IF n = 17 THEN "fullZ" ELSE IF n = 21 THEN "min"
                               ELSE IF n = 15 THEN "minZ" ELSE "date",
                      day |-> i.day, sod |-> i.sod, off |-> off,
                      indom |-> i.day \in 0..MaxDay]

\* classes of inputs (for narrow finding signatures)
OffClass(off) == IF off = 0 THEN "zero"
                 ELSE IF off > 0 THEN (IF off < 60 THEN "possub" ELSE "pos")
                 ELSE IF off > -60 THEN "negsub" ELSE "neg"
YearClass(day) == IF day > MaxDay THEN "y10000" ELSE IF day < MinDay THEN "yout" ELSE IF day < 0 THEN "y0000"
                  ELSE IF CivilFromDays(day).y < 1000 THEN "ylt1000" ELSE "y4"

-----------------------------------------------------------------------------
(* Declarative layer: a local zone with a daylight-saving rule (POSIX TZ "std off dst off,Mm.w.d/t,Mm.w.d/t") *)
(* A zone is a record                                                                                          *)
(*   [std, dst      offsets in minutes east of UTC (std = dst: a fixed zone, the rule is not looked at),       *)
(*    sm, sw, sd, st   daylight time starts in month sm on the sw-th (5 = last) weekday sd (0 = Sunday) when   *)
(*                     the STANDARD-time wall clock shows second st of the day,                                *)
(*    em, ew, ed, et   and ends likewise when the DAYLIGHT-time wall clock shows second et]                    *)
(* The offset of a DateTime<Local> / Zoned is a function of the instant and this rule - nothing else.         *)

Weekday(n) == (n + 1) % 7                    \* 0 = Sunday; day 0 (0001-01-01) is a Monday

\* the w-th weekday d of month m of year y (w = 5: the last one)
RuleDay(y, m, w, d) ==
    LET first == DaysFromCivil(y, m, 1)
        fd    == first + ((d - Weekday(first) + 7) % 7)
        cand  == fd + 7 * (w - 1)
    IN IF cand > first + DaysInMonth(y, m) - 1 THEN cand - 7 ELSE cand

Before(a, b) == a.day < b.day \/ (a.day = b.day /\ a.sod < b.sod)

\* instant + k seconds, |k| <= 86400
AddSec(i, k) == LET t == i.sod + k + 86400 IN [day |-> i.day + t \div 86400 - 1, sod |-> t % 86400]

\* the instants (UTC) at which the zone's clocks change in year y
ZoneStart(z, y) == Shift([day |-> RuleDay(y, z.sm, z.sw, z.sd), sod |-> z.st], -z.std)
ZoneEnd(z, y)   == Shift([day |-> RuleDay(y, z.em, z.ew, z.ed), sod |-> z.et], -z.dst)

\* rule months are 2..11, so both changes of a (UTC) year lie inside it; northern zones have start < end
ZoneOffset(z, i) ==
    IF z.std = z.dst THEN z.std
    ELSE LET y == CivilFromDays(i.day).y
             s == ZoneStart(z, y)
             e == ZoneEnd(z, y)
             inDst == IF Before(s, e) THEN ~Before(i, s) /\ Before(i, e) ELSE ~Before(i, s) \/ Before(i, e)
         IN IF inDst THEN z.dst ELSE z.std

\* what Object::from(<instant i as a date-time of local zone z>) is
LocalString(z, i) == Fmt(i, ZoneOffset(z, i))

-----------------------------------------------------------------------------
(* Impl-shaped layer: src/datetime.rs *)

Backends == {"chrono", "jiff", "time"}

\* date.format("D:%Y%m%d%H%M%S%:z'")  ->  D:YYYYMMDDHHMMSS+HH:MM'
\* chrono's %Y: four digits for years 0..9999, otherwise a sign and as many digits as needed
ImplDateDigits(w) ==
    LET c == CivilFromDays(w.day)
    IN (IF c.y <= 9999 THEN D4(c.y) ELSE <<cPlus, 48 + (c.y \div 10000)>> \o D4(c.y % 10000)) \o D2(c.m) \o D2(c.d)

ImplRawFmt(i, off) ==
    LET w == LocalOf(i, off)
    IN <<cD, cColon>> \o ImplDateDigits(w) \o HMS(w) \o <<IF off < 0 THEN cMinus ELSE cPlus>>
       \o D2(Abs(off) \div 60) \o <<cColon>> \o D2(Abs(off) % 60) \o <<cApos>>

\* convert_utc_offset, function form: the last ':' becomes an apostrophe
ImplConvert(buf) ==
    LET ks == {k \in 1..Len(buf) : buf[k] = cColon}
    IN IF ks = {} THEN buf ELSE [buf EXCEPT ![CHOOSE k \in ks : \A j \in ks : j <= k] = cApos]

\* time: "D:[year][month][day][hour][minute][second][offset_hour sign:mandatory]'[offset_minute]'"
ImplFmtTime(i, off) ==
    LET w == LocalOf(i, off) IN <<cD, cColon>> \o DateDigits(w) \o HMS(w) \o OffTail(off)

ImplFmt(b, i, off) == IF b = "time" THEN ImplFmtTime(i, off) ELSE ImplConvert(ImplRawFmt(i, off))
ImplFmtUtc(i) == <<cD, cColon>> \o DateDigits(i) \o HMS(i) \o <<cZ>>

\* From<DateTime<Local>>.  dev_y10k = TRUE: the code as it is (no guard: a local year 10000 is written "+10000");
\* FALSE: the proposed repair (a wall clock outside 0000..9999 is written as the same instant in UTC, +00'00').
ImplFmtChronoLocal(i, off, dev_y10k) ==
    IF ~dev_y10k /\ ~Expressible(i, off) THEN ImplConvert(ImplRawFmt(i, 0)) ELSE ImplConvert(ImplRawFmt(i, off))

\* Object::datetime_string: drop every 'D', ':' and apostrophe
Strip(s) == SelectSeq(s, LAMBDA c : c \notin {cD, cColon, cApos})

F_full_z == <<"Y", "m", "d", "H", "M", "S", "z">>
F_full_Z == <<"Y", "m", "d", "H", "M", "S", "Z">>
F_min_z  == <<"Y", "m", "d", "H", "M", "z">>
F_min_Z  == <<"Y", "m", "d", "H", "M", "Z">>
F_date   == <<"Y", "m", "d">>

\* the or_else chains.  dev_h41 = FALSE: the time backend as it is since fix: 4d9b221 (the five forms of the jiff
\* backend); TRUE: the repaired defect (one format: full seconds with a numeric offset).
Attempts(b, dev_h41) ==
    IF b = "chrono" THEN <<F_full_z, F_min_z, F_date>>          \* chrono's %#z also takes "Z"
    ELSE IF b = "jiff" \/ ~dev_h41 THEN <<F_full_z, F_full_Z, F_min_z, F_min_Z, F_date>>
    ELSE <<F_full_z>>

ImplFail == [ok |-> FALSE, day |-> 0, sod |-> 0, off |-> 0]

\* one strptime attempt with format f on the stripped text t
RunFormat(f, t, zulu) ==
    LET n == Len(t)
        step(acc, it) ==
            IF ~acc.ok THEN acc
            ELSE LET p == acc.pos
                     has(k) == p + k - 1 <= n /\ AllDigits(t, p, p + k - 1)
                     bad == [acc EXCEPT !.ok = FALSE]
                 IN CASE it = "Y" -> IF has(4) THEN [acc EXCEPT !.y = N4(t, p), !.pos = p + 4] ELSE bad
                      [] it = "m" -> IF has(2) THEN [acc EXCEPT !.mo = N2(t, p), !.pos = p + 2] ELSE bad
                      [] it = "d" -> IF has(2) THEN [acc EXCEPT !.d = N2(t, p), !.pos = p + 2] ELSE bad
                      [] it = "H" -> IF has(2) THEN [acc EXCEPT !.h = N2(t, p), !.pos = p + 2] ELSE bad
                      [] it = "M" -> IF has(2) THEN [acc EXCEPT !.mi = N2(t, p), !.pos = p + 2] ELSE bad
                      [] it = "S" -> IF has(2) THEN [acc EXCEPT !.se = N2(t, p), !.pos = p + 2] ELSE bad
                      [] it = "Z" -> IF p <= n /\ t[p] = cZ THEN [acc EXCEPT !.pos = p + 1] ELSE bad
                      [] it = "z" ->
                           IF zulu /\ p <= n /\ t[p] = cZ THEN [acc EXCEPT !.pos = p + 1]
                           ELSE IF p + 4 <= n /\ t[p] \in {cPlus, cMinus} /\ AllDigits(t, p + 1, p + 4)
                                THEN LET v == N2(t, p + 1) * 60 + N2(t, p + 3)
                                     IN IF N2(t, p + 1) < 24 /\ N2(t, p + 3) < 60
                                        THEN [acc EXCEPT !.off = IF t[p] = cMinus THEN -v ELSE v, !.pos = p + 5]
                                        ELSE bad
                                ELSE bad
        r == FoldLeft(step, [ok |-> TRUE, pos |-> 1, y |-> 1, mo |-> 1, d |-> 1, h |-> 0, mi |-> 0, se |-> 0,
                             off |-> 0], f)
    IN IF r.ok /\ r.pos = n + 1 /\ ValidCivil(r.y, r.mo, r.d) /\ r.h < 24 /\ r.mi < 60 /\ r.se < 60
       THEN LET i == Shift([day |-> DaysFromCivil(r.y, r.mo, r.d), sod |-> r.h * 3600 + r.mi * 60 + r.se], -r.off)
            IN [ok |-> TRUE, day |-> i.day, sod |-> i.sod, off |-> r.off]
       ELSE ImplFail

\* The environment: jiff turns a civil date-time into a Zoned by a zone NAME.  "UTC" is answered by jiff itself;
\* "GMT" (date-only attempt, dev_gmt = TRUE: the code as it is) is looked up in the host's time zone database and
\* fails when that has no such entry (hasGMT = FALSE).  dev_gmt = FALSE: the proposed repair (in_tz("UTC")).
NeedsGMT(b, f, dev_gmt) == dev_gmt /\ b = "jiff" /\ f = F_date
RunAttempt(b, f, t, dev_gmt, hasGMT) ==
    IF NeedsGMT(b, f, dev_gmt) /\ ~hasGMT THEN ImplFail ELSE RunFormat(f, t, b = "chrono")

\* as_datetime().try_into(), function form: first attempt that succeeds
ImplParseEnv(b, s, dev_h41, dev_gmt, hasGMT) ==
    LET t  == Strip(s)
        as == Attempts(b, dev_h41)
        rs == [k \in 1..Len(as) |-> RunAttempt(b, as[k], t, dev_gmt, hasGMT)]
        oks == {k \in 1..Len(as) : rs[k].ok}
    IN IF oks = {} THEN ImplFail ELSE rs[CHOOSE k \in oks : \A j \in oks : k <= j]

ImplParse(b, s, dev_h41) == ImplParseEnv(b, s, dev_h41, FALSE, TRUE)

\* From<DateTime<Local>> for Object inside one process: `cache` is what earlier calls left behind (<<>> = nothing).
\* As the code is there is no such state.  dev_cache transcribes the seeded design "the +HH'mm' suffix of the local
\* zone is rendered by the first call and appended by every later one".
ImplLocal(z, i, cache, dev_cache) ==
    LET full == ImplFmt("chrono", i, ZoneOffset(z, i))        \* strftime + convert_utc_offset on this value
    IN IF ~dev_cache THEN [out |-> full, cache |-> cache]
       ELSE LET suf == IF cache = <<>> THEN SubSeq(full, 17, 23) ELSE cache
            IN [out |-> SubSeq(full, 1, 16) \o suf, cache |-> suf]

\* does an impl-shaped / observed result [ok, day, sod, off] agree with what the string denotes?
\* (chrono's DateTime<Local> re-expresses the instant in the process zone: it keeps no offset)
Agrees(keepsOffset, r, want) ==
    /\ r.ok = want.ok
    /\ want.ok => /\ r.day = want.day /\ r.sod = want.sod
                  /\ keepsOffset => r.off = want.off
=============================================================================
