SPECIFICATION Spec
CONSTANTS
  Universe = "seq3"
  Emit = FALSE
  SepMode = "min"
INVARIANTS RoundTrip EmitInv
CHECK_DEADLOCK FALSE
