SPECIFICATION Spec
CONSTANTS
  N = 4
  MaxKids = 2
  DepthLimit = 2
  Emit = TRUE
  RootTypes = {"Pages"}
INVARIANTS Refines Terminates FunctionForm EmitInv
CHECK_DEADLOCK FALSE
