SPECIFICATION ASpec
CONSTANTS
  Emit = FALSE
  SepMode = "all"
  Mode = "producer"
  MaxMut = 3
  Rounds = 12
INVARIANTS Total LegalIsLegal SitesOk AEmitInv
CHECK_DEADLOCK FALSE
