SPECIFICATION ASpec
CONSTANTS
  Emit = FALSE
  Ghosts = FALSE
  SepMode = "all"
  Mode = "producer"
  MaxMut = 3
  Rounds = 12
INVARIANTS Total LegalIsLegal SitesOk AEmitInv
CHECK_DEADLOCK FALSE
