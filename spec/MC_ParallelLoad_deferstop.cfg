SPECIFICATION Spec
CONSTANTS
  Workers = {1, 2}
  Containers = {1}
  Nums = {4, 5, 6}
  DevFirstWins = FALSE
  HdrChoices <- HdrIdentity
  DevTieByCompletion = FALSE
  DeferU = {4, 5, 6}
  DevStopAtFirstFailure = TRUE
  DropU = {}
  Emit = FALSE
INVARIANTS Deterministic
CHECK_DEADLOCK FALSE
