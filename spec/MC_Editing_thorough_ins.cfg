SPECIFICATION Spec
CONSTANTS
  Devs <- DevBoth
  Ops <- OpsIns
  ByteStrings <- BytesThorough
  NumSeqs <- NumsQuick
  NewObjs <- MCNewObjs
  InheritBound <- MCInheritBound
  MaxDepth = 3
  Starts <- StartsIns2
  Allowed = {"resources.shadow.incremental"}
  Emit = TRUE
  EmitMod = 3000
  EmitModV = 400
VIEW View
INVARIANTS Refines StartOk EmitViolations
CHECK_DEADLOCK FALSE
