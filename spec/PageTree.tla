------------------------------ MODULE PageTree ------------------------------
(***************************************************************************)
(* Page-tree enumeration (property C12; also used by Editing, Renumber,     *)
(* Outline and Queries).                                                    *)
(*                                                                          *)
(* Two layers (DESIGN 2.9):                                                 *)
(*  - declarative: Dfs(g) — the depth-first, left-to-right sequence of leaf *)
(*    page objects of a well-formed tree.  Only this layer decides.         *)
(*  - impl-shaped: the iterator automaton transcribed from PageTreeIter in  *)
(*    src/document.rs (kids slice, stack of sibling remainders, iteration   *)
(*    budget, depth limit).  TLC checks that it refines the declarative     *)
(*    layer on every graph within the bounds, and that it terminates on     *)
(*    every graph at all.                                                   *)
(*                                                                          *)
(* A graph g is a record                                                    *)
(*   [root |-> n, typ |-> [Node -> Types], kids |-> [Node -> Seq(Nat)],     *)
(*    extra |-> Nat]                                                        *)
(* A kid number outside DOMAIN g.typ is a dangling reference.  extra is the *)
(* number of further objects in the document (the catalog, Kids arrays      *)
(* stored as separate objects, ...): it only feeds the iteration budget.    *)
(***************************************************************************)
EXTENDS Naturals, Sequences, FiniteSets

\* "StrmPage" / "StrmPages": a stream object whose dictionary says /Type /Page (/Pages): not a dictionary
Types == {"Page", "Pages", "Other", "NoType", "NonDict", "StrmPage", "StrmPages"}
NotDict == {"NonDict", "StrmPage", "StrmPages"}

NodesOf(g) == DOMAIN g.typ

IsNode(g, n) == n \in NodesOf(g)

\* Kids as the iterator sees them: only a dictionary node can have a Kids array.
KidsOf(g, n) == IF IsNode(g, n) /\ g.typ[n] \notin NotDict THEN g.kids[n] ELSE <<>>

-----------------------------------------------------------------------------
(* Declarative layer *)

\* Nodes reachable from the root through Kids of "Pages" nodes (the root's Kids are
\* followed whatever its type says, as every reader does).
RECURSIVE ReachFrom(_, _, _)
ReachFrom(g, frontier, seen) ==
    IF frontier = {} THEN seen
    ELSE LET n    == CHOOSE x \in frontier : TRUE
             ks   == IF IsNode(g, n) /\ (g.typ[n] = "Pages" \/ n = g.root)
                     THEN {KidsOf(g, n)[i] : i \in 1..Len(KidsOf(g, n))} ELSE {}
             new  == ks \ (seen \cup {n})
         IN ReachFrom(g, (frontier \ {n}) \cup new, seen \cup {n})

Reach(g) == ReachFrom(g, {g.root}, {})

\* Every kid slot of every reachable inner node, as <<parent, index>>.
Slots(g) == UNION {{<<n, i>> : i \in 1..Len(KidsOf(g, n))} :
                     n \in {m \in Reach(g) \cap NodesOf(g) : g.typ[m] = "Pages" \/ m = g.root}}

\* A well-formed page tree (ISO 32000-1 7.7.3): the root is a Pages node, every kid slot
\* names an existing node of type Page or Pages, no node is named twice and the root is never
\* a kid (hence a tree), and intermediate nodes are nested at most depthLimit deep (depth of
\* the root's kids = 1).
WellFormed(g, depthLimit) ==
    LET slots    == Slots(g)
        kidOf(s) == KidsOf(g, s[1])[s[2]]
        kidset   == {kidOf(s) : s \in slots}
        kidsSet(n) == {KidsOf(g, n)[i] : i \in 1..Len(KidsOf(g, n))}
        \* frontier = the Pages nodes at depth d; evaluated only once the graph is known to be a tree
        RECURSIVE Shallow(_, _)
        Shallow(frontier, d) ==
            IF frontier = {} THEN TRUE
            ELSE IF d > depthLimit THEN FALSE
            ELSE Shallow({k \in UNION {kidsSet(n) : n \in frontier} : g.typ[k] = "Pages"}, d + 1)
    IN
    /\ IsNode(g, g.root) /\ g.typ[g.root] = "Pages"
    /\ \A s \in slots : LET k == kidOf(s) IN
          /\ IsNode(g, k) /\ g.typ[k] \in {"Page", "Pages"} /\ k # g.root
    /\ Cardinality(kidset) = Cardinality(slots)          \* no node is named by two slots
    /\ Shallow({k \in kidsSet(g.root) : g.typ[k] = "Pages"}, 1)

RECURSIVE DfsFrom(_, _, _)
\* leaves below node n, left to right (fuel bounds the recursion on non-trees)
DfsFrom(g, n, fuel) ==
    IF ~IsNode(g, n) \/ fuel = 0 THEN <<>>
    ELSE IF g.typ[n] = "Page" /\ n # g.root THEN <<n>>
    ELSE IF g.typ[n] = "Pages" \/ n = g.root
         THEN LET ks == KidsOf(g, n)
                  F[i \in 0..Len(ks)] == IF i = 0 THEN <<>> ELSE F[i - 1] \o DfsFrom(g, ks[i], fuel - 1)
              IN F[Len(ks)]
         ELSE <<>>

Dfs(g) == DfsFrom(g, g.root, Cardinality(NodesOf(g)) + 1)

\* What C12 demands of an enumeration result `pages` (a sequence of node numbers):
\*   on a well-formed tree exactly Dfs(g); on any graph only Page objects.
OnlyPages(g, pages) == \A i \in 1..Len(pages) : IsNode(g, pages[i]) /\ g.typ[pages[i]] = "Page"

Acceptable(g, pages, depthLimit) ==
    /\ OnlyPages(g, pages)
    /\ WellFormed(g, depthLimit) => pages = Dfs(g)

-----------------------------------------------------------------------------
(* Impl-shaped layer: PageTreeIter *)

\* Option::None for the `kids` field.  In the loop None and the empty slice are observationally
\* the same (both fall through to the pop), so both are the empty sequence here.  That equivalence is a
\* claim about the code, so the harness tests it: an empty kids sequence of a /Pages node is realised as
\* `/Kids []`, as no Kids entry, as a Kids that is not an array or as a Kids referring to a missing object
\* (chosen per node), and the enumeration must be the same.
NoKids == <<>>

IterKids(g, n) ==           \* PageTreeIter::kids: dictionary -> Kids (deref) -> array
    IF IsNode(g, n) /\ g.typ[n] \notin NotDict THEN g.kids[n] ELSE NoKids

Budget(g) == Cardinality(NodesOf(g)) + g.extra      \* iter_limit = doc.objects.len()

\* Run the automaton to completion as a function (used by generators / trace validators).
RECURSIVE RunIter(_, _, _, _, _, _)
RunIter(gg, c, st, b, em, dl) ==
    IF c # <<>>
    THEN IF b = 0 THEN em
         ELSE LET kid == Head(c) rest == Tail(c) IN
              IF IsNode(gg, kid) /\ gg.typ[kid] = "Page" THEN RunIter(gg, rest, st, b - 1, Append(em, kid), dl)
              ELSE IF IsNode(gg, kid) /\ gg.typ[kid] = "Pages" /\ Len(st) < dl
                   THEN RunIter(gg, IterKids(gg, kid), IF rest # <<>> THEN Append(st, rest) ELSE st, b - 1, em, dl)
                   ELSE RunIter(gg, rest, st, b - 1, em, dl)
    ELSE IF st # <<>> THEN RunIter(gg, st[Len(st)], SubSeq(st, 1, Len(st) - 1), b, em, dl)
         ELSE em

ImplPages(gg, dl) == RunIter(gg, IterKids(gg, gg.root), <<>>, Budget(gg), <<>>, dl)
=============================================================================
