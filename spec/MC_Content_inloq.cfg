SPECIFICATION Spec
CONSTANTS
  Universe = "inloq"
  Emit = FALSE
  SepMode = "min"
INVARIANTS RoundTrip EmitInv
CHECK_DEADLOCK FALSE
