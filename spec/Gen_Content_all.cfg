SPECIFICATION GSpec
CONSTANTS
  Universe = "file"
  Emit = TRUE
  SepMode = "all"
INVARIANTS RoundTrip EmitInv
CHECK_DEADLOCK FALSE
