SPECIFICATION Spec
CONSTANTS
  Universe = "inlk"
  Emit = FALSE
  SepMode = "min"
INVARIANTS RoundTrip EmitInv
CHECK_DEADLOCK FALSE
