SPECIFICATION Spec
CONSTANTS
  Thorough = FALSE
  Dev_h41 = FALSE
  Dev_gmt = FALSE
  Dev_y10k = FALSE
  Emit = FALSE
  Tiny = FALSE
INVARIANTS CalendarOk RoundTrip FmtRefines FmtRefinesDone ParseRefines FunctionForm Terminates
CHECK_DEADLOCK FALSE
