SPECIFICATION Spec
CONSTANTS
  MaxSteps = 2
  DevAvg = FALSE
  DevArr = FALSE
  DevStale = FALSE
  DevEmpty = FALSE
  Disturbs = TRUE
  DevRows = TRUE
  DevInd = FALSE
  DevDocInd = FALSE
INVARIANTS LengthInv StepOKModKnown
CHECK_DEADLOCK FALSE
