--------------------------- MODULE FileStructure ---------------------------
(***************************************************************************)
(* File structure of ISO 32000-1 7.5 on top of the Syntax automaton:        *)
(* header, body, cross-reference table or cross-reference stream, trailer,  *)
(* startxref, %%EOF, incremental updates chained by Prev, object streams.   *)
(*                                                                          *)
(* RdFile(bytes) reads the file *linearly* (Scan: every byte is consumed by *)
(* the automaton, so every byte is accounted for), splits it into           *)
(* revisions and then checks that the cross-reference data of every         *)
(* revision describes exactly what the linear scan found (offsets,          *)
(* generations, 20-byte entries, W/Index/Length consistency, startxref,     *)
(* Prev, Size).  The result carries the View: for every object number the   *)
(* object of the newest revision that defines it, plus the newest trailer.  *)
(*                                                                          *)
(* Free entries (7.5.4 `f`, 7.5.8.3 type 0) delete: from the revision whose  *)
(* section marks a number free the view has no object with that number,     *)
(* until a later revision defines it again.  Hybrid-reference files          *)
(* (7.5.8.4): a table section whose trailer has XRefStm is looked up in the  *)
(* order  in-use entries of the table, entries of the cross-reference        *)
(* stream XRefStm points at, free entries of the table, and only then Prev - *)
(* an object the table marks free and the stream lists is visible.           *)
(***************************************************************************)
EXTENDS Syntax


Cod == INSTANCE Codecs

NameFlateDecode == <<70, 108, 97, 116, 101, 68, 101, 99, 111, 100, 101>>
NamePredictor == <<80, 114, 101, 100, 105, 99, 116, 111, 114>>
NameColumns == <<67, 111, 108, 117, 109, 110, 115>>

CodX == INSTANCE CodecsExt

NameASCIIHexDecode == <<65, 83, 67, 73, 73, 72, 101, 120, 68, 101, 99, 111, 100, 101>>
NameASCII85Decode == <<65, 83, 67, 73, 73, 56, 53, 68, 101, 99, 111, 100, 101>>
NameRunLengthDecode == <<82, 117, 110, 76, 101, 110, 103, 116, 104, 68, 101, 99, 111, 100, 101>>
NameLZWDecode == <<76, 90, 87, 68, 101, 99, 111, 100, 101>>
NameColors == <<67, 111, 108, 111, 114, 115>>
NameBitsPerComponent == <<66, 105, 116, 115, 80, 101, 114, 67, 111, 109, 112, 111, 110, 101, 110, 116>>
NameEarlyChange == <<69, 97, 114, 108, 121, 67, 104, 97, 110, 103, 101>>

\* Decoded content of a structural stream (XRef / ObjStm), ISO 32000-1 7.4: Filter is a name or an array of names
\* (applied in that order), DecodeParms a dictionary (one filter) or an array parallel to the filters with
\* dictionaries or null.  Specified filters: FlateDecode (stored deflate blocks only - real Huffman-coded deflate
\* is outside the specification), LZWDecode, ASCIIHexDecode, ASCII85Decode, RunLengthDecode; after Flate/LZW the
\* predictor of the parameter dictionary is undone: 1 none, 2 TIFF (8-bit components), 10-15 PNG with
\* Colors x BitsPerComponent x Columns (rows are whole bytes, the left neighbour is one pixel but at least one
\* byte away).
FilterNamesOf(d) ==
    IF ~Has(d, NameFilter) THEN [ok |-> TRUE, f |-> <<>>]
    ELSE LET f == d[NameFilter] IN
         IF f.k = "name" THEN [ok |-> TRUE, f |-> <<f.v>>]
         ELSE IF f.k = "arr" /\ \A i \in 1..Len(f.v) : f.v[i].k = "name" THEN [ok |-> TRUE, f |-> [i \in 1..Len(f.v) |-> f.v[i].v]]
         ELSE [ok |-> FALSE, f |-> <<>>]

\* parameter object of filter i of n: a dictionary, or ONull (none); [k |-> "bad"] when DecodeParms is ill-formed
ParmsOf(d, i, n) ==
    IF ~Has(d, NameDecodeParms) THEN ONull
    ELSE LET p == d[NameDecodeParms] IN
         IF p.k = "null" THEN ONull
         ELSE IF p.k = "dict" THEN (IF n = 1 THEN p ELSE [k |-> "bad"])
         ELSE IF p.k = "arr" THEN (IF i > Len(p.v) THEN ONull ELSE IF p.v[i].k \in {"dict", "null"} THEN p.v[i] ELSE [k |-> "bad"])
         ELSE [k |-> "bad"]

\* integer parameter with default; -1 when present but not a small non-negative integer (or absurdly large)
ParmNum(p, name, default) ==
    IF p.k # "dict" \/ ~Has(p.v, name) THEN default
    ELSE IF IntSmall(p.v[name]) /\ IntVal(p.v[name]) <= 1000000 THEN IntVal(p.v[name]) ELSE 0 - 1

NoData == [ok |-> FALSE, data |-> <<>>]
UnpredictStruct(x, p) ==
    LET pred == ParmNum(p, NamePredictor, 1) colors == ParmNum(p, NameColors, 1)
        bpc == ParmNum(p, NameBitsPerComponent, 8) columns == ParmNum(p, NameColumns, 1)
        bits == colors * bpc
        bpp == IF (bits + 7) \div 8 < 1 THEN 1 ELSE (bits + 7) \div 8
        rowlen == (columns * bits + 7) \div 8
    IN IF p.k = "bad" \/ pred < 0 \/ colors < 1 \/ columns < 1 \/ bpc \notin {1, 2, 4, 8, 16} THEN NoData
       ELSE IF pred = 1 THEN [ok |-> TRUE, data |-> x]
       ELSE IF pred = 2 THEN (IF bpc = 8 THEN CodX!TiffDecode(x, colors, colors * columns) ELSE NoData)     \* other widths: not specified here
       ELSE IF pred \in 10..15 THEN (LET u == Cod!PngDecode(x, bpp, rowlen) IN [ok |-> u.ok, data |-> u.data])
       ELSE NoData

DecodeStageStruct(x, name, p) ==
    IF name = NameFlateDecode THEN (LET z == Cod!ZInflateStored(x) IN IF z.ok THEN UnpredictStruct(z.data, p) ELSE NoData)
    ELSE IF name = NameLZWDecode THEN
        (LET early == ParmNum(p, NameEarlyChange, 1)
             z == IF early \in {0, 1} THEN Cod!LzwDecode(x, early) ELSE NoData
         IN IF z.ok THEN UnpredictStruct(z.data, p) ELSE NoData)
    ELSE IF p.k = "bad" THEN NoData
    ELSE IF name = NameASCIIHexDecode THEN CodX!AHxDecode(x)
    ELSE IF name = NameASCII85Decode THEN (LET z == Cod!A85Decode(x) IN [ok |-> z.ok, data |-> z.data])
    ELSE IF name = NameRunLengthDecode THEN CodX!RLDecode(x)
    ELSE NoData

StructStreamData(sv) ==
    LET d == sv.v
        fn == FilterNamesOf(d)
        n == Len(fn.f)
    IN IF ~fn.ok THEN NoData
       ELSE LET z == FoldLeft(LAMBDA acc, i : IF acc.ok THEN DecodeStageStruct(acc.data, fn.f[i], ParmsOf(d, i, n)) ELSE acc,
                              [ok |-> TRUE, data |-> sv.w], [i \in 1..n |-> i])
            IN [ok |-> z.ok, data |-> z.data]

IsCmt(it) == it.it = "cmt"
IsKw(it, kw) == it.it = "kw" /\ it.v = kw
IsIntVal(it) == it.it = "val" /\ it.val.k = "int"

-----------------------------------------------------------------------------
(* Splitting the item sequence into revisions: a small state machine folded over the items *)

NewRev == [objs |-> <<>>, kind |-> "none", xoff |-> 0, xtoks |-> <<>>, trailer |-> EmptyMap, sx |-> ONull, eof |-> FALSE]

SplitInit == [ph |-> "body", cur |-> NewRev, revs |-> <<>>, err |-> ""]

SplitStep(z, it) ==
    IF z.err # "" THEN z
    \* comments are white-space everywhere; only the %%EOF marker after the startxref value matters
    ELSE IF IsCmt(it) /\ ~(z.ph = "sxv" /\ IsPrefixOf(<<37, 69, 79, 70>>, it.v)) THEN z
    ELSE IF z.ph = "body" THEN
        IF it.it = "obj" THEN [z EXCEPT !.cur.objs = Append(@, it)]
        ELSE IF IsKw(it, KwXref) THEN [z EXCEPT !.ph = "xref", !.cur.kind = "table", !.cur.xoff = it.s - 1]
        ELSE IF IsKw(it, KwStartxref) THEN [z EXCEPT !.ph = "sx", !.cur.kind = "stream"]
        ELSE [z EXCEPT !.err = "unexpected item in file body"]
    ELSE IF z.ph = "xref" THEN
        IF IsKw(it, KwTrailer) THEN [z EXCEPT !.ph = "trailer"]
        ELSE IF IsIntVal(it) \/ IsKw(it, KwN) \/ IsKw(it, KwF) THEN [z EXCEPT !.cur.xtoks = Append(@, it)]
        ELSE [z EXCEPT !.err = "unexpected item in cross-reference table"]
    ELSE IF z.ph = "trailer" THEN
        IF it.it = "val" /\ it.val.k = "dict" THEN [z EXCEPT !.ph = "aftertrailer", !.cur.trailer = it.val.v]
        ELSE IF IsCmt(it) THEN z
        ELSE [z EXCEPT !.err = "trailer keyword not followed by a dictionary"]
    ELSE IF z.ph = "aftertrailer" THEN
        IF IsKw(it, KwStartxref) THEN [z EXCEPT !.ph = "sx"]
        ELSE IF IsCmt(it) THEN z
        ELSE [z EXCEPT !.err = "startxref expected after trailer"]
    ELSE IF z.ph = "sx" THEN
        IF IsIntVal(it) THEN [z EXCEPT !.ph = "sxv", !.cur.sx = it.val]
        ELSE [z EXCEPT !.err = "startxref not followed by an integer"]
    ELSE \* "sxv": expect %%EOF
        IF IsCmt(it) /\ IsPrefixOf(<<37, 69, 79, 70>>, it.v)
        THEN [z EXCEPT !.ph = "body", !.revs = Append(@, [z.cur EXCEPT !.eof = TRUE]), !.cur = NewRev]
        ELSE [z EXCEPT !.err = "%%EOF expected"]

-----------------------------------------------------------------------------
(* Cross-reference table (7.5.4): subsections "first count" then count 20-byte entries *)

\* entries as a sequence of [num, off (digits), gen, inuse, s]
XtInit == [ph |-> "hdr1", first |-> 0, left |-> 0, num |-> 0, off |-> <<>>, gen |-> 0, ents |-> <<>>, subs |-> 0, err |-> "", s |-> 0]

XtStep(x, it) ==
    IF x.err # "" THEN x
    ELSE IF x.ph = "hdr1" THEN
        IF IsIntVal(it) /\ IntSmall(it.val) THEN [x EXCEPT !.ph = "hdr2", !.first = IntVal(it.val)]
        ELSE [x EXCEPT !.err = "bad subsection header"]
    ELSE IF x.ph = "hdr2" THEN
        IF IsIntVal(it) /\ IntSmall(it.val)
        THEN [x EXCEPT !.ph = IF IntVal(it.val) = 0 THEN "hdr1" ELSE "e1", !.left = IntVal(it.val), !.num = x.first, !.subs = @ + 1]
        ELSE [x EXCEPT !.err = "bad subsection header"]
    ELSE IF x.ph = "e1" THEN
        IF IsIntVal(it) /\ ~it.val.neg THEN [x EXCEPT !.ph = "e2", !.off = it.val.v, !.s = it.s]
        ELSE [x EXCEPT !.err = "bad entry offset"]
    ELSE IF x.ph = "e2" THEN
        IF IsIntVal(it) /\ IntSmall(it.val) THEN [x EXCEPT !.ph = "e3", !.gen = IntVal(it.val)]
        ELSE [x EXCEPT !.err = "bad entry generation"]
    ELSE \* "e3"
        IF IsKw(it, KwN) \/ IsKw(it, KwF)
        THEN [x EXCEPT !.ents = Append(@, [num |-> x.num, off |-> x.off, gen |-> x.gen, inuse |-> IsKw(it, KwN), s |-> x.s, ks |-> it.s]),
                       !.num = @ + 1, !.left = @ - 1, !.ph = IF x.left = 1 THEN "hdr1" ELSE "e1"]
        ELSE [x EXCEPT !.err = "entry keyword is neither n nor f"]

ParseXrefTable(xtoks) ==
    LET x == FoldLeft(XtStep, XtInit, xtoks) IN
    IF x.err # "" THEN [ok |-> FALSE, err |-> x.err, ents |-> <<>>]
    ELSE IF x.ph # "hdr1" THEN [ok |-> FALSE, err |-> "cross-reference table ends inside a subsection", ents |-> <<>>]
    ELSE IF x.subs = 0 THEN [ok |-> FALSE, err |-> "cross-reference table without a subsection", ents |-> <<>>]
    ELSE [ok |-> TRUE, err |-> "", ents |-> x.ents]

\* each entry is exactly 20 bytes: 10 digits SP 5 digits SP (n|f) then SP CR | SP LF | CR LF;
\* body is the byte sequence the positions refer to
Entry20(body, e) ==
    /\ e.ks = e.s + 17
    /\ \A i \in 0..9 : IsDigit(body[e.s + i])
    /\ body[e.s + 10] = 32
    /\ \A i \in 11..15 : IsDigit(body[e.s + i])
    /\ body[e.s + 16] = 32
    /\ LET x == body[e.s + 18] y == body[e.s + 19] IN
          (x = 32 /\ y = 13) \/ (x = 32 /\ y = 10) \/ (x = 13 /\ y = 10)

-----------------------------------------------------------------------------
(* Cross-reference stream (7.5.8): W, Index, Size; rows of W[1]+W[2]+W[3] bytes *)

\* array of small non-negative integer objects -> sequence of numbers ( <<>> if malformed )
SmallNats(o) ==
    IF o.k = "arr" /\ \A i \in 1..Len(o.v) : IntSmall(o.v[i]) THEN [i \in 1..Len(o.v) |-> IntVal(o.v[i])] ELSE <<>>

\* rows of the (already decoded) data -> entries [num, type, f2 (digits of field 2 as number), f3]
XrefStreamEntries(data, w, index) ==
    LET rowlen == w[1] + w[2] + w[3]
        \* flatten Index pairs to the sequence of object numbers
        nums == FoldLeft(LAMBDA acc, i : acc \o [j \in 1..index[2 * i] |-> index[2 * i - 1] + j - 1],
                         <<>>, [i \in 1..(Len(index) \div 2) |-> i])
        field(r, from, n) == SubSeq(data, (r - 1) * rowlen + from, (r - 1) * rowlen + from + n - 1)
    IN [r \in 1..Len(nums) |->
          [num  |-> nums[r],
           type |-> IF w[1] = 0 THEN 1 ELSE BEVal(field(r, 1, w[1])),
           f2   |-> BEVal(field(r, w[1] + 1, w[2])),
           f3   |-> IF w[3] = 0 THEN 0 ELSE BEVal(field(r, w[1] + w[2] + 1, w[3]))]]

-----------------------------------------------------------------------------
(* A revision checked against the linear scan *)

ObjAt(objs, off) ==      \* index of the scanned object whose "n g obj" header starts at byte offset off, or 0
    SelectInSeq(objs, LAMBDA o : o.s - 1 = off)

\* Resolve an indirect stream Length: the referenced object must be an integer object in allobjs
FixStream(body, o, allobjs) ==
    IF o.val.k # "stream" \/ o.lr = <<>> THEN [ok |-> TRUE, val |-> o.val]
    ELSE LET li == SelectLastInSeq(allobjs, LAMBDA q : q.num = o.lr[1] /\ q.gen = o.lr[2]) IN   \* newest definition
         IF li = 0 \/ ~IntSmall(allobjs[li].val) THEN [ok |-> FALSE, val |-> o.val]
         ELSE LET L == IntVal(allobjs[li].val)
                  span == o.re - o.rs + 1
                  rest == SubSeq(body, o.rs + L, o.re)
              IN IF L <= span /\ rest \in {<<>>, <<10>>, <<13, 10>>, <<13>>}
                 THEN [ok |-> TRUE, val |-> [o.val EXCEPT !.w = SubSeq(body, o.rs, o.rs + L - 1)]]
                 ELSE [ok |-> FALSE, val |-> o.val]

\* The entries of a cross-reference stream object (7.5.8.2): W, Index (default [0 Size]), decoded rows.
\* [ok, err, ents (sequence of [num, type, f2, f3])]
XrefStreamOf(xo) ==
    LET d == xo.val.v
        w == IF Has(d, NameW) THEN SmallNats(d[NameW]) ELSE <<>>
        size == IF Has(d, NameSize) /\ IntSmall(d[NameSize]) THEN IntVal(d[NameSize]) ELSE 0
        index == IF Has(d, NameIndex) THEN SmallNats(d[NameIndex]) ELSE <<0, size>>
    IN IF Len(w) # 3 \/ Len(index) % 2 # 0 \/ index = <<>> THEN [ok |-> FALSE, err |-> "XRef stream W/Index malformed", ents |-> <<>>]
       \* totality on adversarial input: widths above 8 bytes or absurd counts are rejected, not computed with
       ELSE IF (\E i \in 1..3 : w[i] > 8) \/ (\E i \in 1..Len(index) : index[i] > 1000000) THEN [ok |-> FALSE, err |-> "XRef stream W/Index out of range", ents |-> <<>>]
       ELSE IF ~StructStreamData(xo.val).ok THEN [ok |-> FALSE, err |-> "XRef stream filter cannot be decoded (only stored-block FlateDecode with PNG predictors is specified)", ents |-> <<>>]
       ELSE LET rowlen == w[1] + w[2] + w[3]
                xdata == StructStreamData(xo.val).data
                count == FoldLeft(LAMBDA acc, i : acc + index[2 * i], 0, [i \in 1..(Len(index) \div 2) |-> i])
            IN IF Len(xdata) # count * rowlen THEN [ok |-> FALSE, err |-> "XRef stream Length is not (sum of Index counts) x (W1+W2+W3)", ents |-> <<>>]
               ELSE [ok |-> TRUE, err |-> "", ents |-> XrefStreamEntries(xdata, w, index)]

\* free entries of a section as [num, next, gen]: next = the link field (object number of the next free entry),
\* gen = the generation the number gets when it is used again; -1 where the field is not a small number
TableFree(ents) ==
    LET f == SelectSeq(ents, LAMBDA e : ~e.inuse)
    IN [i \in 1..Len(f) |-> [num |-> f[i].num, gen |-> f[i].gen,
                             next |-> IF DigitsSmall(StripLeadingZeros(f[i].off)) THEN DigitsVal(f[i].off) ELSE 0 - 1]]
StreamFree(ents) ==
    LET f == SelectSeq(ents, LAMBDA e : e.type = 0)
    IN [i \in 1..Len(f) |-> [num |-> f[i].num, gen |-> f[i].f3, next |-> f[i].f2]]
NumsOf(es) == {es[i].num : i \in 1..Len(es)}

\* The checks of one revision.  Returns [ok, err, trailer, xrefobj (number of the XRef stream object or 0),
\* nums (every number the section has an entry for), comp (type-2 entries), and - for the meaning of free
\* entries and of hybrid-reference sections - inuse (numbers the section lists in use), fl (its free entries
\* [num, next, gen] for numbers it does not list in use), freed (their numbers, without 0), hybrid, hidden
\* (numbers in use only through the XRefStm stream)]
CheckRevision(body, rev, allobjs) ==
    LET objs == rev.objs IN
    IF rev.kind = "table" THEN
        LET pt == ParseXrefTable(rev.xtoks) IN
        IF ~pt.ok THEN [ok |-> FALSE, err |-> pt.err]
        ELSE LET ents == pt.ents
                 inuse == SelectSeq(ents, LAMBDA e : e.inuse)
                 hyb == Has(rev.trailer, NameXRefStm)
             IN IF ~(\A i \in 1..Len(ents) : Entry20(body, ents[i])) THEN [ok |-> FALSE, err |-> "xref entry is not a well-formed 20-byte entry"]
                ELSE IF ~(IntSmall(rev.sx) /\ IntVal(rev.sx) = rev.xoff) THEN [ok |-> FALSE, err |-> "startxref does not hold the offset of the xref keyword"]
                ELSE IF ~(\A i \in 1..Len(inuse) : DigitsSmall(StripLeadingZeros(inuse[i].off))
                           /\ LET k == ObjAt(objs, DigitsVal(inuse[i].off)) IN
                              k # 0 /\ objs[k].num = inuse[i].num /\ objs[k].gen = inuse[i].gen)
                     THEN [ok |-> FALSE, err |-> "in-use xref entry does not point at the n g obj header of that object"]
                ELSE IF ~hyb THEN
                     IF Len(inuse) # Len(objs) \/ Cardinality({inuse[i].num : i \in 1..Len(inuse)}) # Len(inuse)
                     THEN [ok |-> FALSE, err |-> "objects in the body and in-use xref entries are not in one-to-one correspondence"]
                     ELSE [ok |-> TRUE, err |-> "", trailer |-> rev.trailer, xrefobj |-> 0,
                           nums |-> {ents[i].num : i \in 1..Len(ents)},
                           comp |-> <<>>,
                           inuse |-> NumsOf(inuse), fl |-> SelectSeq(TableFree(ents), LAMBDA f : f.num \notin NumsOf(inuse)),
                           freed |-> (NumsOf(TableFree(ents)) \ NumsOf(inuse)) \ {0},
                           hybrid |-> FALSE, hidden |-> {}]
                \* hybrid-reference section (7.5.8.4): XRefStm is the offset of a cross-reference stream of this revision
                ELSE LET xk == IF IntSmall(rev.trailer[NameXRefStm]) THEN ObjAt(objs, IntVal(rev.trailer[NameXRefStm])) ELSE 0 IN
                     IF xk = 0 \/ ~(objs[xk].val.k = "stream" /\ TypeNameOf(objs[xk].val) = NameXRef)
                     THEN [ok |-> FALSE, err |-> "XRefStm does not hold the offset of a cross-reference stream of this revision"]
                     ELSE LET xs == XrefStreamOf(objs[xk]) IN
                     IF ~xs.ok THEN [ok |-> FALSE, err |-> xs.err]
                     ELSE LET t1 == SelectSeq(xs.ents, LAMBDA e : e.type = 1)
                              t2 == SelectSeq(xs.ents, LAMBDA e : e.type = 2)
                              tin == NumsOf(inuse)
                              allin == tin \cup NumsOf(t1) \cup NumsOf(t2)
                              frees == SelectSeq(TableFree(ents) \o StreamFree(xs.ents), LAMBDA f : f.num \notin allin)
                          IN IF ~(\A i \in 1..Len(t1) : LET k == ObjAt(objs, t1[i].f2) IN
                                     k # 0 /\ objs[k].num = t1[i].num /\ objs[k].gen = t1[i].f3)
                             THEN [ok |-> FALSE, err |-> "type-1 XRef stream entry does not point at the n g obj header of that object"]
                             ELSE IF Len(inuse) + Len(t1) # Len(objs) \/ Cardinality(tin \cup NumsOf(t1)) # Len(objs)
                                  THEN [ok |-> FALSE, err |-> "objects in the body and in-use entries of the table and its XRefStm are not in one-to-one correspondence"]
                             ELSE [ok |-> TRUE, err |-> "", trailer |-> rev.trailer, xrefobj |-> objs[xk].num,
                                   nums |-> {ents[i].num : i \in 1..Len(ents)} \cup NumsOf(xs.ents),
                                   \* the table is searched first: a type-2 entry for a number the table lists in use is never reached
                                   comp |-> SelectSeq(t2, LAMBDA e : e.num \notin tin),
                                   inuse |-> allin, fl |-> frees, freed |-> NumsOf(frees) \ {0},
                                   hybrid |-> TRUE, hidden |-> (allin \ tin) \ {objs[xk].num}]
    ELSE IF rev.kind = "stream" THEN
        IF objs = <<>> THEN [ok |-> FALSE, err |-> "revision without cross-reference section"]
        ELSE LET xo == objs[Len(objs)] IN
        IF ~(xo.val.k = "stream" /\ TypeNameOf(xo.val) = NameXRef) THEN [ok |-> FALSE, err |-> "last object before startxref is not an XRef stream"]
        ELSE IF ~(IntSmall(rev.sx) /\ IntVal(rev.sx) = xo.s - 1) THEN [ok |-> FALSE, err |-> "startxref does not hold the offset of the XRef stream object"]
        ELSE LET xs == XrefStreamOf(xo) IN
             IF ~xs.ok THEN [ok |-> FALSE, err |-> xs.err]
             ELSE LET d == xo.val.v
                      ents == xs.ents
                      t1 == SelectSeq(ents, LAMBDA e : e.type = 1)
                      t2 == SelectSeq(ents, LAMBDA e : e.type = 2)
                  IN IF ~(\A i \in 1..Len(t1) : LET k == ObjAt(objs, t1[i].f2) IN
                             k # 0 /\ objs[k].num = t1[i].num /\ objs[k].gen = t1[i].f3)
                     THEN [ok |-> FALSE, err |-> "type-1 XRef stream entry does not point at the n g obj header of that object"]
                     ELSE IF ~(\E i \in 1..Len(t1) : t1[i].num = xo.num) THEN [ok |-> FALSE, err |-> "XRef stream has no entry for itself"]
                     ELSE IF Len(t1) # Len(objs) \/ Cardinality({t1[i].num : i \in 1..Len(t1)}) # Len(t1)
                          THEN [ok |-> FALSE, err |-> "objects in the body and type-1 entries are not in one-to-one correspondence"]
                     ELSE [ok |-> TRUE, err |-> "", trailer |-> d, xrefobj |-> xo.num,
                           nums |-> {ents[i].num : i \in 1..Len(ents)},
                           comp |-> t2,
                           inuse |-> NumsOf(t1) \cup NumsOf(t2),
                           fl |-> SelectSeq(StreamFree(ents), LAMBDA f : f.num \notin NumsOf(t1) \cup NumsOf(t2)),
                           freed |-> ((NumsOf(StreamFree(ents)) \ NumsOf(t1)) \ NumsOf(t2)) \ {0},
                           hybrid |-> FALSE, hidden |-> {}]
    ELSE [ok |-> FALSE, err |-> "revision without cross-reference section"]

-----------------------------------------------------------------------------
(* Object streams (7.5.7): "num off" pairs, then the objects at First + off *)
ParseObjStm(sv, vb) ==
    LET d == sv.v
        dec == StructStreamData(sv)
        okd == /\ Has(d, NameN) /\ IntSmall(d[NameN]) /\ Has(d, NameFirst) /\ IntSmall(d[NameFirst])
               /\ dec.ok /\ TypeNameOf(sv) = NameObjStm
    IN IF ~okd THEN [ok |-> FALSE, objs |-> <<>>]
       ELSE
       LET n == IntVal(d[NameN])
           first == IntVal(d[NameFirst])
           rd == ReadV(dec.data, FALSE, vb)
           its == SelectSeq(rd.items, LAMBDA it : it.it # "cmt")
       IN IF ~rd.ok \/ Len(its) < 2 * n \/ ~(\A i \in 1..(2 * n) : IsIntVal(its[i]) /\ IntSmall(its[i].val))
          THEN [ok |-> FALSE, objs |-> <<>>]
          ELSE LET num(i) == IntVal(its[2 * i - 1].val)
                   off(i) == IntVal(its[2 * i].val)
                   at(i) == SelectInSeq(its, LAMBDA it : it.s = first + off(i) + 1)
               IN IF \E i \in 1..n : at(i) = 0 \/ at(i) <= 2 * n \/ its[at(i)].it # "val"
                  THEN [ok |-> FALSE, objs |-> <<>>]
                  ELSE [ok |-> TRUE, objs |-> [i \in 1..n |-> [num |-> num(i), val |-> its[at(i)].val]]]

\* N and First of an object stream dictionary may be indirect references (7.3.10: any value may be; 7.5.7 forbids
\* nothing here).  They are resolved through the plainly stored objects, newest definition first.
ResolveOS(sv, allobjs) ==
    LET res(o) == IF o.k # "ref" THEN o
                  ELSE LET li == SelectLastInSeq(allobjs, LAMBDA q : q.num = o.v /\ q.gen = o.w)
                       IN IF li = 0 THEN o ELSE allobjs[li].val
    IN IF sv.k # "stream" THEN sv
       ELSE [sv EXCEPT !.v = [key \in DOMAIN sv.v |-> IF key \in {NameN, NameFirst} THEN res(sv.v[key]) ELSE sv.v[key]]]

-----------------------------------------------------------------------------
(* The whole file *)

RdFileV(bytes, vb) ==
    LET h == FindFrom(bytes, PctPDF, 1) IN
    IF h = 0 THEN [ok |-> FALSE, err |-> "no %PDF- header"]
    ELSE
    LET body == SubSeq(bytes, h, Len(bytes))
        rd == ReadV(body, FALSE, vb)
    IN IF ~rd.ok THEN [ok |-> FALSE, err |-> rd.err, at |-> rd.at]
    ELSE
    LET items == rd.items
        z == FoldLeft(SplitStep, SplitInit, items)
    IN IF z.err # "" THEN [ok |-> FALSE, err |-> z.err]
       ELSE IF z.ph # "body" \/ z.cur.objs # <<>> THEN [ok |-> FALSE, err |-> "file ends inside a revision"]
       ELSE IF z.revs = <<>> THEN [ok |-> FALSE, err |-> "no revision"]
       ELSE IF ~(items[1].it = "cmt" /\ items[1].s = 1 /\ IsPrefixOf(<<80, 68, 70, 45>>, items[1].v))
            THEN [ok |-> FALSE, err |-> "header comment missing"]
       ELSE
       LET revs == z.revs
           allobjs == FoldLeft(LAMBDA acc, r : acc \o r.objs, <<>>, revs)
           chk == [i \in 1..Len(revs) |-> CheckRevision(body, revs[i], allobjs)]
           bad == SelectInSeq(chk, LAMBDA c : ~c.ok)
       IN IF bad # 0 THEN [ok |-> FALSE, err |-> chk[bad].err, rev |-> bad]
          ELSE
          \* stage 1: indirect stream lengths held by plainly stored integer objects
          LET fixed1 == [i \in 1..Len(allobjs) |-> FixStream(body, allobjs[i], allobjs)]
              \* Prev chain: every revision after the first names the previous startxref
              prevok == \A i \in 2..Len(revs) :
                           /\ Has(chk[i].trailer, NamePrev)
                           /\ chk[i].trailer[NamePrev] = revs[i - 1].sx
              firstok == ~Has(chk[1].trailer, NamePrev)
              \* Size exceeds every object number defined so far
              maxnum == FoldLeft(LAMBDA acc, o : IF o.num > acc THEN o.num ELSE acc, 0, allobjs)
              last == chk[Len(revs)]
              \* cumulative object counts: objects of revision r are allobjs[base[r]+1 .. base[r+1]]
              base == [r \in 1..(Len(revs) + 1) |-> FoldLeft(LAMBDA acc, q : acc + Len(revs[q].objs), 0, [q \in 1..(r - 1) |-> q])]
              \* the object stream named by a type-2 entry of revision r: newest object with that number up to r
              containerOf(r, cnum) ==
                  LET cands == SelectSeq([i \in 1..base[r + 1] |-> i], LAMBDA i : allobjs[i].num = cnum)
                  IN IF cands = <<>> THEN 0 ELSE cands[Len(cands)]
              compOk(r, e) ==
                  LET ci == containerOf(r, e.f2) IN
                  /\ ci # 0 /\ fixed1[ci].ok /\ fixed1[ci].val.k = "stream"
                  /\ LET po == ParseObjStm(ResolveOS(fixed1[ci].val, allobjs), vb) IN
                        po.ok /\ e.f3 + 1 <= Len(po.objs) /\ po.objs[e.f3 + 1].num = e.num
              compVal(r, e) == ParseObjStm(ResolveOS(fixed1[containerOf(r, e.f2)].val, allobjs), vb).objs[e.f3 + 1].val
              badcomp == \E r \in 1..Len(revs) : \E j \in 1..Len(chk[r].comp) : ~compOk(r, chk[r].comp[j])
              \* stage 2: a stream Length may also be held by an integer stored in an object stream (newest one)
              compInt(num) ==
                  LET hits == {<<r, j>> \in UNION {{<<r, j>> : j \in 1..Len(chk[r].comp)} : r \in 1..Len(revs)} : chk[r].comp[j].num = num}
                  IN IF badcomp \/ hits = {} THEN [ok |-> FALSE, L |-> 0]
                     ELSE LET hit == CHOOSE x \in hits : \A y \in hits : y[1] < x[1] \/ (y[1] = x[1] /\ y[2] <= x[2])
                              v == compVal(hit[1], chk[hit[1]].comp[hit[2]])
                          IN IF IntSmall(v) THEN [ok |-> TRUE, L |-> IntVal(v)] ELSE [ok |-> FALSE, L |-> 0]
              fixed == [i \in 1..Len(allobjs) |->
                          IF fixed1[i].ok \/ allobjs[i].lr = <<>> \/ allobjs[i].lr[2] # 0 THEN fixed1[i]
                          ELSE LET o == allobjs[i] ci == compInt(o.lr[1]) IN
                               IF ~ci.ok THEN fixed1[i]
                               ELSE LET span == o.re - o.rs + 1
                                        rest == SubSeq(body, o.rs + ci.L, o.re)
                                    IN IF ci.L <= span /\ rest \in {<<>>, <<10>>, <<13, 10>>, <<13>>}
                                       THEN [ok |-> TRUE, val |-> [o.val EXCEPT !.w = SubSeq(body, o.rs, o.rs + ci.L - 1)]]
                                       ELSE fixed1[i]]
              badfix == SelectInSeq(fixed, LAMBDA f : ~f.ok)
              \* newest definition wins: revisions in order; within a revision plain objects, then compressed ones
              \* ... and the numbers the section marks free (without listing them in use) denote no object from here on
              viewOfRev(acc, r) ==
                  LET a1 == FoldLeft(LAMBDA a, i : MapPut(a, allobjs[i].num, [gen |-> allobjs[i].gen, val |-> fixed[i].val]),
                                     acc, [k \in 1..Len(revs[r].objs) |-> base[r] + k])
                      a2 == FoldLeft(LAMBDA a, e : MapPut(a, e.num, [gen |-> 0, val |-> compVal(r, e)]), a1, chk[r].comp)
                  IN IF chk[r].freed \cap DOMAIN a2 = {} THEN a2 ELSE MapDel(a2, chk[r].freed)
              view == IF badcomp THEN EmptyMap ELSE FoldLeft(viewOfRev, EmptyMap, [r \in 1..Len(revs) |-> r])
              \* every definition of every number in file order (classifier input): <<[val, where]>>, where = 0 for a
              \* plain object, the container number for a compressed one
              addH(acc, n, e) == MapPut(acc, n, IF n \in DOMAIN acc THEN Append(acc[n], e) ELSE <<e>>)
              histOfRev(acc, r) ==
                  LET a1 == FoldLeft(LAMBDA a, i : addH(a, allobjs[i].num, [val |-> fixed[i].val, where |-> 0]),
                                     acc, [k \in 1..Len(revs[r].objs) |-> base[r] + k])
                  IN FoldLeft(LAMBDA a, e : addH(a, e.num, [val |-> compVal(r, e), where |-> e.f2]), a1, chk[r].comp)
              hist == IF badcomp THEN EmptyMap ELSE FoldLeft(histOfRev, EmptyMap, [r \in 1..Len(revs) |-> r])
              compnums == UNION {{chk[r].comp[j].num : j \in 1..Len(chk[r].comp)} : r \in 1..Len(revs)}
              maxcomp == FoldLeft(LAMBDA acc, n : IF n > acc THEN n ELSE acc, 0, SetToSeq(compnums))
              sizeok == /\ Has(last.trailer, NameSize) /\ IntSmall(last.trailer[NameSize])
                        /\ IntVal(last.trailer[NameSize]) > maxnum /\ IntVal(last.trailer[NameSize]) > maxcomp
              bincmt == IF Len(items) >= 2 /\ items[2].it = "cmt" THEN items[2].v ELSE <<>>
          IN IF badfix # 0 THEN [ok |-> FALSE, err |-> "indirect stream Length does not match the stream data"]
             ELSE IF badcomp THEN [ok |-> FALSE, err |-> "type-2 entry does not name an object stream holding that object at that index"]
             ELSE IF ~prevok \/ ~firstok THEN [ok |-> FALSE, err |-> "Prev does not chain the cross-reference sections"]
             ELSE IF ~sizeok THEN [ok |-> FALSE, err |-> "Size does not exceed every object number"]
             ELSE [ok |-> TRUE, err |-> "",
                   version |-> SubSeq(items[1].v, 5, Len(items[1].v)),
                   binmark |-> bincmt,
                   junk |-> h - 1,
                   nrevs |-> Len(revs),
                   trailer |-> last.trailer,
                   xrefobjs |-> {chk[i].xrefobj : i \in 1..Len(revs)} \ {0},
                   kind |-> revs[Len(revs)].kind,
                   view |-> view,
                   hist |-> hist,
                   \* per revision: what its cross-reference section says about free and hidden numbers (see FreeState ff.)
                   secs |-> [r \in 1..Len(revs) |-> [inuse |-> chk[r].inuse, fl |-> chk[r].fl, freed |-> chk[r].freed,
                                                     hybrid |-> chk[r].hybrid, hidden |-> chk[r].hidden]]]

RdFile(bytes) == RdFileV(bytes, FALSE)

-----------------------------------------------------------------------------
(* Free entries and hidden objects of a file that was read (rd = RdFile(bytes), rd.ok) *)

\* the newest entry of every number: [free |-> FALSE] or [free |-> TRUE, next, gen]
FreeState(rd) ==
    FoldLeft(LAMBDA acc, sec :
                LET a1 == [n \in DOMAIN acc \cup sec.inuse |-> IF n \in sec.inuse THEN [free |-> FALSE, next |-> 0, gen |-> 0] ELSE acc[n]]
                IN FoldLeft(LAMBDA a, f : MapPut(a, f.num, [free |-> TRUE, next |-> f.next, gen |-> f.gen]), a1, sec.fl),
             EmptyMap, rd.secs)

\* numbers that had an object in an earlier revision and now have none, with the generation of their next use
Freed(rd) ==
    LET st == FreeState(rd)
        gone == {n \in (DOMAIN rd.hist \ DOMAIN rd.view) \ rd.xrefobjs : n \in DOMAIN st /\ st[n].free}
    IN [n \in gone |-> st[n].gen]

\* the linked list of free entries (7.5.4): from object 0 along the link fields until it is back at 0;
\* [closed (it came back to 0 over free entries only), list (the numbers met, without 0)]
FreeList(rd) ==
    LET st == FreeState(rd)
        step(acc, i) ==
            IF acc.stop THEN acc
            ELSE IF ~(acc.cur \in DOMAIN st /\ st[acc.cur].free) \/ acc.cur \in {acc.list[j] : j \in 1..Len(acc.list)}
                 THEN [acc EXCEPT !.stop = TRUE, !.closed = FALSE]
            ELSE LET nx == st[acc.cur].next
                     l2 == IF acc.cur = 0 THEN acc.list ELSE Append(acc.list, acc.cur)
                 IN IF nx = 0 THEN [cur |-> 0, list |-> l2, stop |-> TRUE, closed |-> TRUE]
                    ELSE [cur |-> nx, list |-> l2, stop |-> FALSE, closed |-> FALSE]
        w == FoldLeft(step, [cur |-> 0, list |-> <<>>, stop |-> FALSE, closed |-> FALSE], [i \in 1..(Cardinality(DOMAIN st) + 1) |-> i])
    IN [closed |-> w.closed, list |-> w.list]

\* numbers of the view whose newest definition is in use only through the XRefStm stream of a hybrid-reference
\* section (a reader that knows cross-reference tables only does not see them)
Hidden(rd) ==
    FoldLeft(LAMBDA acc, sec : ((acc \ sec.inuse) \ sec.freed) \cup sec.hidden, {}, rd.secs) \cap DOMAIN rd.view
HybridRevs(rd) == {r \in 1..Len(rd.secs) : rd.secs[r].hybrid}
=============================================================================
