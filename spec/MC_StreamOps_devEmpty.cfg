SPECIFICATION Spec
CONSTANTS
  MaxSteps = 2
  DevAvg = FALSE
  DevArr = FALSE
  DevStale = FALSE
  DevEmpty = TRUE
  Disturbs = FALSE
  DevRows = FALSE
  DevInd = FALSE
  DevDocInd = FALSE
INVARIANTS LengthInv StepOKModKnown
CHECK_DEADLOCK FALSE
