SPECIFICATION Spec
CONSTANTS
  Emit = TRUE
  Ghosts = FALSE
  SepMode = "all"
  Beyond <- BeyondBoth
INVARIANTS RoundTrip ImplRefines EmitInv
CHECK_DEADLOCK FALSE
