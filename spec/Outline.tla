------------------------------- MODULE Outline -------------------------------
(***************************************************************************)
(* Bookmarks -> outline -> table of contents (property C17).               *)
(*                                                                          *)
(* A bookmark forest is given by its *add sequence*                         *)
(*    adds \in Seq([parent : Nat, title : Seq(Nat), page : Nat])            *)
(* bookmark k is the k-th add; parent = 0 puts it at the top level, parent  *)
(* = j < k attaches it as the (so far) last child of bookmark j; title is a *)
(* sequence of Unicode scalar values; page is a page number 1..np, or 0 for *)
(* the "zero page" (0,_) a parent may carry until adjust_zero_pages.        *)
(* Every ordered forest in every attach order is exactly one such sequence. *)
(*                                                                          *)
(* Two layers (DESIGN 2.9):                                                 *)
(*  - declarative: Children/Roots/AdjPage/PreOrder/Level/ReadBack of the    *)
(*    forest, the text-string encodings of a title, and the formulas Fresh, *)
(*    Links, Carries over an *observed* outline graph `og` (what the harness*)
(*    projects from lopdf, or what the impl-shaped layer built).  Only this *)
(*    layer decides (operator Judge).                                       *)
(*  - impl-shaped: add_bookmark, recursive_fix_pages, outline_child /       *)
(*    build_outline (id allocation: item id, then action id, pre-order),    *)
(*    get_outlines + setup_outline_page_ids + get_toc, transcribed from     *)
(*    src/bookmarks.rs, src/document.rs, src/outlines.rs, src/toc.rs.       *)
(*    MC_Outline checks that it refines the declarative layer.              *)
(*                                                                          *)
(* Observed outline graph og (all ids are object numbers, 0 = key absent):  *)
(*   [root, rootrec : [first, last, present], max_id, oldids : Seq(Nat),    *)
(*    changed : Seq(Nat), later : Seq(Nat),                                 *)
(*    items : Seq([id, parent, first, last, next, prev, title : Seq(byte),  *)
(*                 dk : STRING, aid, dest])]                                *)
(* items = every object created by build_outline that has a /Title; dk says *)
(* how the destination is given ("A:GoTo" action, "Dest" array), aid is the *)
(* id of the action object (0 if direct), dest the object number the        *)
(* destination array points to.  later = the ids the document's allocator  *)
(* (add_object / new_object_id) handed out after build_outline returned.    *)
(***************************************************************************)
EXTENDS Naturals, Sequences, FiniteSets, SequencesExt, FiniteSetsExt, TLC

-----------------------------------------------------------------------------
(* Declarative layer: the forest *)

\* children of p (0 = top level) in insertion order
ChildrenOf(adds, p) ==
    LET F[i \in 0..Len(adds)] ==
            IF i = 0 THEN <<>>
            ELSE IF adds[i].parent = p THEN Append(F[i - 1], i) ELSE F[i - 1]
    IN F[Len(adds)]

Roots(adds) == ChildrenOf(adds, 0)

\* the domain of C17: a forest (parents are earlier bookmarks), real target pages, the zero page only
\* on bookmarks that have children, pairwise distinct titles
InDomain(adds, np) ==
    /\ \A k \in 1..Len(adds) :
          /\ adds[k].parent \in 0..(k - 1)
          /\ adds[k].page \in 0..np
          /\ adds[k].page = 0 => ChildrenOf(adds, k) # <<>>
    /\ \A j, k \in 1..Len(adds) : j # k => adds[j].title # adds[k].title

HasZero(adds) == \E k \in 1..Len(adds) : adds[k].page = 0

\* the page of each bookmark once "parents with page (0,_) are set to that of their first child"
AdjPage(adds) ==
    LET A[k \in 1..Len(adds)] ==
            IF adds[k].page # 0 THEN adds[k].page
            ELSE LET ch == ChildrenOf(adds, k) IN IF ch = <<>> THEN 0 ELSE A[ch[1]]
    IN A

Level(adds) ==
    LET L[k \in 1..Len(adds)] == IF adds[k].parent = 0 THEN 1 ELSE L[adds[k].parent] + 1
    IN L

RECURSIVE PreOrderOf(_, _)
PreOrderOf(adds, list) ==
    FoldLeft(LAMBDA acc, b : (acc \o <<b>>) \o PreOrderOf(adds, ChildrenOf(adds, b)), <<>>, list)

PreOrder(adds) == PreOrderOf(adds, Roots(adds))

\* what reading the table of contents must return: <<level, title, page number>> in pre-order
\* (pages[k] = the bookmark's page number at the time the outline was built)
ReadBackWith(adds, pages) ==
    LET pre == PreOrder(adds) lv == Level(adds)
    IN [i \in 1..Len(pre) |-> <<lv[pre[i]], adds[pre[i]].title, pages[pre[i]]>>]

ReadBack(adds) == ReadBackWith(adds, AdjPage(adds))

-----------------------------------------------------------------------------
(* Declarative layer: PDF text strings that denote a title (ISO 32000 7.9.2.2) *)

IsAscii(cps) == \A i \in 1..Len(cps) : cps[i] < 128

U16(cp) ==
    IF cp < 65536 THEN <<cp \div 256, cp % 256>>
    ELSE LET c == cp - 65536 hi == 55296 + (c \div 1024) lo == 56320 + (c % 1024)
         IN <<hi \div 256, hi % 256, lo \div 256, lo % 256>>

U8(cp) ==
    IF cp < 128 THEN <<cp>>
    ELSE IF cp < 2048 THEN <<192 + (cp \div 64), 128 + (cp % 64)>>
    ELSE IF cp < 65536 THEN <<224 + (cp \div 4096), 128 + ((cp \div 64) % 64), 128 + (cp % 64)>>
    ELSE <<240 + (cp \div 262144), 128 + ((cp \div 4096) % 64), 128 + ((cp \div 64) % 64), 128 + (cp % 64)>>

Utf16BE(cps) == FoldLeft(LAMBDA acc, cp : acc \o U16(cp), <<254, 255>>, cps)
Utf8Bom(cps) == FoldLeft(LAMBDA acc, cp : acc \o U8(cp), <<239, 187, 191>>, cps)

\* one-byte form: ASCII as itself (as every reader, lopdf's get_toc included, takes it) and the
\* Latin-1 half of PDFDocEncoding (161..255 except 173) as itself
OneByteOk(cps) == \A i \in 1..Len(cps) : cps[i] < 128 \/ (cps[i] \in 161..255 /\ cps[i] # 173)

\* "the item carries the title": its /Title is one of the text-string spellings of the title
TitleDenotes(bytes, cps) ==
    \/ bytes = Utf16BE(cps)
    \/ bytes = Utf8Bom(cps)
    \/ OneByteOk(cps) /\ bytes = cps

-----------------------------------------------------------------------------
(* Declarative layer: the formulas of C17 over an observed outline graph *)

ItemsFor(og, cps) == {i \in 1..Len(og.items) : TitleDenotes(og.items[i].title, cps)}

\* every bookmark is carried by exactly one created item
Identified(adds, og) == \A k \in 1..Len(adds) : Cardinality(ItemsFor(og, adds[k].title)) = 1

ItemOf(adds, og) == [k \in 1..Len(adds) |-> og.items[CHOOSE i \in ItemsFor(og, adds[k].title) : TRUE]]

SeqSet(s) == {s[i] : i \in 1..Len(s)}

\* ids of the objects the outline consists of: the root, the items, their action objects
NewIds(adds, og) ==
    LET it == ItemOf(adds, og)
    IN {og.root} \cup {it[k].id : k \in 1..Len(adds)} \cup ({it[k].aid : k \in 1..Len(adds)} \ {0})

FreshDisjoint(adds, og) ==
    LET it == ItemOf(adds, og)
        acts == {k \in 1..Len(adds) : it[k].aid # 0}
    IN /\ og.root # 0 /\ og.rootrec.present
       /\ NewIds(adds, og) \cap SeqSet(og.oldids) = {}
       /\ og.changed = <<>>                                   \* no existing object was overwritten
       /\ Cardinality(NewIds(adds, og)) = 1 + Len(adds) + Cardinality(acts)     \* all distinct

FreshMax(adds, og) == og.max_id >= Max(NewIds(adds, og))     \* later allocations cannot collide

\* the ids stay reserved: no allocation made after build_outline returns one of them
FreshReserved(adds, og) == SeqSet(og.later) \cap NewIds(adds, og) = {}

Fresh(adds, og) == FreshDisjoint(adds, og) /\ FreshMax(adds, og) /\ FreshReserved(adds, og)

\* sibling list `list` hangs under the node whose id is pid and whose First/Last are f/l
SiblingsOk(it, list) ==
    /\ it[list[1]].prev = 0
    /\ it[list[Len(list)]].next = 0
    /\ \A j \in 1..(Len(list) - 1) :
          /\ it[list[j]].next = it[list[j + 1]].id
          /\ it[list[j + 1]].prev = it[list[j]].id

EndsOk(it, list, f, l) ==
    IF list = <<>> THEN f = 0 /\ l = 0
    ELSE f = it[list[1]].id /\ l = it[list[Len(list)]].id

LinksRoot(adds, og) == EndsOk(ItemOf(adds, og), Roots(adds), og.rootrec.first, og.rootrec.last)

LinksParent(adds, og) ==
    LET it == ItemOf(adds, og)
    IN \A k \in 1..Len(adds) :
          it[k].parent = (IF adds[k].parent = 0 THEN og.root ELSE it[adds[k].parent].id)

LinksSiblings(adds, og) ==
    LET it == ItemOf(adds, og)
    IN /\ SiblingsOk(it, Roots(adds))
       /\ \A k \in 1..Len(adds) : ChildrenOf(adds, k) # <<>> => SiblingsOk(it, ChildrenOf(adds, k))

LinksEnds(adds, og) ==
    LET it == ItemOf(adds, og)
    IN \A k \in 1..Len(adds) : EndsOk(it, ChildrenOf(adds, k), it[k].first, it[k].last)

Links(adds, og) == LinksRoot(adds, og) /\ LinksParent(adds, og) /\ LinksSiblings(adds, og) /\ LinksEnds(adds, og)

\* destination to the bookmark's page (pages[k] = page number at build time, pageids = page number -> object)
CarriesDest(adds, og, pages, pageids) ==
    LET it == ItemOf(adds, og)
    IN \A k \in 1..Len(adds) :
          /\ it[k].dk \in {"A:GoTo", "Dest"}
          /\ pages[k] \in 1..Len(pageids)
          /\ it[k].dest = pageids[pages[k]]

Carries(adds, og, pages, pageids) == Identified(adds, og) /\ CarriesDest(adds, og, pages, pageids)

TocIs(t, expected) == t.ok /\ t.toc = expected

\* The verdict on one complete run.  adds must be InDomain; `adjusted` says whether adjust_zero_pages was
\* called (it must have been if there is a zero page).  First failing clause names the verdict.
Judge(adds, np, pageids, adjusted, og, tocs) ==
    LET pages == IF adjusted THEN AdjPage(adds) ELSE [k \in 1..Len(adds) |-> adds[k].page]
        rb    == ReadBackWith(adds, pages)
    IN IF ~Identified(adds, og) THEN "carries.title"
       ELSE IF ~FreshDisjoint(adds, og) THEN "fresh.overlap"
       ELSE IF ~FreshMax(adds, og) THEN "fresh.maxid"
       ELSE IF ~FreshReserved(adds, og) THEN "fresh.reserved"
       ELSE IF ~LinksParent(adds, og) THEN "links.parent"
       ELSE IF ~LinksSiblings(adds, og) THEN "links.siblings"
       ELSE IF ~LinksRoot(adds, og) THEN "links.root-ends"
       ELSE IF ~LinksEnds(adds, og) THEN "links.first-last"
       ELSE IF ~CarriesDest(adds, og, pages, pageids) THEN "carries.dest"
       ELSE IF ~TocIs(tocs[1], rb) THEN "readback.built"
       ELSE IF \E i \in 2..Len(tocs) : ~TocIs(tocs[i], rb) THEN "readback.reloaded"
       ELSE "ok"

-----------------------------------------------------------------------------
(* Declarative layer, the same formulas written out for the forest t1 > t2 > ... > tn ("any depth"): a  *)
(* chain record r gives per level k the observed item that carries the level's title as columns          *)
(* id, parent, first, last, next, prev, aid, dest, dkok, title, found, destpn (page number of dest), so   *)
(* every clause is a linear pass and chains of 10^5 levels can be judged.                                 *)
(* Level k is titled "t<k>" (a CJK character + <k> on every third level); its page is the zero page on   *)
(* every level but the last if r.zero, else ((k + leaf_page) mod np) + 1.                                 *)

RECURSIVE DecDigits(_)
DecDigits(k) == IF k < 10 THEN <<48 + k>> ELSE Append(DecDigits(k \div 10), 48 + (k % 10))

ChainTitle(k) == (IF k % 3 = 0 THEN <<31456>> ELSE <<116>>) \o DecDigits(k)

ChainPage(r, k) == IF r.zero /\ k < r.n THEN 0 ELSE ((k + r.leaf_page) % r.np) + 1

ChainNewIds(r) == ({r.root} \cup {r.id[k] : k \in 1..r.n}) \cup ({r.aid[k] : k \in 1..r.n} \ {0})

ChainTocIs(r, t) ==
    /\ t.ok /\ t.n = r.n
    /\ \A k \in 1..r.n : t.lv[k] = k /\ t.tt[k] = ChainTitle(k) /\ t.pg[k] = r.destpn[k]

ChainJudge(r) ==
    LET n == r.n
        \* the page the destination of level k must name: its own, or (after adjust_zero_pages) its child's
        want(k) == IF r.adjust /\ ChainPage(r, k) = 0 THEN (IF k < n THEN r.destpn[k + 1] ELSE 0) ELSE ChainPage(r, k)
    IN IF \E k \in 1..n : r.found[k] = 0 \/ ~TitleDenotes(r.title[k], ChainTitle(k)) THEN "carries.title"
       ELSE IF \/ r.root = 0 \/ ~r.rootrec.present \/ r.changed # <<>>
               \/ Cardinality(ChainNewIds(r)) # 1 + n + Cardinality({k \in 1..n : r.aid[k] # 0}) THEN "fresh.overlap"
       ELSE IF r.max_id < r.root \/ \E k \in 1..n : r.max_id < r.id[k] \/ r.max_id < r.aid[k] THEN "fresh.maxid"
       ELSE IF \E j \in 1..Len(r.later) : r.later[j] \in ChainNewIds(r) THEN "fresh.reserved"
       ELSE IF r.parent[1] # r.root \/ \E k \in 2..n : r.parent[k] # r.id[k - 1] THEN "links.parent"
       ELSE IF \E k \in 1..n : r.next[k] # 0 \/ r.prev[k] # 0 THEN "links.siblings"
       ELSE IF r.rootrec.first # r.id[1] \/ r.rootrec.last # r.id[1] THEN "links.root-ends"
       ELSE IF \/ r.first[n] # 0 \/ r.last[n] # 0
               \/ \E k \in 1..(n - 1) : r.first[k] # r.id[k + 1] \/ r.last[k] # r.id[k + 1] THEN "links.first-last"
       ELSE IF \E k \in 1..n : \/ r.dkok[k] # 1 \/ r.destpn[k] \notin 1..r.np
                                \/ r.pageids[r.destpn[k]] # r.dest[k] \/ r.destpn[k] # want(k) THEN "carries.dest"
       ELSE IF ~ChainTocIs(r, r.tocs[1]) THEN "readback.built"
       ELSE IF \E i \in 2..Len(r.tocs) : ~ChainTocIs(r, r.tocs[i]) THEN "readback.reloaded"
       ELSE "ok"

-----------------------------------------------------------------------------
(* Impl-shaped layer.  State of the pending forest as Document holds it:                         *)
(*   [maxb, bms : Seq(id), tbl : Seq([title, page, children])]   (bookmark_table keyed 1..maxb)  *)

EmptyBm == [maxb |-> 0, bms |-> <<>>, tbl |-> <<>>]

\* Document::add_bookmark(bookmark, parent) ; parent = 0 is None
ImplAdd(s, title, page, parent) ==
    LET id == s.maxb + 1
        t1 == IF parent # 0 /\ parent \in 1..Len(s.tbl)
              THEN [s.tbl EXCEPT ![parent].children = Append(@, id)] ELSE s.tbl
    IN [maxb |-> id,
        bms  |-> IF parent = 0 THEN Append(s.bms, id) ELSE s.bms,
        tbl  |-> Append(t1, [title |-> title, page |-> page, children |-> <<>>])]

\* Document::recursive_fix_pages(bookmarks, first): the for loop from position i; returns [tbl, ret]
RECURSIVE FixLoop(_, _, _, _)
FixLoop(tbl, list, i, first) ==
    IF i > Len(list) THEN [tbl |-> tbl, ret |-> 0]
    ELSE LET id       == list[i]
             children == tbl[id].children
             dig      == tbl[id].page = 0 /\ children # <<>>
             r1       == IF dig THEN FixLoop(tbl, children, 1, FALSE) ELSE [tbl |-> tbl, ret |-> 0]
             tbl1     == IF dig THEN [r1.tbl EXCEPT ![id].page = r1.ret] ELSE tbl
             page     == tbl1[id].page
         IN IF ~first /\ page # 0 THEN [tbl |-> tbl1, ret |-> page]
            ELSE LET tbl2 == IF first /\ children # <<>> THEN FixLoop(tbl1, children, 1, TRUE).tbl ELSE tbl1
                 IN FixLoop(tbl2, list, i + 1, first)

\* Document::adjust_zero_pages
ImplAdjust(s) == [s EXCEPT !.tbl = FixLoop(s.tbl, s.bms, 1, TRUE).tbl]

\* title_bytes in outline_child
ImplTitleBytes(cps) == IF IsAscii(cps) THEN cps ELSE Utf16BE(cps)

NoObjs == [x \in {} |-> 0]
ItemObj(pid, title, aid, prev) ==
    [kind |-> "item", parent |-> pid, title |-> title, aid |-> aid, first |-> 0, last |-> 0, next |-> 0,
     prev |-> prev, count |-> 0, dest |-> 0]
ActionObj(page) ==
    [kind |-> "action", parent |-> 0, title |-> <<>>, aid |-> 0, first |-> 0, last |-> 0, next |-> 0,
     prev |-> 0, count |-> 0, dest |-> page]

\* Document::outline_child(maxid, (pid, list), processed): the for loop from position i with the locals
\* first/last (0 = None).  Returns [maxid, proc, first, last, count].
RECURSIVE OutlineChild(_, _, _, _, _, _, _, _)
OutlineChild(tbl, maxid, proc, pid, list, i, first, last) ==
    IF i > Len(list) THEN [maxid |-> maxid, proc |-> proc, first |-> first, last |-> last, count |-> Len(list)]
    ELSE LET bm    == tbl[list[i]]
             id    == maxid + 1
             aid   == maxid + 2
             child == ItemObj(pid, ImplTitleBytes(bm.title), aid, IF first = 0 THEN 0 ELSE last)
             proc1 == IF first # 0 THEN [proc EXCEPT ![last].next = id] ELSE proc
             sub   == IF bm.children # <<>>
                      THEN OutlineChild(tbl, aid, proc1, id, bm.children, 1, 0, 0)
                      ELSE [maxid |-> aid, proc |-> proc1, first |-> 0, last |-> 0, count |-> 0]
             done  == [child EXCEPT !.first = sub.first, !.last = sub.last, !.count = sub.count]
             proc2 == (id :> done) @@ (aid :> ActionObj(bm.page)) @@ sub.proc
         IN OutlineChild(tbl, sub.maxid, proc2, pid, list, i + 1, IF first = 0 THEN id ELSE first, id)

\* Document::build_outline on a document whose max_id is maxid: [root, maxid, objs]  (root = 0: None)
ImplBuild(s, maxid) ==
    IF s.bms = <<>> THEN [root |-> 0, maxid |-> maxid, objs |-> NoObjs]
    ELSE LET rid == maxid + 1
             r   == OutlineChild(s.tbl, rid, NoObjs, rid, s.bms, 1, 0, 0)
             rootobj == [ItemObj(0, <<>>, 0, 0) EXCEPT !.kind = "root", !.first = r.first, !.last = r.last, !.count = r.count]
         IN [root |-> rid, maxid |-> r.maxid, objs |-> (rid :> rootobj) @@ r.proc]

\* Document::add_object / new_object_id after the outline was built: the allocator hands out max_id + 1;
\* add_object stores an object there (whatever was there is overwritten).  d = [root, maxid, objs, ...]
OtherObj == [ItemObj(0, <<>>, 0, 0) EXCEPT !.kind = "other"]
ImplAlloc(d, store) ==
    LET id == d.maxid + 1
    IN [d EXCEPT !.maxid = id, !.later = Append(@, id),
                 !.objs = IF store THEN (id :> OtherObj) @@ d.objs ELSE d.objs]

\* get_outlines + setup_outline_page_ids flattened: the sibling loop starting at node id, entries
\* <<level, title bytes, destination page>>; fuel bounds the walk on ill-formed graphs.
RECURSIVE WalkSiblings(_, _, _, _)
WalkSiblings(objs, id, level, fuel) ==
    IF id = 0 \/ id \notin DOMAIN objs \/ fuel = 0 THEN <<>>
    ELSE LET nd   == objs[id]
             me   == IF nd.kind = "item" /\ nd.aid \in DOMAIN objs
                     THEN <<<<level, nd.title, objs[nd.aid].dest>>>> ELSE <<>>
             subs == IF nd.first # 0 THEN WalkSiblings(objs, nd.first, level + 1, fuel - 1) ELSE <<>>
         IN (me \o subs) \o WalkSiblings(objs, nd.next, level, fuel - 1)

\* IndexMap::insert keyed by title: an equal key keeps its position and takes the new value
KeyedInsert(acc, e) ==
    IF \E i \in 1..Len(acc) : acc[i][2] = e[2]
    THEN [i \in 1..Len(acc) |-> IF acc[i][2] = e[2] THEN e ELSE acc[i]]
    ELSE Append(acc, e)

\* title decoding in get_toc (only the branches reachable from ImplTitleBytes output are needed:
\* no BOM -> bytes are the (ASCII) code points; FE FF -> UTF-16BE)
RECURSIVE DecodeU16(_, _)
DecodeU16(b, i) ==
    IF i + 1 > Len(b) THEN <<>>
    ELSE LET u == b[i] * 256 + b[i + 1] IN
         IF u \in 55296..56319 /\ i + 3 <= Len(b)
         THEN <<65536 + (u - 55296) * 1024 + (b[i + 2] * 256 + b[i + 3] - 56320)>> \o DecodeU16(b, i + 4)
         ELSE <<u>> \o DecodeU16(b, i + 2)

ImplDecodeTitle(b) ==
    IF Len(b) >= 2 /\ b[1] = 254 /\ b[2] = 255 THEN DecodeU16(b, 3) ELSE b

\* Document::get_toc on the built outline: np pages numbered 1..np (page p |-> number p), entries whose
\* destination is not a page are skipped
ImplToc(objs, root, np) ==
    IF root = 0 \/ root \notin DOMAIN objs THEN <<>>
    ELSE LET flat  == WalkSiblings(objs, objs[root].first, 1, Cardinality(DOMAIN objs) + 1)
             keyed == FoldLeft(KeyedInsert, <<>>, flat)
             kept  == SelectSeq(keyed, LAMBDA e : e[3] \in 1..np)
         IN [i \in 1..Len(kept) |-> <<kept[i][1], ImplDecodeTitle(kept[i][2]), kept[i][3]>>]

\* the outline graph the harness would observe for the impl-shaped result (page p is object pageids[p])
ImplOg(b, base, pageids, later) ==
    LET ids   == {i \in DOMAIN b.objs : b.objs[i].kind = "item"}
        order == SetToSortSeq(ids, LAMBDA x, y : x < y)
        obj(i) == b.objs[i]
        P(p)  == IF p \in 1..Len(pageids) THEN pageids[p] ELSE 0
    IN [root |-> b.root,
        rootrec |-> IF b.root = 0 THEN [first |-> 0, last |-> 0, present |-> FALSE]
                    ELSE [first |-> b.objs[b.root].first, last |-> b.objs[b.root].last, present |-> TRUE],
        max_id |-> b.maxid,
        oldids |-> [i \in 1..base |-> i],
        changed |-> <<>>,
        later |-> later,
        items |-> [j \in 1..Len(order) |->
                     [id |-> order[j], parent |-> obj(order[j]).parent, first |-> obj(order[j]).first,
                      last |-> obj(order[j]).last, next |-> obj(order[j]).next, prev |-> obj(order[j]).prev,
                      title |-> obj(order[j]).title, dk |-> "A:GoTo", aid |-> obj(order[j]).aid,
                      dest |-> P(obj(obj(order[j]).aid).dest)]]]

\* Stack frames the three walkers need "as they are" (one recursive call per level):
\* recursive_fix_pages and outline_child recurse once per non-empty children list, get_outlines once per
\* /First (setup_outline_page_ids and the drop of the nested Outline value nest equally deep).
RECURSIVE ForestFrames(_, _)
ForestFrames(tbl, list) ==
    IF list = <<>> THEN 0
    ELSE 1 + Max({ForestFrames(tbl, tbl[list[i]].children) : i \in 1..Len(list)})

RECURSIVE OutlineFrames(_, _, _)
OutlineFrames(objs, id, fuel) ==          \* along the sibling chain starting at id
    IF id = 0 \/ id \notin DOMAIN objs \/ fuel = 0 THEN 0
    ELSE Max({1 + OutlineFrames(objs, objs[id].first, fuel - 1), OutlineFrames(objs, objs[id].next, fuel - 1)})

\* build_outline's counter is a plain machine integer: past `limit` it wraps to 0.  The result of ImplBuild
\* with every object number taken modulo limit + 1 (of two objects that land on one number the later one stays).
WrapBuild(b, limit) ==
    LET W(i) == i % (limit + 1)
        src(j) == Max({i \in DOMAIN b.objs : W(i) = j})
        re(o) == [o EXCEPT !.parent = W(@), !.first = W(@), !.last = W(@), !.next = W(@), !.prev = W(@), !.aid = W(@)]
    IN [root |-> W(b.root), maxid |-> W(b.maxid),
        objs |-> [j \in {W(i) : i \in DOMAIN b.objs} |-> re(b.objs[src(j)])]]

\* which named-destination tables get_outlines cannot read when it does not follow references
\* (and takes a PDF 1.1 /Dests dictionary for a name-tree node)
DestSpellingsAll == {"none", "tree-direct", "kids-ref", "names-ref", "d-ref", "value-array-ref", "old-direct",
                     "old-names-key", "old-refs"}
DestsUnreadableAsIs == {"kids-ref", "names-ref", "d-ref", "old-names-key"}

\* the whole pipeline as a function of the add sequence (used by the trace validator to measure drift)
ImplForest(adds) == FoldLeft(LAMBDA s, a : ImplAdd(s, a.title, a.page, a.parent), EmptyBm, adds)
=============================================================================
