SPECIFICATION SimSpec
CONSTANTS
  Devs <- DevCode
  Ops <- AllOps
  ByteStrings <- BytesThorough
  NumSeqs <- NumsThorough
  NewObjs <- MCNewObjs
  MaxDepth = 10
  Starts <- StartsThorough
  Allowed = {"delete.array.dup", "delete.streamdict", "delete.trailer", "resources.shadow", "contents.refToArray"}
  Emit = TRUE
  EmitMod = 1
  EmitModV = 1
INVARIANTS Refines StartOk
CHECK_DEADLOCK FALSE
