SPECIFICATION SimSpec
CONSTANTS
  Devs <- DevCode
  Ops <- AllOps
  ByteStrings <- BytesThorough
  NumSeqs <- NumsThorough
  NewObjs <- MCNewObjs
  InheritBound <- MCInheritBound
  MaxDepth = 10
  Starts <- StartsThorough
  Allowed = {"resources.shadow.incremental"}
  Emit = TRUE
  EmitMod = 1
  EmitModV = 1
INVARIANTS Refines StartOk
CHECK_DEADLOCK FALSE
