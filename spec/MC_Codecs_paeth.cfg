SPECIFICATION Spec
CONSTANTS
  AlphA = {0, 1, 133, 255}
  MaxLenA = 0
  AlphZ = {0, 77, 255}
  MaxLenZ = 0
  BlockSizes = {1, 2, 3, 65535}
  AlphH = {0, 16, 62, 171, 255}
  MaxLenH = 0
  AlphL = {65, 66}
  MaxLenL = 0
  NLong = 0
  MaxCols = 0
  ColorSet = {1, 2}
  MaxRows = 2
  NData = 2
  ByteCube = {}
  Strat = {}
  StratRow = {}
  MaxChain = 1
  PaethPlanes = 256
  Emit = TRUE
  DevAvg = FALSE
  DevArr = FALSE
  DevNul = FALSE
  DevInd = FALSE
  DevEncAvg = FALSE
  RowAlph = {}
  RowAlph3 = {}
  DevEmpty = FALSE
INVARIANTS DisturbFails RefinesInd RoundTrip EncoderShape Refines DevExplained PaethOK RowOK EmitInv
CHECK_DEADLOCK FALSE
