SPECIFICATION Spec
CONSTANTS
  Emit = TRUE
  Ghosts = TRUE
  SepMode = "all"
INVARIANTS RoundTrip EmitInv
CHECK_DEADLOCK FALSE
