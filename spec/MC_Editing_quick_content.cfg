SPECIFICATION Spec
CONSTANTS
  Devs <- DevBoth
  Ops <- OpsContent
  ByteStrings <- BytesQuick
  NumSeqs <- NumsQuick
  NewObjs <- MCNewObjs
  InheritBound <- MCInheritBound
  MaxDepth = 4
  Starts <- StartsContent
  Allowed = {"resources.shadow.incremental"}
  Emit = TRUE
  EmitMod = 100
  EmitModV = 10
VIEW View
INVARIANTS Refines StartOk EmitViolations
CHECK_DEADLOCK FALSE
