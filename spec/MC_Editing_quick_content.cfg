SPECIFICATION Spec
CONSTANTS
  Devs <- DevBoth
  Ops <- OpsContent
  ByteStrings <- BytesQuick
  NumSeqs <- NumsQuick
  NewObjs <- MCNewObjs
  MaxDepth = 4
  Starts <- StartsContent
  Allowed = {}
  Emit = TRUE
  EmitMod = 100
  EmitModV = 10
VIEW View
INVARIANTS Refines StartOk EmitViolations
CHECK_DEADLOCK FALSE
