SPECIFICATION Spec
CONSTANTS
  Devs <- DevBoth
  Ops <- OpsContent
  ByteStrings <- BytesQuick
  NumSeqs <- NumsQuick
  NewObjs <- MCNewObjs
  InheritBound <- MCInheritBound
  MaxDepth = 4
  Starts <- StartsContent
  Allowed = {"resources.shadow.deep", "fresh.aboveMax", "maxid.setObject", "counts.indirect", "delete.bookmark"}
  Emit = TRUE
  EmitMod = 100
  EmitModV = 10
VIEW View
INVARIANTS Refines StartOk EmitViolations
CHECK_DEADLOCK FALSE
