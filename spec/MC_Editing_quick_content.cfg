SPECIFICATION Spec
CONSTANTS
  Devs <- DevAll
  Ops <- OpsContent
  ByteStrings <- BytesQuick
  NumSeqs <- NumsQuick
  NewObjs <- MCNewObjs
  MaxDepth = 4
  Starts <- StartsContent
  Allowed = {"content.sharedStream", "resources.nameCollision"}
  Emit = TRUE
  EmitMod = 100
  EmitModV = 10
VIEW View
INVARIANTS Refines StartOk EmitViolations
CHECK_DEADLOCK FALSE
