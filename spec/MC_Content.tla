----------------------------- MODULE MC_Content -----------------------------
(* C14, spec-internal consistency and spec -> impl generation.  The Producer (SyntaxProducer's  *)
(* object-level actions: every spelling of names, strings and numbers, every separator choice)   *)
(* spells a sequence of content operations -- operands first, then the operator as a bare token; *)
(* inline images as BI <entries> ID <one white-space byte> <data> EI -- and the StrictReader     *)
(* (Content!ReadOps) must read the bytes back as exactly those operations (RoundTrip).  With     *)
(* Emit = TRUE each completed behaviour is printed (REPLAY) for lopdf's Content::decode.         *)
(*                                                                                               *)
(* Universes (constant Universe):                                                                *)
(*   adj(c)  one operation, zero or one operand: every operand kind next to every operator        *)
(*   adj2    one operation with two operands: every pair of operand kinds next to each other      *)
(*   strs    (s) Tj and /s f for every s over the critical alphabet, length <= 2                  *)
(*   seq2(s)/3  every sequence of 2 / 3 operations from a pool (operator next to the next operand) *)
(*   inlq/t  inline images: colour spaces (full and abbreviated names) x BPC {1,2,4,8} x small    *)
(*           W,H, data containing EI, white-space and delimiters                                  *)
(*   inloq/t inline images that spell out optional entries with default / neutral values          *)
(*           (ImageMask false, Interpolate, Decode; abbreviated and full keys; three entry orders) *)
(*           and stencil masks (ImageMask true, one bit per sample, no colour space)              *)
(*   inlk    inline images with an extra entry whose key (and name value) comes from the hostile  *)
(*           name vocabulary (empty, white-space, delimiters, '#', bytes >= 128)                   *)
EXTENDS SyntaxProducer, Content, TLC, Json

CONSTANTS Universe, Emit

\* TLC orders record fields by the order in which their names are first met while parsing, starting with this
\* module.  PdfObjects relies on the kind field k being compared before the payload fields (values of
\* different kinds then never compare payloads of different types): keep this first mention of k, v, w here.
KindFirst(o) == <<o.k, o.v, o.w>>

VARIABLES src,    \* the case being spelled: [ops, idws, free]
          fin     \* set by the single-successor Finish step (one REPLAY line per behaviour)

vars == <<pvars, src, fin>>

-----------------------------------------------------------------------------
(* operators: ones that are prefixes of keywords (n, f), ones ending in a quote, star or digit *)
OpQ == <<113>>       OpTj == <<84, 106>>   OpTJ == <<84, 74>>   OpTstar == <<84, 42>>
OpQuote == <<39>>    OpDQuote == <<34>>    OpRe == <<114, 101>> OpN == <<110>>
OpF == <<102>>       OpBT == <<66, 84>>    OpET == <<69, 84>>   OpD0 == <<100, 48>>
OpTf == <<84, 102>>  OpBigQ == <<81>>
Operators == {OpQ, OpTj, OpTJ, OpTstar, OpQuote, OpDQuote, OpRe, OpN, OpF, OpBT, OpET, OpD0}

\* the critical alphabet of DESIGN 3.1
Sigma == {40, 41, 92, 35, 47, 60, 62, 91, 93, 37, 32, 13, 10, 0, 48, 56, 110, 65, 127, 128, 255}
Seqs1 == {<<>>} \cup {<<a>> : a \in Sigma}
Seqs2 == Seqs1 \cup {<<a, b>> : a \in Sigma, b \in Sigma}

I(n) == OInt(FALSE, NatDigits(n))
BigInt == OInt(FALSE, <<9, 2, 2, 3, 3, 7, 2, 0, 3, 6, 8, 5, 4, 7, 7, 5, 8, 0, 7>>)

\* operands of every direct kind (7.3 without references and streams)
ScalarAtoms ==
    {ONull, OBool(TRUE), OBool(FALSE),
     I(0), OInt(TRUE, <<1, 2>>), BigInt,
     OReal(FALSE, <<0>>, <<5>>), OReal(TRUE, <<3>>, <<>>), OReal(FALSE, <<1, 0>>, <<0, 2>>),
     OName(<<>>), OName(<<65>>), OName(<<35, 32>>), OName(OpTj), OName(<<110, 117, 108, 108>>),
     OStr(<<>>), OStr(<<40>>), OStr(<<65, 13>>), OStr(<<41, 92>>), OStr(OpTj)}
ContainerAtoms ==
    {OArr(<<>>), OArr(<<I(1), I(2)>>), OArr(<<OStr(<<65>>), OInt(TRUE, <<1, 2, 0>>), OStr(<<66>>)>>), OArr(<<OName(<<>>), ONull>>),
     OArr(<<OArr(<<>>), ODict(EmptyMap)>>),
     ODict(EmptyMap), ODict(<<65>> :> I(7)), ODict(<<>> :> OName(<<>>)), ODict(<<75>> :> OArr(<<OBool(TRUE)>>))}

SmallKinds == {ONull, OBool(FALSE), I(7), OReal(FALSE, <<0>>, <<5>>), OName(<<>>), OName(<<65>>), OStr(<<41>>), OArr(<<I(1)>>), ODict(EmptyMap)}

Case(ops) == [ops |-> ops, idws |-> 32, free |-> FALSE, ord |-> 0]

Adj  == {Case(<<Operation(op, <<>>)>>) : op \in Operators}
        \cup {Case(<<Operation(op, <<a>>)>>) : op \in Operators, a \in ScalarAtoms \cup {OArr(<<>>), ODict(EmptyMap)}}
AdjC == {Case(<<Operation(op, <<a>>)>>) : op \in Operators, a \in ContainerAtoms}
Adj2 == {Case(<<Operation(op, <<a, b>>)>>) : op \in {OpTj, OpQuote, OpD0, OpN}, a \in SmallKinds, b \in SmallKinds}
Strs == {Case(<<Operation(OpTj, <<OStr(s)>>)>>) : s \in Seqs2} \cup {Case(<<Operation(OpF, <<OName(s)>>)>>) : s \in Seqs2}

PoolS == {Operation(OpQ, <<>>), Operation(OpN, <<>>), Operation(OpD0, <<I(5), I(0)>>), Operation(OpQuote, <<OStr(<<65>>)>>),
          Operation(OpET, <<OName(<<>>)>>)}
PoolM == PoolS \cup {Operation(OpTf, <<OName(<<70, 49>>), I(9)>>), Operation(OpTstar, <<>>)}
Pool == PoolM \cup
        {Operation(OpF, <<>>), Operation(OpBT, <<>>), Operation(OpDQuote, <<I(1), OReal(FALSE, <<0>>, <<5>>)>>),
         Operation(OpTj, <<OStr(<<40, 65>>)>>), Operation(OpTJ, <<OArr(<<OInt(TRUE, <<7>>)>>)>>),
         Operation(OpRe, <<I(1), I(2), I(3)>>), Operation(OpBigQ, <<ODict(<<65>> :> ONull)>>)}
Seq2S == {Case(<<a, b>>) : a \in PoolM, b \in PoolM}
Seq2 == {Case(<<a, b>>) : a \in Pool, b \in Pool}
Seq3 == {Case(<<a, b, c>>) : a \in PoolS, b \in PoolS, c \in PoolS}

-----------------------------------------------------------------------------
(* inline images *)
CsAll == <<CsG, CsDeviceGray, CsRGB, CsDeviceRGB, CsCMYK, CsDeviceCMYK>>
NComp(cs) == IF cs \in {CsG, CsDeviceGray} THEN 1 ELSE IF cs \in {CsRGB, CsDeviceRGB} THEN 3 ELSE 4
Patterns == << <<69, 73, 32>>, <<32, 10, 69, 73, 10>>, <<40, 60, 47, 37, 255, 0, 13>> >>      \* "EI ", " LF EI LF", "(</%" 0xFF NUL CR
Data(p, n) == [i \in 1..n |-> p[((i - 1) % Len(p)) + 1]]

InlineCase(cs, bpc, w, h, pat, abbr, ws, free) ==
    LET len == h * ((w * NComp(cs) * bpc + 7) \div 8)
        d == IF abbr THEN (InKeyW :> I(w)) @@ (InKeyH :> I(h)) @@ (InKeyBPC :> I(bpc)) @@ (InKeyCS :> OName(cs))
             ELSE (InKeyWidth :> I(w)) @@ (InKeyHeight :> I(h)) @@ (InKeyBits :> I(bpc)) @@ (InKeyColorSpace :> OName(cs))
    IN [ops |-> <<Operation(OpQ, <<>>), Operation(KwBI, <<OStream(d, Data(Patterns[pat], len))>>), Operation(OpBigQ, <<>>)>>,
        idws |-> ws, free |-> free, ord |-> 0]

\* Optional entries of Table 93 spelled out with their default or neutral values: they must not change
\* the data length.  opt: 1 ImageMask false, 2 Interpolate false, 3 Interpolate true, 4 Decode (two numbers
\* per component), 5 Decode inverted, 6 all three.  oabbr: the optional keys abbreviated (IM, I, D) or in full.
\* ord: the entries in the order of SetToSeq (0), reversed (1), rotated by two (2).
DecodeArr(n, inv) == OArr([i \in 1..(2 * n) |-> I(IF inv THEN i % 2 ELSE (i + 1) % 2)])
OptEntries(opt, oabbr, n) ==
    LET kIM == IF oabbr THEN InKeyIM ELSE InKeyImageMask
        kI  == IF oabbr THEN InKeyI ELSE InKeyInterpolate
        kD  == IF oabbr THEN InKeyD ELSE InKeyDecode
    IN IF opt = 1 THEN kIM :> OBool(FALSE)
       ELSE IF opt = 2 THEN kI :> OBool(FALSE)
       ELSE IF opt = 3 THEN kI :> OBool(TRUE)
       ELSE IF opt = 4 THEN kD :> DecodeArr(n, FALSE)
       ELSE IF opt = 5 THEN kD :> DecodeArr(n, TRUE)
       ELSE IF opt = 6 THEN (kIM :> OBool(FALSE)) @@ (kI :> OBool(TRUE)) @@ (kD :> DecodeArr(n, FALSE))
       ELSE EmptyMap
InlineOpt(cs, bpc, w, h, pat, abbr, ws, free, opt, oabbr, ord) ==
    LET c == InlineCase(cs, bpc, w, h, pat, abbr, ws, free)
        img == c.ops[2].args[1]
    IN [c EXCEPT !.ops[2].args[1] = OStream(img.v @@ OptEntries(opt, oabbr, NComp(cs)), img.w), !.ord = ord]

\* Stencil masks (8.9.6.2): ImageMask true, one bit per sample, no colour space; BitsPerComponent 1 or absent.
\* mv: 1 bare, 2 with BPC 1, 3 with Decode [1 0], 4 with BPC 1, Interpolate true and Decode [0 1]
MaskCase(w, h, pat, abbr, ws, free, mv, ord) ==
    LET len == h * ((w + 7) \div 8)
        kb == IF abbr THEN InKeyBPC ELSE InKeyBits   kD == IF abbr THEN InKeyD ELSE InKeyDecode
        kI == IF abbr THEN InKeyI ELSE InKeyInterpolate
        d0 == IF abbr THEN (InKeyW :> I(w)) @@ (InKeyH :> I(h)) @@ (InKeyIM :> OBool(TRUE))
              ELSE (InKeyWidth :> I(w)) @@ (InKeyHeight :> I(h)) @@ (InKeyImageMask :> OBool(TRUE))
        d == IF mv = 2 THEN d0 @@ (kb :> I(1))
             ELSE IF mv = 3 THEN d0 @@ (kD :> DecodeArr(1, TRUE))
             ELSE IF mv = 4 THEN d0 @@ (kb :> I(1)) @@ (kI :> OBool(TRUE)) @@ (kD :> DecodeArr(1, FALSE))
             ELSE d0
    IN [ops |-> <<Operation(OpQ, <<>>), Operation(KwBI, <<OStream(d, Data(Patterns[pat], len))>>), Operation(OpBigQ, <<>>)>>,
        idws |-> ws, free |-> free, ord |-> ord]

InlOQ == {InlineOpt(CsAll[c], 8, 3, 2, 1, c % 2 = 1, 32, FALSE, opt, oabbr, opt % 3) : c \in {1, 4}, opt \in 1..6, oabbr \in BOOLEAN}
         \cup {MaskCase(9, 2, 2, mv % 2 = 1, 32, FALSE, mv, mv % 3) : mv \in 1..4}
InlOT == {InlineOpt(CsAll[c], 8, 3, 2, 1, abbr, 10, FALSE, opt, oabbr, ord) :
             c \in 1..6, abbr \in BOOLEAN, opt \in 1..6, oabbr \in BOOLEAN, ord \in 0..2}
         \cup {InlineOpt(CsAll[c], bpc, 2, 3, 3, c % 2 = 0, 32, FALSE, 6, c % 2 = 1, 2) : c \in 1..6, bpc \in {1, 2, 4}}
         \cup {MaskCase(wh[1], wh[2], 2, abbr, 32, FALSE, mv, ord) :
                  wh \in {<<1, 1>>, <<9, 2>>, <<16, 3>>}, abbr \in BOOLEAN, mv \in 1..4, ord \in 0..2}
\* Entries outside Table 93 are ignored by a reader but are part of the image's dictionary: keys (and name values) from
\* the hostile name vocabulary -- empty name, white-space, every delimiter, '#', a '#' followed by two hex digits, bytes
\* >= 128 -- must be spelled with #xx escapes and survive decode -> encode -> decode.
HostileNames == { <<>>, <<65, 32, 66>>, <<9>>, <<13>>, <<10>>, <<0>>, <<40>>, <<41>>, <<60>>, <<62>>, <<91>>, <<93>>, <<123>>, <<125>>,
                  <<47>>, <<37>>, <<35>>, <<82, 101, 118, 35, 65, 49>>, <<128, 255>>, <<84, 97, 103, 40, 49, 41>> }
InlineKey(cs, bpc, w, h, abbr, ws, free, key, nameval, ord) ==
    LET c == InlineCase(cs, bpc, w, h, 1, abbr, ws, free)
        img == c.ops[2].args[1]
    IN [c EXCEPT !.ops[2].args[1] = OStream(img.v @@ (key :> (IF nameval THEN OName(key) ELSE I(3))), img.w), !.ord = ord]
InlK == {InlineKey(CsG, 8, 1, 1, TRUE, 32, FALSE, key, FALSE, 0) : key \in HostileNames}
        \cup {InlineKey(CsG, 8, 1, 1, TRUE, 32, FALSE, key, TRUE, 0) : key \in {<<>>, <<65, 32, 66>>, <<35>>, <<82, 101, 118, 35, 65, 49>>, <<40>>, <<128, 255>>}}
InlFreeK == {InlineKey(CsAll[c], 8, 2, 1, abbr, ws, TRUE, key, nameval, ord) :
               c \in {1, 4, 5}, abbr \in BOOLEAN, ws \in {32, 10}, key \in HostileNames, nameval \in BOOLEAN, ord \in 0..2}
InlFreeO == {InlineOpt(CsAll[c], bpc, 3, 2, pat, abbr, ws, TRUE, opt, oabbr, ord) :
               c \in 1..6, bpc \in {1, 8}, pat \in {1, 2}, abbr \in BOOLEAN, ws \in {32, 10}, opt \in 1..6, oabbr \in BOOLEAN, ord \in 0..2}
            \cup {MaskCase(wh[1], wh[2], pat, abbr, ws, TRUE, mv, ord) :
                  wh \in {<<1, 1>>, <<9, 2>>}, pat \in 1..3, abbr \in BOOLEAN, ws \in {32, 10}, mv \in 1..4, ord \in 0..2}

InlQ == {InlineCase(CsAll[c], bpc, 3, 2, pat, c % 2 = 1, ws, FALSE) : c \in 1..6, bpc \in {1, 2, 4, 8}, pat \in {1, 2}, ws \in {32, 10}}
InlT == {InlineCase(CsAll[c], bpc, wh[1], wh[2], pat, abbr, ws, FALSE) :
            c \in 1..6, bpc \in {1, 2, 4, 8}, wh \in {<<1, 1>>, <<3, 2>>, <<2, 3>>}, pat \in 1..3, abbr \in BOOLEAN, ws \in {32, 10, 13, 9, 0, 12}}
\* for simulation: entries spelled with every freedom of names and numbers
InlFree == {InlineCase(CsAll[c], bpc, wh[1], wh[2], pat, abbr, ws, TRUE) :
            c \in 1..6, bpc \in {1, 2, 4, 8}, wh \in {<<1, 1>>, <<3, 2>>, <<2, 3>>, <<3, 3>>}, pat \in 1..3, abbr \in BOOLEAN, ws \in {32, 10, 13, 9}}

Cases == IF Universe = "adj" THEN Adj
         ELSE IF Universe = "adjc" THEN AdjC
         ELSE IF Universe = "adj2" THEN Adj2
         ELSE IF Universe = "seq2s" THEN Seq2S
         ELSE IF Universe = "strs" THEN Strs
         ELSE IF Universe = "seq2" THEN Seq2
         ELSE IF Universe = "seq3" THEN Seq3
         ELSE IF Universe = "inlq" THEN InlQ
         ELSE IF Universe = "inlt" THEN InlT
         ELSE IF Universe = "inlfree" THEN InlFree
         ELSE IF Universe = "inloq" THEN InlOQ
         ELSE IF Universe = "inlot" THEN InlOT
         ELSE IF Universe = "inlk" THEN InlK
         ELSE IF Universe = "mixops" THEN Adj \cup AdjC \cup Adj2 \cup Seq2 \cup Seq3
         ELSE IF Universe = "mixinl" THEN InlFree \cup InlFreeO \cup InlFreeK
         ELSE IF Universe = "cov" THEN Adj \cup AdjC \cup InlQ          \* small and balanced: every Producer action is likely in a few traces
         ELSE IF Universe = "inlfreek" THEN InlFreeK
         ELSE IF Universe = "mix" THEN Adj \cup AdjC \cup Adj2 \cup Seq2 \cup Seq3 \cup InlFree \cup InlFreeO \cup InlFreeK
         ELSE {}

-----------------------------------------------------------------------------
(* the work stack of a case *)
IsInline(o) == o.op = KwBI /\ Len(o.args) = 1 /\ o.args[1].k = "stream"

Permute(keys, ord) ==
    IF ord = 1 THEN Reverse(keys)
    ELSE IF ord = 2 /\ Len(keys) > 2 THEN SubSeq(keys, 3, Len(keys)) \o SubSeq(keys, 1, 2)
    ELSE keys

BoolBytes(b) == IF b THEN KwTrue ELSE KwFalse
IsIntArr(v) == v.k = "arr" /\ \A i \in 1..Len(v.v) : v.v[i].k = "int" /\ ~v.v[i].neg

InlineItems(o, ws, free, ord) ==
    LET d == o.args[1].v
        keys == Permute(SetToSeq(DOMAIN d), ord)
        \* not free: key and value pre-spelled in one token (numbers, booleans, arrays of numbers), so that the
        \* exhaustive universes stay small; free: every spelling freedom of names, numbers and arrays
        plain(key) == \A i \in 1..Len(key) : IsRegular(key[i]) /\ key[i] # 35
        entry(key) == IF free \/ ~plain(key) THEN <<Val(OName(key)), Val(d[key])>>       \* names that need #xx are spelled by XName
                      ELSE IF d[key].k = "int" THEN <<Tok(<<47>> \o key \o <<32>> \o DigitBytes(d[key].v))>>
                      ELSE IF d[key].k = "bool" THEN <<Tok(<<47>> \o key \o <<32>> \o BoolBytes(d[key].v))>>
                      ELSE IF IsIntArr(d[key]) THEN
                           <<Tok(<<47>> \o key \o <<91>> \o Concat([i \in 1..Len(d[key].v) |-> DigitBytes(d[key].v[i].v) \o <<32>>]) \o <<93>>)>>
                      ELSE <<Tok(<<47>> \o key), Val(d[key])>>
    IN <<Tok(KwBI)>> \o Concat([i \in 1..Len(keys) |-> entry(keys[i])]) \o <<Tok(KwID), Raw(<<ws>> \o o.args[1].w), Tok(KwEI)>>

OpItems(o, ws, free, ord) ==
    IF IsInline(o) THEN InlineItems(o, ws, free, ord)
    ELSE [n \in 1..Len(o.args) |-> Val(o.args[n])] \o <<Tok(o.op)>>

TodoOf(c) == Concat([i \in 1..Len(c.ops) |-> OpItems(c.ops[i], c.idws, c.free, c.ord)])

InitWith(cases) ==
    /\ src \in cases
    /\ out = <<>> /\ todo = TodoOf(src) /\ offs = EmptyMap /\ outer = <<>> /\ moffs = <<>>
    /\ plan = [doc |-> [revs |-> <<>>], k |-> [junk |-> 0], xrefoff |-> 0]
    /\ fin = FALSE

Init == InitWith(Cases)

A_EmitTok == EmitTok /\ UNCHANGED <<src, fin>>
A_EmitRaw == EmitRaw /\ UNCHANGED <<src, fin>>
A_XNull == XNull /\ UNCHANGED <<src, fin>>
A_XBool == XBool /\ UNCHANGED <<src, fin>>
A_XInt == XInt /\ UNCHANGED <<src, fin>>
A_XReal == XReal /\ UNCHANGED <<src, fin>>
A_XName == XName /\ UNCHANGED <<src, fin>>
A_XLit == XLit /\ UNCHANGED <<src, fin>>
A_XHex == XHex /\ UNCHANGED <<src, fin>>
A_XArr == XArr /\ UNCHANGED <<src, fin>>
A_XDict == XDict /\ UNCHANGED <<src, fin>>
Finish == todo = <<>> /\ ~fin /\ fin' = TRUE /\ UNCHANGED <<pvars, src>>

Next == A_EmitTok \/ A_EmitRaw \/ A_XNull \/ A_XBool \/ A_XInt \/ A_XReal \/ A_XName \/ A_XLit \/ A_XHex \/ A_XArr \/ A_XDict \/ Finish

Spec == Init /\ [][Next]_vars

-----------------------------------------------------------------------------
\* whatever the Producer spells, the StrictReader reads back as the operations it started from
RoundTrip ==
    fin => LET r == ReadOps(out) IN r.ok /\ r.ops = src.ops

HasInline(c) == \E i \in 1..Len(c.ops) : IsInline(c.ops[i])

EmitInv ==
    (Emit /\ fin) => PrintT(<<"REPLAY", ToJson([bytes |-> out, u |-> Universe, nops |-> Len(src.ops),
                                                 opnames |-> [i \in 1..Len(src.ops) |-> src.ops[i].op],
                                                 nargs |-> [i \in 1..Len(src.ops) |-> Len(src.ops[i].args)],
                                                 inline |-> HasInline(src), idws |-> src.idws, sep |-> SepMode])>>)
\* (whether an inline image has keys that need escaping is computed by the check from the strict reading)
=============================================================================
