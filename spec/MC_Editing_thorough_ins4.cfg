SPECIFICATION Spec
CONSTANTS
  Devs <- DevAll
  Ops <- OpsIns
  ByteStrings <- BytesQuick
  NumSeqs <- NumsQuick
  NewObjs <- MCNewObjs
  MaxDepth = 4
  Starts <- StartsIns
  Allowed = {"content.sharedStream", "resources.nameCollision"}
  Emit = TRUE
  EmitMod = 3000
  EmitModV = 400
VIEW View
INVARIANTS Refines StartOk EmitViolations
CHECK_DEADLOCK FALSE
