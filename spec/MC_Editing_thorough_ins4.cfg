SPECIFICATION Spec
CONSTANTS
  Devs <- DevBoth
  Ops <- OpsIns
  ByteStrings <- BytesQuick
  NumSeqs <- NumsQuick
  NewObjs <- MCNewObjs
  MaxDepth = 4
  Starts <- StartsIns
  Allowed = {}
  Emit = TRUE
  EmitMod = 3000
  EmitModV = 400
VIEW View
INVARIANTS Refines StartOk EmitViolations
CHECK_DEADLOCK FALSE
