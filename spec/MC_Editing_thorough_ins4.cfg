SPECIFICATION Spec
CONSTANTS
  Devs <- DevBoth
  Ops <- OpsIns
  ByteStrings <- BytesQuick
  NumSeqs <- NumsQuick
  NewObjs <- MCNewObjs
  InheritBound <- MCInheritBound
  MaxDepth = 4
  Starts <- StartsIns
  Allowed = {"resources.shadow.incremental"}
  Emit = TRUE
  EmitMod = 3000
  EmitModV = 400
VIEW View
INVARIANTS Refines StartOk EmitViolations
CHECK_DEADLOCK FALSE
