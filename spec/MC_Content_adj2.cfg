SPECIFICATION Spec
CONSTANTS
  Universe = "adj2"
  Emit = FALSE
  SepMode = "contentfew"
INVARIANTS RoundTrip EmitInv
CHECK_DEADLOCK FALSE
