----------------------------- MODULE TextString -----------------------------
(***************************************************************************)
(* PDF text strings and the predefined one-byte encodings (property C16).   *)
(*                                                                          *)
(* A string is a sequence of Unicode scalar values (Nat), bytes are         *)
(* sequences over 0..255.  Two layers (DESIGN 2.9):                         *)
(*                                                                          *)
(*  - declarative (only this layer decides): EncOk (what the statement says *)
(*    about the bytes of an encoded text string), Dec (the byte-order-mark  *)
(*    dispatch automaton: FE FF -> UTF-16BE, EF BB BF -> UTF-8 without the  *)
(*    mark, otherwise the one-byte table; *undefined* on malformed input   *)
(*    and on bytes whose PDFDocEncoding cell this module does not carry),   *)
(*    UTF-16BE / UTF-8 of scalar values by integer arithmetic, the published*)
(*    rows of WinAnsi, MacRoman and PDFDocEncoding (ISO 32000-1 Annex D),   *)
(*    the cell predicates TableOk / ReEnc / Published, and Match (what      *)
(*    "returned unchanged by text extraction" means).                       *)
(*  - impl-shaped (explains, never decides): ImplEnc / ImplDec transcribe   *)
(*    text_string / decode_text_string of src/common_data_structures/mod.rs *)
(*    with the confirmed deviations as switches (dev \subseteq AllDevs), and *)
(*    the classifier SigsRT / SigsDec / Explained that names the deviation  *)
(*    classes a failing case falls into.                                    *)
(***************************************************************************)
EXTENDS Naturals, Sequences, FiniteSets, SequencesExt, TLC

-----------------------------------------------------------------------------
(* Scalar values and their classes *)

IsSurrogate(u) == u \in \hD800..\hDFFF
IsScalar(c) == c \in 0..\h10FFFF /\ ~IsSurrogate(c)
IsString(s) == \A i \in 1..Len(s) : IsScalar(s[i])
AllAscii(s) == \A i \in 1..Len(s) : s[i] < 128
IsBytes(b) == \A i \in 1..Len(b) : b[i] \in 0..255

Classes == {"c0ws", "c0other", "c18", "print", "del", "latin1", "bmp", "bomchar", "nonchar", "astral"}

ClassOf(c) ==
    IF c \in {9, 10, 13} THEN "c0ws"               \* TAB LF CR: the controls PDFDocEncoding has
    ELSE IF c < \h18 THEN "c0other"
    ELSE IF c < \h20 THEN "c18"                    \* PDFDoc 0x18-0x1F are the spacing accents
    ELSE IF c < \h7F THEN "print"
    ELSE IF c = \h7F THEN "del"
    ELSE IF c < \h100 THEN "latin1"
    ELSE IF c = \hFEFF THEN "bomchar"
    ELSE IF c \in {\hFFFE, \hFFFF} \/ c \in \hFDD0..\hFDEF THEN "nonchar"
    ELSE IF c < \h10000 THEN "bmp"
    ELSE "astral"

-----------------------------------------------------------------------------
(* UTF-16BE and UTF-8 of scalar values (integer arithmetic only) *)

Utf16Units(c) == IF c < \h10000 THEN <<c>>
                 ELSE LET v == c - \h10000 IN <<\hD800 + (v \div 1024), \hDC00 + (v % 1024)>>

UnitBE(u) == <<u \div 256, u % 256>>

Utf16BE(s) == FoldLeft(LAMBDA acc, c : LET us == Utf16Units(c) IN
                          IF Len(us) = 1 THEN acc \o UnitBE(us[1]) ELSE acc \o UnitBE(us[1]) \o UnitBE(us[2]),
                       <<>>, s)

Utf8(c) == IF c < \h80 THEN <<c>>
           ELSE IF c < \h800 THEN <<192 + (c \div 64), 128 + (c % 64)>>
           ELSE IF c < \h10000 THEN <<224 + (c \div 4096), 128 + ((c \div 64) % 64), 128 + (c % 64)>>
           ELSE <<240 + (c \div 262144), 128 + ((c \div 4096) % 64), 128 + ((c \div 64) % 64), 128 + (c % 64)>>

Utf8Str(s) == FoldLeft(LAMBDA acc, c : acc \o Utf8(c), <<>>, s)

Bom16 == <<\hFE, \hFF>>
Bom8  == <<\hEF, \hBB, \hBF>>

HasBom16(b) == Len(b) >= 2 /\ b[1] = \hFE /\ b[2] = \hFF
HasBom8(b)  == Len(b) >= 3 /\ b[1] = \hEF /\ b[2] = \hBB /\ b[3] = \hBF

\* A decoding result: def = FALSE means "malformed input / not constrained by the statement".
Undef == [def |-> FALSE, s |-> <<>>]
Def(s) == [def |-> TRUE, s |-> s]

\* strict UTF-16 (sequence of 16-bit units -> scalars); an unpaired surrogate is malformed
U16Init == [hi |-> 0, out |-> <<>>, ok |-> TRUE]
U16Step(st, u) ==
    IF ~st.ok THEN st
    ELSE IF st.hi # 0
         THEN IF u \in \hDC00..\hDFFF
              THEN [hi |-> 0, ok |-> TRUE, out |-> Append(st.out, \h10000 + (st.hi - \hD800) * 1024 + (u - \hDC00))]
              ELSE [st EXCEPT !.ok = FALSE]
    ELSE IF u \in \hD800..\hDBFF THEN [st EXCEPT !.hi = u]
    ELSE IF u \in \hDC00..\hDFFF THEN [st EXCEPT !.ok = FALSE]
    ELSE [st EXCEPT !.out = Append(@, u)]
FromUtf16(units) == LET f == FoldLeft(U16Step, U16Init, units) IN
                    IF f.ok /\ f.hi = 0 THEN Def(f.out) ELSE Undef

\* strict UTF-8 (Unicode Table 3-7: no overlong forms, no surrogates, nothing above U+10FFFF),
\* one byte at a time
U8Init == [need |-> 0, cp |-> 0, lo |-> 128, hi |-> 191, out |-> <<>>, ok |-> TRUE]
U8Lead(st, n, cp, lo, hi) == [st EXCEPT !.need = n, !.cp = cp, !.lo = lo, !.hi = hi]
U8Step(st, b) ==
    IF ~st.ok THEN st
    ELSE IF st.need = 0
         THEN IF b < \h80 THEN [st EXCEPT !.out = Append(@, b)]
              ELSE IF b \in \hC2..\hDF THEN U8Lead(st, 1, b - \hC0, \h80, \hBF)
              ELSE IF b = \hE0 THEN U8Lead(st, 2, 0, \hA0, \hBF)
              ELSE IF b \in \hE1..\hEC \/ b \in \hEE..\hEF THEN U8Lead(st, 2, b - \hE0, \h80, \hBF)
              ELSE IF b = \hED THEN U8Lead(st, 2, 13, \h80, \h9F)
              ELSE IF b = \hF0 THEN U8Lead(st, 3, 0, \h90, \hBF)
              ELSE IF b \in \hF1..\hF3 THEN U8Lead(st, 3, b - \hF0, \h80, \hBF)
              ELSE IF b = \hF4 THEN U8Lead(st, 3, 4, \h80, \h8F)
              ELSE [st EXCEPT !.ok = FALSE]
    ELSE IF b \in st.lo..st.hi
         THEN LET cp == st.cp * 64 + (b - 128) IN
              IF st.need = 1
              THEN [st EXCEPT !.need = 0, !.cp = 0, !.lo = 128, !.hi = 191, !.out = Append(@, cp)]
              ELSE [st EXCEPT !.need = @ - 1, !.cp = cp, !.lo = 128, !.hi = 191]
    ELSE [st EXCEPT !.ok = FALSE]
FromUtf8(b) == LET f == FoldLeft(U8Step, U8Init, b) IN
               IF f.ok /\ f.need = 0 THEN Def(f.out) ELSE Undef

-----------------------------------------------------------------------------
(* Published rows, ISO 32000-1 Annex D (D.2 Latin character set and encodings, D.3             *)
(* PDFDocEncoding character set): code -> Unicode value of the glyph.  Only the printable-ASCII  *)
(* part 0x20-0x7E and the Latin-1 part 0xA0-0xFF are carried, as the statement says.  A 0 entry  *)
(* means "not carried" (cell undefined in the published table, or the Unicode value of the named *)
(* glyph is ambiguous: `space' at WinAnsi 0xA0 / MacRoman 0xCA, `hyphen' at WinAnsi 0xAD) --     *)
(* such cells are only checked for self-consistency.                                             *)

Identity(S) == [b \in S |-> b]
Printable == \h20..\h7E
Latin1Part == \hA0..\hFF

\* rows 0xA0 .. 0xFF, sixteen per line
WinAnsiHigh == <<
 0,     \hA1,  \hA2,  \hA3,  \hA4,  \hA5,  \hA6,  \hA7,  \hA8,  \hA9,  \hAA,  \hAB,  \hAC,  0,     \hAE,  \hAF,
 \hB0,  \hB1,  \hB2,  \hB3,  \hB4,  \hB5,  \hB6,  \hB7,  \hB8,  \hB9,  \hBA,  \hBB,  \hBC,  \hBD,  \hBE,  \hBF,
 \hC0,  \hC1,  \hC2,  \hC3,  \hC4,  \hC5,  \hC6,  \hC7,  \hC8,  \hC9,  \hCA,  \hCB,  \hCC,  \hCD,  \hCE,  \hCF,
 \hD0,  \hD1,  \hD2,  \hD3,  \hD4,  \hD5,  \hD6,  \hD7,  \hD8,  \hD9,  \hDA,  \hDB,  \hDC,  \hDD,  \hDE,  \hDF,
 \hE0,  \hE1,  \hE2,  \hE3,  \hE4,  \hE5,  \hE6,  \hE7,  \hE8,  \hE9,  \hEA,  \hEB,  \hEC,  \hED,  \hEE,  \hEF,
 \hF0,  \hF1,  \hF2,  \hF3,  \hF4,  \hF5,  \hF6,  \hF7,  \hF8,  \hF9,  \hFA,  \hFB,  \hFC,  \hFD,  \hFE,  \hFF >>

\* PDFDocEncoding: 0xA0 Euro, 0xAD undefined, the rest is ISO 8859-1
PdfDocHigh == <<
 \h20AC,\hA1,  \hA2,  \hA3,  \hA4,  \hA5,  \hA6,  \hA7,  \hA8,  \hA9,  \hAA,  \hAB,  \hAC,  0,     \hAE,  \hAF,
 \hB0,  \hB1,  \hB2,  \hB3,  \hB4,  \hB5,  \hB6,  \hB7,  \hB8,  \hB9,  \hBA,  \hBB,  \hBC,  \hBD,  \hBE,  \hBF,
 \hC0,  \hC1,  \hC2,  \hC3,  \hC4,  \hC5,  \hC6,  \hC7,  \hC8,  \hC9,  \hCA,  \hCB,  \hCC,  \hCD,  \hCE,  \hCF,
 \hD0,  \hD1,  \hD2,  \hD3,  \hD4,  \hD5,  \hD6,  \hD7,  \hD8,  \hD9,  \hDA,  \hDB,  \hDC,  \hDD,  \hDE,  \hDF,
 \hE0,  \hE1,  \hE2,  \hE3,  \hE4,  \hE5,  \hE6,  \hE7,  \hE8,  \hE9,  \hEA,  \hEB,  \hEC,  \hED,  \hEE,  \hEF,
 \hF0,  \hF1,  \hF2,  \hF3,  \hF4,  \hF5,  \hF6,  \hF7,  \hF8,  \hF9,  \hFA,  \hFB,  \hFC,  \hFD,  \hFE,  \hFF >>

\* MacRomanEncoding (PDF's: Mac OS Roman without the mathematical symbols and the apple; 0xDB is
\* still `currency').
\*        x0      x1      x2      x3      x4      x5      x6      x7      x8      x9      xA      xB      xC      xD      xE      xF
MacRomanHigh == <<
 \h2020, \hB0,   \hA2,   \hA3,   \hA7,   \h2022, \hB6,   \hDF,   \hAE,   \hA9,   \h2122, \hB4,   \hA8,   0,      \hC6,   \hD8,
 0,      \hB1,   0,      0,      \hA5,   \hB5,   0,      0,      0,      0,      0,      \hAA,   \hBA,   0,      \hE6,   \hF8,
 \hBF,   \hA1,   \hAC,   0,      \h192,  0,      0,      \hAB,   \hBB,   \h2026, 0,      \hC0,   \hC3,   \hD5,   \h152,  \h153,
 \h2013, \h2014, \h201C, \h201D, \h2018, \h2019, \hF7,   0,      \hFF,   \h178,  \h2044, \hA4,   \h2039, \h203A, \hFB01, \hFB02,
 \h2021, \hB7,   \h201A, \h201E, \h2030, \hC2,   \hCA,   \hC1,   \hCB,   \hC8,   \hCD,   \hCE,   \hCF,   \hCC,   \hD3,   \hD4,
 0,      \hD2,   \hDA,   \hDB,   \hD9,   \h131,  \h2C6,  \h2DC,  \hAF,   \h2D8,  \h2D9,  \h2DA,  \hB8,   \h2DD,  \h2DB,  \h2C7 >>

HighRow(row) == [b \in {x \in Latin1Part : row[x - \h9F] # 0} |-> row[b - \h9F]]

\* In all three encodings every code 0x20-0x7E is the ASCII character of the same value
\* (0x27 quotesingle, 0x60 grave -- unlike StandardEncoding).
Published ==
    [e \in {"WinAnsiEncoding", "MacRomanEncoding", "PDFDocEncoding"} |->
        Identity(Printable) @@ HighRow(CASE e = "WinAnsiEncoding" -> WinAnsiHigh
                                         [] e = "MacRomanEncoding" -> MacRomanHigh
                                         [] e = "PDFDocEncoding" -> PdfDocHigh)]

PubPdfDoc == Published["PDFDocEncoding"]

EncNames == {"StandardEncoding", "MacRomanEncoding", "MacExpertEncoding", "WinAnsiEncoding", "PDFDocEncoding"}

-----------------------------------------------------------------------------
(* Declarative layer: text strings *)

\* What the statement fixes about text_string(s).  "ASCII stays PDFDocEncoding": a string made of the ASCII
\* characters PDFDocEncoding has at their own code (TAB, LF, CR, 0x20-0x7E) is stored without a mark, one byte per
\* character; "everything else becomes UTF-16BE with a byte-order mark": a string with a non-ASCII character is
\* FE FF + UTF-16BE.  An ASCII string with another control character (U+0000-08, 0B, 0C, 0E-1F, 7F) cannot "stay"
\* in an encoding that does not have the character: the statement's first sentence (the round trip of ANY string)
\* decides there, and either form is admissible -- the byte form if the decoder reads it back, else UTF-16BE.
PdfDocAscii(c) == c \in {9, 10, 13} \/ c \in 32..126
StaysPdfDoc(s) == \A i \in 1..Len(s) : PdfDocAscii(s[i])
ByteForm(s, b) == ~HasBom16(b) /\ ~HasBom8(b) /\ Len(b) = Len(s)

EncOk(s, b) == IF StaysPdfDoc(s) THEN ByteForm(s, b)
               ELSE IF AllAscii(s) THEN ByteForm(s, b) \/ b = Bom16 \o Utf16BE(s)
               ELSE b = Bom16 \o Utf16BE(s)

EncReq(s) == IF StaysPdfDoc(s) THEN [kind |-> "onebyte", len |-> Len(s), bytes |-> <<>>]
             ELSE IF AllAscii(s) THEN [kind |-> "either", len |-> Len(s), bytes |-> Bom16 \o Utf16BE(s)]
             ELSE [kind |-> "utf16", len |-> 2 + Len(Utf16BE(s)), bytes |-> Bom16 \o Utf16BE(s)]

\* UTF-16BE body: pairs of bytes; an odd length is malformed
Units(body) == [i \in 1..(Len(body) \div 2) |-> body[2 * i - 1] * 256 + body[2 * i]]
U16Dec(body) == IF Len(body) % 2 = 1 THEN Undef ELSE FromUtf16(Units(body))

\* one-byte branch: defined exactly on the bytes whose PDFDocEncoding cell is carried above
OneByteDec(b) == IF \A i \in 1..Len(b) : b[i] \in DOMAIN PubPdfDoc
                 THEN Def([i \in 1..Len(b) |-> PubPdfDoc[b[i]]]) ELSE Undef

Branch(b) == IF HasBom16(b) THEN "u16" ELSE IF HasBom8(b) THEN "u8" ELSE "tab"

\* The dispatch automaton as a function of the whole byte string.
Dec(b) == CASE Branch(b) = "u16" -> U16Dec(SubSeq(b, 3, Len(b)))
            [] Branch(b) = "u8"  -> FromUtf8(SubSeq(b, 4, Len(b)))      \* the mark is not text
            [] OTHER             -> OneByteDec(b)

\* canonical encoding used by the design-level round trip (ASCII bytes are the scalar values)
EncCanon(s) == IF AllAscii(s) THEN s ELSE Bom16 \o Utf16BE(s)

-----------------------------------------------------------------------------
(* Declarative layer: one-byte tables.  A logged cell is the text (sequence of scalars) that      *)
(* decode_text returns for the single byte: <<>> (absent) or one unit.                            *)

CellOk(d) == Len(d) = 0 \/ (Len(d) = 1 /\ d[1] < \h10000 /\ ~IsSurrogate(d[1]))

InPublished(e, b) == e \in DOMAIN Published /\ b \in DOMAIN Published[e]
PublishedOk(e, b, d) == InPublished(e, b) => d = <<Published[e][b]>>

\* text of a byte string under a logged table t : 0..255 -> cell
DecodeT(t, bs) == FoldLeft(LAMBDA acc, x : acc \o t[x], <<>>, bs)

-----------------------------------------------------------------------------
(* Declarative layer: extraction.  The texts shown, in order, come back; an extractor may put     *)
(* layout white space (space, TAB, LF, CR) before, between and after them, nothing else.          *)

IsWs(c) == c \in {32, 9, 10, 13}
WsClosure(r, S) == {q \in 0..Len(r) : \E p \in S : p <= q /\ \A i \in (p + 1)..q : IsWs(r[i])}
MatchStep(r, S, t) == {q + Len(t) : q \in {p \in WsClosure(r, S) :
                                              p + Len(t) <= Len(r) /\ SubSeq(r, p + 1, p + Len(t)) = t}}
Match(ts, r) == Len(r) \in WsClosure(r, FoldLeft(LAMBDA S, t : MatchStep(r, S, t), {0}, ts))

-----------------------------------------------------------------------------
(* Impl-shaped layer: text_string / decode_text_string as written, the confirmed deviations as    *)
(* switches named by their finding signature (dev \subseteq AllDevs; {} = "as repaired"):           *)
(*   pdfdoc.c0        PDF_DOC_ENCODING cells 0x09, 0x0A, 0x0D are None         \                   *)
(*   pdfdoc.c0.undef  ... so are the other cells below 0x18                     | while text_string *)
(*   pdfdoc.c18       cells 0x18-0x1F are the spacing accents                   | stores every ASCII *)
(*   pdfdoc.del       cell 0x7F is None                                        /  character as itself*)
(*   utf8.bom.kept    the UTF-8 branch hands the whole slice (mark included) to String::from_utf8   *)
(* A switch that is off stands for "repaired so that the character survives the round trip" (for    *)
(* pdfdoc.c0 the table cells were added; for the other three the repair is in text_string, which     *)
(* leaves PDFDocEncoding for such a string -- EncOk admits both forms there).                       *)
(* pdfdoc.c0 (fix: b873012) and utf8.bom.kept (fix: fef01d1) are repaired in lopdf: the code as it   *)
(* is is the layer with dev = AsIsDevs; the two repaired switches remain so that a regression is     *)
(* named by its class (the classifier and Trace_TextString always offer all of AllDevs).             *)

AllDevs == {"pdfdoc.c0", "pdfdoc.c0.undef", "pdfdoc.c18", "pdfdoc.del", "utf8.bom.kept"}
AsIsDevs == {"pdfdoc.c0.undef", "pdfdoc.c18", "pdfdoc.del"}       \* the deviations still in the code (known findings)

Accents == <<\h2D8, \h2C7, \h2C6, \h2D9, \h2DD, \h2DB, \h2DA, \h2DC>>      \* PDFDoc 0x18-0x1F
PdfDocMid == <<\h2022, \h2020, \h2021, \h2026, \h2014, \h2013, \h192, \h2044, \h2039, \h203A, \h2212,
               \h2030, \h201E, \h201C, \h201D, \h2018, \h2019, \h201A, \h2122, \hFB01, \hFB02, \h141,
               \h152, \h160, \h178, \h17D, \h131, \h142, \h153, \h161, \h17E>>   \* PDFDoc 0x80-0x9E

\* the deviation an ASCII character of class cl runs into ("none": it survives)
DevOfClass(cl) == CASE cl = "c0ws"    -> "pdfdoc.c0"
                    [] cl = "c0other" -> "pdfdoc.c0.undef"
                    [] cl = "c18"     -> "pdfdoc.c18"
                    [] cl = "del"     -> "pdfdoc.del"
                    [] OTHER          -> "none"

ImplPdfDocCell(b, dev) ==
    IF b < \h80
    THEN IF DevOfClass(ClassOf(b)) \in dev
         THEN (IF b \in \h18..\h1F THEN <<Accents[b - \h17]>> ELSE <<>>)
         ELSE <<b>>
    ELSE IF b < \h9F THEN <<PdfDocMid[b - \h7F]>>
    ELSE IF b \in DOMAIN PubPdfDoc THEN <<PubPdfDoc[b]>>
    ELSE <<>>                                                    \* 0x9F, 0xAD

ImplEnc(s) == IF AllAscii(s) THEN s ELSE Bom16 \o Utf16BE(s)

\* chunks(2) with the odd trailing byte c read as the unit c*256
ImplUnits(body) == [i \in 1..((Len(body) + 1) \div 2) |->
                       IF 2 * i <= Len(body) THEN body[2 * i - 1] * 256 + body[2 * i] ELSE body[2 * i - 1] * 256]

ImplDec(b, dev) ==
    CASE Branch(b) = "u16" -> FromUtf16(ImplUnits(SubSeq(b, 3, Len(b))))
      [] Branch(b) = "u8"  -> FromUtf8(IF "utf8.bom.kept" \in dev THEN b ELSE SubSeq(b, 4, Len(b)))
      [] OTHER             -> Def(FoldLeft(LAMBDA acc, x : acc \o ImplPdfDocCell(x, dev), <<>>, b))

-----------------------------------------------------------------------------
(* Classifier (DESIGN 2.9): the deviations of dev that a case runs into, computed from the input.  *)
(* A failing case is *explained* when lopdf returned exactly what the impl-shaped layer predicts    *)
(* for some non-empty set D of these; its signatures are then the members of D.                     *)

\* round trip of s through text_string
SigsRT(s, dev) == IF AllAscii(s) THEN {DevOfClass(ClassOf(s[i])) : i \in 1..Len(s)} \cap dev ELSE {}

\* decoding raw bytes b
SigsDec(b, dev) == IF Branch(b) = "u8" /\ Dec(b).def THEN {"utf8.bom.kept"} \cap dev ELSE {}

\* the explanations on offer for a case whose deviations are R: every non-empty subset with its prediction
Alternatives(b, R) == {[sigs |-> D, impl |-> ImplDec(b, D)] : D \in (SUBSET R) \ {{}}}

\* the set of signatures explaining result d for input bytes b ({} = not explained)
Explained(b, R, d) == LET hits == {a \in Alternatives(b, R) : a.impl = d} IN
                      IF hits = {} THEN {} ELSE (CHOOSE a \in hits : TRUE).sigs
=============================================================================
