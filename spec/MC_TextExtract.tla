--------------------------- MODULE MC_TextExtract ---------------------------
(* Exhaustive exploration of TextExtract: every sequence of at most N content operations over a    *)
(* small alphabet (every Tf shape, Tj / TJ with strings, nested arrays, integers around -100, other  *)
(* operand kinds, no operands; ET; other operators), for each font map in FmIds.  One action per     *)
(* content operation, split by what the extractor does with it; End flushes.  On every finished run  *)
(* the impl-shaped result must satisfy the declarative clauses (a)-(c), and inside C16's domain       *)
(* extract_text must return the shown text.  Clause (d) -- the result is a function of (fm, ops)      *)
(* alone -- is what makes the model an automaton over ops at all; it is checked against the           *)
(* implementation (split content streams, re-encoded content, save + reload) by Trace_TextExtract.   *)
(* Every finished run over a font map in EmitIds (realisable ones only) is printed for replay into lopdf. *)
EXTENDS TextExtract, Json

CONSTANTS N, NPre, FmIds, EmitIds, Rep

VARIABLES fmid, ops, st, pc, pre
vars == <<fmid, ops, st, pc, pre>>

-----------------------------------------------------------------------------
(* the abstract alphabet: codes 65 66 32 10 233 129; characters are the scalar values the concrete  *)
(* fonts of the harness give them (WinAnsi, PDFDoc, a ToUnicode CMap with one two-character target)  *)
Cells1 == (65 :> <<65>>) @@ (66 :> <<66>>) @@ (32 :> <<32>>) @@ (233 :> <<233>>) @@ (129 :> <<8226>>)   \* WinAnsi: 10 absent, unused codes are the bullet
Cells2 == (65 :> <<65>>) @@ (66 :> <<66>>) @@ (32 :> <<32>>) @@ (233 :> <<233>>) @@ (10 :> <<10>>) @@ (129 :> <<8224>>)  \* PDFDoc
CellsU == (65 :> <<102, 105>>) @@ (66 :> <<66>>) @@ (32 :> <<32>>) @@ (233 :> <<233>>) @@ (10 :> <<10>>) @@ (129 :> <<8226>>)

F1 == [kind |-> "table", pre |-> TRUE, cell |-> Cells1]
F2 == [kind |-> "table", pre |-> TRUE, cell |-> Cells2]
FU == [kind |-> "table", pre |-> FALSE, cell |-> CellsU]
FX == [kind |-> "failing"]
FB == [kind |-> "broken"]
FP == [kind |-> "partial", bad |-> 66, cell |-> Cells1]

Fm(id) == CASE id = "domain"  -> ("F1" :> F1) @@ ("F2" :> F2)
            [] id = "plain"   -> ("F1" :> F1) @@ ("F2" :> F2) @@ ("FU" :> FU) @@ ("FX" :> FX)
            [] id = "broken"  -> ("F1" :> F1) @@ ("FB" :> FB) @@ ("FX" :> FX)
            [] id = "partial" -> ("F1" :> F1) @@ ("FP" :> FP)          \* model only
Realisable(id) == id # "partial"

FontsJson == [id \in {"domain", "plain", "broken"} |->
                 [n \in DOMAIN Fm(id) |-> IF Fm(id)[n].kind = "table"
                                          THEN [kind |-> "table", cells |-> [c \in {65, 66, 32, 10, 233, 129} |-> CellOf(Fm(id)[n], c)]]
                                          ELSE [kind |-> Fm(id)[n].kind, cells |-> <<>>]]]
ASSUME PrintT(<<"FONTS", ToJson(FontsJson)>>)

AsCode == {}

Nm(n) == [k |-> "name", v |-> n]
S(cs) == [k |-> "str", v |-> cs]
Ar(os) == [k |-> "arr", v |-> os]
I(n) == [k |-> "int", v |-> n]
X(what) == [k |-> "other", v |-> what]
Op(o, as) == [op |-> o, args |-> as]

Alphabet == <<
    Op("Tf", <<Nm("F1"), I(12)>>), Op("Tf", <<Nm("F2"), I(12)>>), Op("Tf", <<Nm("FU"), I(12)>>), Op("Tf", <<Nm("FX"), I(12)>>),
    Op("Tf", <<Nm("FP"), I(12)>>), Op("Tf", <<Nm("FB"), I(12)>>), Op("Tf", <<Nm("F9"), I(12)>>),
    Op("Tf", <<I(12)>>),                                          \* operand not a name
    Op("Tf", <<>>),                                               \* no operand: the call fails
    Op("Tj", <<S(<<65>>)>>),
    Op("Tj", <<S(<<66, 10>>)>>),                                  \* ends with a newline where the font has the code
    Op("Tj", <<S(<<233, 32>>)>>),                                 \* ends with a space
    Op("TJ", <<Ar(<<S(<<65>>), I(-200), S(<<66>>)>>)>>),
    Op("TJ", <<Ar(<<S(<<233>>), I(-100), S(<<129>>), I(50)>>)>>),  \* -100 is not below -100
    Op("TJ", <<Ar(<<Ar(<<S(<<65>>)>>), S(<<66>>)>>)>>),             \* nested array
    Op("Tj", <<S(<<65>>), I(-101), X("real"), Nm("F1"), X("null")>>),
    Op("Tj", <<S(<<>>)>>),
    Op("TJ", <<>>),
    Op("ET", <<>>), Op("BT", <<>>),
    Op("'", <<S(<<65>>)>>),                                       \* move to the next line and show
    Op("\"", <<I(-200), I(0), S(<<233>>)>>),                      \* set the spacings (no TJ gap), next line, show
    Op("q", <<>>), Op("Q", <<>>) >>

Idx(kind) == {i \in 1..Len(Alphabet) : OpKind(Alphabet[i]) = kind}

\* Longer runs start from a prefix that a short run cannot reach: a font selected inside q ... (the runs go on
\* with NPre more operations: Q, text shown under the restored font, ...)
StartOps(id) == IF id \in {"domain", "plain"}
                THEN {<<>>, <<Op("Tf", <<Nm("F1"), I(12)>>), Op("q", <<>>), Op("Tf", <<Nm("F2"), I(12)>>)>>}
                ELSE {<<>>}

Init == /\ fmid \in FmIds
        /\ ops \in StartOps(fmid)
        /\ st = FoldLeft(LAMBDA s, o : StepR(Fm(fmid), s, o, Rep), Start(Fm(fmid)), ops)
        /\ pre = Len(ops)
        /\ pc = "run"

Do(i) == /\ ops' = Append(ops, Alphabet[i])
         /\ st' = StepR(Fm(fmid), st, Alphabet[i], Rep)
         /\ UNCHANGED <<fmid, pc, pre>>

More == pc = "run" /\ Len(ops) - pre < (IF pre = 0 THEN N ELSE NPre)

\* every name that is not a usable font of the page behaves alike: F9 stands for them (FB where the page has a broken font)
UnknownNames == {"F9"} \cup Broken(Fm(fmid))

TfKnown     == More /\ \E i \in Idx("TfName") : Alphabet[i].args[1].v \in Known(Fm(fmid)) /\ Do(i)
TfUnknown   == More /\ \E i \in Idx("TfName") : Alphabet[i].args[1].v \in UnknownNames /\ Do(i)
TfNotName   == More /\ \E i \in Idx("TfNotName") : Do(i)
TfNoOperand == More /\ \E i \in Idx("TfNoOperand") : Do(i)
Show        == More /\ st.enc # "none" /\ ~st.failed /\ \E i \in Idx("Show") : Do(i)
ShowNothing == More /\ (st.enc = "none" \/ st.failed) /\ \E i \in Idx("Show") : Do(i)
QuoteOp     == More /\ \E i \in Idx("Quote") : Do(i)
SaveFont    == More /\ \E i \in Idx("Save") : Do(i)
RestoreFont == More /\ \E i \in Idx("Restore") : Do(i)
EndText     == More /\ \E i \in Idx("ET") : Do(i)
Other       == More /\ \E i \in Idx("Other") : Do(i)
End         == pc = "run" /\ pc' = "done" /\ UNCHANGED <<fmid, ops, st, pre>>

Next == TfKnown \/ TfUnknown \/ TfNotName \/ TfNoOperand \/ Show \/ ShowNothing \/ QuoteOp \/ SaveFont \/ RestoreFont
        \/ EndText \/ Other \/ End

Spec == Init /\ [][Next]_vars

-----------------------------------------------------------------------------
Done == pc = "done"
Chunks == Finish(st)
ET == ExtractText(Chunks)
\* a layer R can only differ from the layer run where the operations a switch is about occur
HasOp(names) == \E i \in 1..Len(ops) : ops[i].op \in names
Trigger(r) == CASE r = "quote-ops" -> HasOp({"'", "\""}) [] r = "gstate-font" -> HasOp({"Q"}) [] r = "et-flag" -> HasOp({"ET"})
RunAs(R) == IF \E r \in (R \ Rep) \cup (Rep \ R) : Trigger(r) THEN RunR(Fm(fmid), ops, R) ELSE Chunks
Repaired == RunAs(AllReps)

FunctionForm == Done => Chunks = RunR(Fm(fmid), ops, Rep)
\* the clauses hold for the layer as run wherever the page needs no repair the layer lacks ...
A == Done => (Needs(Fm(fmid), ops) \subseteq Rep => ClauseA(Fm(fmid), ops, Chunks))
B == Done => (Needs(Fm(fmid), ops) \subseteq Rep => ClauseB(Fm(fmid), ops, Chunks))
C == Done => ClauseC(Chunks, ET)
\* ... and for the fully repaired layer everywhere
AR == Done => ClauseA(Fm(fmid), ops, Repaired)
BR == Done => ClauseB(Fm(fmid), ops, Repaired)
\* what C16 states: inside its domain the shown text comes back -- from the repaired layer always, from the layer
\* as run unless the page needs a repair it lacks (every loss is classified by Needs)
Domain == Done => (InDomain(Fm(fmid), ops) => ReturnsShown(Fm(fmid), ops, ExtractText(Repaired)))
Classified == Done => (InDomain(Fm(fmid), ops) /\ ~ReturnsShown(Fm(fmid), ops, ET) => ~(Needs(Fm(fmid), ops) \subseteq Rep))
\* the separator repair never changes the text, only the layout
FlagLayoutOnly == Done => LET x == ExtractText(RunAs(Rep \cup {"et-flag"})) IN x.ok = ET.ok /\ Strip(x.t) = Strip(ET.t)
\* a broken font makes every extract_text fail
BrokenFails == (Done /\ Broken(Fm(fmid)) # {}) => ~ET.ok

\* the other layers whose result differs from the one run: the check script accepts any of them as "exact"
Alts == LET cand == {R \in SUBSET AllReps : R # Rep /\ \E r \in (R \ Rep) \cup (Rep \ R) : Trigger(r)}
            others == {R \in cand : RunR(Fm(fmid), ops, R) # Chunks}
        IN SetToSeq({[rep |-> SetToSeq(R), chunks |-> RunR(Fm(fmid), ops, R), et |-> ExtractText(RunR(Fm(fmid), ops, R))] : R \in others})

EmitInv ==
    (fmid \in EmitIds /\ Done /\ Realisable(fmid)) =>
        PrintT(<<"REPLAY", ToJson([fm |-> fmid, ops |-> ops, chunks |-> Chunks, et |-> ET, rep |-> SetToSeq(Rep),
                                   indomain |-> InDomain(Fm(fmid), ops), clean |-> Clean(Fm(fmid), ops),
                                   shown |-> AllShown(Fm(fmid), ops), needs |-> SetToSeq(Needs(Fm(fmid), ops)),
                                   alts |-> Alts])>>)
=============================================================================
