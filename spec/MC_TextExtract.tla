--------------------------- MODULE MC_TextExtract ---------------------------
(* Exhaustive exploration of TextExtract: every sequence of at most N content operations over a    *)
(* small alphabet (every Tf shape, Tj / TJ with strings, nested arrays, integers around -100, other  *)
(* operand kinds, no operands; ET; other operators), for each font map in FmIds.  One action per     *)
(* content operation, split by what the extractor does with it; End flushes.  On every finished run  *)
(* the impl-shaped result must satisfy the declarative clauses (a)-(c), and inside C16's domain       *)
(* extract_text must return the shown text.  Clause (d) -- the result is a function of (fm, ops)      *)
(* alone -- is what makes the model an automaton over ops at all; it is checked against the           *)
(* implementation (split content streams, re-encoded content, save + reload) by Trace_TextExtract.   *)
(* Every finished run over a font map in EmitIds (realisable ones only) is printed for replay into lopdf. *)
EXTENDS TextExtract, Json

CONSTANTS N, FmIds, EmitIds

VARIABLES fmid, ops, st, pc
vars == <<fmid, ops, st, pc>>

-----------------------------------------------------------------------------
(* the abstract alphabet: codes 65 66 32 10 233 129; characters are the scalar values the concrete  *)
(* fonts of the harness give them (WinAnsi, PDFDoc, a ToUnicode CMap with one two-character target)  *)
Cells1 == (65 :> <<65>>) @@ (66 :> <<66>>) @@ (32 :> <<32>>) @@ (233 :> <<233>>) @@ (129 :> <<8226>>)   \* WinAnsi: 10 absent, unused codes are the bullet
Cells2 == (65 :> <<65>>) @@ (66 :> <<66>>) @@ (32 :> <<32>>) @@ (233 :> <<233>>) @@ (10 :> <<10>>) @@ (129 :> <<8224>>)  \* PDFDoc
CellsU == (65 :> <<102, 105>>) @@ (66 :> <<66>>) @@ (32 :> <<32>>) @@ (233 :> <<233>>) @@ (10 :> <<10>>) @@ (129 :> <<8226>>)

F1 == [kind |-> "table", pre |-> TRUE, cell |-> Cells1]
F2 == [kind |-> "table", pre |-> TRUE, cell |-> Cells2]
FU == [kind |-> "table", pre |-> FALSE, cell |-> CellsU]
FX == [kind |-> "failing"]
FB == [kind |-> "broken"]
FP == [kind |-> "partial", bad |-> 66, cell |-> Cells1]

Fm(id) == CASE id = "domain"  -> ("F1" :> F1) @@ ("F2" :> F2)
            [] id = "plain"   -> ("F1" :> F1) @@ ("F2" :> F2) @@ ("FU" :> FU) @@ ("FX" :> FX)
            [] id = "broken"  -> ("F1" :> F1) @@ ("FB" :> FB) @@ ("FX" :> FX)
            [] id = "partial" -> ("F1" :> F1) @@ ("FP" :> FP)          \* model only
Realisable(id) == id # "partial"

FontsJson == [id \in {"domain", "plain", "broken"} |->
                 [n \in DOMAIN Fm(id) |-> IF Fm(id)[n].kind = "table"
                                          THEN [kind |-> "table", cells |-> [c \in {65, 66, 32, 10, 233, 129} |-> CellOf(Fm(id)[n], c)]]
                                          ELSE [kind |-> Fm(id)[n].kind, cells |-> <<>>]]]
ASSUME PrintT(<<"FONTS", ToJson(FontsJson)>>)

Nm(n) == [k |-> "name", v |-> n]
S(cs) == [k |-> "str", v |-> cs]
Ar(os) == [k |-> "arr", v |-> os]
I(n) == [k |-> "int", v |-> n]
X(what) == [k |-> "other", v |-> what]
Op(o, as) == [op |-> o, args |-> as]

Alphabet == <<
    Op("Tf", <<Nm("F1"), I(12)>>), Op("Tf", <<Nm("F2"), I(12)>>), Op("Tf", <<Nm("FU"), I(12)>>), Op("Tf", <<Nm("FX"), I(12)>>),
    Op("Tf", <<Nm("FP"), I(12)>>), Op("Tf", <<Nm("FB"), I(12)>>), Op("Tf", <<Nm("F9"), I(12)>>),
    Op("Tf", <<I(12)>>),                                          \* operand not a name
    Op("Tf", <<>>),                                               \* no operand: the call fails
    Op("Tj", <<S(<<65>>)>>),
    Op("Tj", <<S(<<66, 10>>)>>),                                  \* ends with a newline where the font has the code
    Op("Tj", <<S(<<233, 32>>)>>),                                 \* ends with a space
    Op("TJ", <<Ar(<<S(<<65>>), I(-200), S(<<66>>)>>)>>),
    Op("TJ", <<Ar(<<S(<<233>>), I(-100), S(<<129>>), I(50)>>)>>),  \* -100 is not below -100
    Op("TJ", <<Ar(<<Ar(<<S(<<65>>)>>), S(<<66>>)>>)>>),             \* nested array
    Op("Tj", <<S(<<65>>), I(-101), X("real"), Nm("F1"), X("null")>>),
    Op("Tj", <<S(<<>>)>>),
    Op("TJ", <<>>),
    Op("ET", <<>>), Op("BT", <<>>),
    Op("'", <<S(<<65>>)>>) >>                                     \* shows text too, but the extractor ignores it

Idx(kind) == {i \in 1..Len(Alphabet) : OpKind(Alphabet[i]) = kind}

Init == /\ fmid \in FmIds
        /\ ops = <<>>
        /\ st = Start(Fm(fmid))
        /\ pc = "run"

Do(i) == /\ ops' = Append(ops, Alphabet[i])
         /\ st' = Step(Fm(fmid), st, Alphabet[i])
         /\ UNCHANGED <<fmid, pc>>

More == pc = "run" /\ Len(ops) < N

TfKnown     == More /\ \E i \in Idx("TfName") : Alphabet[i].args[1].v \in Known(Fm(fmid)) /\ Do(i)
TfUnknown   == More /\ \E i \in Idx("TfName") : Alphabet[i].args[1].v \notin Known(Fm(fmid)) /\ Do(i)
TfNotName   == More /\ \E i \in Idx("TfNotName") : Do(i)
TfNoOperand == More /\ \E i \in Idx("TfNoOperand") : Do(i)
Show        == More /\ st.enc # "none" /\ ~st.failed /\ \E i \in Idx("Show") : Do(i)
ShowNothing == More /\ (st.enc = "none" \/ st.failed) /\ \E i \in Idx("Show") : Do(i)
EndText     == More /\ \E i \in Idx("ET") : Do(i)
Other       == More /\ \E i \in Idx("Other") : Do(i)
End         == pc = "run" /\ pc' = "done" /\ UNCHANGED <<fmid, ops, st>>

Next == TfKnown \/ TfUnknown \/ TfNotName \/ TfNoOperand \/ Show \/ ShowNothing \/ EndText \/ Other \/ End

Spec == Init /\ [][Next]_vars

-----------------------------------------------------------------------------
Done == pc = "done"
Chunks == Finish(st)
ET == ExtractText(Chunks)

FunctionForm == Done => Chunks = Run(Fm(fmid), ops)
A == Done => ClauseA(Fm(fmid), ops, Chunks)
B == Done => ClauseB(Fm(fmid), ops, Chunks)
C == Done => ClauseC(Chunks, ET)
\* what C16 states: inside its domain the shown text comes back
Domain == Done => (InDomain(Fm(fmid), ops) => ReturnsShown(Fm(fmid), ops, ET))
\* a broken font makes every extract_text fail
BrokenFails == (Done /\ Broken(Fm(fmid)) # {}) => ~ET.ok

EmitInv ==
    (fmid \in EmitIds /\ Done /\ Realisable(fmid)) =>
        PrintT(<<"REPLAY", ToJson([fm |-> fmid, ops |-> ops, chunks |-> Chunks, et |-> ET,
                                   indomain |-> InDomain(Fm(fmid), ops), clean |-> Clean(Fm(fmid), ops),
                                   shown |-> AllShown(Fm(fmid), ops)])>>)
=============================================================================
