SPECIFICATION Spec
CONSTANTS
  Universe = "atoms"
  Emit = FALSE
  SepMode = "all"
CHECK_DEADLOCK FALSE
