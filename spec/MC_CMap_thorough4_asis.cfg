SPECIFICATION Spec
CONSTANTS
  Lens = {3}
  NCodes = 4
  MaxDefs = 3
  Dev_h34 = TRUE
  Dev_h35 = TRUE
  Emit = TRUE
  KnownClasses = {"multi.split", "multi.coalesce", "array.split", "array.coalesce"}
  Rich = FALSE
  BaseVal <- BaseEdge
INVARIANTS RefinesExceptKnown SegmentationOK MapsOK DomainOK BuildForm EmitInv
CHECK_DEADLOCK FALSE
