SPECIFICATION Spec
CONSTANTS
  Model = "prev"
  N = 4
  MaxB = 2
  GuardOn = FALSE
INVARIANTS Variant Refines
CHECK_DEADLOCK FALSE
