------------------------- MODULE Trace_StreamOpsBig -------------------------
(* impl -> spec for large, highly compressible contents (constant runs of 4 KiB / 64 KiB / 300 KiB, *)
(* periodic patterns, run + noise, one different byte; plain, Flate, Flate inside ASCII85).        *)
(* Records as in Trace_StreamOps, plus op "save_load" (Document::save_to + load_mem, the document   *)
(* continues as loaded); every byte string is a summary (StreamOps, "Summarised contents").  The    *)
(* judge is the declarative contract on summaries: Length = content length, compress never longer,  *)
(* compress / decompress / save+load keep what a reader decodes (oracle: independent decoders run by *)
(* the check script), decompress stores exactly that, decompressed_content / get_plain_content       *)
(* return exactly that.                                                                            *)
EXTENDS StreamOps, Json, IOUtils

Recs == ndJsonDeserialize(IOEnv.TRACE)

VARIABLES l, st
vars == <<l, st>>

StateOf(j) == [filters |-> j.filters, form |-> j.form, length |-> j.length, c |-> j.c, allows |-> j.allows, orc |-> j.orc]

Order == <<"panic", "stream-count", "unknown-op", "length", "set_plain_content", "compress.longer", "compress.lossy",
           "decompress.failed", "decompress.content", "saveload.failed", "saveload.view", "untouched-stream-changed",
           "decompressed_content", "get_plain_content">>
First(bad) == Order[CHOOSE k \in 1..Len(Order) : Order[k] \in bad /\ \A j \in 1..(k - 1) : Order[j] \notin bad]

QueryIssues(s, j) ==
    {IF DecodeAgreesS(s, j.dc) THEN "" ELSE "decompressed_content",
     IF s.filters = <<>> THEN (IF j.gp.ok /\ SameBytes(j.gp.s, s.c) THEN "" ELSE "get_plain_content")
     ELSE IF DecodeAgreesS(s, j.gp) THEN "" ELSE "get_plain_content"}

Keeps(pre, post) == DecodableS(pre) => (DecodableS(post) /\ SameBytes(ViewS(post), ViewS(pre)))

StreamIssues(pre, rec, i) ==
    LET post == StateOf(rec.post[i])
        touched == rec.sid = 0 \/ rec.sid = i
        len == IF LengthOKS(post) THEN "" ELSE "length"
    IN IF ~touched THEN {IF post = pre[i] THEN "" ELSE "untouched-stream-changed"}
       ELSE QueryIssues(post, rec.post[i]) \cup {len} \cup
            CASE rec.op = "set_plain_content" -> {IF SetPlainOKS(pre[i], rec.arg, post) THEN "" ELSE "set_plain_content"}
              [] rec.op \in {"compress", "doc_compress"} ->
                    {IF post.c.len <= pre[i].c.len THEN "" ELSE "compress.longer",
                     IF Keeps(pre[i], post) THEN "" ELSE "compress.lossy"}
              [] rec.op \in {"decompress", "doc_decompress"} ->
                    {IF DecompressOKS(pre[i], [post EXCEPT !.length = post.c.len]) THEN ""
                     ELSE IF post.filters # <<>> THEN "decompress.failed" ELSE "decompress.content"}
              [] rec.op = "save_load" ->
                    {IF rec.res = "ok" THEN "" ELSE "saveload.failed",
                     IF Keeps(pre[i], post) THEN "" ELSE "saveload.view"}
              [] OTHER -> {"unknown-op"}

Drift(pre, rec, i) ==
    LET post == StateOf(rec.post[i]) IN
    \/ rec.op = "compress" /\ (post.filters # pre[i].filters) # ImplCompressAddsS(pre[i], post)
    \/ rec.op = "save_load" /\ ~SameBytes(post.c, pre[i].c)

Judge(pre, rec) ==
    LET n == Len(rec.post)
        issues == IF rec.res = "panic" THEN {"panic"}
                  ELSE IF rec.op = "reset"
                  THEN UNION {QueryIssues(StateOf(rec.post[i]), rec.post[i])
                              \cup {IF LengthOKS(StateOf(rec.post[i])) THEN "" ELSE "length"} : i \in 1..n}
                  ELSE IF n # Len(pre) THEN {"stream-count"}
                  ELSE UNION {StreamIssues(pre, rec, i) : i \in 1..n}
        bad   == issues \ {""}
    IN IF bad # {} THEN First(bad)
       ELSE IF rec.op # "reset" /\ \E i \in 1..n : Drift(pre, rec, i) THEN "ok-drift"
       ELSE "ok"

Init == l = 1 /\ st = <<>>
Next == /\ l <= Len(Recs)
        /\ PrintT(<<"VERDICT", ToJson([i |-> l, v |-> Judge(st, Recs[l])])>>)
        /\ st' = [i \in 1..Len(Recs[l].post) |-> StateOf(Recs[l].post[i])]     \* re-synchronise to the logged state
        /\ l' = l + 1
Spec == Init /\ [][Next]_vars
Consumed == TLCGet("stats").diameter = Len(Recs) + 1
=============================================================================
