SPECIFICATION Spec
CONSTANTS
  Prune = TRUE
  Dev_h12 = FALSE
  Dev_h13 = FALSE
  Dev_t127 = FALSE
  Dev_mdict = FALSE
  Dev_drop = FALSE
  Dev_cryptv = FALSE
  Dev_mdstr = FALSE
  Dev_osres = FALSE
  Dev_cind = FALSE
  Dev_osrep = FALSE
  Dev_dparr = FALSE
  DocIds = {"D1", "D2", "D3", "D4", "D5", "D6", "D7", "D8", "D9"}
  V2Lens = {40, 128}
  V4Stm = {"RC4", "AES128", "Identity"}
  V4Str = {"RC4", "AES128", "Identity"}
  EMs = {TRUE, FALSE}
  IdCfs = {"none", "custom"}
  V5Kinds = {"R5", "V5"}
  V5Flt = {"AES256"}
  Pairs <- PairsQuick
  Attempts <- AttemptsQuick
  MaxDepth = 5
  Emit = TRUE
  KnownTags <- AllKnown
INVARIANTS AsSpecified OnlyKnown JudgeTracks EmitInv
CONSTRAINT Bound
VIEW View
CHECK_DEADLOCK FALSE
