SPECIFICATION Spec
CONSTANTS
  Model = "window"
  N = 7
  MaxB = 2
  GuardOn = TRUE
INVARIANTS Variant Refines
PROPERTIES Terminates
CHECK_DEADLOCK FALSE
