------------------------------ MODULE Editing ------------------------------
(***************************************************************************)
(* Editing operations keep the document sound (property C11).              *)
(*                                                                          *)
(* Values are the projection pi of harness/src/bin/c11.rs as TLC's Json      *)
(* module reads it.  An object is a record with a kind field k:             *)
(*    [k |-> "ref", n |-> 3]                 reference (generation 0 only)  *)
(*    [k |-> "arr", v |-> <<obj, ...>>]                                     *)
(*    [k |-> "dict", v |-> [Key |-> obj, ...]]   function from key STRINGS  *)
(*    [k |-> "stream", d |-> [Key |-> obj], c |-> bytes, z |-> BOOLEAN]     *)
(*         d = the stream dictionary without Length / Filter / DecodeParms, *)
(*         c = the DECODED content, z = "a Filter is present"               *)
(*    [k |-> "name", v |-> "Page"], [k |-> "int", v |-> 3], ... leaves.     *)
(* A document is                                                            *)
(*    [objs |-> [Nat -> obj], trailer |-> [Key |-> obj], max_id |-> Nat,    *)
(*     bms |-> Seq(Nat)]     bms = page ids the pending bookmarks point to  *)
(* (trailer without the cross-reference bookkeeping keys Size, Type, W ...).*)
(* A call is a record                                                       *)
(*    [op |-> name, id |-> Nat, x |-> Nat, name |-> STRING, b |-> bytes,    *)
(*     o |-> obj, nums |-> Seq(Nat), fmt |-> STRING, ops |-> Seq(token)]    *)
(* and its result [ok |-> BOOLEAN, id |-> Nat, ids |-> Seq(Nat)].           *)
(*                                                                          *)
(* Two layers (DESIGN 2.9):                                                 *)
(*  - declarative: Reach, PageSeq, CountsOk, Content, EffRes / ResTriples   *)
(*    (resources in effect by the ISO rule: nearest Resources up the Parent *)
(*    chain), WriteSet (the objects a call is documented to write), Aux     *)
(*    (all of these for one document, computed once per state) and          *)
(*    Judge(pre, Aux(pre), ghost, call, result, post, Aux(post)): the set   *)
(*    of clauses of the statement that the observed step violates           *)
(*      fresh                FreshIds: an allocated id collides with an     *)
(*                           existing object or an id handed out before     *)
(*      frame frame.trailer  Frame: a reachable object outside WriteSet (or *)
(*                           the trailer) was removed or altered            *)
(*      delete.*             NoStaleRef: where a reference to a deleted     *)
(*                           object was left (array.dup, array, dict,       *)
(*                           streamdict, trailer, top)                      *)
(*      prune                PruneExact                                     *)
(*      counts maxid         CountsOk, MaxIdOk (reported by the step that   *)
(*                           breaks them)                                   *)
(*      content contents.refToArray content.sharedStream                    *)
(*                           ContentOk on bytes (ghost content; the last:   *)
(*                           an edit of one page shows on a page sharing    *)
(*                           its content stream)                            *)
(*      content.ops content.streamBoundary                                  *)
(*                           ContentOk on operation sequences (observed     *)
(*                           through Content::decode) for add_to_page_      *)
(*                           content / insert_image / insert_form_object    *)
(*      resmono resources.shadow resmono.other resources.nameCollision      *)
(*                           ResMonotone (the last two: insert_* take a     *)
(*                           resource from another page / replace an entry  *)
(*                           that already has the name they derive)         *)
(*      effect.<Call>        the post-state the abstract model prescribes   *)
(*    together with the next ghost state.  Only this layer decides.         *)
(*  - impl-shaped: Impl(d, call, dev) -- the algorithms of creator.rs,      *)
(*    processor.rs, document.rs, bookmarks.rs transcribed; the switches of  *)
(*    dev reproduce confirmed deviations (TRUE = as the code is):           *)
(*      dup     delete_object removes only the first matching array element *)
(*      sdict   delete_object never strips a stream dictionary's own entries*)
(*      trailer delete_object never strips the trailer's own entries        *)
(*      shadow  get_or_create_resources installs an empty own Resources     *)
(*              dictionary on a page that inherits its Resources            *)
(*      refarr  add_page_contents / change_page_content do not look through *)
(*              a Contents entry that is a reference to an array            *)
(***************************************************************************)
EXTENDS Integers, Sequences, FiniteSets, TLC, SequencesExt, FiniteSetsExt

PT == INSTANCE PageTree      \* Dfs / DfsFrom / Reach of the page tree (shared with C12)

-----------------------------------------------------------------------------
(* Values *)

Ref(n)   == [k |-> "ref", n |-> n]
NameO(s) == [k |-> "name", v |-> s]
IntO(i)  == [k |-> "int", v |-> i]
StrO(s)  == [k |-> "str", v |-> s]
ArrO(s)  == [k |-> "arr", v |-> s]
DictO(f) == [k |-> "dict", v |-> f]
StreamO(f, c, z) == [k |-> "stream", d |-> f, c |-> c, z |-> z]
NullO    == [k |-> "null"]
None     == [k |-> "none"]            \* "no such entry / no such object"

IsRefTo(o, x) == o.k = "ref" /\ o.n = x

Has(f, key)      == key \in DOMAIN f
Get(f, key)      == IF key \in DOMAIN f THEN f[key] ELSE None
Put(f, key, val) == [y \in DOMAIN f \cup {key} |-> IF y = key THEN val ELSE f[y]]
Del(f, key)      == [y \in DOMAIN f \ {key} |-> f[y]]
Without(f, ks)   == [y \in DOMAIN f \ ks |-> f[y]]
RangeOf(s)       == {s[i] : i \in DOMAIN s}
MaxOf(S)         == IF S = {} THEN 0 ELSE CHOOSE m \in S : \A y \in S : y <= m
IndexOf(s, e)    == CHOOSE i \in 1..Len(s) : s[i] = e /\ \A j \in 1..(i - 1) : s[j] # e
Concat(ss)       == FoldLeft(LAMBDA acc, t : acc \o t, <<>>, ss)

Call(op) == [op |-> op, id |-> 0, x |-> 0, name |-> "", b |-> <<>>, o |-> NullO, nums |-> <<>>, fmt |-> "", ops |-> <<>>]
ResOk(id)  == [ok |-> TRUE, id |-> id, ids |-> <<>>]
ResErr     == [ok |-> FALSE, id |-> 0, ids |-> <<>>]

RECURSIVE RefsOf(_)
RefsOf(o) ==
    CASE o.k = "ref"    -> {o.n}
      [] o.k = "arr"    -> UNION {RefsOf(o.v[i]) : i \in 1..Len(o.v)}
      [] o.k = "dict"   -> UNION {RefsOf(o.v[key]) : key \in DOMAIN o.v}
      [] o.k = "stream" -> UNION {RefsOf(o.d[key]) : key \in DOMAIN o.d}
      [] OTHER          -> {}

\* follow references: <<id of the last reference followed (0 = none), the object (None = missing / too deep)>>
RECURSIVE DerefF(_, _, _, _)
DerefF(objs, o, last, fuel) ==
    IF o.k = "ref"
    THEN IF fuel = 0 \/ o.n \notin DOMAIN objs THEN <<o.n, None>>
         ELSE DerefF(objs, objs[o.n], o.n, fuel - 1)
    ELSE <<last, o>>
Deref(objs, o)    == DerefF(objs, o, 0, 8)
Target(objs, o)   == Deref(objs, o)[2]
TargetId(objs, o) == Deref(objs, o)[1]
GetObj(objs, id)  == Target(objs, Ref(id))          \* Document::get_object: dereferenced

-----------------------------------------------------------------------------
(* Declarative layer: the notions the statement uses *)

\* identifiers of the objects reachable from the trailer (through arrays, dictionaries and stream
\* dictionaries); references to missing objects lead nowhere
Reach(d) ==
    LET RECURSIVE Close(_, _)
        Close(todo, seen) ==
            IF todo = {} THEN seen
            ELSE LET y   == CHOOSE z \in todo : TRUE
                     new == IF y \in DOMAIN d.objs THEN RefsOf(d.objs[y]) ELSE {}
                 IN Close((todo \cup new) \ (seen \cup {y}), seen \cup {y})
    IN Close(RefsOf(DictO(d.trailer)), {}) \cap DOMAIN d.objs

DanglingRefs(d) ==
    (RefsOf(DictO(d.trailer)) \cup UNION {RefsOf(d.objs[id]) : id \in Reach(d)}) \ DOMAIN d.objs

\* the page tree (ISO 32000-1 7.7.3) as a PageTree graph
TypOf(o) ==
    IF o.k # "dict" THEN "NonDict"
    ELSE LET t == Get(o.v, "Type") IN
         IF t.k # "name" THEN "NoType"
         ELSE IF t.v = "Page" THEN "Page" ELSE IF t.v = "Pages" THEN "Pages" ELSE "Other"

\* (any dictionary value may be indirect, 7.3.10: Kids and Count are read through references)
KidsOfObj(objs, o) ==
    IF o.k # "dict" THEN <<>>
    ELSE LET a == Target(objs, Get(o.v, "Kids")) IN
         IF a.k = "arr" THEN [i \in 1..Len(a.v) |-> IF a.v[i].k = "ref" THEN a.v[i].n ELSE 0] ELSE <<>>

PageRoot(d) ==
    LET r == Get(d.trailer, "Root")
        c == IF r.k = "ref" THEN GetObj(d.objs, r.n) ELSE None
    IN IF c.k = "dict" /\ Get(c.v, "Pages").k = "ref" THEN Get(c.v, "Pages").n ELSE 0

Graph(d) ==
    [root  |-> PageRoot(d),
     typ   |-> [id \in DOMAIN d.objs |-> TypOf(d.objs[id])],
     kids  |-> [id \in DOMAIN d.objs |-> KidsOfObj(d.objs, d.objs[id])],
     extra |-> 0]

PageSeq(d) == PT!Dfs(Graph(d))                 \* leaf pages, depth first, left to right
PageSet(d) == RangeOf(PageSeq(d))

\* the nodes of the page tree
TreeNodes(d)  == PT!Reach(Graph(d)) \cap DOMAIN d.objs
PagesNodes(d) == {n \in TreeNodes(d) : TypOf(d.objs[n]) = "Pages"}

CountOf(objs, o) == LET c == Target(objs, Get(o.v, "Count")) IN IF c.k = "int" THEN c.v ELSE -1

\* Page-tree Counts equal the number of leaf pages
CountsOk(d) ==
    LET g == Graph(d) fuel == Cardinality(DOMAIN d.objs) + 1 IN
    \A n \in PagesNodes(d) : CountOf(d.objs, d.objs[n]) = Len(PT!DfsFrom(g, n, fuel))
\* ... which on a tree is the same as: every node's Count is the sum over its kids of 1 (a page) or the
\* kid's Count (a Pages node) -- the form Aux evaluates (linear in the size of the tree)
CountsLocal(d, g, tree) ==
    \A n \in {m \in tree : g.typ[m] = "Pages"} :
        CountOf(d.objs, d.objs[n]) =
            FoldLeft(LAMBDA acc, k : acc + (IF k \notin DOMAIN d.objs THEN 0
                                            ELSE IF g.typ[k] = "Page" THEN 1
                                            ELSE IF g.typ[k] = "Pages" THEN CountOf(d.objs, d.objs[k]) ELSE 0),
                     0, g.kids[n])

\* ancestors of node n (its Parent chain)
RECURSIVE AncestorsF(_, _, _)
AncestorsF(objs, n, fuel) ==
    LET o == IF n \in DOMAIN objs THEN objs[n] ELSE None
        p == IF o.k = "dict" THEN Get(o.v, "Parent") ELSE None
    IN IF p.k # "ref" \/ fuel = 0 THEN {} ELSE {p.n} \cup AncestorsF(objs, p.n, fuel - 1)
Ancestors(objs, n) == AncestorsF(objs, n, Cardinality(DOMAIN objs))

\* the content streams of a page, in order (7.7.3.3: Contents is a stream or an array of streams,
\* either of them possibly behind references)
RefIds(s) == LET r == SelectSeq(s, LAMBDA e : e.k = "ref") IN [i \in 1..Len(r) |-> r[i].n]

ContentIds(objs, p) ==
    LET pg == GetObj(objs, p) IN
    IF pg.k # "dict" THEN <<>>
    ELSE LET c == Get(pg.v, "Contents")
             t == Deref(objs, c)
         IN IF c.k = "ref"
            THEN IF t[2].k \in {"stream", "none"} THEN <<t[1]>>
                 ELSE IF t[2].k = "arr" THEN RefIds(t[2].v) ELSE <<>>
            ELSE IF c.k = "arr" THEN RefIds(c.v) ELSE <<>>

StreamBytes(objs, id) == LET o == GetObj(objs, id) IN IF o.k = "stream" THEN o.c ELSE <<>>

\* a page's decoded content: the data of its content streams, each followed by a newline (the division between
\* streams is a token boundary, 7.8.2: the last token of one stream and the first of the next stay apart;
\* this is also what get_page_content returns)
IsStream(objs, id) == GetObj(objs, id).k = "stream"
Content(objs, p) ==
    FoldLeft(LAMBDA acc, id : IF IsStream(objs, id) THEN acc \o StreamBytes(objs, id) \o <<10>> ELSE acc, <<>>, ContentIds(objs, p))
\* ... and the plain concatenation (how get_page_content joined the streams before fix 1ec5ee7)
PlainContent(objs, p) == FoldLeft(LAMBDA acc, id : acc \o StreamBytes(objs, id), <<>>, ContentIds(objs, p))
\* the data of the page's last content stream
LastStreamBytes(objs, p) ==
    LET ids == SelectSeq(ContentIds(objs, p), LAMBDA id : IsStream(objs, id)) IN
    IF ids = <<>> THEN <<>> ELSE StreamBytes(objs, ids[Len(ids)])

\* shape of a page's Contents entry
ContentsShape(objs, p) ==
    LET pg == GetObj(objs, p)
        c  == IF pg.k = "dict" THEN Get(pg.v, "Contents") ELSE None
    IN IF c.k = "none" THEN "missing"
       ELSE IF c.k = "arr" THEN "array"
       ELSE IF c.k = "ref" THEN (IF Target(objs, c).k = "arr" THEN "refToArray" ELSE "ref")
       ELSE "other"

\* ---- page content as a sequence of operations -----------------------------------------------
\* An operation is a TOKEN: the byte string "operand ... operand operator" (what Content::encode
\* writes for that one operation).  The operation sequence of a page is an OBSERVATION: the harness
\* logs Content::decode(get_page_content(page)) token by token; in the model world (MC_Editing), where
\* streams hold lines of the small alphabet {letters, digits, /, space, newline}, DecodeM / EncodeM
\* mirror lopdf's Content::decode / Content::encode on that alphabet.  Undec = "does not decode".
Undec   == << <<0>> >>
Partial == << <<0, 1>> >>        \* the decoder reads only part of the bytes (malformed content): no clause on operations
WSpace  == {0, 9, 10, 12, 13, 32}
IsLetter(b) == b \in 65..90 \/ b \in 97..122
RECURSIVE Digits(_)
Digits(n) == IF n < 10 THEN <<48 + n>> ELSE Digits(n \div 10) \o <<48 + (n % 10)>>
JoinWith(ss, sep) ==
    FoldLeft(LAMBDA acc, i : IF i = 1 THEN ss[1] ELSE acc \o <<sep>> \o ss[i], <<>>, [i \in 1..Len(ss) |-> i])
SplitWords(c) ==
    LET r == FoldLeft(LAMBDA acc, b : IF b \in WSpace
                                       THEN (IF acc.cur = <<>> THEN acc ELSE [ws |-> Append(acc.ws, acc.cur), cur |-> <<>>])
                                       ELSE [acc EXCEPT !.cur = Append(@, b)],
                      [ws |-> <<>>, cur |-> <<>>], c)
    IN IF r.cur = <<>> THEN r.ws ELSE Append(r.ws, r.cur)
\* an inline-image operator without its data is the content that lopdf refuses to decode
DecodeM(c) ==
    LET ws == SplitWords(c) IN
    IF \E i \in 1..Len(ws) : ws[i] = <<66, 73>> THEN Undec
    ELSE FoldLeft(LAMBDA acc, w : IF IsLetter(w[1])
                                  THEN [ops |-> Append(acc.ops, JoinWith(Append(acc.args, w), 32)), args |-> <<>>]
                                  ELSE [acc EXCEPT !.args = Append(@, w)],
                  [ops |-> <<>>, args |-> <<>>], ws).ops
EncodeM(ops) == JoinWith(ops, 10)             \* operations joined by newlines, no trailing newline

TokSave    == <<113>>                                                      \* q
TokRestore == <<81>>                                                       \* Q
TokDo(nameBytes) == <<47>> \o nameBytes \o <<32, 68, 111>>                 \* /Name Do
TokCm(nums) ==                                                             \* sx 0 0 sy px py cm
    IF Len(nums) # 4 THEN <<0>>
    ELSE Digits(nums[1]) \o <<32, 48, 32, 48, 32>> \o Digits(nums[2]) \o <<32>> \o Digits(nums[3]) \o <<32>>
         \o Digits(nums[4]) \o <<32, 99, 109>>
\* the name insert_image / insert_form_object derive from an object number: as dictionary key and as bytes
XName(n) == [s |-> "X" \o ToString(n), b |-> <<88>> \o Digits(n)]
NoName   == [s |-> "", b |-> <<>>]

\* the objects that make up a page's Contents: the object behind a Contents reference and the streams
ContentChain(objs, p) ==
    LET pg == GetObj(objs, p)
        c  == IF pg.k = "dict" THEN Get(pg.v, "Contents") ELSE None
    IN (IF c.k = "ref" THEN {TargetId(objs, c)} ELSE {}) \cup RangeOf(ContentIds(objs, p))

\* Everything the judge and the guards need to know about ONE document, computed once per state:
\*   reach    ids reachable from the trailer          pp      the page sequence
\*   tree     nodes of the page tree                  prot    catalog + tree nodes
\*   content  page id -> decoded content              counts  CountsOk
\*   cobjs    objects that make up pages' Contents
\*   sound    no reachable reference to a missing object and every content id names a stream
Aux(d) ==
    LET g     == Graph(d)
        pp    == PT!Dfs(g)
        tree  == PT!Reach(g) \cap DOMAIN d.objs
        fuel  == Cardinality(DOMAIN d.objs) + 1
        reach == Reach(d)
        refs  == RefsOf(DictO(d.trailer)) \cup UNION {RefsOf(d.objs[id]) : id \in reach}
        root  == Get(d.trailer, "Root")
    IN [reach   |-> reach,
        pp      |-> pp,
        tree    |-> tree,
        \* (with the objects behind indirect Kids / Count entries of the tree's nodes)
        prot    |-> tree \cup (IF root.k = "ref" THEN {root.n} ELSE {})
                    \cup UNION {LET o == d.objs[n] IN
                                IF o.k # "dict" THEN {}
                                ELSE UNION {IF Get(o.v, key).k = "ref" THEN {Get(o.v, key).n, TargetId(d.objs, Get(o.v, key))} ELSE {}
                                            : key \in {"Kids", "Count"}}
                                : n \in tree},
        content |-> [p \in RangeOf(pp) |-> Content(d.objs, p)],
        counts  |-> CountsLocal(d, g, tree),
        cobjs   |-> UNION {ContentChain(d.objs, p) : p \in RangeOf(pp)},
        sound   |-> refs \subseteq DOMAIN d.objs
                    /\ \A p \in RangeOf(pp) : \A i \in DOMAIN ContentIds(d.objs, p) :
                          GetObj(d.objs, ContentIds(d.objs, p)[i]).k = "stream"]

\* resources in effect for a page: the nearest Resources entry up the Parent chain (7.7.3.4)
RECURSIVE ResHolderF(_, _, _)
ResHolderF(objs, n, fuel) ==
    LET o == GetObj(objs, n) IN
    IF o.k # "dict" \/ fuel = 0 THEN 0
    ELSE IF Has(o.v, "Resources") THEN n
    ELSE LET par == Get(o.v, "Parent") IN IF par.k = "ref" THEN ResHolderF(objs, par.n, fuel - 1) ELSE 0
ResHolder(objs, p) == ResHolderF(objs, p, Cardinality(DOMAIN objs) + 1)
\* how many Parent links above the page the Resources entry in effect stands (0: on the page; -1: none)
RECURSIVE HolderLevelF(_, _, _, _)
HolderLevelF(objs, n, lvl, fuel) ==
    LET o == GetObj(objs, n) IN
    IF o.k # "dict" \/ fuel = 0 THEN -1
    ELSE IF Has(o.v, "Resources") THEN lvl
    ELSE LET par == Get(o.v, "Parent") IN IF par.k = "ref" THEN HolderLevelF(objs, par.n, lvl + 1, fuel - 1) ELSE -1
HolderLevel(objs, p) == HolderLevelF(objs, p, 0, Cardinality(DOMAIN objs) + 1)
\* get_or_create_resources looks for the inherited Resources at most this many levels up (creator.rs: `for _ in
\* 0..128`); the model checker overrides it with a small number
InheritBound == 128

EffRes(objs, p) ==
    LET h == ResHolder(objs, p) IN
    IF h = 0 THEN None ELSE Target(objs, Get(GetObj(objs, h).v, "Resources"))

\* <<category, name, value>> for every named resource the page can use
ResTriples(objs, p) ==
    LET r == EffRes(objs, p) IN
    IF r.k # "dict" THEN {}
    ELSE UNION {LET cd == Target(objs, r.v[cat]) IN
                IF cd.k = "dict" THEN {<<cat, nm, cd.v[nm]>> : nm \in DOMAIN cd.v} ELSE {}
                : cat \in DOMAIN r.v}
ResNames(objs, p) == {<<t[1], t[2]>> : t \in ResTriples(objs, p)}

\* objects a resource edit of page p is documented to write besides the page: the object(s) behind
\* the page's OWN Resources entry and behind its category entries
OwnResObjs(objs, p) ==
    LET pg == GetObj(objs, p)
        r  == IF pg.k = "dict" THEN Get(pg.v, "Resources") ELSE None
        rd == Target(objs, r)
        chain(o) == IF o.k = "ref" THEN {TargetId(objs, o)} ELSE {}
    IN chain(r) \cup (IF rd.k = "dict" THEN UNION {chain(rd.v[cat]) : cat \in DOMAIN rd.v} ELSE {})

Holders(d, X) == {id \in DOMAIN d.objs : RefsOf(d.objs[id]) \cap X # {}}

\* pages named by a delete_pages argument (pp = the page sequence before the call)
DeletedPages(pp, nums) == {pp[i] : i \in RangeOf(nums) \cap (1..Len(pp))}

DeletedBy(A, c) ==
    CASE c.op = "DeleteObject" -> {c.id}
      [] c.op = "DeletePages"  -> DeletedPages(A.pp, c.nums)
      [] OTHER                 -> {}

IsDeletion(c) == c.op \in {"DeleteObject", "DeletePages"}
IsResourceEdit(c) == c.op \in {"GetOrCreateResources", "AddXObject", "AddGraphicsState"}
CatOf(c) == IF c.op = "AddXObject" THEN "XObject" ELSE IF c.op = "AddGraphicsState" THEN "ExtGState" ELSE ""
IsInsert(c)  == c.op \in {"InsertImage", "InsertFormObject"}                  \* parser_aux.rs: new XObject drawn on a page
IsOpsEdit(c) == c.op \in {"AddToPageContent", "InsertImage", "InsertFormObject"}   \* edits stated on operation sequences
Allocating == {"NewObjectId", "AddObject", "AddPageContents", "ChangePageContent", "BuildOutline",
               "AddToPageContent", "InsertImage", "InsertFormObject"}
Rekeying   == {"Renumber", "SaveLoad"}          \* every identifier may change / a new Document value

\* The objects of the pre-state a call is documented to write (how "no operation other than an
\* explicit deletion removes or alters an object" is read; an explicit deletion may remove the
\* named objects and edit the objects that hold references to them).  A = Aux(pre).
WriteSet(pre, A, c) ==
    CASE c.op = "Replace"             -> {c.id}
      [] c.op = "DeleteObject"        -> {c.id} \cup Holders(pre, {c.id})
      [] c.op = "DeletePages"         -> LET X == DeletedPages(A.pp, c.nums) IN
                                         X \cup Holders(pre, X) \cup UNION {Ancestors(pre.objs, p) : p \in X}
      [] c.op = "RemoveAnnot"         -> RangeOf(A.pp)
      [] c.op \in {"AddPageContents", "AddToPageContent"} -> {c.id}
      [] c.op = "ChangePageContent"   -> {c.id} \cup RangeOf(ContentIds(pre.objs, c.id))
      \* the page, its content streams and the objects behind its OWN Resources entry
      [] IsInsert(c)                  -> {c.id} \cup RangeOf(ContentIds(pre.objs, c.id)) \cup OwnResObjs(pre.objs, c.id)
      [] c.op = "ChangeContentStream" -> {c.id}
      [] IsResourceEdit(c)            -> {c.id} \cup OwnResObjs(pre.objs, c.id)
      [] c.op \in Rekeying            -> DOMAIN pre.objs
      [] OTHER                        -> {}       \* NewObjectId AddObject Prune Compress Decompress BuildOutline Save

\* Compress / Decompress may re-encode a stream: everything but the encoding flag stays
SameObj(c, a, b) ==
    IF c.op \in {"Compress", "Decompress"} /\ a.k = "stream" /\ b.k = "stream"
    THEN a.d = b.d /\ a.c = b.c ELSE a = b

\* where a reference to x stands inside o
RECURSIVE Kinds(_, _)
Kinds(o, x) ==
    CASE o.k = "ref"    -> IF o.n = x THEN {"top"} ELSE {}
      [] o.k = "arr"    -> (IF \E i \in 1..Len(o.v) : IsRefTo(o.v[i], x) THEN {"arr"} ELSE {})
                           \cup UNION {Kinds(o.v[i], x) \ {"top"} : i \in 1..Len(o.v)}
      [] o.k = "dict"   -> (IF \E key \in DOMAIN o.v : IsRefTo(o.v[key], x) THEN {"dict"} ELSE {})
                           \cup UNION {Kinds(o.v[key], x) \ {"top"} : key \in DOMAIN o.v}
      [] o.k = "stream" -> (IF \E key \in DOMAIN o.d : IsRefTo(o.d[key], x) THEN {"sdict"} ELSE {})
                           \cup UNION {Kinds(o.d[key], x) \ {"top"} : key \in DOMAIN o.d}
      [] OTHER          -> {}

\* some array inside o names x twice or more
RECURSIVE HasDupArr(_, _)
HasDupArr(o, x) ==
    CASE o.k = "arr"    -> Cardinality({i \in 1..Len(o.v) : IsRefTo(o.v[i], x)}) >= 2
                           \/ \E i \in 1..Len(o.v) : HasDupArr(o.v[i], x)
      [] o.k = "dict"   -> \E key \in DOMAIN o.v : HasDupArr(o.v[key], x)
      [] o.k = "stream" -> \E key \in DOMAIN o.d : HasDupArr(o.d[key], x)
      [] OTHER          -> FALSE

\* NoStaleRef, clause by clause: the places where a reference to a deleted object is left behind
\* in the trailer or in an object still reachable from it (reachPost = Reach(post))
StaleTags(pre, post, reachPost, X) ==
    LET tagsFor(o, o0, x) ==
            LET ks == Kinds(o, x) IN
               (IF "arr" \in ks THEN (IF HasDupArr(o0, x) THEN {"delete.array.dup"} ELSE {"delete.array"}) ELSE {})
            \cup (IF "sdict" \in ks THEN {"delete.streamdict"} ELSE {})
            \cup (IF "dict" \in ks THEN {"delete.dict"} ELSE {})
            \cup (IF "top" \in ks THEN {"delete.top"} ELSE {})
        tr  == DictO(post.trailer)
        tr0 == DictO(pre.trailer)
        trTags(x) == (IF \E key \in DOMAIN post.trailer : IsRefTo(post.trailer[key], x) THEN {"delete.trailer"} ELSE {})
                     \cup (tagsFor(tr, tr0, x) \ {"delete.dict"})
                     \cup UNION {(IF "dict" \in Kinds(post.trailer[key], x) THEN {"delete.dict"} ELSE {})
                                 : key \in DOMAIN post.trailer}
        holders(x) == {h \in reachPost : x \in RefsOf(post.objs[h])}
    IN UNION {trTags(x) \cup UNION {tagsFor(post.objs[h], IF h \in DOMAIN pre.objs THEN pre.objs[h] ELSE NullO, x)
                                     : h \in holders(x)}
              : x \in X}

-----------------------------------------------------------------------------
(* Ghost state: what the history of calls implies *)
(*   issued  : identifiers handed out by new_object_id and not yet used           *)
(*   content : page id -> the bytes the sequence of content edits implies           *)
(*   ops     : page id -> the operation sequence the page showed (observed)         *)

GhostOf(A, ops) == [issued |-> {}, content |-> A.content, ops |-> ops]

\* the content every page of the post-state must show (A = Aux(pre), B = Aux(post))
ExpContent(pre, A, gh, c, res, B) ==
    LET pages  == RangeOf(B.pp)
        old(p) == IF p \in DOMAIN gh.content THEN gh.content[p] ELSE <<>>
        \* only a page whose Contents involve the edited object can change
        redo(objs2) == [p \in pages |-> IF p \in DOMAIN pre.objs /\ c.id \in ContentChain(pre.objs, p)
                                        THEN Content(objs2, p) ELSE old(p)]
    IN
    CASE c.op = "AddPageContents"     -> [p \in pages |-> IF p = c.id /\ res.ok THEN old(p) \o c.b \o <<10>> ELSE old(p)]
      [] c.op = "ChangePageContent"   -> [p \in pages |-> IF p = c.id /\ res.ok THEN c.b \o <<10>> ELSE old(p)]
      [] c.op = "ChangeContentStream" ->
            LET o == IF c.id \in DOMAIN pre.objs THEN pre.objs[c.id] ELSE None
            IN IF o.k = "stream" THEN redo(Put(pre.objs, c.id, [o EXCEPT !.c = c.b])) ELSE [p \in pages |-> old(p)]
      [] c.op = "DeleteObject"        -> redo(Without(pre.objs, {c.id}))
      [] c.op = "Replace"             -> redo(Put(pre.objs, c.id, c.o))
      [] c.op = "Renumber"            -> [p \in pages |-> IF Len(A.pp) = Len(B.pp) THEN old(A.pp[IndexOf(B.pp, p)]) ELSE <<>>]
      \* edits stated on operation sequences: the bytes of the edited page are free (the operation
      \* clause below decides), unless the call reports an error; every other page keeps its bytes
      [] IsOpsEdit(c)                 -> [p \in pages |-> IF p = c.id /\ res.ok THEN B.content[p] ELSE old(p)]
      [] OTHER                        -> [p \in pages |-> old(p)]

-----------------------------------------------------------------------------
(* The judge: which clauses does the observed step pre --call/res--> post violate? *)
(* A = Aux(pre), B = Aux(post), O1 = what was observed of post through decoding:      *)
(*   [ops |-> page id -> operation sequence of the page (Undec: does not decode),      *)
(*    xn  |-> the name under which an insert_* call registered its new object]         *)
(* Tags in DriftTags are not violations of the                                         *)
(* statement (they say that something outside its wording changed); every other tag  *)
(* is a violation signature.                                                          *)

Judge(pre, A, gh, c, res, post, B, O1) ==
    LET reach    == A.reach
        ws       == WriteSet(pre, A, c)
        newIds   == DOMAIN post.objs \ DOMAIN pre.objs
        goneIds  == DOMAIN pre.objs \ DOMAIN post.objs
        changed(id) == id \notin DOMAIN post.objs \/ ~SameObj(c, pre.objs[id], post.objs[id])
        X        == DeletedBy(A, c)
        exp      == ExpContent(pre, A, gh, c, res, B)
        pp0      == A.pp
        pp1      == B.pp
        \* ---- FreshIds
        alloc    == newIds \cup (IF c.op \in {"NewObjectId", "AddObject", "BuildOutline"} /\ res.id # 0 THEN {res.id} ELSE {})
        \* ids handed out although in use: returned / new ids that exist or were issued, and objects above max_id
        \* (where the allocator goes next) that the call overwrote
        clash    == IF c.op \in Allocating
                    THEN (alloc \cap (DOMAIN pre.objs \cup gh.issued))
                         \cup {id \in DOMAIN pre.objs \ ws : id > pre.max_id /\ changed(id)}
                    ELSE {}
        \* (aboveMax: every colliding id is an object that set_object stored above max_id)
        aboveMax == clash # {} /\ \A id \in clash : id \in DOMAIN pre.objs /\ id > pre.max_id
        fresh    == IF clash = {} THEN {} ELSE IF aboveMax THEN {"fresh.aboveMax"} ELSE {"fresh"}
        \* ---- Frame
        frame    == (IF \E id \in (reach \ ws) \ (IF aboveMax THEN clash ELSE {}) : changed(id) THEN {"frame"} ELSE {})
                    \cup (IF c.op \notin Rekeying /\ post.trailer # pre.trailer
                             /\ ~(IsDeletion(c) /\ RefsOf(DictO(pre.trailer)) \cap X # {})
                          THEN {"frame.trailer"} ELSE {})
        unreach  == IF c.op # "Prune" /\ \E id \in ((DOMAIN pre.objs \ reach) \ ws) \ (IF aboveMax THEN clash ELSE {}) : changed(id)
                    THEN {"drift.unreach"} ELSE {}
        \* ---- NoStaleRef
        stale    == IF IsDeletion(c)
                    THEN StaleTags(pre, post, B.reach, X)
                         \* a pending bookmark still targets a deleted object: build_outline would refer to it again
                         \cup (IF X \cap RangeOf(post.bms) # {} THEN {"delete.bookmark"} ELSE {})
                    ELSE {}
        \* ---- PruneExact
        prune    == IF c.op = "Prune" /\ (DOMAIN post.objs # reach \/ RangeOf(res.ids) # DOMAIN pre.objs \ reach)
                    THEN {"prune"} ELSE {}
        \* ---- CountsOk, MaxIdOk
        counts   == IF B.counts \/ ~A.counts THEN {}                       \* reported by the step that breaks it
                    ELSE IF c.op = "DeletePages"
                            /\ \E p \in X : \E a \in Ancestors(pre.objs, p) :
                                  a \in DOMAIN pre.objs /\ pre.objs[a].k = "dict" /\ Get(pre.objs[a].v, "Count").k = "ref"
                         THEN {"counts.indirect"}                          \* an ancestor's Count is an indirect integer
                    ELSE {"counts"}
        issued1  == CASE c.op = "NewObjectId" -> gh.issued \cup {res.id}
                      [] c.op = "Replace"     -> gh.issued \ {c.id}
                      [] c.op \in Rekeying    -> {}
                      [] OTHER                -> gh.issued
        maxid    == IF post.max_id >= MaxOf(DOMAIN post.objs \cup issued1)
                       \/ pre.max_id < MaxOf(DOMAIN pre.objs \cup gh.issued) THEN {}
                    ELSE IF c.op = "Replace" /\ c.id > pre.max_id THEN {"maxid.setObject"} ELSE {"maxid"}
        \* ---- ContentOk
        badp     == {p \in RangeOf(pp1) : B.content[p] # exp[p]}
        content  == IF badp = {} THEN {}
                    ELSE IF c.op \in {"AddPageContents", "ChangePageContent"} /\ badp = {c.id}
                            /\ ContentsShape(pre.objs, c.id) = "refToArray"
                         THEN {"contents.refToArray"}
                    \* an edit of ONE page's content shows on other pages: exactly those that share a
                    \* content stream (or Contents array object) with the edited page
                    ELSE IF (c.op = "ChangePageContent" \/ IsInsert(c)) /\ c.id \notin badp /\ c.id \in DOMAIN pre.objs
                            /\ \A q \in badp : q \in DOMAIN pre.objs
                                   /\ ContentChain(pre.objs, q) \cap ContentChain(pre.objs, c.id) # {}
                         THEN {"content.sharedStream"}
                    ELSE {"content"}
        \* ---- ContentOk on operation sequences (add_to_page_content, insert_image, insert_form_object)
        oldOps   == IF c.id \in DOMAIN gh.ops THEN gh.ops[c.id] ELSE Undec
        newOps   == IF c.id \in DOMAIN O1.ops THEN O1.ops[c.id] ELSE Undec
        expOps   == CASE c.op = "AddToPageContent" -> oldOps \o c.ops
                      [] c.op = "InsertImage"      -> oldOps \o <<TokSave, TokCm(c.nums), TokDo(O1.xn.b), TokRestore>>
                      [] c.op = "InsertFormObject" -> <<TokSave>> \o oldOps \o <<TokRestore, TokDo(O1.xn.b)>>
                      [] OTHER                     -> oldOps
        \* (domain of the insert_* clauses: the Resources entry in effect for the page is a dictionary or absent)
        resDom   == ~IsInsert(c) \/ EffRes(pre.objs, c.id).k \in {"dict", "none"}
        opsTag   == IF IsOpsEdit(c) /\ res.ok /\ resDom /\ c.id \in RangeOf(pp1) /\ oldOps \notin {Undec, Partial}
                       /\ newOps # expOps
                    THEN LET b0 == LastStreamBytes(pre.objs, c.id) IN
                         \* the old content's last stream ends without white space and the appended stream's first
                         \* token was read together with its last one
                         IF ContentsShape(pre.objs, c.id) = "refToArray" /\ newOps # expOps
                            /\ (c.op = "AddToPageContent" => newOps = c.ops)
                         THEN {"contents.refToArray"}             \* (former finding: the old streams are no longer read)
                         ELSE IF c.op = "AddToPageContent" /\ b0 # <<>> /\ b0[Len(b0)] \notin WSpace
                         THEN {"content.streamBoundary"} ELSE {"content.ops"}
                    ELSE {}
        \* ---- ResMonotone
        lost     == IF IsResourceEdit(c)
                    THEN LET after == ResTriples(post.objs, c.id) IN
                         {t \in ResTriples(pre.objs, c.id) : t \notin after /\ ~(t[1] = CatOf(c) /\ t[2] = c.name)}
                    ELSE {}
        resmono  == IF lost = {} THEN {}
                    ELSE LET p0 == GetObj(pre.objs, c.id) p1 == GetObj(post.objs, c.id) IN
                         IF p0.k = "dict" /\ p1.k = "dict" /\ ~Has(p0.v, "Resources") /\ Has(p1.v, "Resources")
                         THEN (IF c.fmt = "inc" THEN {"resources.shadow.incremental"} ELSE IF HolderLevel(pre.objs, c.id) >= InheritBound THEN {"resources.shadow.deep"} ELSE {"resources.shadow"}) ELSE {"resmono"}
        \* insert_image / insert_form_object choose the resource name themselves: NOTHING any page could
        \* use before may be taken away, also not an entry that already has the chosen name
        lostAt(q) == LET after == ResTriples(post.objs, q) IN {t \in ResTriples(pre.objs, q) : t \notin after}
        lostIns  == IF IsInsert(c) THEN [q \in RangeOf(pp0) \cap RangeOf(pp1) |-> lostAt(q)] ELSE <<>>
        insmono  == LET all == UNION {lostIns[q] : q \in DOMAIN lostIns} IN
                    IF all = {} THEN {}
                    ELSE IF O1.xn.s # "" /\ \A t \in all : t[1] = "XObject" /\ t[2] = O1.xn.s
                         THEN {"resources.nameCollision"}
                    ELSE (IF c.id \in DOMAIN lostIns /\ lostIns[c.id] # {}
                          THEN LET p0 == GetObj(pre.objs, c.id) p1 == GetObj(post.objs, c.id) IN
                               IF p0.k = "dict" /\ p1.k = "dict" /\ ~Has(p0.v, "Resources") /\ Has(p1.v, "Resources")
                               THEN (IF HolderLevel(pre.objs, c.id) >= InheritBound THEN {"resources.shadow.deep"} ELSE {"resources.shadow"}) ELSE {"resmono"}
                          ELSE {})
                         \cup (IF \E q \in DOMAIN lostIns \ {c.id} : lostIns[q] # {} THEN {"resmono.other"} ELSE {})
        \* the objects the call stored as given (the image / form stream)
        xids     == {id \in newIds \cup clash : id \in DOMAIN post.objs /\ post.objs[id] = c.o}
        \* ---- the post-state the abstract model prescribes for the call
        eff(b)   == IF b THEN {} ELSE {"effect." \o c.op}
        effect   ==
            CASE c.op = "NewObjectId" -> eff(res.id # 0 /\ newIds = {} /\ goneIds = {})
              [] c.op = "AddObject"   -> eff(newIds = {res.id} /\ goneIds = {} /\ post.objs[res.id] = c.o)
              [] c.op = "Replace"     -> eff(DOMAIN post.objs = DOMAIN pre.objs \cup {c.id} /\ post.objs[c.id] = c.o)
              [] c.op = "DeleteObject" -> eff(DOMAIN post.objs = DOMAIN pre.objs \ {c.id} /\ res.ok = (c.id \in DOMAIN pre.objs))
              [] c.op = "RemoveAnnot" ->
                    eff(newIds = {} /\ goneIds = {}
                        /\ \A p \in RangeOf(pp0) : p \in DOMAIN post.objs /\
                              LET a == pre.objs[p] b == post.objs[p] IN
                              a = b \/ (a.k = "dict" /\ Get(a.v, "Annots").k = "arr"
                                        /\ b = DictO(Put(a.v, "Annots",
                                                 ArrO(SelectSeq(a.v["Annots"].v, LAMBDA e : ~IsRefTo(e, c.id)))))))
              [] c.op = "Prune"       -> {}
              [] c.op = "DeletePages" ->
                    eff(/\ pp1 = SelectSeq(pp0, LAMBDA p : p \notin X)
                        /\ DOMAIN post.objs = DOMAIN pre.objs \ X)
              [] c.op = "Renumber"    ->
                    \* renumber_objects_with(c.x) (renumber_objects: c.x = 1): numbers c.x, c.x + 1, ... without gaps
                    LET n  == Cardinality(DOMAIN post.objs)
                        st == IF c.x = 0 THEN 1 ELSE c.x
                    IN
                    eff(/\ Cardinality(DOMAIN pre.objs) = n /\ DOMAIN post.objs = st..(st + n - 1)
                        /\ (n > 0 => post.max_id = st + n - 1)
                        /\ Len(pp1) = Len(pp0)
                        /\ Cardinality(B.reach) = Cardinality(reach)
                        /\ \A i \in 1..Len(pp0) : i <= Len(pp1) => ResNames(post.objs, pp1[i]) = ResNames(pre.objs, pp0[i]))
              [] c.op \in {"Compress", "Decompress", "Save"} -> eff(newIds = {} /\ goneIds = {} /\ res.ok)
              [] c.op = "SaveLoad"    ->
                    IF res.ok /\ post.objs = pre.objs /\ post.trailer = pre.trailer THEN {} ELSE {"drift.load"}
              [] c.op \in {"AddPageContents", "AddToPageContent"} -> eff(goneIds = {} /\ Cardinality(newIds) <= 1)
              \* the stream is stored under a fresh id; on success the page can use it as XObject O1.xn
              [] IsInsert(c) ->
                    eff(goneIds = {} /\ Cardinality(newIds) <= 2
                        /\ (res.ok /\ resDom => xids # {} /\ O1.xn.s # ""
                                       /\ \E id \in xids : <<"XObject", O1.xn.s, Ref(id)>> \in ResTriples(post.objs, c.id)))
              [] c.op = "ChangePageContent" -> eff(goneIds = {} /\ Cardinality(newIds) <= 1)
              [] c.op = "ChangeContentStream" ->
                    eff(newIds = {} /\ goneIds = {}
                        /\ (c.id \in DOMAIN pre.objs =>
                              LET a == pre.objs[c.id] b == post.objs[c.id] IN
                              IF a.k = "stream" THEN b.k = "stream" /\ b.d = a.d /\ b.c = c.b ELSE b = a))
              [] c.op = "GetOrCreateResources" -> eff(newIds = {} /\ goneIds = {})
              [] c.op \in {"AddXObject", "AddGraphicsState"} ->
                    eff(newIds = {} /\ goneIds = {}
                        /\ (res.ok /\ EffRes(pre.objs, c.id).k \in {"dict", "none"}
                              => <<CatOf(c), c.name, Ref(c.x)>> \in ResTriples(post.objs, c.id)))
              [] c.op = "BuildOutline" ->
                    eff(goneIds = {}
                        /\ IF pre.bms = <<>> THEN newIds = {} /\ res.id = 0
                           ELSE res.id \in newIds /\ Cardinality(newIds) = 1 + 2 * Len(pre.bms))
              [] OTHER -> {"effect.unknown"}
        tags     == fresh \cup frame \cup unreach \cup stale \cup prune \cup counts \cup maxid \cup content \cup opsTag
                    \cup resmono \cup insmono
                    \* (the object a known collision overwrote is reported by fresh.aboveMax alone)
                    \cup (IF aboveMax THEN effect \ {"effect." \o c.op} ELSE effect)
    IN [tags |-> tags,
        \* the next ghost state; content is re-synchronised to what the document shows so that one
        \* reported mismatch is reported once
        gh   |-> [issued |-> issued1, content |-> B.content, ops |-> O1.ops],
        exp  |-> exp]

\* state clauses alone (for a starting document and its declared content); A = Aux(d)
JudgeState(d, A, content) ==
       (IF A.counts THEN {} ELSE {"counts"})
    \cup (IF d.max_id >= MaxOf(DOMAIN d.objs) THEN {} ELSE {"maxid"})
    \cup (IF \A p \in RangeOf(A.pp) : p \in DOMAIN content /\ A.content[p] = content[p] THEN {} ELSE {"content"})

DriftTags == {"drift.unreach", "drift.load", "drift.model"}
Violations(tags) == tags \ DriftTags

-----------------------------------------------------------------------------
(* Impl-shaped layer: the calls as lopdf runs them.  dev = switches; each re-creates, when TRUE, one   *)
(* deviation that was confirmed and then repaired in lopdf:                                            *)
(*   dup     delete_object removes only the first matching array element        (fix: a80f4e6)        *)
(*   sdict   delete_object does not strip entries of stream dictionaries         (fix: 189bbea)        *)
(*   trailer delete_object does not strip entries of the trailer                 (fix: 6eb5138)        *)
(*   refarr  Contents = reference to an array is treated as reference to a stream (fix: 3fbe7c2)       *)
(*   shadow  get_or_create_resources installs an empty own Resources dictionary   (fix: ea71ea1)       *)
(* DevAsIs = the code as it is (every switch FALSE; asis marks the behaviours whose model results are  *)
(* compared with lopdf's), DevSeeded = the five repaired defects seeded back (a negative control of the *)
(* declarative layer: its violations must be exactly the five former findings).                        *)

(* Three further switches re-create deviations found by the clauses on shared streams, chosen names and  *)
(* operation sequences, all repaired in lopdf since:                                                      *)
(*   shared   change_page_content rewrote a content stream in place although another page uses it too     *)
(*            (fix: 331f344)                                                                              *)
(*   collide  insert_image / insert_form_object named the new XObject X<object number> without looking    *)
(*            whether the page can already use a resource of that name (fix: c68af72)                     *)
(*   boundary get_page_content joined a page's content streams without white space, so the last operator  *)
(*            of one stream and the first token of the next were decoded as one token (fix: 1ec5ee7; the  *)
(*            model world's observation ObserveM decodes the plain concatenation when the switch is TRUE) *)
(* Four switches re-create deviations that are confirmed and still in the code (known findings):          *)
(*   deep     get_or_create_resources looks for the inherited Resources at most InheritBound levels up    *)
(*            and installs an empty dictionary when they stand higher                                     *)
(*   setmax   set_object does not raise max_id when it stores under a number above it: the allocators     *)
(*            hand that number out again                                                                  *)
(*   icount   delete_pages skips a Count that is an indirect integer                                      *)
(*   bmstale  delete_object / delete_pages leave a pending bookmark on the deleted object                 *)
(* Two switches for the IncrementalDocument twins of the resource calls (c.fmt = "inc"), still in the code:  *)
(*   incshadow IncrementalDocument::get_or_create_resources installs an empty own Resources dictionary on   *)
(*             a page that inherits its Resources (the twin that the repair of `shadow` did not reach)      *)
(*   incxo     IncrementalDocument::add_xobject fails (ObjectNotFound) when the XObject category is behind  *)
(*             a reference (the dictionary lives in the previous revision only); an error, no clause broken *)
(* (incnow marks a call that runs on an IncrementalDocument; set by Impl.)                                  *)
(* DevAsIs = the code as it is.  DevSeeded = additionally all repaired defects seeded back (a negative     *)
(* control of the declarative layer).  DevRepaired = every switch FALSE (no violation at all).            *)

DevAsIs     == [asis |-> TRUE, mode |-> "asis", dup |-> FALSE, sdict |-> FALSE, trailer |-> FALSE, shadow |-> FALSE,
                refarr |-> FALSE, shared |-> FALSE, collide |-> FALSE, boundary |-> FALSE,
                deep |-> FALSE, setmax |-> FALSE, icount |-> FALSE, bmstale |-> FALSE,
                incshadow |-> FALSE, incxo |-> TRUE, incnow |-> FALSE]     \* repaired: 8ecb6b6 692e806 517c497 d56c356 623e855 (incxo: an error path, still in the code)
DevSeeded   == [asis |-> FALSE, mode |-> "seeded", dup |-> TRUE, sdict |-> TRUE, trailer |-> TRUE, shadow |-> TRUE,
                refarr |-> TRUE, shared |-> TRUE, collide |-> TRUE, boundary |-> TRUE,
                deep |-> TRUE, setmax |-> TRUE, icount |-> TRUE, bmstale |-> TRUE,
                incshadow |-> TRUE, incxo |-> TRUE, incnow |-> FALSE]
DevRepaired == [asis |-> FALSE, mode |-> "repaired", dup |-> FALSE, sdict |-> FALSE, trailer |-> FALSE, shadow |-> FALSE,
                refarr |-> FALSE, shared |-> FALSE, collide |-> FALSE, boundary |-> FALSE,
                deep |-> FALSE, setmax |-> FALSE, icount |-> FALSE, bmstale |-> FALSE,
                incshadow |-> FALSE, incxo |-> FALSE, incnow |-> FALSE]
FormerFindings == {"delete.array.dup", "delete.streamdict", "delete.trailer", "resources.shadow", "contents.refToArray",
                   "content.streamBoundary", "content.sharedStream", "resources.nameCollision",
                   "resources.shadow.deep", "fresh.aboveMax", "maxid.setObject", "counts.indirect", "delete.bookmark",
                   "resources.shadow.incremental"}

Out(d, res) == [doc |-> d, res |-> res]

\* flate only pays off (compressed + 19 < plain) on long, repetitive content; the model's and the
\* drivers' byte strings are either shorter than 32 bytes or runs of at least 64 equal bytes
Compressible(c) == Len(c) >= 64

\* creator.rs ----------------------------------------------------------------
ImplNewObjectId(d) == Out([d EXCEPT !.max_id = @ + 1], ResOk(d.max_id + 1))

ImplAddObject(d, o) ==
    Out([d EXCEPT !.max_id = @ + 1, !.objs = Put(@, d.max_id + 1, o)], ResOk(d.max_id + 1))

\* set_object / objects.insert; as repaired max_id follows a number stored above it
ImplReplace(d, id, o, dev) ==
    Out([d EXCEPT !.objs = Put(@, id, o), !.max_id = IF ~dev.setmax /\ id > @ THEN id ELSE @], ResOk(0))

\* remove_object: `?` leaves at the first page whose Annots is not a direct array
ImplRemoveAnnot(d, x) ==
    LET step(acc, p) ==
            IF ~acc.ok THEN acc
            ELSE LET tid == TargetId(acc.objs, Ref(p))
                     pg  == GetObj(acc.objs, p)
                     a   == IF pg.k = "dict" THEN Get(pg.v, "Annots") ELSE None
                 IN IF a.k # "arr" THEN [acc EXCEPT !.ok = FALSE]
                    ELSE [acc EXCEPT !.objs = Put(@, tid, DictO(Put(pg.v, "Annots",
                                                   ArrO(SelectSeq(a.v, LAMBDA e : ~IsRefTo(e, x))))))]
        r == FoldLeft(step, [ok |-> TRUE, objs |-> d.objs], PageSeq(d))
    IN Out([d EXCEPT !.objs = r.objs], IF r.ok THEN ResOk(0) ELSE ResErr)

\* processor.rs --------------------------------------------------------------
RemoveFirstRef(s, x) ==
    IF \E i \in 1..Len(s) : IsRefTo(s[i], x)
    THEN LET i == CHOOSE j \in 1..Len(s) : IsRefTo(s[j], x) /\ \A m \in 1..(j - 1) : ~IsRefTo(s[m], x)
         IN SubSeq(s, 1, i - 1) \o SubSeq(s, i + 1, Len(s))
    ELSE s

\* the `action` closure of delete_object applied by traverse_object: first to the node, then to
\* its (remaining) children
RECURSIVE Strip(_, _, _)
Strip(o, x, dev) ==
    CASE o.k = "arr"    -> LET a1 == IF dev.dup THEN RemoveFirstRef(o.v, x)
                                      ELSE SelectSeq(o.v, LAMBDA e : ~IsRefTo(e, x))
                           IN ArrO([i \in 1..Len(a1) |-> Strip(a1[i], x, dev)])
      [] o.k = "dict"   -> DictO([key \in {q \in DOMAIN o.v : ~IsRefTo(o.v[q], x)} |-> Strip(o.v[key], x, dev)])
      [] o.k = "stream" -> LET keep == IF dev.sdict THEN DOMAIN o.d ELSE {q \in DOMAIN o.d : ~IsRefTo(o.d[q], x)}
                           IN [o EXCEPT !.d = [key \in keep |-> Strip(o.d[key], x, dev)]]
      [] OTHER          -> o

\* delete_object: traverse_objects(action) from the trailer (the action is never applied to the
\* trailer dictionary itself), then objects.remove
DeleteRun(d, x, dev) ==
    LET st(o) == Strip(o, x, dev)
        keepT == IF dev.trailer THEN DOMAIN d.trailer ELSE {q \in DOMAIN d.trailer : ~IsRefTo(d.trailer[q], x)}
        tr1   == [key \in keepT |-> st(d.trailer[key])]
        RECURSIVE Visit(_, _)
        Visit(todo, seen) ==
            IF todo = {} THEN seen
            ELSE LET y   == CHOOSE z \in todo : TRUE
                     new == IF y \in DOMAIN d.objs THEN RefsOf(st(d.objs[y])) ELSE {}
                 IN Visit((todo \cup new) \ (seen \cup {y}), seen \cup {y})
        visited == Visit(RefsOf(DictO(tr1)), {})
        after(id) == IF id \in visited THEN st(d.objs[id]) ELSE d.objs[id]
    IN [doc     |-> [d EXCEPT !.objs = [id \in DOMAIN d.objs \ {x} |-> after(id)], !.trailer = tr1,
                              \* as repaired a pending bookmark on the object is sent to the never-used id (0, 65535)
                              !.bms = IF dev.bmstale THEN @ ELSE [i \in 1..Len(@) |-> IF @[i] = x THEN 0 ELSE @[i]]],
        removed |-> IF x \in DOMAIN d.objs THEN after(x) ELSE None]

ImplDeleteObject(d, x, dev) ==
    LET r == DeleteRun(d, x, dev) IN Out(r.doc, IF r.removed.k = "none" THEN ResErr ELSE ResOk(0))

\* delete_pages: the Parent chain of every deleted page is walked and each Count decremented
RECURSIVE DecCounts(_, _, _, _)
DecCounts(d, par, fuel, dev) ==
    IF par.k # "ref" \/ fuel = 0 THEN d
    ELSE IF par.n \in DOMAIN d.objs /\ d.objs[par.n].k = "dict"
         THEN LET t  == d.objs[par.n]
                  \* as_i64 on the entry itself: an indirect Count is skipped; as repaired it is read through the
                  \* reference and the decremented value stored directly
                  c  == IF dev.icount THEN Get(t.v, "Count") ELSE Target(d.objs, Get(t.v, "Count"))
                  t2 == IF c.k = "int" THEN DictO(Put(t.v, "Count", IntO(c.v - 1))) ELSE t
              IN DecCounts([d EXCEPT !.objs = Put(@, par.n, t2)], Get(t2.v, "Parent"), fuel - 1, dev)
         ELSE d

ImplDeletePages(d, nums, dev) ==
    LET pp == PageSeq(d)                                  \* get_pages(), taken once
        one(acc, num) ==
            IF num \notin 1..Len(pp) \/ pp[num] \notin DOMAIN acc.objs THEN acc
            ELSE LET r   == DeleteRun(acc, pp[num], dev)
                     par == IF r.removed.k = "dict" THEN Get(r.removed.v, "Parent") ELSE None
                 IN DecCounts(r.doc, par, Cardinality(DOMAIN r.doc.objs), dev)
    IN Out(FoldLeft(one, d, nums), ResOk(0))

ImplPrune(d) ==
    LET keep == Reach(d)
        gone == DOMAIN d.objs \ keep
    IN Out([d EXCEPT !.objs = [id \in keep |-> d.objs[id]]],
           [ok |-> TRUE, id |-> 0, ids |-> SetToSortSeq(gone, <)])

ImplCompress(d) ==
    Out([d EXCEPT !.objs = [id \in DOMAIN d.objs |->
            LET o == d.objs[id] IN
            IF o.k = "stream" /\ ~o.z /\ Compressible(o.c) THEN [o EXCEPT !.z = TRUE] ELSE o]], ResOk(0))

ImplDecompress(d) ==
    Out([d EXCEPT !.objs = [id \in DOMAIN d.objs |->
            LET o == d.objs[id] IN IF o.k = "stream" THEN [o EXCEPT !.z = FALSE] ELSE o]], ResOk(0))

\* change_content_stream: set_plain_content, then compress
ChangeStream(d, id, b) ==
    IF id \in DOMAIN d.objs /\ d.objs[id].k = "stream"
    THEN [d EXCEPT !.objs = Put(@, id, [d.objs[id] EXCEPT !.c = b, !.z = Compressible(b)])]
    ELSE d

ImplChangeContentStream(d, id, b) == Out(ChangeStream(d, id, b), ResOk(0))

NewStream(b) == StreamO(<<>>, b, FALSE)

\* the object a page id resolves to, for writing (get_object_mut)
PageSlot(d, p) == LET t == TargetId(d.objs, Ref(p)) IN IF t = 0 THEN p ELSE t

ImplChangePageContent(d, p, b, dev) ==
    LET pg == GetObj(d.objs, p)
        c  == IF pg.k = "dict" THEN Get(pg.v, "Contents") ELSE None
        \* as repaired, a reference to an array is read as that array
        c1 == IF ~dev.refarr /\ c.k = "ref" /\ Target(d.objs, c).k = "arr" THEN Target(d.objs, c) ELSE c
        \* as repaired, a stream that another page uses too is not rewritten in place
        inPlace(sid) == dev.shared \/ ~\E q \in PageSet(d) \ {p} : sid \in RangeOf(ContentIds(d.objs, q))
        fresh == LET new == d.max_id + 1
                     d1  == [d EXCEPT !.max_id = new, !.objs = Put(@, new, NewStream(b))]
                     s   == PageSlot(d1, p)
                 IN Out([d1 EXCEPT !.objs = Put(@, s, DictO(Put(d1.objs[s].v, "Contents", Ref(new))))], ResOk(0))
    IN IF c.k = "none" THEN Out(d, ResErr)
       ELSE IF c1.k = "ref" THEN (IF inPlace(c1.n) THEN Out(ChangeStream(d, c1.n, b), ResOk(0)) ELSE fresh)
       ELSE IF c1.k = "arr"
            THEN IF Len(c1.v) = 1
                 THEN (IF c1.v[1].k # "ref" THEN Out(d, ResOk(0))
                       ELSE IF inPlace(c1.v[1].n) THEN Out(ChangeStream(d, c1.v[1].n, b), ResOk(0)) ELSE fresh)
                 ELSE fresh
       ELSE Out(d, ResOk(0))

\* document.rs ---------------------------------------------------------------
ImplAddPageContents(d, p, b, dev) ==
    LET pg == GetObj(d.objs, p) IN
    IF pg.k # "dict" THEN Out(d, ResErr)
    ELSE LET c    == Get(pg.v, "Contents")
             list == IF c.k = "ref"
                     THEN (IF ~dev.refarr /\ Target(d.objs, c).k = "arr" THEN Target(d.objs, c).v ELSE <<c>>)
                     ELSE IF c.k = "arr" THEN c.v ELSE <<>>
             new  == d.max_id + 1
             d1   == [d EXCEPT !.max_id = new, !.objs = Put(@, new, NewStream(b))]
             s    == PageSlot(d1, p)
         IN Out([d1 EXCEPT !.objs = Put(@, s, DictO(Put(d1.objs[s].v, "Contents", ArrO(Append(list, Ref(new))))))],
                ResOk(0))

\* get_or_create_resources.  As repaired, a page without an own entry gets a copy of the
\* dictionary it inherits instead of an empty one.
ImplGetOrCreate(d, p, dev) ==
    LET pg == GetObj(d.objs, p) IN
    IF pg.k # "dict" THEN Out(d, ResErr)
    ELSE LET r == Get(pg.v, "Resources") IN
         IF r.k = "ref" THEN Out(d, IF Target(d.objs, r).k = "none" THEN ResErr ELSE ResOk(0))
         ELSE IF r.k # "none" THEN Out(d, ResOk(0))
         ELSE LET \* (`for _ in 0..128`: an entry InheritBound or more levels up is not found)
                  inh  == IF dev.deep /\ HolderLevel(d.objs, p) >= InheritBound THEN None ELSE EffRes(d.objs, p)
                  \* category dictionaries behind references are copied too (never write to a shared one)
                  own  == IF inh.k = "dict"
                          THEN DictO([cat \in DOMAIN inh.v |-> IF Target(d.objs, inh.v[cat]).k = "dict"
                                                               THEN Target(d.objs, inh.v[cat]) ELSE inh.v[cat]])
                          ELSE DictO(<<>>)
                  init == IF ~dev.shadow THEN own ELSE DictO(<<>>)
                  s    == PageSlot(d, p)
              IN Out([d EXCEPT !.objs = Put(@, s, DictO(Put(pg.v, "Resources", init)))], ResOk(0))

\* add_xobject (follow = TRUE: a category entry that is a reference is followed) and
\* add_graphics_state (follow = FALSE: as_dict_mut on the entry itself)
ImplAddRes(d, p, cat, name, x, follow, dev) ==
    LET g == ImplGetOrCreate(d, p, dev) IN
    IF ~g.res.ok THEN Out(g.doc, ResOk(0))           \* `if let Ok(resources) = ...` else nothing
    ELSE LET d1  == g.doc
             s   == PageSlot(d1, p)
             r   == Get(d1.objs[s].v, "Resources")
             loc == IF r.k = "ref" THEN TargetId(d1.objs, r) ELSE 0      \* 0: inline in the page
             rd  == IF loc = 0 THEN r ELSE d1.objs[loc]
             put(rv) == IF loc = 0 THEN [d1 EXCEPT !.objs = Put(@, s, DictO(Put(d1.objs[s].v, "Resources", DictO(rv))))]
                        ELSE [d1 EXCEPT !.objs = Put(@, loc, DictO(rv))]
         IN IF rd.k # "dict" THEN Out(d1, ResOk(0))
            ELSE LET rv1 == IF Has(rd.v, cat) THEN rd.v ELSE Put(rd.v, cat, DictO(<<>>))
                     e   == rv1[cat]
                 IN IF e.k = "dict" THEN Out(put(Put(rv1, cat, DictO(Put(e.v, name, Ref(x))))), ResOk(0))
                    ELSE IF e.k = "ref" /\ follow /\ ~(dev.incnow /\ dev.incxo) /\ Target(d1.objs, e).k = "dict"
                         THEN LET t == TargetId(d1.objs, e) IN
                              Out([d1 EXCEPT !.objs = Put(@, t, DictO(Put(d1.objs[t].v, name, Ref(x))))], ResOk(0))
                         ELSE Out(put(rv1), ResErr)

\* bookmarks.rs: flat bookmarks titled "B"; root, then (item, action) per bookmark above max_id
ImplBuildOutline(d) ==
    IF d.bms = <<>> THEN Out(d, ResOk(0))
    ELSE LET n    == Len(d.bms)
             root == d.max_id + 1
             item(i) == root + 2 * i - 1
             act(i)  == root + 2 * i
             zero == IntO(0)
             itemObj(i) ==
                 DictO([key \in {"A", "C", "F", "Parent", "Title"} \cup (IF i > 1 THEN {"Prev"} ELSE {})
                                 \cup (IF i < n THEN {"Next"} ELSE {}) |->
                        CASE key = "A" -> Ref(act(i))
                          [] key = "C" -> ArrO(<<zero, zero, zero>>)
                          [] key = "F" -> zero
                          [] key = "Parent" -> Ref(root)
                          [] key = "Title" -> StrO("B")
                          [] key = "Prev" -> Ref(item(i - 1))
                          [] key = "Next" -> Ref(item(i + 1))])
             \* (a bookmark without a page targets the never-used id (0, 65535), outside the projection's references)
             target(i) == IF d.bms[i] = 0 THEN [k |-> "refgen", v |-> "0 65535"] ELSE Ref(d.bms[i])
             actObj(i) == DictO([D |-> ArrO(<<target(i), NameO("Fit")>>), S |-> NameO("GoTo")])
             rootObj == DictO([Count |-> IntO(n), First |-> Ref(item(1)), Last |-> Ref(item(n))])
             new  == {root} \cup {item(i) : i \in 1..n} \cup {act(i) : i \in 1..n}
             obj(id) == IF id = root THEN rootObj
                        ELSE IF (id - root) % 2 = 1 THEN itemObj((id - root + 1) \div 2) ELSE actObj((id - root) \div 2)
         IN Out([d EXCEPT !.max_id = root + 2 * n,
                          !.objs = [id \in DOMAIN d.objs \cup new |-> IF id \in new THEN obj(id) ELSE d.objs[id]]],
                ResOk(root))

\* writer.rs: the loaded document's max_id is Size - 1, which counts the cross-reference stream
\* (max_id is first raised to the highest number in use: set_object does not maintain it)
SavedMax(d, fmt) == LET m == MaxOf({d.max_id} \cup DOMAIN d.objs) IN IF fmt = "stream" THEN m + 1 ELSE m
\* saving leaves the document as it was, but for that (whatever the cross-reference format; fix 6149d6f)
ImplSave(d, fmt) == Out([d EXCEPT !.max_id = MaxOf({d.max_id} \cup DOMAIN d.objs)], ResOk(0))
\* ... and loading the saved bytes gives the same objects; pending bookmarks are not part of a file
ImplSaveLoad(d, fmt) == Out([d EXCEPT !.max_id = SavedMax(d, fmt), !.bms = <<>>], ResOk(0))

\* renumber_objects_with(start), summarised (C10 transcribes it): pages take the page ids in page order, then
\* all ids become start..start+n-1 in id order; references are renamed in reachable objects only
RECURSIVE Rename(_, _)
Rename(o, f) ==
    CASE o.k = "ref"    -> IF o.n \in DOMAIN f THEN Ref(f[o.n]) ELSE o
      [] o.k = "arr"    -> ArrO([i \in 1..Len(o.v) |-> Rename(o.v[i], f)])
      [] o.k = "dict"   -> DictO([key \in DOMAIN o.v |-> Rename(o.v[key], f)])
      [] o.k = "stream" -> [o EXCEPT !.d = [key \in DOMAIN o.d |-> Rename(o.d[key], f)]]
      [] OTHER          -> o

ApplyRenaming(d, f) ==            \* f: a bijection on DOMAIN d.objs
    LET r   == Reach(d)
        inv == [nid \in {f[id] : id \in DOMAIN d.objs} |-> CHOOSE id \in DOMAIN d.objs : f[id] = nid]
    \* (the references of every object are rewritten, reachable or not; fix b512058)
    IN [d EXCEPT !.objs = [nid \in DOMAIN inv |-> Rename(d.objs[inv[nid]], f)],
                 !.trailer = Rename(DictO(d.trailer), f).v,
                 \* (a bookmark whose target names no object is sent to the never-used id (0, 65535): number 0)
                 !.bms = [i \in 1..Len(d.bms) |-> IF d.bms[i] \in DOMAIN f THEN f[d.bms[i]] ELSE 0]]

ImplRenumber(d, start) ==
    LET pp  == PageSeq(d)
        srt == SortSeq(pp, <)
        f1  == [id \in DOMAIN d.objs |-> IF id \in RangeOf(pp) THEN srt[IndexOf(pp, id)] ELSE id]
        d1  == IF pp = srt THEN d ELSE ApplyRenaming(d, f1)
        ids == SetToSortSeq(DOMAIN d1.objs, <)
        f2  == [id \in DOMAIN d1.objs |-> start + IndexOf(ids, id) - 1]
        d2  == ApplyRenaming(d1, f2)
    IN Out([d2 EXCEPT !.max_id = start + Len(ids) - 1], ResOk(0))

\* parser_aux.rs -------------------------------------------------------------
\* add_to_page_content: Content::encode, then add_page_contents
ImplAddToPageContent(d, p, ops, dev) == ImplAddPageContents(d, p, EncodeM(ops), dev)

\* the name for object number n: X<n>; as repaired the first X<m>, m >= n, the page cannot use yet
InsertName(d, p, n, dev) ==
    LET used == IF dev.deep /\ HolderLevel(d.objs, p) >= InheritBound THEN {}
                ELSE {t[2] : t \in {u \in ResTriples(d.objs, p) : u[1] = "XObject"}}
        free == {m \in n..(n + 8) : XName(m).s \notin used}
    IN IF dev.collide \/ free = {} THEN XName(n) ELSE XName(CHOOSE m \in free : \A k \in free : m <= k)

\* insert_image: add_object; add_xobject?; decode the page's content?; push q cm Do Q; change_page_content
\* (`?`: an error leaves here, with what was done so far)
ImplInsertImage(d, p, strm, nums, dev, old) ==
    LET a  == ImplAddObject(d, strm)
        nm == InsertName(a.doc, p, a.res.id, dev)
        x  == ImplAddRes(a.doc, p, "XObject", nm.s, a.res.id, TRUE, dev)
    IN IF ~x.res.ok THEN Out(x.doc, ResErr)
       ELSE IF old = Undec THEN Out(x.doc, ResErr)
            ELSE ImplChangePageContent(x.doc, p, EncodeM(old \o <<TokSave, TokCm(nums), TokDo(nm.b), TokRestore>>), dev)

\* insert_form_object: add_object; decode the page's content?; q old Q Do, encoded; add_xobject?; change_page_content
ImplInsertFormObject(d, p, strm, dev, old) ==
    LET a   == ImplAddObject(d, strm)
        nm  == InsertName(a.doc, p, a.res.id, dev)
    IN IF old = Undec THEN Out(a.doc, ResErr)
       ELSE LET x == ImplAddRes(a.doc, p, "XObject", nm.s, a.res.id, TRUE, dev) IN
            IF ~x.res.ok THEN Out(x.doc, ResErr)
            ELSE ImplChangePageContent(x.doc, p, EncodeM(<<TokSave>> \o old \o <<TokRestore, TokDo(nm.b)>>), dev)

\* what the model world observes of a document through decoding (O1 of Judge); c = the call just made
ObserveM(pre, c, post, B, dev) ==
    [ops |-> [q \in RangeOf(B.pp) |-> DecodeM(IF dev.boundary THEN PlainContent(post.objs, q) ELSE B.content[q])],
     xn  |-> IF ~IsInsert(c) THEN NoName
             ELSE LET ids  == {id \in DOMAIN post.objs : (id \notin DOMAIN pre.objs \/ pre.objs[id] # post.objs[id])
                                                         /\ post.objs[id] = c.o}
                      before == ResTriples(pre.objs, c.id)
                      names == {t[2] : t \in {u \in ResTriples(post.objs, c.id) :     \* (an entry the call made)
                                                  u[1] = "XObject" /\ u \notin before /\ \E id \in ids : u[3] = Ref(id)}}
                      hits == {m \in 1..(post.max_id + 8) : XName(m).s \in names}
                  IN IF hits = {} THEN NoName ELSE XName(CHOOSE m \in hits : \A k \in hits : m <= k)]

\* dispatch; dec = page id -> the operation sequence the decoder reads from the page's current content.
\* c.fmt = "inc": the resource call runs on an IncrementalDocument made from d (the objects it writes are merged back)
Impl(d, c, dev0, dec) ==
    LET dev == IF c.fmt = "inc" /\ IsResourceEdit(c) THEN [dev0 EXCEPT !.shadow = @ \/ dev0.incshadow, !.incnow = TRUE] ELSE dev0 IN
    CASE c.op = "NewObjectId"          -> ImplNewObjectId(d)
      [] c.op = "AddObject"            -> ImplAddObject(d, c.o)
      [] c.op = "Replace"              -> ImplReplace(d, c.id, c.o, dev)
      [] c.op = "DeleteObject"         -> ImplDeleteObject(d, c.id, dev)
      [] c.op = "RemoveAnnot"          -> ImplRemoveAnnot(d, c.id)
      [] c.op = "Prune"                -> ImplPrune(d)
      [] c.op = "DeletePages"          -> ImplDeletePages(d, c.nums, dev)
      [] c.op = "Renumber"             -> ImplRenumber(d, IF c.x = 0 THEN 1 ELSE c.x)
      [] c.op = "Compress"             -> ImplCompress(d)
      [] c.op = "Decompress"           -> ImplDecompress(d)
      [] c.op = "AddPageContents"      -> ImplAddPageContents(d, c.id, c.b, dev)
      [] c.op = "ChangePageContent"    -> ImplChangePageContent(d, c.id, c.b, dev)
      [] c.op = "ChangeContentStream"  -> ImplChangeContentStream(d, c.id, c.b)
      [] c.op = "GetOrCreateResources" -> ImplGetOrCreate(d, c.id, dev)
      [] c.op = "AddXObject"           -> ImplAddRes(d, c.id, "XObject", c.name, c.x, TRUE, dev)
      [] c.op = "AddGraphicsState"     -> ImplAddRes(d, c.id, "ExtGState", c.name, c.x, FALSE, dev)
      [] c.op = "BuildOutline"         -> ImplBuildOutline(d)
      [] c.op = "Save"                 -> ImplSave(d, c.fmt)
      [] c.op = "SaveLoad"             -> ImplSaveLoad(d, c.fmt)
      [] c.op = "AddToPageContent"     -> ImplAddToPageContent(d, c.id, c.ops, dev)
      [] c.op = "InsertImage"          -> ImplInsertImage(d, c.id, c.o, c.nums, dev, IF c.id \in DOMAIN dec THEN dec[c.id] ELSE Undec)
      [] c.op = "InsertFormObject"     -> ImplInsertFormObject(d, c.id, c.o, dev, IF c.id \in DOMAIN dec THEN dec[c.id] ELSE Undec)

\* Preconditions of the calls inside the property's domain (caller errors are excluded); A = Aux(d):
\*   every call     the document is sound so far (A.sound): no reachable reference to a missing
\*                  object, every content id names a stream (either is only ever broken by a step
\*                  already reported)
\*   Replace        any id (set_object also stores under a number nobody uses yet) that is
\*                  not a node of the page tree (the caller would own Counts and Parents) nor part
\*                  of a page's Contents (the caller would own the pages' content)
\*   DeleteObject   not the catalog or a node of the page tree (pages are deleted by delete_pages)
Pre(d, A, gh, c) ==
    /\ A.sound
    /\ CASE c.op = "Replace"      -> c.id > 0 /\ c.id \notin (A.prot \cup A.cobjs)
         [] c.op = "DeleteObject" -> c.id \notin A.prot
         [] OTHER                 -> TRUE
=============================================================================
