SPECIFICATION Spec
CONSTANTS
  MaxNest = 3
  Threads = {1, 2}
  Leak = TRUE
  MaxDisturb = 2
  Emit = FALSE
INVARIANTS Functional
CHECK_DEADLOCK FALSE
