--------------------------- MODULE MC_TextString ---------------------------
(* Exhaustive exploration of TextString for small constants.                                      *)
(*                                                                                                *)
(* A behaviour builds a case and then runs lopdf's decoder one step at a time (impl-shaped layer: *)
(* one action per public call / per loop iteration of decode_text_string):                        *)
(*   Pick*            choose a string of at most MaxLen scalars from Reps (class representatives) *)
(*   CallTextString   bytes := text_string(s)                     (mode "rt": the round trip)     *)
(*   MakeUtf8         bytes := EF BB BF + UTF-8(s)                (mode "u8")                     *)
(*   PickRaw          bytes := any string of at most RawLen bytes over RawAlphabet, or one of     *)
(*                    RawExtra                                    (mode "raw": byte level)        *)
(*   Dispatch         starts_with(FE FF) / starts_with(EF BB BF) / otherwise                      *)
(*   Chunk            one chunk of two bytes / one table byte / the from_utf8 call                *)
(*   Finish           String::from_utf16 / collect                                                *)
(* The declarative layer (EncOk, Dec) is evaluated as functions on the finished case.             *)
(* Dev is the set of confirmed deviations the impl-shaped layer is run with: AsIsDevs = "as the   *)
(* code is" (pdfdoc.c0 and utf8.bom.kept are repaired; every disagreement with the declarative    *)
(* layer must be classified by Sig), {} = "as repaired" (no disagreement at all).  The            *)
(* alternatives printed with a case are computed over AllDevs so that the check script can name    *)
(* a regression of a repaired deviation by its class.                                             *)
EXTENDS TextString, Json

CONSTANTS Reps, MaxLen, RawAlphabet, RawLen, RawExtra, Dev, Emit

VARIABLES pc, s, mode, bytes, br, pos, acc, res

vars == <<pc, s, mode, bytes, br, pos, acc, res>>

RawCases == UNION {[1..n -> RawAlphabet] : n \in 0..RawLen} \cup RawExtra

Init ==
    /\ pc = "pick" /\ s = <<>> /\ mode = "none" /\ bytes = <<>> /\ br = "none" /\ pos = 0 /\ acc = <<>>
    /\ res = Undef

Pick ==
    /\ pc = "pick" /\ Len(s) < MaxLen
    /\ \E c \in Reps : s' = Append(s, c)
    /\ UNCHANGED <<pc, mode, bytes, br, pos, acc, res>>

CallTextString ==
    /\ pc = "pick"
    /\ mode' = "rt" /\ bytes' = ImplEnc(s) /\ pc' = "dispatch"
    /\ UNCHANGED <<s, br, pos, acc, res>>

MakeUtf8 ==
    /\ pc = "pick"
    /\ mode' = "u8" /\ bytes' = Bom8 \o Utf8Str(s) /\ pc' = "dispatch"
    /\ UNCHANGED <<s, br, pos, acc, res>>

PickRaw ==
    /\ pc = "pick" /\ s = <<>>
    /\ \E r \in RawCases : bytes' = r
    /\ mode' = "raw" /\ pc' = "dispatch"
    /\ UNCHANGED <<s, br, pos, acc, res>>

Dispatch ==
    /\ pc = "dispatch"
    /\ br' = Branch(bytes)
    /\ pos' = CASE Branch(bytes) = "u16" -> 2
                [] Branch(bytes) = "u8"  -> IF "utf8.bom.kept" \in Dev THEN 0 ELSE 3
                [] OTHER -> 0
    /\ pc' = "loop"
    /\ UNCHANGED <<s, mode, bytes, acc, res>>

Chunk ==
    /\ pc = "loop" /\ pos < Len(bytes)
    /\ CASE br = "u16" -> /\ acc' = Append(acc, IF pos + 2 <= Len(bytes) THEN bytes[pos + 1] * 256 + bytes[pos + 2]
                                                ELSE bytes[pos + 1] * 256)
                          /\ pos' = IF pos + 2 <= Len(bytes) THEN pos + 2 ELSE Len(bytes)
         [] br = "tab" -> /\ acc' = acc \o ImplPdfDocCell(bytes[pos + 1], Dev)
                          /\ pos' = pos + 1
         [] br = "u8"  -> /\ acc' = SubSeq(bytes, pos + 1, Len(bytes))      \* handed to from_utf8 as one slice
                          /\ pos' = Len(bytes)
    /\ UNCHANGED <<pc, s, mode, bytes, br, res>>

Finish ==
    /\ pc = "loop" /\ pos >= Len(bytes)
    /\ res' = CASE br = "u16" -> FromUtf16(acc)
                [] br = "u8"  -> FromUtf8(acc)
                [] br = "tab" -> Def(acc)
    /\ pc' = "done"
    /\ UNCHANGED <<s, mode, bytes, br, pos, acc>>

Next == Pick \/ CallTextString \/ MakeUtf8 \/ PickRaw \/ Dispatch \/ Chunk \/ Finish

Spec == Init /\ [][Next]_vars

-----------------------------------------------------------------------------
(* constants for the configurations (cfg files cannot spell hexadecimal numbers) *)

\* one representative per scalar class
RepsQuick == {\h0A, \h01, \h1B, \h41, \h7F, \hE9, \h20AC, \hFEFF, \hFFFF, \h1F600}
\* the boundaries of every class, of the UTF-8 lengths and of the surrogate gap; string delimiters
RepsThorough == {\h00, \h09, \h0A, \h0D, \h17, \h18, \h1B, \h1F, \h20, \h28, \h5C, \h7E, \h7F, \h80, \hFF, \h100,
                 \h7FF, \h800, \hD7FF, \hE000, \hFDD0, \hFEFF, \hFFFE, \hFFFF, \h10000, \h1F600, \h10FFFF}
\* the bytes of both marks, a NUL, a letter, a high and a low surrogate lead byte
RawBytes == {\hFE, \hFF, \hEF, \hBB, \hBF, \h00, \h41, \hD8, \hDC}
NoDevs == {}
RawLong == {
    <<\hFE, \hFF, \hD8, \h3D, \hDE, \h00>>,                   \* U+1F600 as a surrogate pair
    <<\hFE, \hFF, \hD8, \h3D, \h00, \h41>>,                   \* high surrogate followed by a letter
    <<\hFE, \hFF, \hDE, \h00, \hD8, \h3D>>,                   \* pair in the wrong order
    <<\hFE, \hFF, \h00, \h41, \hD8, \h3D>>,                   \* truncated pair at the end
    <<\hFE, \hFF, \h00, \h41, \h00, \h42, \h00>>,             \* odd length
    <<\hFE, \hFF, \hFE, \hFF, \h00, \h41>>,                   \* mark followed by a mark
    <<\hFE, \hFF, \hFF, \hFE, \hFF, \hFF>>,                   \* noncharacters
    <<\hEF, \hBB, \hBF, \hF0, \h9F, \h98, \h80>>,             \* UTF-8 U+1F600
    <<\hEF, \hBB, \hBF, \hEF, \hBB, \hBF, \h41>>,             \* UTF-8 mark, then U+FEFF as text
    <<\hEF, \hBB, \hBF, \hC0, \h80>>,                         \* overlong
    <<\hEF, \hBB, \hBF, \hED, \hA0, \h80>>,                   \* surrogate in UTF-8
    <<\hEF, \hBB, \hBF, \hF4, \h90, \h80, \h80>>,             \* above U+10FFFF
    <<\hEF, \hBB, \hBF, \hE2, \h82>>,                         \* truncated sequence
    <<\hEF, \hBB, \hBF, \h80>>,                               \* stray continuation byte
    <<\hEF, \hBB, \hBF, \hC3, \hA9, \hE2, \h82, \hAC>>,       \* e-acute, Euro
    <<\h41, \hFE, \hFF, \h00, \h42>>,                         \* mark not at the start
    <<\h28, \h29, \h5C, \h7E, \h20>>,                         \* delimiters
    <<\hA0, \hE9, \hFF, \hA1>>,                               \* PDFDoc Latin-1 part, Euro
    <<\hFF, \hFE, \h41, \h00>> }                              \* little-endian mark is not a mark

-----------------------------------------------------------------------------
Done == pc = "done"

\* what the declarative layer expects the decoder to return for the finished case
Expected == IF mode \in {"rt", "u8"} THEN Def(s) ELSE Dec(bytes)

\* the confirmed deviations this case runs into
Sigs == CASE mode = "rt"  -> SigsRT(s, Dev)
          [] mode = "u8"  -> SigsDec(bytes, Dev)
          [] mode = "raw" -> SigsDec(bytes, Dev)
          [] OTHER -> {}

TypeOK == /\ IsString(s) /\ IsBytes(bytes)
          /\ res.def => IsString(res.s)

\* --- the design itself (declarative layer only): Dec inverts every admissible encoding
TextRT_Decl == Done =>
    /\ ~AllAscii(s) => (EncOk(s, EncCanon(s)) /\ Dec(EncCanon(s)) = Def(s))
    /\ (AllAscii(s) /\ \A i \in 1..Len(s) : s[i] \in Printable) => (EncOk(s, EncCanon(s)) /\ Dec(EncCanon(s)) = Def(s))
Utf8Too_Decl == Done => Dec(Bom8 \o Utf8Str(s)) = Def(s)
\* the two scalar encoders are each other's inverse of the strict decoders
Codecs_Decl == Done => FromUtf8(Utf8Str(s)) = Def(s) /\ FromUtf16(Units(Utf16BE(s))) = Def(s)

\* --- impl-shaped refines declarative
AsciiStays == (Done /\ mode = "rt") => EncOk(s, bytes)
\* the automaton run step by step is the function ImplDec
FunctionForm == Done => res = ImplDec(bytes, Dev)
\* TextRT / Utf8Too / byte level: wherever the declarative layer defines the result the impl-shaped
\* layer returns it, except in the classified deviation classes -- and there it really deviates.
Refines == Done => (Expected.def => ((res = Expected) <=> (Sigs = {})))
\* with every deviation repaired nothing is classified
Repaired == (Dev = {}) => (Done => Sigs = {})
\* the deviations of AllDevs (repaired ones included) this case lies in: the explanations offered to the check script
SigsAll == CASE mode = "rt"  -> SigsRT(s, AllDevs)
             [] mode = "u8"  -> SigsDec(bytes, AllDevs)
             [] mode = "raw" -> SigsDec(bytes, AllDevs)
             [] OTHER -> {}
\* each set of deviations predicts a different result, so an explanation is unique
Distinct == Done => \A a1, a2 \in Alternatives(bytes, SigsAll) : a1.impl = a2.impl => a1 = a2

EmitInv ==
    (Emit /\ Done) =>
        PrintT(<<"REPLAY", ToJson([mode |-> mode, s |-> s, bytes |-> bytes,
                                   encreq |-> EncReq(s),
                                   exp |-> Expected,
                                   impl |-> res,
                                   br |-> br,
                                   cls |-> [i \in 1..Len(s) |-> ClassOf(s[i])],
                                   alts |-> SetToSeq({[sigs |-> SetToSeq(a.sigs), impl |-> a.impl] :
                                                        a \in Alternatives(bytes, SigsAll)})])>>)
=============================================================================
