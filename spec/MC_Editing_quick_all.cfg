SPECIFICATION Spec
CONSTANTS
  Devs <- DevBoth
  Ops <- AllOps
  ByteStrings <- BytesQuick
  NumSeqs <- NumsQuick
  NewObjs <- MCNewObjs
  InheritBound <- MCInheritBound
  MaxDepth = 2
  Starts <- StartsQuick
  Allowed = {"resources.shadow.incremental"}
  Emit = TRUE
  EmitMod = 400
  EmitModV = 40
VIEW View
INVARIANTS Refines StartOk EmitViolations
CHECK_DEADLOCK FALSE
