SPECIFICATION Spec
CONSTANTS
  Devs <- DevBoth
  Ops <- OpsRes
  ByteStrings <- BytesQuick
  NumSeqs <- NumsThorough
  NewObjs <- MCNewObjs
  InheritBound <- MCInheritBound
  MaxDepth = 5
  Starts <- StartsRes
  Allowed = {"resources.shadow.incremental"}
  Emit = TRUE
  EmitMod = 1000
  EmitModV = 200
VIEW View
INVARIANTS Refines StartOk EmitViolations
CHECK_DEADLOCK FALSE
