SPECIFICATION Spec
CONSTANTS
  AlphA = {0, 1, 133, 255}
  MaxLenA = 5
  AlphZ = {0, 77, 255}
  MaxLenZ = 4
  BlockSizes = {1, 2, 3, 65535}
  AlphH = {0, 16, 62, 171, 255}
  MaxLenH = 3
  AlphL = {65, 66}
  MaxLenL = 6
  NLong = 3
  MaxCols = 2
  ColorSet = {1, 2}
  MaxRows = 2
  NData = 2
  ByteCube = {}
  Strat = {0, 1, 2, 3, 63, 64, 127, 128, 129, 191, 254, 255}
  StratRow = {0, 1, 127, 128, 255}
  MaxChain = 2
  PaethPlanes = 0
  Emit = TRUE
  DevAvg = FALSE
  DevArr = FALSE
  DevNul = FALSE
  DevInd = FALSE
  DevEncAvg = FALSE
  RowAlph = {0, 127, 128, 255}
  RowAlph3 = {}
  DevEmpty = FALSE
INVARIANTS DisturbFails RefinesInd RoundTrip EncoderShape Refines DevExplained PaethOK RowOK EmitInv
CHECK_DEADLOCK FALSE
