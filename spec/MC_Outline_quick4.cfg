SPECIFICATION Spec
CONSTANTS
  MaxB = 4
  NPs = {1}
  Titles <- TitleClasses
  Emit = TRUE
INVARIANTS RefinesForest RefinesAdjust RefinesFresh RefinesLinks RefinesCarries RefinesToc Verdict EmitInv
CHECK_DEADLOCK FALSE
