------------------------- MODULE Trace_ParallelLoad -------------------------
(* impl -> spec for C08: every record is one load of a file by the real loader:                 *)
(*   [file, kind \in {"base","pool","perm"}, res, hash, observed (container numbers in the order *)
(*    the workers delivered their blocks), containers (sorted), seqhash (digest of the load with   *)
(*    a lopdf built without rayon), order (forced order, kind = "perm")]                           *)
(* The model says: the delivered blocks are a permutation of the file's object streams (each     *)
(* handed in exactly once, ParallelLoad!Finish), and the merged document is the same for every   *)
(* order and equal to the sequential one (ParallelLoad!Deterministic).  The record stream is     *)
(* consumed statefully: the digest of the first load of each file is remembered.                 *)
EXTENDS Integers, Sequences, FiniteSets, Json, IOUtils, TLC

Recs == ndJsonDeserialize(IOEnv.TRACE)

VARIABLES l, file, first

IsPerm(obs, cs) == Len(obs) = Len(cs) /\ {obs[i] : i \in 1..Len(obs)} = {cs[i] : i \in 1..Len(cs)}

Set(sq) == {sq[i] : i \in 1..Len(sq)}

\* a load through a caller's filter (kind = "filtered"): the harness logs what the plain load of the same file says -
\* xr (pairs <<number, container or 0>> of the cross-reference table), pcontainers, uids (numbers loaded), ghosts -
\* and what the (pure) filter drops among them (dropset).  ParallelLoad!Finish with drop: only kept object streams hand a
\* block in; ParallelLoad!FilterRestricts: a listed object arrives exactly when the plain load has it and neither it nor
\* its container is dropped; the kept objects are those of the plain load (lhash = exphash, digests of the projection).
JudgeFiltered(rec, firsthash) ==
    LET D == Set(rec.dropset)
        kept == Set(rec.pcontainers) \ D
        uids == Set(rec.uids)
        ids == Set(rec.ids)
        exp(p) == p[1] \in uids /\ p[1] \notin D /\ (p[2] = 0 \/ p[2] \notin D)
    IN IF rec.res # "ok" THEN (IF rec.seqres = rec.res THEN "ok-both-fail" ELSE "result-differs-from-sequential")
       ELSE IF ~(Len(rec.observed) = Cardinality(kept) /\ Set(rec.observed) = kept) THEN "blocks-not-the-kept-containers"
       ELSE IF rec.hash # rec.seqhash THEN "differs-from-sequential"
       ELSE IF rec.hash # firsthash THEN "differs-between-loads"
       ELSE IF \E i \in 1..Len(rec.xr) : exp(rec.xr[i]) # (rec.xr[i][1] \in ids) THEN "filter-not-a-restriction"
       ELSE IF rec.lhash # rec.exphash THEN "filtered-content-differs-from-plain"
       ELSE IF D # {} THEN "ok-filtered-drop" ELSE "ok-filtered"

Judge(rec, firsthash) ==
    IF rec.kind = "filtered" THEN JudgeFiltered(rec, firsthash)
    ELSE IF rec.res # "ok" THEN (IF rec.seqres = rec.res THEN "ok-both-fail" ELSE "result-differs-from-sequential")
    ELSE IF ~IsPerm(rec.observed, rec.containers) THEN "blocks-not-a-permutation"
    ELSE IF rec.hash # rec.seqhash THEN "differs-from-sequential"
    ELSE IF rec.hash # firsthash THEN "differs-between-loads"
    ELSE IF rec.kind = "perm" /\ Len(rec.containers) >= 2 THEN "ok-forced-order" ELSE "ok"

Init == l = 1 /\ file = 0 - 1 /\ first = ""
Next ==
    /\ l <= Len(Recs)
    /\ LET rec == Recs[l]
           fh == IF rec.file = file THEN first ELSE rec.hash
       IN /\ PrintT(<<"VERDICT", ToJson([i |-> l, v |-> Judge(rec, fh)])>>)
          /\ file' = rec.file /\ first' = fh
    /\ l' = l + 1
Spec == Init /\ [][Next]_<<l, file, first>>
Consumed == TLCGet("stats").diameter = Len(Recs) + 1
=============================================================================
