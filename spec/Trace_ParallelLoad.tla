------------------------- MODULE Trace_ParallelLoad -------------------------
(* impl -> spec for C08: every record is one load of a file by the real loader:                 *)
(*   [file, kind \in {"base","pool","perm"}, res, hash, observed (container numbers in the order *)
(*    the workers delivered their blocks), containers (sorted), seqhash (digest of the load with   *)
(*    a lopdf built without rayon), order (forced order, kind = "perm")]                           *)
(* The model says: the delivered blocks are a permutation of the file's object streams (each     *)
(* handed in exactly once, ParallelLoad!Finish), and the merged document is the same for every   *)
(* order and equal to the sequential one (ParallelLoad!Deterministic).  The record stream is     *)
(* consumed statefully: the digest of the first load of each file is remembered.                 *)
EXTENDS Integers, Sequences, FiniteSets, Json, IOUtils, TLC

Recs == ndJsonDeserialize(IOEnv.TRACE)

VARIABLES l, file, first

IsPerm(obs, cs) == Len(obs) = Len(cs) /\ {obs[i] : i \in 1..Len(obs)} = {cs[i] : i \in 1..Len(cs)}

Judge(rec, firsthash) ==
    IF rec.res # "ok" THEN (IF rec.seqres = rec.res THEN "ok-both-fail" ELSE "result-differs-from-sequential")
    ELSE IF ~IsPerm(rec.observed, rec.containers) THEN "blocks-not-a-permutation"
    ELSE IF rec.hash # rec.seqhash THEN "differs-from-sequential"
    ELSE IF rec.hash # firsthash THEN "differs-between-loads"
    ELSE IF rec.kind = "perm" /\ Len(rec.containers) >= 2 THEN "ok-forced-order" ELSE "ok"

Init == l = 1 /\ file = 0 - 1 /\ first = ""
Next ==
    /\ l <= Len(Recs)
    /\ LET rec == Recs[l]
           fh == IF rec.file = file THEN first ELSE rec.hash
       IN /\ PrintT(<<"VERDICT", ToJson([i |-> l, v |-> Judge(rec, fh)])>>)
          /\ file' = rec.file /\ first' = fh
    /\ l' = l + 1
Spec == Init /\ [][Next]_<<l, file, first>>
Consumed == TLCGet("stats").diameter = Len(Recs) + 1
=============================================================================
