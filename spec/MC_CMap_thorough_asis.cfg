SPECIFICATION Spec
CONSTANTS
  Lens = {1, 2}
  NCodes = 3
  MaxDefs = 3
  Dev_h34 = FALSE
  Dev_h35 = FALSE
  Emit = TRUE
  KnownClasses = {}
  Rich = FALSE
  SingleRangeStr = FALSE
  Styles <- CanonOnly
  Dev_gram <- GramAsIs
  BaseVal <- BaseMid
INVARIANTS Refines RefinesExceptKnown SegmentationOK MapsOK DomainOK BuildForm EmitInv
CHECK_DEADLOCK FALSE
