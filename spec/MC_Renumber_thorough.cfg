SPECIFICATION Spec
CONSTANTS
  Layouts <- LayoutsThorough
  DangIds <- DangQuick
  Starts = {1, 2, 3, 5, 9}
  DevChain = TRUE
  DevDang = TRUE
  DevUnder = TRUE
  Allowed = {"ok", "bookmark.chain", "dangling.capture", "dangling.capture+bookmark.chain", "dangling.capture.pageorder", "dangling.capture.pageorder+bookmark.chain", "dangling.capture+dangling.capture.pageorder", "dangling.capture+dangling.capture.pageorder+bookmark.chain", "panic.empty0"}
  Emit = TRUE
  EmitMod = 8
INVARIANTS Refines Consistent FunctionForm RepairedRefines EmitInv
CHECK_DEADLOCK FALSE
