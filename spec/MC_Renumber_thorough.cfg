SPECIFICATION Spec
CONSTANTS
  Layouts <- LayoutsThorough
  DangIds <- DangQuick
  Starts = {1, 2, 3, 5, 9}
  DevChain = FALSE
  DevDang = FALSE
  DevUnder = FALSE
  DevDup = TRUE
  DevClash = TRUE
  DevBmDang = TRUE
  Allowed = {"ok", "pageorder.dupkids", "pageorder.numclash", "bookmark.dangling.capture"}
  Emit = TRUE
  EmitMod = 8
INVARIANTS Refines Consistent FunctionForm RepairedRefines EmitInv
CHECK_DEADLOCK FALSE
