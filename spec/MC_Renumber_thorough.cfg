SPECIFICATION Spec
CONSTANTS
  Layouts <- LayoutsThorough
  DangIds <- DangQuick
  Starts = {1, 2, 3, 5, 9}
  DevChain = FALSE
  DevDang = FALSE
  DevUnder = FALSE
  DevDup = FALSE
  DevClash = FALSE
  DevBmDang = FALSE
  DevReach = FALSE
  DevZero = FALSE
  DevFit = "none"
  Limit = 20
  Allowed = {"ok"}
  Emit = TRUE
  EmitMod = 8
INVARIANTS Refines Consistent FunctionForm RepairedRefines EmitInv
CHECK_DEADLOCK FALSE
