----------------------------- MODULE SecuritySys -----------------------------
(* The security life-cycle as a state machine: one action per public call of lopdf.           *)
(*   MakeState  EncryptionState::try_from(EncryptionVersion::V1 | V2 | V4 | R5 | V5 {..})      *)
(*   Encrypt    Document::encrypt(&state)                                                      *)
(*   Decrypt    Document::decrypt(pw)            AuthUser / AuthOwner / Auth                    *)
(*   Save       Document::save_to                Load   Document::load_mem (auto-decrypt)       *)
(*   Rekey      MakeState for another configuration (same passwords) on the unencrypted document *)
(*   Edit       the caller rewrites the strings / content of one object of the plain document  *)
(* The effect of each call is Security!Step (impl-shaped layer, switches Dev_x); next to the   *)
(* impl-shaped state the machine carries the judge state j of the declarative layer and the    *)
(* verdict Security!Judge gives for the call just made, computed from what can be observed of  *)
(* it (Security!Observe).  cfg is chosen by the initial condition and never changes.           *)
EXTENDS Security

VARIABLES cfg,             \* configuration incl. password facts (Security: "cfg = [V, R, ...]")
          doc,             \* 1..n -> object: the in-memory document
          trailerEncrypt,  \* 0, or the position of the object the trailer's /Encrypt refers to
          encObj,          \* content of the encryption dictionary, NoEnc if there is none
          encState,        \* the EncryptionState held by the caller, NoSt before MakeState
          disk,            \* NoDisk or the saved [objs, tenc, enc]
          lastCall,        \* [call, rel, tok]
          lastResult,      \* [ok, tag]
          j,               \* judge state [mem, disk]
          verdict          \* [ok, tags] of the last call

svars == <<cfg, doc, trailerEncrypt, encObj, encState, disk, lastCall, lastResult, j, verdict>>

Pack == [objs |-> doc, tenc |-> trailerEncrypt, enc |-> encObj, st |-> encState, disk |-> disk, res |-> lastResult]

NoRel == [u |-> "diff", o |-> "diff", ud |-> FALSE, od |-> FALSE, rep |-> TRUE]

SysInit(c, objs) ==
    /\ cfg = c
    /\ doc = objs
    /\ trailerEncrypt = 0 /\ encObj = NoEnc /\ encState = NoSt /\ disk = NoDisk
    /\ lastCall = [call |-> "-", rel |-> NoRel, tok |-> "", pos |-> 0]
    /\ lastResult = [ok |-> TRUE, tag |-> "-"]
    /\ j = J0
    /\ verdict = [ok |-> TRUE, tags |-> {"ok"}]

Apply(c) ==
    /\ Callable(Pack, c)
    /\ LET s == Pack
           cf == IF c.call = "Rekey" THEN c.cfg ELSE cfg      \* Rekey: MakeState with another configuration
           t == Step(cf, s, c)
           v == Judge(cf, j, Observe(s, t, c))
       IN /\ doc' = t.objs /\ trailerEncrypt' = t.tenc /\ encObj' = t.enc /\ encState' = t.st
          /\ disk' = t.disk /\ lastResult' = t.res
          /\ j' = v.j /\ verdict' = [ok |-> v.ok, tags |-> v.tags]
    /\ lastCall' = [call |-> c.call, rel |-> c.rel, tok |-> c.tok, pos |-> c.pos]
    /\ cfg' = IF c.call = "Rekey" THEN c.cfg ELSE cfg

Call(name, rel, tok) == [call |-> name, rel |-> rel, tok |-> tok, pos |-> 0]

MakeState        == Apply(Call("MakeState", NoRel, ""))
Encrypt          == Apply(Call("Encrypt", NoRel, ""))
Decrypt(rel, t)  == Apply(Call("Decrypt", rel, t))
AuthUser(rel, t) == Apply(Call("AuthUser", rel, t))
AuthOwner(rel, t) == Apply(Call("AuthOwner", rel, t))
Auth(rel, t)     == Apply(Call("Auth", rel, t))
Save             == Apply(Call("Save", NoRel, ""))
Load             == Apply(Call("Load", NoRel, ""))
Edit(pos)        == Apply([call |-> "Edit", rel |-> NoRel, tok |-> "", pos |-> pos])
Delete(pos)      == Apply([call |-> "Delete", rel |-> NoRel, tok |-> "", pos |-> pos])
Rekey(newcfg)    == Apply([call |-> "Rekey", rel |-> NoRel, tok |-> "", pos |-> 0, cfg |-> newcfg])
=============================================================================
