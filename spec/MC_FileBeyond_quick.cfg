SPECIFICATION MCSpec
CONSTANTS
  Emit = FALSE
  Ghosts = FALSE
  SepMode = "min"
  Which = {1, 2, 3}
  Beyond <- BeyondBoth
  Docs <- MCDocs
  EOLs <- OneEOL
  StreamKwEOLs <- OneEOL
  StreamEndEOLs <- OneEOL
  FinalEOLs <- OneEOL
  EntryEOLs <- OneEntryEOL
  MemberHdrSeps <- OneHdrSep
  MemberMidSeps <- OneMidSep
  ObjStmTails <- OneEmpty
  DictOrders <- OnlyFalse
  IntStyles <- OnlyPlain
  RealStyles <- OnlyPlain
  NameStyles <- OnlyMin
  LitStyles <- OnlyMin
  HexStyles <- NoStyle
ACTION_CONSTRAINT Canon
INVARIANTS RoundTrip ImplRefines
CHECK_DEADLOCK FALSE
