SPECIFICATION Spec
CONSTANTS
  Universe = "adj"
  Emit = FALSE
  SepMode = "content"
INVARIANTS RoundTrip EmitInv
CHECK_DEADLOCK FALSE
