SPECIFICATION Spec
CONSTANTS
  MaxSteps = 2
  DevAvg = FALSE
  DevArr = FALSE
  DevStale = TRUE
  DevEmpty = FALSE
  Disturbs = FALSE
  DevRows = FALSE
  DevInd = FALSE
  DevDocInd = FALSE
INVARIANTS LengthInv StepOKModKnown
CHECK_DEADLOCK FALSE
