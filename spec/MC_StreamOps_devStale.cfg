SPECIFICATION Spec
CONSTANTS
  MaxSteps = 2
  DevAvg = FALSE
  DevArr = FALSE
  DevStale = TRUE
INVARIANTS LengthInv StepOKModKnown
CHECK_DEADLOCK FALSE
