SPECIFICATION Spec
CONSTANTS
  Universe = "strs"
  Emit = FALSE
  SepMode = "contentfew"
INVARIANTS RoundTrip EmitInv
CHECK_DEADLOCK FALSE
