SPECIFICATION Spec
CONSTANTS
  Workers = {1, 2}
  Containers = {1, 2, 3}
  Nums = {4}
  DevFirstWins = FALSE
  HdrChoices <- HdrAll
  DevTieByCompletion = TRUE
  DeferU = {}
  DevStopAtFirstFailure = FALSE
  DropU = {}
  Emit = FALSE
INVARIANTS Deterministic
CHECK_DEADLOCK FALSE
