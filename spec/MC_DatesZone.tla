---------------------------- MODULE MC_DatesZone ----------------------------
(* C18, local zones with a rule and history: one behaviour = one process that converts a sequence   *)
(* of DateTime<Local> values (instants of a zone with a daylight-saving rule) to PDF date strings.  *)
(* Declarative: the string is LocalString(zone, instant) - a function of the instant and the rule,   *)
(* not of earlier calls.  Impl-shaped: ImplLocal carries the process state `cache`; with             *)
(* Dev_cache = TRUE (offset suffix rendered by the first call and reused) TLC must refute            *)
(* LocalRefines on any zone with two offsets, and cannot on a fixed zone (which is why one process   *)
(* per fixed-offset TZ can never see such a defect).                                                 *)
(* With Emit every complete sequence is printed as a ZSEQ line for replay into lopdf.               *)
EXTENDS Dates, TLC, Json

CONSTANTS Thorough, Dev_cache, OnlyFixed, Emit

VARIABLES zone, hist, cache, out
vars == <<zone, hist, cache, out>>

MaxSteps == 3

Z(std, dst, sm, sw, sd, st, em, ew, ed, et) ==
    [std |-> std, dst |-> dst, sm |-> sm, sw |-> sw, sd |-> sd, st |-> st, em |-> em, ew |-> ew, ed |-> ed, et |-> et]

RuleZones ==
    {Z(60, 120, 3, 5, 0, 7200, 10, 5, 0, 10800),        \* CET-1CEST,M3.5.0,M10.5.0/3          (northern)
     Z(-300, -240, 3, 2, 0, 7200, 11, 1, 0, 7200),      \* EST5EDT,M3.2.0,M11.1.0              (west of UTC)
     Z(600, 660, 10, 1, 0, 7200, 4, 1, 0, 10800),       \* AEST-10AEDT,M10.1.0,M4.1.0/3        (southern)
     Z(630, 660, 10, 1, 0, 7200, 4, 1, 0, 7200),        \* LHST-10:30LHDT-11,M10.1.0,M4.1.0    (half-hour shift)
     Z(-210, -150, 3, 2, 0, 60, 11, 1, 0, 60),          \* NST3:30NDT,M3.2.0/0:01,M11.1.0/0:01 (negative half hour)
     Z(765, 825, 9, 5, 0, 9900, 4, 1, 0, 13500)}        \* <+1245>-12:45<+1345>,M9.5.0/2:45,M4.1.0/3:45
FixedZones == {Z(90, 90, 3, 1, 0, 0, 10, 1, 0, 0)} \cup (IF Thorough \/ OnlyFixed THEN {Z(-480, -480, 3, 1, 0, 0, 10, 1, 0, 0)} ELSE {})

Zones == IF OnlyFixed THEN FixedZones ELSE RuleZones \cup FixedZones

Years == IF Thorough THEN {1970, 2024} ELSE {2024}

\* instants around both clock changes of each year, and mid-winter / mid-summer
Cand(z) ==
    UNION {LET s == ZoneStart(z, y)   e == ZoneEnd(z, y)
           IN {AddSec(s, -1), s, AddSec(e, -1), e,
               [day |-> DaysFromCivil(y, 1, 15), sod |-> 43200], [day |-> DaysFromCivil(y, 7, 15), sod |-> 43200]}
              \cup (IF Thorough THEN {AddSec(s, 3600), AddSec(e, 3600)} ELSE {})
           : y \in Years}

Init == zone \in Zones /\ hist = <<>> /\ cache = <<>> /\ out = <<>>

\* Object::from(DateTime<Local> for instant i) in the running process
Convert ==
    /\ Len(hist) < MaxSteps
    /\ \E i \in Cand(zone) :
          LET r == ImplLocal(zone, i, cache, Dev_cache)
          IN out' = r.out /\ cache' = r.cache /\ hist' = Append(hist, i)
    /\ UNCHANGED zone

Next == Convert
Spec == Init /\ [][Next]_vars

-----------------------------------------------------------------------------
Cur == hist[Len(hist)]

\* the produced string is the declarative one
LocalRefines == hist # <<>> => out = LocalString(zone, Cur)

\* ... which does not depend on what was converted before
HistoryFree == hist # <<>> => out = ImplLocal(zone, Cur, <<>>, Dev_cache).out

\* the rule evaluation itself: clocks change exactly at ZoneStart / ZoneEnd, the wall clock jumps from the rule's
\* time to that time plus the shift, and both offsets occur among the candidates of a rule zone
\* (a property of the zone alone: judged in the initial state of each zone)
ZoneSane ==
    hist = <<>> =>
    /\ \A i \in Cand(zone) : ZoneOffset(zone, i) \in {zone.std, zone.dst} /\ InDomain(i, ZoneOffset(zone, i))
    /\ zone.std # zone.dst =>
          \A y \in Years :
             LET s == ZoneStart(zone, y)   e == ZoneEnd(zone, y)
             IN /\ ZoneOffset(zone, AddSec(s, -1)) = zone.std /\ ZoneOffset(zone, s) = zone.dst
                /\ ZoneOffset(zone, AddSec(e, -1)) = zone.dst /\ ZoneOffset(zone, e) = zone.std
                /\ LocalOf(s, zone.std) = [day |-> RuleDay(y, zone.sm, zone.sw, zone.sd), sod |-> zone.st]
                /\ LocalOf(e, zone.dst) = [day |-> RuleDay(y, zone.em, zone.ew, zone.ed), sod |-> zone.et]
                /\ Weekday(RuleDay(y, zone.sm, zone.sw, zone.sd)) = zone.sd
                /\ CivilFromDays(RuleDay(y, zone.sm, zone.sw, zone.sd)).m = zone.sm
                /\ (zone.sw = 5 => CivilFromDays(RuleDay(y, zone.sm, zone.sw, zone.sd) + 7).m # zone.sm)

Off(k) == ZoneOffset(zone, hist[k])
Phase(k) == IF k = 1 THEN "first" ELSE IF Off(k) = Off(1) THEN "same" ELSE "changed"

EmitInv ==
    (Emit /\ Len(hist) = MaxSteps) =>
        PrintT(<<"ZSEQ", ToJson(
            [rule |-> zone,
             steps |-> [k \in 1..MaxSteps |->
                          [day |-> hist[k].day, sod |-> hist[k].sod, off |-> Off(k),
                           str |-> LocalString(zone, hist[k]),
                           phase |-> Phase(k), offclass |-> OffClass(Off(k))]]])>>)
=============================================================================
