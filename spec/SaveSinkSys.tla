---------------------------- MODULE SaveSinkSys ----------------------------
(***************************************************************************)
(* Writer || Sink as a state machine (impl-shaped layer of C19, byte level). *)
(*                                                                          *)
(* Writer = lopdf's save_internal seen from the sink side: a fixed sequence  *)
(* `prog` of buffers, one write_all(buf) per write site, through             *)
(* CountingWrite (src/writer.rs:517-533):                                    *)
(*      write_all(buf):  bytes_written += buf.len();  inner.write_all(buf)   *)
(* i.e. the counter is advanced by the WHOLE buffer BEFORE the sink sees any  *)
(* byte.  IncrementalDocument::save_internal has one site that bypasses the   *)
(* wrapper (`target.inner.write_all(prev); target.bytes_written += len`):     *)
(* raw1 = TRUE models it as call 1 (count after success).  At the start of    *)
(* every site the writer may read the counter for a cross-reference offset    *)
(* (write_indirect_object, xref_start): `offsets` records what it would read. *)
(* inner.write_all is std's documented loop over inner.write: one action per  *)
(* call (the Sink actions) and one per return (WLoop).                       *)
(*                                                                          *)
(* Sink = adversary: per call Accept(k) 1<=k<=Len(rest), Interrupted, Ok(0),  *)
(* Err.  After a failed save the same document is saved again to a healthy    *)
(* sink (attempt 2: only Accept(Len(rest))).                                 *)
(*                                                                          *)
(* Variant = "asis" is the code as it is.  The other variants are the         *)
(* mistakes C19 is meant to catch; each must violate a named property (model  *)
(* level negative controls, run by checks/c19.py).                           *)
(*                                                                          *)
(* DevIgnoredWrite = TRUE is the deviation "result of write ignored in path   *)
(* X": the sites in `xsites` (path X, e.g. the slow path of write_string for  *)
(* literal strings that need escaping) hand their buffer to ONE               *)
(* CountingWrite::write (which counts the accepted bytes only) and drop the    *)
(* returned count: a short write loses the rest of the buffer, Ok(0) is taken  *)
(* as "nothing written, fine", Interrupted comes back through `?`.  The        *)
(* counter stays equal to what the sink holds (CounterInv survives), yet TLC   *)
(* must refute Accounted, Accounting, ChunkFree, Prefix, ErrSurfaces and Retry *)
(* (checks/c19.py runs them one by one).  With FALSE xsites is empty.          *)
(*                                                                          *)
(* The writer's OWN state across saves: `doc` abstracts the part of the        *)
(* Document a save reads (max_id, trailer): 0 = as the caller left it.  The    *)
(* bytes of a save are a function of the document at its start: the last site  *)
(* (the cross-reference section: number of the cross-reference stream, Size,   *)
(* Index) is shifted by `doc` (Shift).  prog0 is what a fresh clone writes.    *)
(* C19's "later save of the same document" only makes sense if a save, failed  *)
(* or not, leaves the document as it was: DocUnchanged.  DevMutatesDoc = TRUE  *)
(* is the deviation "max_id and trailer mutated before the sink is known to    *)
(* be healthy" (writer.rs write_cross_reference_stream: `self.max_id += 1`,    *)
(* `self.trailer.set(..)` on entering the cross-reference section); TLC must   *)
(* refute DocUnchanged and Later under it.  After the first save (failed or    *)
(* successful) the same document is saved again to a sink that may chunk but   *)
(* does not fail (attempt 2).                                                 *)
(***************************************************************************)
EXTENDS SaveSink, TLC

CONSTANTS Variant,      \* "asis" | "count_accepted" | mutants, see WLoop
          MaxIntr,      \* bound on Interrupted answers per save
          KeepHist,     \* record the sink's call log (needed for REPLAY emission and AbstractionOK)
          DevIgnoredWrite, \* deviation switch: sites of path X use `write` and ignore its result
          DevMutatesDoc    \* deviation switch: the document is changed on entering the cross-reference section

VARIABLES prog,         \* the writer's program: sequence of buffers (sequences of byte values)
          raw1,         \* call 1 bypasses CountingWrite::write_all (incremental save, previous bytes)
          attempt,      \* 1 = save to the adversarial sink, 2 = the same document saved again (sink chunks, never fails)
          i,            \* index of the current / next write_all call
          rest,         \* write_all loop: part of prog[i] not yet accepted
          resp,         \* last response of the sink
          delivered,    \* bytes the sink accepted
          counter,      \* CountingWrite.bytes_written
          pc,           \* "call" | "sink" | "ret" | "done"
          result,       \* "none" | "ok" | "err"
          offsets,      \* counter values read at the start of each site
          failed,       \* the sink answered Ok(0)/Err in this attempt
          nintr,        \* Interrupted answers so far
          hist,         \* <<len, res>> per sink call of attempt 1 (if KeepHist)
          xsites,       \* indices of the sites on path X (empty unless DevIgnoredWrite)
          doc,          \* the writer's own state that outlives a save (max_id, trailer): number of mutations
          prog0         \* the program a fresh clone of the document writes (prog = Shift(prog0, doc at save start))

vars == <<prog, raw1, attempt, i, rest, resp, delivered, counter, pc, result, offsets, failed, nintr, hist, xsites, doc, prog0>>

Variants == {"asis", "count_accepted", "double_count", "single_write", "swallow_err", "retry_err",
             "ok0_retry", "intr_fatal", "counter_persist"}

Full == Flatten(prog)

\* what a save writes when the document has been mutated d times: the cross-reference section differs
Shift(p, d) == [k \in 1..Len(p) |-> IF k = Len(p) THEN [j \in 1..Len(p[k]) |-> p[k][j] + 100 * d] ELSE p[k]]

InitWith(p, r, xs) ==
    /\ prog = p /\ prog0 = p /\ doc = 0 /\ raw1 = r /\ xsites = xs /\ attempt = 1 /\ i = 1 /\ rest = <<>> /\ resp = 0
    /\ delivered = <<>> /\ counter = 0 /\ pc = "call" /\ result = "none" /\ offsets = <<>>
    /\ failed = FALSE /\ nintr = 0 /\ hist = <<>>

IsRaw(k) == raw1 /\ k = 1
IsX(k)   == k \in xsites /\ ~IsRaw(k)

-----------------------------------------------------------------------------
(* Writer *)

\* a write site: (read the counter,) CountingWrite::write_all(prog[i])
WCall ==
    /\ pc = "call" /\ i <= Len(prog) /\ result = "none"
    /\ offsets' = Append(offsets, counter)
    \* entering the cross-reference section (the last site)
    /\ doc' = IF DevMutatesDoc /\ i = Len(prog) THEN doc + 1 ELSE doc
    /\ counter' = IF IsRaw(i) \/ IsX(i) \/ Variant = "count_accepted" THEN counter ELSE counter + Len(prog[i])
    /\ rest' = prog[i]
    /\ IF prog[i] = <<>>                \* write_all(b"") never calls inner.write
       THEN i' = i + 1 /\ pc' = "call"
       ELSE i' = i /\ pc' = "sink"
    /\ UNCHANGED <<prog, raw1, attempt, resp, delivered, result, failed, nintr, hist, xsites, prog0>>

\* all sites done: save_internal returns Ok(())
WFinish ==
    /\ pc = "call" /\ i = Len(prog) + 1 /\ result = "none"
    /\ result' = "ok" /\ pc' = "done"
    /\ UNCHANGED <<prog, raw1, attempt, i, rest, resp, delivered, counter, offsets, failed, nintr, hist, xsites, doc, prog0>>

Abort == result' = "err" /\ pc' = "done" /\ UNCHANGED <<i, rest, counter>>

\* buffer i completely accepted: write_all returns Ok(()), next site
Completed(cnt) ==
    /\ i' = i + 1 /\ pc' = "call" /\ rest' = <<>>
    /\ counter' = IF IsRaw(i) THEN cnt + Len(prog[i]) ELSE cnt
    /\ UNCHANGED result

\* std::io::Write::write_all, one iteration: react to the sink's answer
WLoop ==
    /\ pc = "ret"
    /\ UNCHANGED <<prog, raw1, attempt, resp, delivered, offsets, failed, nintr, hist, xsites, doc, prog0>>
    /\ IF IsX(i) THEN
          \* path X under DevIgnoredWrite: `file.write(buf)?;` - one call, the returned count is dropped
          IF resp > 0 THEN Completed(counter + resp)        \* CountingWrite::write counted what was accepted
          ELSE IF resp = ROk0 THEN Completed(counter)       \* Ok(0): "0 bytes written, fine"
          ELSE Abort                                        \* Interrupted and Err alike come back through `?`
       ELSE IF resp > 0 THEN
          LET cnt == IF Variant \in {"count_accepted", "double_count"} /\ ~IsRaw(i) THEN counter + resp ELSE counter
              r2  == IF Variant = "single_write" THEN <<>> ELSE SubSeq(rest, resp + 1, Len(rest))
          IN IF r2 = <<>> THEN Completed(cnt)
             ELSE rest' = r2 /\ counter' = cnt /\ pc' = "sink" /\ UNCHANGED <<i, result>>
       ELSE IF resp = RIntr THEN
          IF Variant = "intr_fatal" THEN Abort
          ELSE pc' = "sink" /\ UNCHANGED <<i, rest, counter, result>>           \* retry the same buffer
       ELSE IF resp = ROk0 THEN
          IF Variant = "ok0_retry" THEN pc' = "sink" /\ UNCHANGED <<i, rest, counter, result>>
          ELSE Abort                                                            \* ErrorKind::WriteZero
       ELSE \* RErr
          IF Variant = "retry_err" THEN pc' = "sink" /\ UNCHANGED <<i, rest, counter, result>>
          ELSE IF Variant = "swallow_err" THEN Completed(counter)               \* a dropped `?`
          ELSE Abort

\* the same document is saved again (after a failed save: C19's "later save"; after a successful one: a
\* second sink fed from the same Document) to a sink that does not fail: a fresh CountingWrite, and the
\* bytes are those the document AS IT IS NOW gives
SaveAgain ==
    /\ pc = "done" /\ result \in {"ok", "err"} /\ attempt = 1
    /\ attempt' = 2 /\ i' = 1 /\ rest' = <<>> /\ delivered' = <<>> /\ pc' = "call" /\ result' = "none"
    /\ counter' = IF Variant = "counter_persist" THEN counter ELSE 0
    /\ offsets' = <<>> /\ failed' = FALSE
    /\ prog' = Shift(prog0, doc)
    /\ UNCHANGED <<raw1, resp, nintr, hist, xsites, doc, prog0>>

WriterNext == WCall \/ WFinish \/ WLoop \/ SaveAgain

-----------------------------------------------------------------------------
(* Sink *)

Respond(r) ==
    /\ pc = "sink"
    /\ resp' = r /\ pc' = "ret"
    /\ delivered' = IF r > 0 THEN delivered \o SubSeq(rest, 1, r) ELSE delivered
    /\ failed' = (failed \/ IsFailure(r))
    /\ hist' = IF KeepHist /\ attempt = 1 THEN Append(hist, <<Len(rest), r>>) ELSE hist
    /\ UNCHANGED <<prog, raw1, attempt, i, rest, counter, result, offsets, xsites, doc, prog0>>

SinkAccept == \E k \in 1..Len(rest) : Respond(k) /\ UNCHANGED nintr      \* attempt 2 may chunk, it never fails
SinkIntr   == attempt = 1 /\ nintr < MaxIntr /\ Respond(RIntr) /\ nintr' = nintr + 1
SinkOk0    == attempt = 1 /\ Respond(ROk0) /\ UNCHANGED nintr
SinkErr    == attempt = 1 /\ Respond(RErr) /\ UNCHANGED nintr

SinkNext == SinkAccept \/ SinkIntr \/ SinkOk0 \/ SinkErr

-----------------------------------------------------------------------------
(* Properties (C19).  Declarative: Prefix, ChunkFree, ErrSurfaces, NoSpurious, Retry, Later,     *)
(* Refines.  Impl-shaped: CounterInv, AbstractionOK.                                             *)

TypeOK ==
    /\ pc \in {"call", "sink", "ret", "done"} /\ result \in {"none", "ok", "err"}
    /\ attempt \in {1, 2} /\ i \in 1..(Len(prog) + 1) /\ counter \in Nat /\ nintr \in 0..MaxIntr
    /\ failed \in BOOLEAN /\ raw1 \in BOOLEAN /\ xsites \subseteq 1..Len(prog)
    /\ (DevIgnoredWrite \/ xsites = {}) /\ doc \in Nat /\ (DevMutatesDoc \/ doc = 0)

\* The writer-side contract of the inner.write protocol: every byte handed to the sink is accounted for.
\* The result of each write is consumed: after Ok(k) with k < Len(rest) the writer advances by exactly k and
\* presents the remaining bytes again; after Ok(k) with the whole rest accepted it moves to the next site;
\* Interrupted is retried with the same bytes; Ok(0) (ErrorKind::WriteZero) and Err end the save with an error.
Accounted == [][ pc = "ret" =>
    IF resp > 0 THEN
        IF resp < Len(rest)
        THEN rest' = SubSeq(rest, resp + 1, Len(rest)) /\ pc' = "sink" /\ i' = i /\ result' = result
        ELSE i' = i + 1 /\ pc' = "call" /\ result' = result
    ELSE IF resp = RIntr THEN rest' = rest /\ pc' = "sink" /\ i' = i /\ result' = result
    ELSE result' = "err" /\ pc' = "done" ]_vars

\* ... as a state invariant: until the save has failed, what the sink holds followed by what the writer
\* still owes is the complete output - nothing is lost, duplicated or reordered
LaterSites(k) == Flatten(SubSeq(prog, k, Len(prog)))
Owed == IF pc = "sink" THEN rest \o LaterSites(i + 1)
        ELSE IF pc = "ret" THEN (IF resp > 0 THEN SubSeq(rest, resp + 1, Len(rest)) ELSE rest) \o LaterSites(i + 1)
        ELSE LaterSites(i)
Accounting == result # "err" => delivered \o Owed = Full

\* at every state: what the sink holds is a prefix of the complete output
Prefix == IsPrefix(delivered, Full)

\* success means the complete output, the counter agrees with the sink, and every offset the
\* writer read is the true position of its site
ChunkFree == result = "ok" =>
    /\ delivered = Full
    /\ counter = Len(delivered)
    /\ offsets = OffsetsOf(prog)

\* a failure of the sink is never answered by success
ErrSurfaces == (pc = "done" /\ failed) => result = "err"
\* ... and always by an error, eventually (needs fairness of the writer)
ErrSurfacesLive == [](failed => <>(result = "err"))

\* chunking and Interrupted alone never make the save fail
NoSpurious == (pc = "done" /\ ~failed) => result = "ok"

\* Interrupted is transparent: the answer changes nothing, and the loop presents the same buffer again
Retry == [][ (pc = "ret" /\ resp = RIntr) =>
               (delivered' = delivered /\ result' = result /\ rest' = rest /\ counter' = counter /\ pc' = "sink") ]_vars
RetrySink == [][ (pc = "sink" /\ resp' = RIntr /\ pc' = "ret") => (delivered' = delivered /\ result' = result) ]_vars

\* the later save (and a second save after a successful one) succeeds with the complete output and correct offsets
\* ... STRICTLY: it is the save of a fresh clone (prog0), whatever happened in the first save
Later == (attempt = 2 /\ pc = "done") =>
    /\ result = "ok" /\ delivered = Flatten(prog0) /\ counter = Len(delivered) /\ offsets = OffsetsOf(prog0)

\* a save, failed or not, leaves the document as it was
DocUnchanged == [][doc' = doc]_vars

\* the per-save verdict function used by the trace validator agrees with the state-level properties
ObsNow == [failed |-> failed, nintr |-> nintr, result |-> result, dlen |-> Len(delivered),
           isprefix |-> IsPrefix(delivered, Full), n |-> Len(Full)]
Refines == (pc = "done" /\ attempt = 1) =>
    Verdict(ObsNow, GoodLater) = "ok"

\* impl-shaped: between sites the counter equals what the sink holds (that is why offsets are right)
CounterInv == (pc = "call" /\ result = "none") => counter = Len(delivered)

\* LStep/LRun (SaveSink) is the exact length projection of this machine
AbstractionOK ==
    (KeepHist /\ attempt = 1 /\ pc \in {"call", "sink", "done"}) =>
        LET s == LRun([k \in 1..Len(prog) |-> Len(prog[k])], 0, 0, hist)
        IN  /\ ~s.drift /\ ~s.bad
            /\ s.dlen = Len(delivered) /\ s.failed = failed /\ s.nintr = nintr
            /\ (pc = "sink" => \/ (s.rest > 0 /\ s.rest = Len(rest) /\ s.i = i)
                              \/ (s.rest = 0 /\ rest = prog[i] /\ NextBuf(s.W, s.i) = i))
            /\ (pc = "call" => s.rest = 0)
            /\ (pc = "done" => (s.stopped <=> result = "err") /\ (result = "ok" => LComplete(s)))
=============================================================================
