SPECIFICATION Spec
CONSTANTS
  MaxB = 2
  NPs = {1}
  MaxPost = 1
  Reserve = FALSE
  Titles <- TitleClasses
  Emit = FALSE
PROPERTIES Reserved
CHECK_DEADLOCK FALSE
