-------------------------------- MODULE CMap --------------------------------
(***************************************************************************)
(* ToUnicode CMaps (property C15).                                          *)
(*                                                                          *)
(* Two layers (DESIGN 2.9):                                                 *)
(*  - declarative: a CMap is a sequence of definitions; Lookup(defs,len,c)  *)
(*    is the target of the LAST definition covering (len, c); a string      *)
(*    target gets the offset within the range added to its last UTF-16      *)
(*    unit, an array target is indexed by the offset; Text joins surrogate  *)
(*    pairs.  Only this layer decides.  Class(..) names the input class of  *)
(*    a code (used for narrow finding signatures).                          *)
(*  - impl-shaped: lopdf's ToUnicodeCMap transcribed: one interval map per  *)
(*    code length with the semantics of rangemap::RangeInclusiveMap::insert *)
(*    (overwrite the overlap, split what remains of older ranges, coalesce  *)
(*    touching ranges whose values are equal), the stored target forms of   *)
(*    from_sections/put_char (UTF16CodePoint{offset}, HexString,            *)
(*    ArrayOfHexStrings), `get`, and the segmentation loop of               *)
(*    Encoding::bytes_to_string.  The parameter dev = [h34, h35] switches   *)
(*    the two deviations that were confirmed and then repaired in lopdf      *)
(*    (fix: 3c7db25) back on; off = the code as it is (StoredTarget: the     *)
(*    stored value remembers the first code of its definition):             *)
(*      h34  get computes the offset from the start of the STORED range,    *)
(*           which moves when the head of the range is overwritten;         *)
(*      h35  HexString/Array values carry no base, so touching ranges with  *)
(*           equal targets coalesce into one range with one base.           *)
(*                                                                          *)
(* A definition is [kind, len, lo, hi, t]: kind "char" (bfchar) or "range"  *)
(* (bfrange); t = Str(units) or Arr(<<units, ...>>).  Codes are integers;   *)
(* the declarative layer only compares and subtracts them, so any order-    *)
(* and difference-preserving representation may be used (Trace_CMap shifts  *)
(* 4-byte codes by -2^31 because TLC integers are 32 bit).                  *)
(***************************************************************************)
EXTENDS Integers, Sequences, FiniteSets, SequencesExt, TLC

Str(us) == [k |-> "str", u |-> us, a |-> <<>>]
Arr(aa) == [k |-> "array", u |-> <<>>, a |-> aa]
MkDef(kind, len, lo, hi, t) == [kind |-> kind, len |-> len, lo |-> lo, hi |-> hi, t |-> t]

MaxOf(S) == CHOOSE x \in S : \A y \in S : y <= x
MinOf(S) == CHOOSE x \in S : \A y \in S : x <= y

-----------------------------------------------------------------------------
(* Declarative layer *)

Covers(d, len, code) == d.len = len /\ d.lo <= code /\ code <= d.hi
CoveringIdx(defs, len, code) == {i \in 1..Len(defs) : Covers(defs[i], len, code)}
Covered(defs, len, code) == CoveringIdx(defs, len, code) # {}
WinnerIdx(defs, len, code) == MaxOf(CoveringIdx(defs, len, code))      \* the last definition wins

AddLast(us, off) == [us EXCEPT ![Len(us)] = @ + off]

\* what definition d says about a code it covers
TargetAt(d, code) ==
    IF d.t.k = "array" THEN d.t.a[code - d.lo + 1] ELSE AddLast(d.t.u, code - d.lo)

Lookup(defs, len, code) == TargetAt(defs[WinnerIdx(defs, len, code)], code)

\* UTF-16 units -> characters (code points); an unpaired surrogate becomes U+FFFD as in any
\* lossy UTF-16 decoder (never happens inside the property's domain, see WFStr)
IsHiSur(u) == 55296 <= u /\ u <= 56319
IsLoSur(u) == 56320 <= u /\ u <= 57343
TextStep(acc, u) ==
    IF acc.pend >= 0
    THEN IF IsLoSur(u)
         THEN [out |-> Append(acc.out, 65536 + (acc.pend - 55296) * 1024 + (u - 56320)), pend |-> -1, bad |-> acc.bad]
         ELSE IF IsHiSur(u) THEN [out |-> Append(acc.out, 65533), pend |-> u, bad |-> acc.bad + 1]
         ELSE [out |-> acc.out \o <<65533, u>>, pend |-> -1, bad |-> acc.bad + 1]
    ELSE IF IsHiSur(u) THEN [acc EXCEPT !.pend = u]
         ELSE IF IsLoSur(u) THEN [out |-> Append(acc.out, 65533), pend |-> -1, bad |-> acc.bad + 1]
         ELSE [acc EXCEPT !.out = Append(@, u)]
TextAcc(units) == FoldLeft(TextStep, [out |-> <<>>, pend |-> -1, bad |-> 0], units)
Text(units) == LET r == TextAcc(units) IN IF r.pend >= 0 THEN Append(r.out, 65533) ELSE r.out
Paired(units) == LET r == TextAcc(units) IN r.pend < 0 /\ r.bad = 0

\* codes: sequence of <<len, code>>, every one covered
Units(defs, codes) == FoldLeft(LAMBDA acc, c : acc \o Lookup(defs, c[1], c[2]), <<>>, codes)
Decode(defs, codes) == Text(Units(defs, codes))

\* The domain of the property: well-formed definitions.  A string target of a range must stay a
\* valid UTF-16 string for every offset (no u16 overflow, no drift into or out of the surrogates).
WFStr(us, ext) ==
    /\ Len(us) >= 1
    /\ \A i \in 1..Len(us) : 0 <= us[i] /\ us[i] <= 65535
    /\ Paired(us)
    /\ LET l == us[Len(us)] IN
         IF IsLoSur(l) THEN l + ext <= 57343
         ELSE IF l < 55296 THEN l + ext < 55296
         ELSE l + ext <= 65535
WFDef(d) ==
    /\ d.len \in 1..4 /\ d.lo <= d.hi
    /\ d.kind \in {"char", "range"}
    /\ d.kind = "char" => (d.lo = d.hi /\ d.t.k = "str")
    /\ IF d.t.k = "str" THEN WFStr(d.t.u, d.hi - d.lo)
       ELSE /\ d.t.k = "array" /\ Len(d.t.a) = d.hi - d.lo + 1
            /\ \A i \in 1..Len(d.t.a) : WFStr(d.t.a[i], 0)
WellFormed(defs) == \A i \in 1..Len(defs) : WFDef(defs[i])

\* Input class of (len, code), computed from the definitions only.  kind of the winning target
\* (a one-element array is the same thing as its element), then
\*   split    - a later definition overwrote some code of the winner's range below `code`
\*   coalesce - another definition with an equal multi-unit/array target touches or overlaps the winner
\*   plain    - neither
LeSucc(a, b) == a <= b \/ (b # 2147483647 /\ a = b + 1)       \* a <= b + 1 without leaving TLC's integers
NormT(t) == IF t.k = "array" /\ Len(t.a) = 1 THEN Str(t.a[1]) ELSE t
KindT(t) == LET n == NormT(t) IN IF n.k = "array" THEN "array" ELSE IF Len(n.u) = 1 THEN "single" ELSE "multi"
ClassAt(defs, w, len, code) ==          \* w = WinnerIdx(defs, len, code)
    LET W == defs[w]
        laterBelow == \E j \in (w + 1)..Len(defs) :
                         defs[j].len = len /\ defs[j].lo < code /\ defs[j].hi >= W.lo
        eqTouch == /\ KindT(W.t) # "single"
                   /\ \E j \in 1..Len(defs) : /\ j # w /\ defs[j].len = len
                                              /\ LeSucc(defs[j].lo, W.hi) /\ LeSucc(W.lo, defs[j].hi)
                                              /\ NormT(defs[j].t) = NormT(W.t)
    IN KindT(W.t) \o (IF laterBelow THEN ".split" ELSE IF eqTouch THEN ".coalesce" ELSE ".plain")
Class(defs, len, code) == ClassAt(defs, WinnerIdx(defs, len, code), len, code)

\* The decoded UTF-16 string starts with something a BOM-sniffing decoder takes for a byte order mark:
\* U+FEFF (ZERO WIDTH NO-BREAK SPACE), U+FFFE, or the bytes EF BB BF (U+EFBB then a unit BFxx).
BomStart(us) ==
    /\ Len(us) >= 1
    /\ \/ us[1] = 65279 \/ us[1] = 65534
       \/ (us[1] = 61371 /\ Len(us) >= 2 /\ us[2] \div 256 = 191)

\* class of one decoded code: interval class, plus the text class when the target looks like a BOM
CaseClassAt(defs, w, len, code) ==
    ClassAt(defs, w, len, code) \o (IF BomStart(TargetAt(defs[w], code)) THEN "+text.bom" ELSE "")
CaseClass(defs, len, code) == CaseClassAt(defs, WinnerIdx(defs, len, code), len, code)

-----------------------------------------------------------------------------
(* Code bytes (codes of length <= 3 are their numeric value in this part) *)

Pow256(n) == IF n = 0 THEN 1 ELSE IF n = 1 THEN 256 ELSE IF n = 2 THEN 65536 ELSE 16777216
BytesOf(len, code) == [i \in 1..len |-> (code \div Pow256(len - i)) % 256]
PrefixOf(len, code, m) == code \div Pow256(len - m)          \* first m bytes of a code of length len

\* no mapped code is a proper prefix of another mapped code (the codespace ranges of a
\* well-formed CMap are prefix-free, and mapped codes lie inside them)
PrefixFree(defs) ==
    \A i, j \in 1..Len(defs) : defs[j].len < defs[i].len =>
        LET m == defs[j].len IN
        ~(PrefixOf(defs[i].len, defs[i].lo, m) <= defs[j].hi /\ defs[j].lo <= PrefixOf(defs[i].len, defs[i].hi, m))

-----------------------------------------------------------------------------
(* Producer: the CMap program text of a definition sequence (used by MC_CMap to emit replay cases).
   style = [lower: hex digits a-f, sp: separator between tokens, nl: line end, usp: blank between
   the UTF-16 units of a target, head: 1..3 header variant]; sections are maximal runs of one kind,
   cut after 100 entries. *)

HexU == <<"0","1","2","3","4","5","6","7","8","9","A","B","C","D","E","F">>
HexL == <<"0","1","2","3","4","5","6","7","8","9","a","b","c","d","e","f">>
H2(b, st) == LET T == IF st.lower THEN HexL ELSE HexU IN T[(b \div 16) + 1] \o T[(b % 16) + 1]
CodeTok(len, code, st) == "<" \o FoldLeft(LAMBDA s, b : s \o H2(b, st), "", BytesOf(len, code)) \o ">"
UnitsTok(us, st) ==
    "<" \o FoldLeft(LAMBDA s, i : s \o (IF i > 1 /\ st.usp THEN " " ELSE "") \o H2(us[i] \div 256, st) \o H2(us[i] % 256, st),
                    "", [i \in 1..Len(us) |-> i]) \o ">"
ArrTok(aa, st) ==
    "[" \o FoldLeft(LAMBDA s, i : s \o (IF i > 1 THEN " " ELSE "") \o UnitsTok(aa[i], st), "", [i \in 1..Len(aa) |-> i]) \o "]"
EntryText(d, st) ==
    IF d.kind = "char"
    THEN CodeTok(d.len, d.lo, st) \o st.sp \o UnitsTok(d.t.u, st) \o st.nl
    ELSE CodeTok(d.len, d.lo, st) \o st.sp \o CodeTok(d.len, d.hi, st) \o st.sp
         \o (IF d.t.k = "str" THEN UnitsTok(d.t.u, st) ELSE ArrTok(d.t.a, st)) \o st.nl

SectionText(kind, n, body, st) ==
    IF n = 0 THEN "" ELSE ToString(n) \o " beginbf" \o kind \o st.nl \o body \o "endbf" \o kind \o st.nl
SectStep(st, acc, d) ==
    IF acc.n > 0 /\ (acc.kind # d.kind \/ acc.n = 100)
    THEN [txt |-> acc.txt \o SectionText(acc.kind, acc.n, acc.body, st), kind |-> d.kind, n |-> 1, body |-> EntryText(d, st)]
    ELSE [acc EXCEPT !.kind = d.kind, !.n = @ + 1, !.body = @ \o EntryText(d, st)]
SectionsText(defs, st) ==
    LET r == FoldLeft(LAMBDA acc, d : SectStep(st, acc, d), [txt |-> "", kind |-> "char", n |-> 0, body |-> ""], defs)
    IN r.txt \o SectionText(r.kind, r.n, r.body, st)

\* cs: sequence of <<len, lo, hi>> codespace ranges
Program(defs, cs, st) ==
    (CASE st.head = 1 -> "/CIDInit /ProcSet findresource begin" \o st.nl
       [] st.head = 2 -> "%!PS-Adobe-3.0 Resource-CMap\n/CIDInit/Procset findresource begin" \o st.nl
       [] OTHER       -> "\n /CIDInit\t/ProcSet  findresource\tbegin \n")
    \o "12 dict begin" \o st.nl \o "begincmap" \o st.nl
    \o (IF st.head = 2 THEN "/CMapType 2 def\n/CMapName /Adobe-Identity-UCS def\n"
        ELSE "/CIDSystemInfo << /Registry (Adobe) /Ordering (UCS) /Supplement 0 >> def" \o st.nl
             \o "/CMapName /Adobe-Identity-UCS def" \o st.nl \o "/CMapType 2 def" \o st.nl)
    \o ToString(Len(cs)) \o " begincodespacerange" \o st.nl
    \o FoldLeft(LAMBDA s, r : s \o CodeTok(r[1], r[2], st) \o st.sp \o CodeTok(r[1], r[3], st) \o st.nl, "", cs)
    \o "endcodespacerange" \o st.nl
    \o SectionsText(defs, st)
    \o "endcmap" \o st.nl \o "CMapName currentdict /CMap defineresource pop" \o st.nl \o "end" \o st.nl \o "end" \o st.nl

-----------------------------------------------------------------------------
(* Impl-shaped layer: ToUnicodeCMap { bf_ranges: [RangeInclusiveMap<u32, BfRangeTarget>; 4] } *)

\* StoredTarget { base, target: BfRangeTarget }.  `base` came with the repair (fix: 3c7db25); under h35 (the old
\* defect) it is the constant 0.
CpVal(off)      == [k |-> "cp",  off |-> off, u |-> <<>>, a |-> <<>>, base |-> 0]
HexVal(us, b)   == [k |-> "hex", off |-> 0,   u |-> us,   a |-> <<>>, base |-> b]
ArrVal(aa, b)   == [k |-> "arr", off |-> 0,   u |-> <<>>, a |-> aa,   base |-> b]
BaseOf(dev, lo) == IF dev.h35 THEN 0 ELSE lo

\* from_sections / put_char: which stored form a definition gets.  The offset of UTF16CodePoint is
\* u32::wrapping_sub(target, start); for codes < 2^24 equality mod 2^32 is integer equality.
StoredOf(dev, d) ==
    LET dst == IF d.t.k = "str" THEN <<d.t.u>> ELSE d.t.a IN
    IF d.kind = "char"
    THEN IF Len(d.t.u) = 1 THEN CpVal(d.t.u[1] - d.lo) ELSE HexVal(d.t.u, BaseOf(dev, d.lo))
    ELSE IF Len(dst) = 1 /\ Len(dst[1]) = 1 THEN CpVal(dst[1][1] - d.lo)
    ELSE IF Len(dst) = 1 THEN HexVal(dst[1], BaseOf(dev, d.lo))
    ELSE ArrVal(dst, BaseOf(dev, d.lo))

\* An interval map is a set of entries [lo, hi, v] with disjoint ranges (BTreeMap keyed by start).
Touches(e, lo, hi)  == e.hi + 1 >= lo /\ e.lo <= hi + 1
Overlaps(e, lo, hi) == e.hi >= lo /\ e.lo <= hi

\* RangeInclusiveMap::insert(lo..=hi, v): stored ranges that touch the new range and hold an equal
\* value are adopted (the new range grows over them); other stored ranges lose their overlap with
\* the new range and survive as a left and/or right piece WITH THEIR VALUE UNCHANGED.
Insert(m, lo, hi, v) ==
    LET adopt == {e \in m : e.v = v /\ Touches(e, lo, hi)}
        nlo   == MinOf({lo} \cup {e.lo : e \in adopt})
        nhi   == MaxOf({hi} \cup {e.hi : e \in adopt})
        rest  == m \ adopt
        keep  == {e \in rest : ~Overlaps(e, lo, hi)}
        cut   == {e \in rest : Overlaps(e, lo, hi)}
        left  == {[lo |-> e.lo, hi |-> lo - 1, v |-> e.v] : e \in {x \in cut : x.lo < lo}}
        right == {[lo |-> hi + 1, hi |-> e.hi, v |-> e.v] : e \in {x \in cut : x.hi > hi}}
    IN keep \cup left \cup right \cup {[lo |-> nlo, hi |-> nhi, v |-> v]}

\* invariant of RangeInclusiveMap: ranges are disjoint and touching ranges hold different values
MapInv(m) ==
    \A e \in m : /\ e.lo <= e.hi
                 /\ \A f \in m : f # e => (~Overlaps(f, e.lo, e.hi) /\ (Touches(f, e.lo, e.hi) => f.v # e.v))

EmptyMaps == [l \in 1..4 |-> {}]
Put(dev, maps, d) == [maps EXCEPT ![d.len] = Insert(@, d.lo, d.hi, StoredOf(dev, d))]
BuildMaps(dev, defs) == FoldLeft(LAMBDA m, d : Put(dev, m, d), EmptyMaps, defs)

Panic == <<-1>>           \* a Rust panic (overflow check / index out of bounds); None is <<>>

\* ToUnicodeCMap::get
ImplGet(dev, maps, len, code) ==
    LET m == maps[len] IN
    IF ~\E e \in m : e.lo <= code /\ code <= e.hi THEN <<>>
    ELSE LET e   == CHOOSE x \in m : x.lo <= code /\ code <= x.hi
             v   == e.v
             off == code - (IF dev.h34 THEN e.lo ELSE v.base)      \* code - range.start()
         IN CASE v.k = "cp"  -> <<(code + v.off) % 65536>>
              \* the code as it is: last.wrapping_add(off) and vec.get(off); the old code: `+=` (overflow check) and vec[off]
              [] v.k = "hex" -> IF v.u[Len(v.u)] + (off % 65536) > 65535
                                THEN (IF dev.h34 THEN Panic ELSE [v.u EXCEPT ![Len(v.u)] = (@ + off) % 65536])
                                ELSE AddLast(v.u, off % 65536)
              [] v.k = "arr" -> IF off + 1 > Len(v.a) THEN (IF dev.h34 THEN Panic ELSE <<>>) ELSE v.a[off + 1]

\* Encoding::bytes_to_string, UnicodeMapEncoding arm: shortest matching length first, at most 4
GetOrRepl(dev, maps, len, code) ==
    LET r == ImplGet(dev, maps, len, code) IN IF r = <<>> THEN <<65533>> ELSE r
SegStep(dev, maps, acc, byte) ==
    IF acc.p THEN acc
    ELSE LET a1 == IF acc.n = 4
                   THEN [out |-> acc.out \o GetOrRepl(dev, maps, 4, acc.code), n |-> 0, code |-> 0, p |-> FALSE]
                   ELSE acc
             n2 == a1.n + 1
             c2 == a1.code * 256 + byte
             r  == ImplGet(dev, maps, n2, c2)
         IN IF r = Panic THEN [a1 EXCEPT !.p = TRUE]
            ELSE IF r # <<>> THEN [out |-> a1.out \o r, n |-> 0, code |-> 0, p |-> FALSE]
            ELSE [out |-> a1.out, n |-> n2, code |-> c2, p |-> FALSE]
ImplDecodeUnits(dev, maps, bytes) ==
    LET r == FoldLeft(LAMBDA acc, b : SegStep(dev, maps, acc, b), [out |-> <<>>, n |-> 0, code |-> 0, p |-> FALSE], bytes) IN
    IF r.p THEN Panic
    ELSE IF r.n > 0
         THEN LET t == GetOrRepl(dev, maps, r.n, r.code) IN IF t = Panic THEN Panic ELSE r.out \o t
         ELSE r.out
=============================================================================
