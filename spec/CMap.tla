-------------------------------- MODULE CMap --------------------------------
(***************************************************************************)
(* ToUnicode CMaps (property C15).                                          *)
(*                                                                          *)
(* Two layers (DESIGN 2.9):                                                 *)
(*  - declarative: a CMap is a sequence of definitions; Lookup(defs,len,c)  *)
(*    is the target of the LAST definition covering (len, c); a string      *)
(*    target gets the offset within the range added to its last UTF-16      *)
(*    unit, an array target is indexed by the offset; Text joins surrogate  *)
(*    pairs.  Only this layer decides.  Class(..) names the input class of  *)
(*    a code (used for narrow finding signatures).                          *)
(*  - impl-shaped: lopdf's ToUnicodeCMap transcribed: one interval map per  *)
(*    code length with the semantics of rangemap::RangeInclusiveMap::insert *)
(*    (overwrite the overlap, split what remains of older ranges, coalesce  *)
(*    touching ranges whose values are equal), the stored target forms of   *)
(*    from_sections/put_char (UTF16CodePoint{offset}, HexString,            *)
(*    ArrayOfHexStrings), `get`, and the segmentation loop of               *)
(*    Encoding::bytes_to_string.  The parameter dev = [h34, h35] switches   *)
(*    the two deviations that were confirmed and then repaired in lopdf      *)
(*    (fix: 3c7db25) back on; off = the code as it is (StoredTarget: the     *)
(*    stored value remembers the first code of its definition):             *)
(*      h34  get computes the offset from the start of the STORED range,    *)
(*           which moves when the head of the range is overwritten;         *)
(*      h35  HexString/Array values carry no base, so touching ranges with  *)
(*           equal targets coalesce into one range with one base.           *)
(*                                                                          *)
(* A definition is [kind, len, lo, hi, t]: kind "char" (bfchar) or "range"  *)
(* (bfrange); t = Str(units) or Arr(<<units, ...>>).  Codes are integers;   *)
(* the declarative layer only compares and subtracts them, so any order-    *)
(* and difference-preserving representation may be used (Trace_CMap shifts  *)
(* 4-byte codes by -2^31 because TLC integers are 32 bit).                  *)
(***************************************************************************)
EXTENDS Integers, Sequences, FiniteSets, SequencesExt, TLC

Str(us) == [k |-> "str", u |-> us, a |-> <<>>]
Arr(aa) == [k |-> "array", u |-> <<>>, a |-> aa]
MkDef(kind, len, lo, hi, t) == [kind |-> kind, len |-> len, lo |-> lo, hi |-> hi, t |-> t]

MaxOf(S) == CHOOSE x \in S : \A y \in S : y <= x
MinOf(S) == CHOOSE x \in S : \A y \in S : x <= y

-----------------------------------------------------------------------------
(* Declarative layer *)

Covers(d, len, code) == d.len = len /\ d.lo <= code /\ code <= d.hi
CoveringIdx(defs, len, code) == {i \in 1..Len(defs) : Covers(defs[i], len, code)}
Covered(defs, len, code) == CoveringIdx(defs, len, code) # {}
WinnerIdx(defs, len, code) == MaxOf(CoveringIdx(defs, len, code))      \* the last definition wins

AddLast(us, off) == [us EXCEPT ![Len(us)] = @ + off]

\* what definition d says about a code it covers
TargetAt(d, code) ==
    IF d.t.k = "array" THEN d.t.a[code - d.lo + 1] ELSE AddLast(d.t.u, code - d.lo)

Lookup(defs, len, code) == TargetAt(defs[WinnerIdx(defs, len, code)], code)

\* UTF-16 units -> characters (code points); an unpaired surrogate becomes U+FFFD as in any
\* lossy UTF-16 decoder (never happens inside the property's domain, see WFStr)
IsHiSur(u) == 55296 <= u /\ u <= 56319
IsLoSur(u) == 56320 <= u /\ u <= 57343
TextStep(acc, u) ==
    IF acc.pend >= 0
    THEN IF IsLoSur(u)
         THEN [out |-> Append(acc.out, 65536 + (acc.pend - 55296) * 1024 + (u - 56320)), pend |-> -1, bad |-> acc.bad]
         ELSE IF IsHiSur(u) THEN [out |-> Append(acc.out, 65533), pend |-> u, bad |-> acc.bad + 1]
         ELSE [out |-> acc.out \o <<65533, u>>, pend |-> -1, bad |-> acc.bad + 1]
    ELSE IF IsHiSur(u) THEN [acc EXCEPT !.pend = u]
         ELSE IF IsLoSur(u) THEN [out |-> Append(acc.out, 65533), pend |-> -1, bad |-> acc.bad + 1]
         ELSE [acc EXCEPT !.out = Append(@, u)]
TextAcc(units) == FoldLeft(TextStep, [out |-> <<>>, pend |-> -1, bad |-> 0], units)
Text(units) == LET r == TextAcc(units) IN IF r.pend >= 0 THEN Append(r.out, 65533) ELSE r.out
Paired(units) == LET r == TextAcc(units) IN r.pend < 0 /\ r.bad = 0

\* codes: sequence of <<len, code>>, every one covered
Units(defs, codes) == FoldLeft(LAMBDA acc, c : acc \o Lookup(defs, c[1], c[2]), <<>>, codes)
Decode(defs, codes) == Text(Units(defs, codes))

\* The domain of the property: well-formed definitions.  A string target of a range must stay a
\* valid UTF-16 string for every offset (no u16 overflow, no drift into or out of the surrogates).
WFStr(us, ext) ==
    /\ Len(us) >= 1
    /\ \A i \in 1..Len(us) : 0 <= us[i] /\ us[i] <= 65535
    /\ Paired(us)
    /\ LET l == us[Len(us)] IN
         IF IsLoSur(l) THEN l + ext <= 57343
         ELSE IF l < 55296 THEN l + ext < 55296
         ELSE l + ext <= 65535
WFDef(d) ==
    /\ d.len \in 1..4 /\ d.lo <= d.hi
    /\ d.kind \in {"char", "range"}
    /\ d.kind = "char" => (d.lo = d.hi /\ d.t.k = "str")
    /\ IF d.t.k = "str" THEN WFStr(d.t.u, d.hi - d.lo)
       ELSE /\ d.t.k = "array" /\ Len(d.t.a) = d.hi - d.lo + 1
            /\ \A i \in 1..Len(d.t.a) : WFStr(d.t.a[i], 0)
WellFormed(defs) == \A i \in 1..Len(defs) : WFDef(defs[i])

\* Input class of (len, code), computed from the definitions only.  kind of the winning target
\* (a one-element array is the same thing as its element), then
\*   split    - a later definition overwrote some code of the winner's range below `code`
\*   coalesce - another definition with an equal multi-unit/array target touches or overlaps the winner
\*   plain    - neither
LeSucc(a, b) == a <= b \/ (b # 2147483647 /\ a = b + 1)       \* a <= b + 1 without leaving TLC's integers
NormT(t) == IF t.k = "array" /\ Len(t.a) = 1 THEN Str(t.a[1]) ELSE t
KindT(t) == LET n == NormT(t) IN IF n.k = "array" THEN "array" ELSE IF Len(n.u) = 1 THEN "single" ELSE "multi"
ClassAt(defs, w, len, code) ==          \* w = WinnerIdx(defs, len, code)
    LET W == defs[w]
        laterBelow == \E j \in (w + 1)..Len(defs) :
                         defs[j].len = len /\ defs[j].lo < code /\ defs[j].hi >= W.lo
        eqTouch == /\ KindT(W.t) # "single"
                   /\ \E j \in 1..Len(defs) : /\ j # w /\ defs[j].len = len
                                              /\ LeSucc(defs[j].lo, W.hi) /\ LeSucc(W.lo, defs[j].hi)
                                              /\ NormT(defs[j].t) = NormT(W.t)
    IN KindT(W.t) \o (IF laterBelow THEN ".split" ELSE IF eqTouch THEN ".coalesce" ELSE ".plain")
Class(defs, len, code) == ClassAt(defs, WinnerIdx(defs, len, code), len, code)

\* The decoded UTF-16 string starts with something a BOM-sniffing decoder takes for a byte order mark:
\* U+FEFF (ZERO WIDTH NO-BREAK SPACE), U+FFFE, or the bytes EF BB BF (U+EFBB then a unit BFxx).
BomStart(us) ==
    /\ Len(us) >= 1
    /\ \/ us[1] = 65279 \/ us[1] = 65534
       \/ (us[1] = 61371 /\ Len(us) >= 2 /\ us[2] \div 256 = 191)

\* class of one decoded code: interval class, plus the text class when the target looks like a BOM
CaseClassAt(defs, w, len, code) ==
    ClassAt(defs, w, len, code) \o (IF BomStart(TargetAt(defs[w], code)) THEN "+text.bom" ELSE "")
CaseClass(defs, len, code) == CaseClassAt(defs, WinnerIdx(defs, len, code), len, code)

-----------------------------------------------------------------------------
(* Code bytes (codes of length <= 3 are their numeric value in this part) *)

Pow256(n) == IF n = 0 THEN 1 ELSE IF n = 1 THEN 256 ELSE IF n = 2 THEN 65536 ELSE 16777216
BytesOf(len, code) == [i \in 1..len |-> (code \div Pow256(len - i)) % 256]
PrefixOf(len, code, m) == code \div Pow256(len - m)          \* first m bytes of a code of length len

\* no mapped code is a proper prefix of another mapped code (the codespace ranges of a
\* well-formed CMap are prefix-free, and mapped codes lie inside them)
PrefixFree(defs) ==
    \A i, j \in 1..Len(defs) : defs[j].len < defs[i].len =>
        LET m == defs[j].len IN
        ~(PrefixOf(defs[i].len, defs[i].lo, m) <= defs[j].hi /\ defs[j].lo <= PrefixOf(defs[i].len, defs[i].hi, m))

-----------------------------------------------------------------------------
(* Producer: the CMap program text of a definition sequence, as a TOKEN sequence with a GAP after   *)
(* every token (used by MC_CMap to emit replay cases; the record driver of the harness mirrors it).  *)
(*                                                                                                    *)
(* White space (ISO 32000-1 7.2.2, PLRM 3.2): NUL TAB LF FF CR SP; a comment (% to the line end) is   *)
(* white space too.  A separator is a sequence of ATOMS                                               *)
(*     sp tab | lf cr crlf | ff nul | cmt                                                             *)
(* Between two tokens any non-empty separator is legal, and the empty one as well when the left token *)
(* ends or the right token begins with a delimiter  ( ) < > [ ] / %  ("self-delimited gap").  Inside  *)
(* a hexadecimal string any white space (no comment) may stand between any two digits and next to   *)
(* the brackets.  A section may have zero entries.  The CMap dictionary may have further entries      *)
(* (/WMode, /CMapVersion, /XUID, /UIDOffset) next to /CIDSystemInfo, /CMapName, /CMapType.            *)
(*                                                                                                    *)
(* A token is [t, b, e, g, c, d]: text; begins / ends with a delimiter; class of the gap after it;    *)
(* the combinator lopdf's grammar has at that gap AS THE CODE IS (impl-shaped annotation: s0 s1 =     *)
(* blanks only, m0 m1 = blanks, line ends, comments; 0 = may be empty, 1 = at least one); default     *)
(* separator.  A style sty = [k, a, b, s] departs from the defaults in ONE respect:                   *)
(*   canon                              nothing                                                      *)
(*   gap   a = gap class, s = atoms     every gap of that class gets the separator s                 *)
(*   hex   a = src|tgt, b = position, s white space inside hexadecimal strings                        *)
(*   empty a = where                    a section with zero entries                                   *)
(*   head  a = variant                  form / further entries of the CMap dictionary                 *)
(*   font  a = /Encoding form           what stands next to /ToUnicode in the font dictionary         *)
(* tv = the tolerated variation chosen from the definitions (hex case, blanks, line ends).            *)

BlankAtoms == {"sp", "tab"}
EolAtoms   == {"lf", "cr", "crlf"}
FfNulAtoms == {"ff", "nul"}
WsAtoms    == BlankAtoms \cup EolAtoms \cup FfNulAtoms
AtomText(a) == CASE a = "sp" -> " " [] a = "tab" -> "\t" [] a = "lf" -> "\n" [] a = "cr" -> "\r" [] a = "crlf" -> "\r\n"
                 [] a = "ff" -> "\f" [] a = "nul" -> "~"        \* "~" stands for the byte 00 (no NUL in a TLA+ string; the harness substitutes)
                 [] a = "cmt" -> "%c\n"
SepText(as) == FoldLeft(LAMBDA s, a : s \o AtomText(a), "", as)
SeqSet(q) == {q[i] : i \in 1..Len(q)}

Canon == [k |-> "canon", a |-> "", b |-> "", s |-> <<>>]
SP == <<"sp">>

HexU == <<"0","1","2","3","4","5","6","7","8","9","A","B","C","D","E","F">>
HexL == <<"0","1","2","3","4","5","6","7","8","9","a","b","c","d","e","f">>
\* the two digits of byte b with the separator nib between them
H2(b, tv, nib) == LET T == IF tv.lower THEN HexL ELSE HexU IN T[(b \div 16) + 1] \o nib \o T[(b % 16) + 1]
\* separator text of hex position p in a string of kind w (src / tgt) under style sty
HexSep(sty, w, p) == IF sty.k = "hex" /\ sty.a = w /\ sty.b = p THEN SepText(sty.s) ELSE ""
CodeTok(len, code, tv, sty) ==
    LET bs == BytesOf(len, code) IN
    "<" \o HexSep(sty, "src", "lead")
        \o FoldLeft(LAMBDA s, i : s \o (IF i > 1 THEN HexSep(sty, "src", "byte") ELSE "") \o H2(bs[i], tv, HexSep(sty, "src", "nib")),
                    "", [i \in 1..len |-> i])
        \o HexSep(sty, "src", "trail") \o ">"
UnitsTok(us, tv, sty) ==
    "<" \o HexSep(sty, "tgt", "lead")
        \o FoldLeft(LAMBDA s, i : s \o (IF i > 1 THEN (IF sty.k = "hex" /\ sty.a = "tgt" /\ sty.b = "unit" THEN SepText(sty.s)
                                                       ELSE IF tv.usp THEN " " ELSE "") ELSE "")
                                    \o H2(us[i] \div 256, tv, HexSep(sty, "tgt", "nib")) \o HexSep(sty, "tgt", "byte")
                                    \o H2(us[i] % 256, tv, HexSep(sty, "tgt", "nib")),
                    "", [i \in 1..Len(us) |-> i])
        \o HexSep(sty, "tgt", "trail") \o ">"

Tok(t, b, e, g, c, d) == [t |-> t, b |-> b, e |-> e, g |-> g, c |-> c, d |-> d]
Word(t, g, c, d) == Tok(t, FALSE, FALSE, g, c, d)            \* a regular token (name-like, number)
Name(t, g, c, d) == Tok(t, TRUE, FALSE, g, c, d)             \* /Name
Delim(t, g, c, d) == Tok(t, TRUE, TRUE, g, c, d)             \* <...>  [  ]  <<...>>

EntryToks(d, tv, sty) ==
    LET tgt(g, dd) == IF d.t.k = "str" THEN <<Delim(UnitsTok(d.t.u, tv, sty), g, "m1", dd)>>
                      ELSE <<Delim("[", "arr", "m0", <<>>)>>
                           \o [i \in 1..Len(d.t.a) |-> Delim(UnitsTok(d.t.a[i], tv, sty), "arr", "m0", IF i < Len(d.t.a) THEN SP ELSE <<>>)]
                           \o <<Delim("]", g, "m1", dd)>>
    IN IF d.kind = "char"
       THEN <<Delim(CodeTok(d.len, d.lo, tv, sty), "opnd", "s0", tv.sp)>> \o tgt("ent", tv.nl)
       ELSE <<Delim(CodeTok(d.len, d.lo, tv, sty), "opnd", "s0", tv.sp), Delim(CodeTok(d.len, d.hi, tv, sty), "opnd", "s0", tv.sp)>>
            \o tgt("ent", tv.nl)

SectionToks(kind, n, body, tv) ==
    <<Word(ToString(n), "cnt", "s1", SP), Word("beginbf" \o kind, "op", "m1", tv.nl)>> \o body
    \o <<Word("endbf" \o kind, "end", "m1", tv.nl)>>
SectStep(tv, sty, acc, d) ==
    IF acc.n > 0 /\ (acc.kind # d.kind \/ acc.n = 100)
    THEN [toks |-> acc.toks \o SectionToks(acc.kind, acc.n, acc.body, tv), kind |-> d.kind, n |-> 1, body |-> EntryToks(d, tv, sty)]
    ELSE [acc EXCEPT !.kind = d.kind, !.n = @ + 1, !.body = @ \o EntryToks(d, tv, sty)]
SectionsToks(defs, tv, sty) ==
    LET r == FoldLeft(LAMBDA acc, d : SectStep(tv, sty, acc, d), [toks |-> <<>>, kind |-> "char", n |-> 0, body |-> <<>>], defs)
        secs == r.toks \o (IF r.n > 0 THEN SectionToks(r.kind, r.n, r.body, tv) ELSE <<>>)
        empty(kind) == SectionToks(kind, 0, <<>>, tv)
    IN IF sty.k # "empty" THEN secs
       ELSE CASE sty.a = "char.first"  -> empty("char") \o secs
              [] sty.a = "range.first" -> empty("range") \o secs
              [] sty.a = "char.last"   -> secs \o empty("char")
              [] OTHER                 -> secs \o empty("range")

MetaToks(tv, sty) ==
    LET h == IF sty.k = "head" THEN sty.a ELSE ""
        sysd == <<Name("/CIDSystemInfo", "meta", "m0", SP),
                  Delim("<< /Registry (Adobe) /Ordering (UCS) /Supplement 0 >>", "meta", "m1", SP), Word("def", "meta", "m1", tv.nl)>>
        sysp == <<Name("/CIDSystemInfo", "meta", "m0", SP),
                  Word("3 dict dup begin\n  /Registry (Adobe) def\n  /Ordering (UCS) def\n  /Supplement 0 def\nend", "meta", "m1", SP),
                  Word("def", "meta", "m1", tv.nl)>>
        nam  == <<Name("/CMapName", "meta", "s0", SP), Name("/Adobe-Identity-UCS", "meta", "s1", SP), Word("def", "meta", "m1", tv.nl)>>
        typ  == <<Name("/CMapType", "meta", "s1", SP), Word("2", "meta", "s1", SP), Word("def", "meta", "m1", tv.nl)>>
        key(k, v) == <<Name(k, "meta", "s1", SP), v, Word("def", "meta", "m1", tv.nl)>>
    IN CASE h = "dictdup"   -> sysp \o nam \o typ
         [] h = "order"     -> typ \o sysd \o nam
         [] h = "wmode"     -> sysd \o nam \o typ \o key("/WMode", Word("0", "meta", "s1", SP))
         [] h = "version"   -> sysd \o nam \o key("/CMapVersion", Word("1.000", "meta", "s1", SP)) \o typ
         [] h = "xuid"      -> sysd \o nam \o typ \o key("/XUID", Delim("[1 10 25404 9999]", "meta", "s1", SP))
         [] h = "uidoffset" -> key("/UIDOffset", Word("0", "meta", "s1", SP)) \o sysd \o nam \o typ
         [] OTHER           -> IF tv.head = 2 THEN typ \o nam ELSE sysd \o nam \o typ
ExtraKeyHeads == {"wmode", "version", "xuid", "uidoffset"}

\* cs: sequence of <<len, lo, hi>> codespace ranges
ProgramToks(defs, cs, tv, sty) ==
    <<Name("/CIDInit", "prolog", "s0", IF tv.head = 2 THEN <<>> ELSE SP),
      Name(IF tv.head = 2 THEN "/Procset" ELSE "/ProcSet", "prolog", "s1", SP),
      Word("findresource", "prolog", "s1", SP), Word("begin", "prolog", "m1", tv.nl),
      Word("12", "prolog", "s1", SP), Word("dict", "prolog", "s1", SP), Word("begin", "prolog", "m1", tv.nl),
      Word("begincmap", "prolog", "m1", tv.nl)>>
    \o MetaToks(tv, sty)
    \o <<Word(ToString(Len(cs)), "cs.cnt", "s1", SP), Word("begincodespacerange", "cs.op", "m1", tv.nl)>>
    \o FoldLeft(LAMBDA q, r : q \o <<Delim(CodeTok(r[1], r[2], tv, sty), "cs.pair", "s0", tv.sp),
                                     Delim(CodeTok(r[1], r[3], tv, sty), "cs.ent", "m1", tv.nl)>>, <<>>, cs)
    \o <<Word("endcodespacerange", "cs.end", "m1", tv.nl)>>
    \o SectionsToks(defs, tv, sty)
    \o <<Word("endcmap", "trailer", "m1", tv.nl), Word("CMapName", "trailer", "s1", SP), Word("currentdict", "trailer", "s1", SP),
         Name("/CMap", "trailer", "s1", SP), Word("defineresource", "trailer", "s1", SP), Word("pop", "trailer", "m1", tv.nl),
         Word("end", "trailer", "m1", tv.nl), Word("end", "eof", "m0", tv.nl)>>

BfGaps  == {"cnt", "op", "opnd", "ent", "arr", "end"}
HdrGaps == {"prolog", "meta", "cs.cnt", "cs.op", "cs.pair", "cs.ent", "cs.end", "trailer", "eof"}

\* One pass over the tokens (TLC does not cache LET definitions: no indexing into a recomputed sequence).  The gap
\* after token p is self-delimited when p ends or the next token begins with a delimiter, or at the end of the
\* program; it gets the style's separator where the style applies and is legal there, else the default.
GapSep(p, sd, sty) == IF sty.k = "gap" /\ sty.a = p.g /\ (sty.s # <<>> \/ sd) THEN sty.s ELSE p.d
NoTok == Tok("", FALSE, FALSE, "", "", <<>>)
\* FoldGaps(f, init, toks, sty): fold f(acc, token, separator atoms, self-delimited) over all gaps
FoldGaps(f(_, _, _, _), init, toks, sty) ==
    LET r == FoldLeft(LAMBDA acc, t : IF acc.p.g = "" THEN [v |-> acc.v, p |-> t]
                                     ELSE LET sd == acc.p.e \/ t.b IN [v |-> f(acc.v, acc.p, GapSep(acc.p, sd, sty), sd), p |-> t],
                      [v |-> init, p |-> NoTok], toks)
    IN IF r.p.g = "" THEN r.v ELSE f(r.v, r.p, GapSep(r.p, TRUE, sty), TRUE)

Program(defs, cs, tv, sty) ==
    FoldGaps(LAMBDA txt, p, as, sd : txt \o p.t \o SepText(as),
             IF tv.head = 2 THEN "%!PS-Adobe-3.0 Resource-CMap\n" ELSE "", ProgramToks(defs, cs, tv, sty), sty)

\* ---- declarative: which styles are inside the domain, and how a style is called
GapStyleLegal(sty) == \A a \in SeqSet(sty.s) : a \in WsAtoms \cup {"cmt"}
HexStyleLegal(sty) == sty.s # <<>> /\ \A a \in SeqSet(sty.s) : a \in WsAtoms
StyleLegal(sty) ==
    CASE sty.k = "gap" -> sty.a \in BfGaps \cup HdrGaps /\ GapStyleLegal(sty)
      [] sty.k = "hex" -> /\ sty.a \in {"src", "tgt"} /\ HexStyleLegal(sty)
                          /\ sty.b \in (IF sty.a = "src" THEN {"lead", "nib", "byte", "trail"} ELSE {"lead", "nib", "byte", "unit", "trail"})
      [] OTHER -> TRUE

\* /Encoding forms next to /ToUnicode.  ISO 32000-1 9.10.2: the ToUnicode CMap comes first, whatever /Encoding says.
IdentityForms == {"absent", "Identity-H", "Identity-V"}
BaseForms     == {"StandardEncoding", "MacRomanEncoding", "WinAnsiEncoding", "MacExpertEncoding"}
CMapNameForms == {"UniJIS-UTF16-H", "90ms-RKSJ-H", "UniGB-UCS2-H", "UniGB-UTF16-H", "GBK-EUC-H", "Custom-Name"}
DictForms     == {"dict.diff", "dict.base.diff", "dictref", "cmapstream"}
FontForms     == IdentityForms \cup BaseForms \cup CMapNameForms \cup DictForms
FormClass(f)  == IF f \in IdentityForms THEN "identity" ELSE IF f \in BaseForms THEN "base"
                 ELSE IF f \in CMapNameForms THEN "cmapname" ELSE "dict"

\* A separator that mixes line ends / comments with FF / NUL belongs to two classes ("a+b"): it is taken only when
\* both the token separation and the white-space character set are right.
StyleClass(sty) ==
    CASE sty.k = "canon" -> "canon"
      [] sty.k = "gap"   -> LET ffnul == SeqSet(sty.s) \cap FfNulAtoms # {}
                                sepc  == sty.s = <<>> \/ SeqSet(sty.s) \cap (EolAtoms \cup {"cmt"}) # {}
                                reg   == IF sty.a \in BfGaps THEN "grammar.sep.bf" ELSE "grammar.sep.hdr"
                            IN IF sepc /\ ffnul THEN reg \o "+grammar.ff-nul"
                               ELSE IF sepc THEN reg ELSE IF ffnul THEN "grammar.ff-nul" ELSE "grammar.blank"
      [] sty.k = "hex"   -> "grammar.hex-ws"
      [] sty.k = "empty" -> "grammar.empty-section"
      [] sty.k = "head"  -> IF sty.a \in ExtraKeyHeads THEN "grammar.hdr-key" ELSE "grammar.hdr-form"
      [] sty.k = "font"  -> "font.enc." \o FormClass(sty.a)
      [] OTHER -> "?"
\* the classes of a style, for "is it a listed one"
StyleClassIn(sty, known) ==
    IF sty.k = "gap" /\ SeqSet(sty.s) \cap FfNulAtoms # {} /\ (SeqSet(sty.s) \cap (EolAtoms \cup {"cmt"}) # {})
    THEN "grammar.ff-nul" \in known \/ (IF sty.a \in BfGaps THEN "grammar.sep.bf" ELSE "grammar.sep.hdr") \in known
    ELSE StyleClass(sty) \in known

\* ---- impl-shaped: does lopdf's grammar take the program, does get_font_encoding take the CMap?
\* gdev switches (TRUE = as the code is):
\*   g2 token separation inside bfchar/bfrange sections follows the per-gap combinators (blank inside an entry,
\*      at least one white space after it); g6 the same for prolog, CMap dictionary, codespace section, trailer
\*   g3 hexadecimal strings: no white space in a source code, in a target only after a complete 4-digit unit
\*   g4 FF and NUL are not white space      g5 a section needs at least one entry
\*   g7 only /CIDSystemInfo /CMapName /CMapType (1 to 4 of them) in the CMap dictionary
\*   f1 /ToUnicode is looked at only when /Encoding is Identity-H, Identity-V or not a name
BlankSet(gdev) == BlankAtoms \cup (IF gdev.g4 THEN {} ELSE FfNulAtoms)
CombAccepts(gdev, c, as) ==
    LET set == IF c \in {"s0", "s1"} THEN BlankSet(gdev) ELSE BlankSet(gdev) \cup EolAtoms \cup {"cmt"}
    IN (c \in {"s0", "m0"} \/ as # <<>>) /\ SeqSet(as) \subseteq set
EffComb(gdev, p, sd) ==
    LET strict == IF p.g \in BfGaps THEN gdev.g2 ELSE gdev.g6
    IN IF strict THEN p.c ELSE IF sd THEN "m0" ELSE "m1"
ImplHexOK(gdev, defs, cs, tv, sty) ==
    IF sty.k # "hex" \/ ~gdev.g3 THEN TRUE                 \* repaired: white space anywhere in the string
    ELSE IF Program(defs, cs, tv, sty) = Program(defs, cs, tv, Canon) THEN TRUE      \* the position does not occur
    ELSE /\ sty.a = "tgt" /\ sty.b \in {"unit", "trail"}    \* terminated(hex_u16, multispace0)
         /\ SeqSet(sty.s) \subseteq BlankSet(gdev) \cup EolAtoms
ImplParses(gdev, defs, cs, tv, sty) ==
    /\ (sty.k = "empty" => ~gdev.g5)
    /\ (sty.k = "head" /\ sty.a \in ExtraKeyHeads => ~gdev.g7)
    /\ ImplHexOK(gdev, defs, cs, tv, sty)
    /\ (sty.k = "gap" =>       \* the default separators are taken by every combinator
          FoldGaps(LAMBDA ok, p, as, sd : ok /\ CombAccepts(gdev, EffComb(gdev, p, sd), as),
                   TRUE, ProgramToks(defs, cs, tv, sty), sty))
\* Dictionary::get_font_encoding: match self.get(b"Encoding").and_then(Object::as_name)
ImplUsesToUnicode(gdev, form) ==
    IF gdev.f1 THEN form \in IdentityForms \cup DictForms        \* Identity-H/V arm, and the Err arm (absent, not a name)
    ELSE TRUE
ImplAccepts(gdev, defs, cs, tv, sty, form) == ImplParses(gdev, defs, cs, tv, sty) /\ ImplUsesToUnicode(gdev, form)

-----------------------------------------------------------------------------
(* Impl-shaped layer: ToUnicodeCMap { bf_ranges: [RangeInclusiveMap<u32, BfRangeTarget>; 4] } *)

\* StoredTarget { base, target: BfRangeTarget }.  `base` came with the repair (fix: 3c7db25); under h35 (the old
\* defect) it is the constant 0.
CpVal(off)      == [k |-> "cp",  off |-> off, u |-> <<>>, a |-> <<>>, base |-> 0]
HexVal(us, b)   == [k |-> "hex", off |-> 0,   u |-> us,   a |-> <<>>, base |-> b]
ArrVal(aa, b)   == [k |-> "arr", off |-> 0,   u |-> <<>>, a |-> aa,   base |-> b]
BaseOf(dev, lo) == IF dev.h35 THEN 0 ELSE lo

\* from_sections / put_char: which stored form a definition gets.  The offset of UTF16CodePoint is
\* u32::wrapping_sub(target, start); for codes < 2^24 equality mod 2^32 is integer equality.
StoredOf(dev, d) ==
    LET dst == IF d.t.k = "str" THEN <<d.t.u>> ELSE d.t.a IN
    IF d.kind = "char"
    THEN IF Len(d.t.u) = 1 THEN CpVal(d.t.u[1] - d.lo) ELSE HexVal(d.t.u, BaseOf(dev, d.lo))
    ELSE IF Len(dst) = 1 /\ Len(dst[1]) = 1 THEN CpVal(dst[1][1] - d.lo)
    ELSE IF Len(dst) = 1 THEN HexVal(dst[1], BaseOf(dev, d.lo))
    ELSE ArrVal(dst, BaseOf(dev, d.lo))

\* An interval map is a set of entries [lo, hi, v] with disjoint ranges (BTreeMap keyed by start).
Touches(e, lo, hi)  == e.hi + 1 >= lo /\ e.lo <= hi + 1
Overlaps(e, lo, hi) == e.hi >= lo /\ e.lo <= hi

\* RangeInclusiveMap::insert(lo..=hi, v): stored ranges that touch the new range and hold an equal
\* value are adopted (the new range grows over them); other stored ranges lose their overlap with
\* the new range and survive as a left and/or right piece WITH THEIR VALUE UNCHANGED.
Insert(m, lo, hi, v) ==
    LET adopt == {e \in m : e.v = v /\ Touches(e, lo, hi)}
        nlo   == MinOf({lo} \cup {e.lo : e \in adopt})
        nhi   == MaxOf({hi} \cup {e.hi : e \in adopt})
        rest  == m \ adopt
        keep  == {e \in rest : ~Overlaps(e, lo, hi)}
        cut   == {e \in rest : Overlaps(e, lo, hi)}
        left  == {[lo |-> e.lo, hi |-> lo - 1, v |-> e.v] : e \in {x \in cut : x.lo < lo}}
        right == {[lo |-> hi + 1, hi |-> e.hi, v |-> e.v] : e \in {x \in cut : x.hi > hi}}
    IN keep \cup left \cup right \cup {[lo |-> nlo, hi |-> nhi, v |-> v]}

\* invariant of RangeInclusiveMap: ranges are disjoint and touching ranges hold different values
MapInv(m) ==
    \A e \in m : /\ e.lo <= e.hi
                 /\ \A f \in m : f # e => (~Overlaps(f, e.lo, e.hi) /\ (Touches(f, e.lo, e.hi) => f.v # e.v))

EmptyMaps == [l \in 1..4 |-> {}]
Put(dev, maps, d) == [maps EXCEPT ![d.len] = Insert(@, d.lo, d.hi, StoredOf(dev, d))]
BuildMaps(dev, defs) == FoldLeft(LAMBDA m, d : Put(dev, m, d), EmptyMaps, defs)

Panic == <<-1>>           \* a Rust panic (overflow check / index out of bounds); None is <<>>

\* ToUnicodeCMap::get
ImplGet(dev, maps, len, code) ==
    LET m == maps[len] IN
    IF ~\E e \in m : e.lo <= code /\ code <= e.hi THEN <<>>
    ELSE LET e   == CHOOSE x \in m : x.lo <= code /\ code <= x.hi
             v   == e.v
             off == code - (IF dev.h34 THEN e.lo ELSE v.base)      \* code - range.start()
         IN CASE v.k = "cp"  -> <<(code + v.off) % 65536>>
              \* the code as it is: last.wrapping_add(off) and vec.get(off); the old code: `+=` (overflow check) and vec[off]
              [] v.k = "hex" -> IF v.u[Len(v.u)] + (off % 65536) > 65535
                                THEN (IF dev.h34 THEN Panic ELSE [v.u EXCEPT ![Len(v.u)] = (@ + off) % 65536])
                                ELSE AddLast(v.u, off % 65536)
              [] v.k = "arr" -> IF off + 1 > Len(v.a) THEN (IF dev.h34 THEN Panic ELSE <<>>) ELSE v.a[off + 1]

\* Encoding::bytes_to_string, UnicodeMapEncoding arm: shortest matching length first, at most 4
GetOrRepl(dev, maps, len, code) ==
    LET r == ImplGet(dev, maps, len, code) IN IF r = <<>> THEN <<65533>> ELSE r
SegStep(dev, maps, acc, byte) ==
    IF acc.p THEN acc
    ELSE LET a1 == IF acc.n = 4
                   THEN [out |-> acc.out \o GetOrRepl(dev, maps, 4, acc.code), n |-> 0, code |-> 0, p |-> FALSE]
                   ELSE acc
             n2 == a1.n + 1
             c2 == a1.code * 256 + byte
             r  == ImplGet(dev, maps, n2, c2)
         IN IF r = Panic THEN [a1 EXCEPT !.p = TRUE]
            ELSE IF r # <<>> THEN [out |-> a1.out \o r, n |-> 0, code |-> 0, p |-> FALSE]
            ELSE [out |-> a1.out, n |-> n2, code |-> c2, p |-> FALSE]
ImplDecodeUnits(dev, maps, bytes) ==
    LET r == FoldLeft(LAMBDA acc, b : SegStep(dev, maps, acc, b), [out |-> <<>>, n |-> 0, code |-> 0, p |-> FALSE], bytes) IN
    IF r.p THEN Panic
    ELSE IF r.n > 0
         THEN LET t == GetOrRepl(dev, maps, r.n, r.code) IN IF t = Panic THEN Panic ELSE r.out \o t
         ELSE r.out
=============================================================================
