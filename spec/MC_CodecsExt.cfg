SPECIFICATION Spec
CONSTANTS
  Alphabet = {0, 16, 62, 255, 128}
  MaxLen = 5
INVARIANTS HexInv RLInv TiffInv TiffBInv
CHECK_DEADLOCK FALSE
