SPECIFICATION ASpec
CONSTANTS
  Emit = FALSE
  Ghosts = FALSE
  SepMode = "all"
  Mode = "seeds"
  MaxMut = 3
  Rounds = 5
INVARIANTS Total LegalIsLegal SitesOk AEmitInv
CHECK_DEADLOCK FALSE
