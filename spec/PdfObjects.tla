----------------------------- MODULE PdfObjects -----------------------------
(***************************************************************************)
(* The ten PDF object kinds as TLA+ values (ISO 32000-1 7.3), shared by the *)
(* byte-level reader/producer and by the structure-level modules.           *)
(*                                                                          *)
(*   [k |-> "null"]                                                         *)
(*   [k |-> "bool",   v |-> BOOLEAN]                                        *)
(*   [k |-> "int",    neg |-> BOOLEAN, v |-> digits]      (no leading zeros) *)
(*   [k |-> "real",   neg |-> BOOLEAN, v |-> int digits, w |-> frac digits] *)
(*   [k |-> "name",   v |-> bytes]        [k |-> "str", v |-> bytes]        *)
(*   [k |-> "arr",    v |-> <<obj...>>]                                     *)
(*   [k |-> "dict",   v |-> [key bytes -> obj]]                             *)
(*   [k |-> "stream", v |-> [key bytes -> obj], w |-> bytes]                *)
(*   [k |-> "ref",    v |-> number, w |-> generation]                       *)
(*                                                                          *)
(* Integers are sign + digit sequences (i64 does not fit TLC's integers).   *)
(* The kind field is named so that it sorts first: TLC compares records     *)
(* field by field in name order, so values of different kinds are unequal   *)
(* without ever comparing payloads of different types.                      *)
(*                                                                          *)
(* Document-side values (the projection pi of a lopdf::Document, produced   *)
(* by the harness) use the same shapes, except that a real carries the      *)
(* exact decimal expansion of the rounding interval of its f32 value:       *)
(*   [k |-> "real", neg, lo |-> dec, hi |-> dec, incl |-> BOOLEAN, int |-> BOOLEAN, *)
(*    iv |-> digits]                                                        *)
(* where dec = [ip |-> digits, fp |-> digits]; every decimal in [lo, hi]    *)
(* (closed iff incl) denotes that f32.  int/iv: the value is integral / its *)
(* integer digits.                                                          *)
(***************************************************************************)
EXTENDS Bytes

ONull == [k |-> "null"]
OBool(b) == [k |-> "bool", v |-> b]
OInt(neg, d) == [k |-> "int", neg |-> neg, v |-> d]
NatObj(n) == OInt(FALSE, NatDigits(n))
OReal(neg, ip, fp) == [k |-> "real", neg |-> neg, v |-> ip, w |-> fp]
OName(b) == [k |-> "name", v |-> b]
OStr(b) == [k |-> "str", v |-> b]
OArr(s) == [k |-> "arr", v |-> s]
ODict(f) == [k |-> "dict", v |-> f]
OStream(f, c) == [k |-> "stream", v |-> f, w |-> c]
ORef(n, g) == [k |-> "ref", v |-> n, w |-> g]

EmptyMap == <<>>
MapPut(f, key, val) == [x \in DOMAIN f \cup {key} |-> IF x = key THEN val ELSE f[x]]
MapDel(f, keys) == [x \in DOMAIN f \ keys |-> f[x]]
Has(f, key) == key \in DOMAIN f

IsInt(o) == o.k = "int"
IsNatObj(o) == o.k = "int" /\ ~o.neg
\* numeric value of a small non-negative integer object (callers check IntSmall)
IntSmall(o) == o.k = "int" /\ ~o.neg /\ DigitsSmall(o.v)
IntVal(o) == DigitsVal(o.v)

-----------------------------------------------------------------------------
(* JSON (harness wire format) -> values.  Dictionaries arrive as sequences of <<key, value>> pairs. *)

RECURSIVE ObjOf(_)
DictOfPairs(pairs) ==
    [key \in {pairs[i][1] : i \in 1..Len(pairs)} |->
        ObjOf(pairs[CHOOSE i \in 1..Len(pairs) : pairs[i][1] = key][2])]
ObjOf(j) ==
    IF j.k = "arr" THEN OArr([i \in 1..Len(j.v) |-> ObjOf(j.v[i])])
    ELSE IF j.k = "dict" THEN ODict(DictOfPairs(j.v))
    ELSE IF j.k = "stream" THEN OStream(DictOfPairs(j.v), j.w)
    ELSE j

-----------------------------------------------------------------------------
(* The comparison C01/C02/C14 prescribe: d is a document-side value, f a value read from bytes.  *)
(* Equal kinds, identical bytes, same nesting and references; an integral real may be the        *)
(* integer of the same value - the same VALUE, not merely a decimal that rounds to the same f32:  *)
(* Real(33554448.0) may come back as Integer(33554448), not as Integer(33554450) (d.iv holds the   *)
(* exact digits of an integral real); a real token matches iff it lies in the f32's rounding     *)
(* interval.                                                                                       *)

RealTokMatches(d, f) ==      \* d document real (with interval), f "real" or "int" token value
    LET tok == IF f.k = "int" THEN [ip |-> f.v, fp |-> <<>>] ELSE [ip |-> f.v, fp |-> f.w]
        zero == StripLeadingZeros(tok.ip) = <<0>> /\ StripTrailingZeros(tok.fp) = <<>>
        inside == IF d.incl THEN DecLE(d.lo, tok) /\ DecLE(tok, d.hi)
                  ELSE DecLT(d.lo, tok) /\ DecLT(tok, d.hi)
    IN IF f.k = "int"
       THEN d.int /\ StripLeadingZeros(f.v) = StripLeadingZeros(d.iv) /\ (f.neg = d.neg \/ zero)
       ELSE inside /\ (f.neg = d.neg \/ zero)

RECURSIVE Matches(_, _)
Matches(d, f) ==
    IF d.k = "real" THEN f.k \in {"real", "int"} /\ RealTokMatches(d, f)
    ELSE IF d.k # f.k THEN FALSE
    ELSE IF d.k = "arr" THEN Len(d.v) = Len(f.v) /\ \A i \in 1..Len(d.v) : Matches(d.v[i], f.v[i])
    ELSE IF d.k = "dict" THEN DOMAIN d.v = DOMAIN f.v /\ \A key \in DOMAIN d.v : Matches(d.v[key], f.v[key])
    \* stream dictionaries like any other dictionary - "same nesting and references": a Length the file holds as a
    \* reference to an integer object is that reference in the document too (until the third round this clause was
    \* lenient: the document could hold the integer the reference resolves to; lopdf did that, /repo fix "indirect Length")
    ELSE IF d.k = "stream" THEN /\ DOMAIN d.v = DOMAIN f.v
                                /\ \A key \in DOMAIN d.v : Matches(d.v[key], f.v[key])
                                /\ d.w = f.w
    ELSE d = f

\* The load direction is stricter than Matches in one respect: an integer token that fits the integer type of
\* the object model (i64) denotes an integer object - "yields exactly the objects".  Only a token beyond that
\* range may come back as the real of the same value (Matches' integral-real rule).  IntKept(d, f), for values
\* with Matches(d, f): no such token was loaded as a real.
I64Max == <<9, 2, 2, 3, 3, 7, 2, 0, 3, 6, 8, 5, 4, 7, 7, 5, 8, 0, 7>>
FitsI64(f) == DecLE([ip |-> f.v, fp |-> <<>>], [ip |-> IF f.neg THEN [I64Max EXCEPT ![19] = 8] ELSE I64Max, fp |-> <<>>])
RECURSIVE IntKept(_, _)
IntKept(d, f) ==
    IF d.k = "real" THEN ~(f.k = "int" /\ FitsI64(f))
    ELSE IF d.k # f.k THEN TRUE
    ELSE IF d.k = "arr" THEN Len(d.v) # Len(f.v) \/ \A i \in 1..Len(d.v) : IntKept(d.v[i], f.v[i])
    ELSE IF d.k \in {"dict", "stream"} THEN DOMAIN d.v # DOMAIN f.v \/ \A key \in DOMAIN d.v : IntKept(d.v[key], f.v[key])
    ELSE TRUE

\* dictionaries compared on a subset of keys only (cross-reference bookkeeping ignored)
MatchesDictExcept(dd, fd, ignore) ==
    /\ DOMAIN dd \ ignore = DOMAIN fd \ ignore
    /\ \A key \in DOMAIN dd \ ignore : Matches(dd[key], fd[key])

\* all references contained in a value
RECURSIVE RefsOf(_)
RefsOf(o) ==
    IF o.k = "ref" THEN {<<o.v, o.w>>}
    ELSE IF o.k = "arr" THEN UNION {RefsOf(o.v[i]) : i \in 1..Len(o.v)}
    ELSE IF o.k \in {"dict", "stream"} THEN UNION {RefsOf(o.v[key]) : key \in DOMAIN o.v}
    ELSE {}

TypeNameOf(o) ==      \* Object::type_name: /Type of a dictionary or stream, <<>> if none
    IF o.k \in {"dict", "stream"} /\ Has(o.v, NameType) /\ o.v[NameType].k = "name" THEN o.v[NameType].v ELSE <<>>

-----------------------------------------------------------------------------
(* Classifier of differences (DESIGN 2.9): which *kinds* of difference separate a document-side  *)
(* value from a file-side value.  Used only to give a narrow signature to a violation.           *)

\* end-of-line markers normalised to LF (7.3.4.2: an unescaped EOL in a literal string reads as LF)
EolNorm(bytes) ==
    FoldLeft(LAMBDA acc, b :
                IF b = 13 THEN [o |-> Append(acc.o, 10), cr |-> TRUE]
                ELSE IF b = 10 /\ acc.cr THEN [o |-> acc.o, cr |-> FALSE]
                ELSE [o |-> Append(acc.o, b), cr |-> FALSE],
             [o |-> <<>>, cr |-> FALSE], bytes).o

RECURSIVE DiffKinds(_, _)
DiffKinds(d, f) ==
    IF Matches(d, f) THEN {}
    ELSE IF d.k = "str" /\ f.k = "str" THEN (IF EolNorm(d.v) = f.v THEN {"str-eol"} ELSE {"str"})
    ELSE IF d.k = "arr" /\ f.k = "arr" /\ Len(d.v) = Len(f.v) THEN UNION {DiffKinds(d.v[i], f.v[i]) : i \in 1..Len(d.v)}
    ELSE IF d.k = "dict" /\ f.k = "dict" /\ DOMAIN d.v = DOMAIN f.v THEN UNION {DiffKinds(d.v[key], f.v[key]) : key \in DOMAIN d.v}
    ELSE IF d.k = "stream" /\ f.k = "stream" /\ DOMAIN d.v = DOMAIN f.v THEN
         UNION {DiffKinds(d.v[key], f.v[key]) : key \in DOMAIN d.v \ {NameLength}}
         \cup (IF d.w = f.w THEN {} ELSE {"stream-body"})
         \cup (IF ~Has(d.v, NameLength) \/ Matches(d.v[NameLength], f.v[NameLength]) THEN {} ELSE {"stream-length"})
    ELSE IF d.k = "name" /\ f.k = "name" THEN {"name"}
    ELSE IF d.k \in {"int", "real"} /\ f.k \in {"int", "real"} THEN {"number"}
    ELSE {"kind-or-structure"}
=============================================================================
