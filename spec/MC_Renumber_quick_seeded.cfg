SPECIFICATION Spec
CONSTANTS
  Layouts <- LayoutsFormer
  DangIds <- DangQuick
  Starts = {1, 2, 5}
  DevChain = TRUE
  DevDang = TRUE
  DevUnder = TRUE
  DevDup = TRUE
  DevClash = TRUE
  DevBmDang = TRUE
  DevReach = TRUE
  DevZero = TRUE
  DevFit = "panic"
  Limit = 20
  Allowed = {"ok", "bookmark.chain", "dangling.capture", "dangling.capture.pageorder", "panic.empty0"}
  Emit = TRUE
  EmitMod = 1
INVARIANTS Refines Consistent FunctionForm RepairedRefines EmitInv
CHECK_DEADLOCK FALSE
