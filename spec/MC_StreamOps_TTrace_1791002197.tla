---- MODULE MC_StreamOps_TTrace_1791002197 ----
EXTENDS Sequences, TLCExt, MC_StreamOps, Toolbox, Naturals, TLC

_expression ==
    LET MC_StreamOps_TEExpression == INSTANCE MC_StreamOps_TEExpression
    IN MC_StreamOps_TEExpression!expression
----

_trace ==
    LET MC_StreamOps_TETrace == INSTANCE MC_StreamOps_TETrace
    IN MC_StreamOps_TETrace!trace
----

_inv ==
    ~(
        TLCGet("level") = Len(_TETrace)
        /\
        ss = (<<[filters |-> <<>>, form |-> "none", parms |-> <<>>, content |-> <<2, 1, 2>>, allows |-> TRUE, length |-> 3, orc |-> [has |-> FALSE, data |-> <<>>]], [filters |-> <<>>, form |-> "none", parms |-> <<>>, content |-> <<9, 7, 9, 7, 9, 7, 9, 7, 9, 7, 9, 7, 9, 7, 9, 7, 9, 7, 9, 7, 9, 7, 9, 7, 9, 7, 9, 7, 9, 7, 9, 7, 9, 7, 9, 7, 9, 7, 9, 7>>, allows |-> FALSE, length |-> 40, orc |-> [has |-> FALSE, data |-> <<>>]]>>)
        /\
        last = ([i |-> 1, op |-> "decompress", pre |-> <<[filters |-> <<"FlateDecode">>, form |-> "array", parms |-> <<[present |-> TRUE, pred |-> 12, colors |-> 1, bpc |-> 8, columns |-> 2, early |-> 1]>>, content |-> <<120, 1, 1, 3, 0, 252, 255, 2, 1, 2, 0, 13, 0, 6>>, allows |-> TRUE, length |-> 14, orc |-> [has |-> FALSE, data |-> <<>>]], [filters |-> <<>>, form |-> "none", parms |-> <<>>, content |-> <<9, 7, 9, 7, 9, 7, 9, 7, 9, 7, 9, 7, 9, 7, 9, 7, 9, 7, 9, 7, 9, 7, 9, 7, 9, 7, 9, 7, 9, 7, 9, 7, 9, 7, 9, 7, 9, 7, 9, 7>>, allows |-> FALSE, length |-> 40, orc |-> [has |-> FALSE, data |-> <<>>]]>>, arg |-> <<>>])
        /\
        steps = (1)
    )
----

_init ==
    /\ last = _TETrace[1].last
    /\ steps = _TETrace[1].steps
    /\ ss = _TETrace[1].ss
----

_next ==
    /\ \E i,j \in DOMAIN _TETrace:
        /\ \/ /\ j = i + 1
              /\ i = TLCGet("level")
        /\ last  = _TETrace[i].last
        /\ last' = _TETrace[j].last
        /\ steps  = _TETrace[i].steps
        /\ steps' = _TETrace[j].steps
        /\ ss  = _TETrace[i].ss
        /\ ss' = _TETrace[j].ss

\* Uncomment the ASSUME below to write the states of the error trace
\* to the given file in Json format. Note that you can pass any tuple
\* to `JsonSerialize`. For example, a sub-sequence of _TETrace.
    \* ASSUME
    \*     LET J == INSTANCE Json
    \*         IN J!JsonSerialize("MC_StreamOps_TTrace_1791002197.json", _TETrace)

=============================================================================

 Note that you can extract this module `MC_StreamOps_TEExpression`
  to a dedicated file to reuse `expression` (the module in the 
  dedicated `MC_StreamOps_TEExpression.tla` file takes precedence 
  over the module `MC_StreamOps_TEExpression` below).

---- MODULE MC_StreamOps_TEExpression ----
EXTENDS Sequences, TLCExt, MC_StreamOps, Toolbox, Naturals, TLC

expression == 
    [
        \* To hide variables of the `MC_StreamOps` spec from the error trace,
        \* remove the variables below.  The trace will be written in the order
        \* of the fields of this record.
        last |-> last
        ,steps |-> steps
        ,ss |-> ss
        
        \* Put additional constant-, state-, and action-level expressions here:
        \* ,_stateNumber |-> _TEPosition
        \* ,_lastUnchanged |-> last = last'
        
        \* Format the `last` variable as Json value.
        \* ,_lastJson |->
        \*     LET J == INSTANCE Json
        \*     IN J!ToJson(last)
        
        \* Lastly, you may build expressions over arbitrary sets of states by
        \* leveraging the _TETrace operator.  For example, this is how to
        \* count the number of times a spec variable changed up to the current
        \* state in the trace.
        \* ,_lastModCount |->
        \*     LET F[s \in DOMAIN _TETrace] ==
        \*         IF s = 1 THEN 0
        \*         ELSE IF _TETrace[s].last # _TETrace[s-1].last
        \*             THEN 1 + F[s-1] ELSE F[s-1]
        \*     IN F[_TEPosition - 1]
    ]

=============================================================================



Parsing and semantic processing can take forever if the trace below is long.
 In this case, it is advised to uncomment the module below to deserialize the
 trace from a generated binary file.

\*
\*---- MODULE MC_StreamOps_TETrace ----
\*EXTENDS IOUtils, MC_StreamOps, TLC
\*
\*trace == IODeserialize("MC_StreamOps_TTrace_1791002197.bin", TRUE)
\*
\*=============================================================================
\*

---- MODULE MC_StreamOps_TETrace ----
EXTENDS MC_StreamOps, TLC

trace == 
    <<
    ([ss |-> <<[filters |-> <<"FlateDecode">>, form |-> "array", parms |-> <<[present |-> TRUE, pred |-> 12, colors |-> 1, bpc |-> 8, columns |-> 2, early |-> 1]>>, content |-> <<120, 1, 1, 3, 0, 252, 255, 2, 1, 2, 0, 13, 0, 6>>, allows |-> TRUE, length |-> 14, orc |-> [has |-> FALSE, data |-> <<>>]], [filters |-> <<>>, form |-> "none", parms |-> <<>>, content |-> <<9, 7, 9, 7, 9, 7, 9, 7, 9, 7, 9, 7, 9, 7, 9, 7, 9, 7, 9, 7, 9, 7, 9, 7, 9, 7, 9, 7, 9, 7, 9, 7, 9, 7, 9, 7, 9, 7, 9, 7>>, allows |-> FALSE, length |-> 40, orc |-> [has |-> FALSE, data |-> <<>>]]>>,last |-> [i |-> 0, op |-> "init", pre |-> <<>>, arg |-> <<>>],steps |-> 0]),
    ([ss |-> <<[filters |-> <<>>, form |-> "none", parms |-> <<>>, content |-> <<2, 1, 2>>, allows |-> TRUE, length |-> 3, orc |-> [has |-> FALSE, data |-> <<>>]], [filters |-> <<>>, form |-> "none", parms |-> <<>>, content |-> <<9, 7, 9, 7, 9, 7, 9, 7, 9, 7, 9, 7, 9, 7, 9, 7, 9, 7, 9, 7, 9, 7, 9, 7, 9, 7, 9, 7, 9, 7, 9, 7, 9, 7, 9, 7, 9, 7, 9, 7>>, allows |-> FALSE, length |-> 40, orc |-> [has |-> FALSE, data |-> <<>>]]>>,last |-> [i |-> 1, op |-> "decompress", pre |-> <<[filters |-> <<"FlateDecode">>, form |-> "array", parms |-> <<[present |-> TRUE, pred |-> 12, colors |-> 1, bpc |-> 8, columns |-> 2, early |-> 1]>>, content |-> <<120, 1, 1, 3, 0, 252, 255, 2, 1, 2, 0, 13, 0, 6>>, allows |-> TRUE, length |-> 14, orc |-> [has |-> FALSE, data |-> <<>>]], [filters |-> <<>>, form |-> "none", parms |-> <<>>, content |-> <<9, 7, 9, 7, 9, 7, 9, 7, 9, 7, 9, 7, 9, 7, 9, 7, 9, 7, 9, 7, 9, 7, 9, 7, 9, 7, 9, 7, 9, 7, 9, 7, 9, 7, 9, 7, 9, 7, 9, 7>>, allows |-> FALSE, length |-> 40, orc |-> [has |-> FALSE, data |-> <<>>]]>>, arg |-> <<>>],steps |-> 1])
    >>
----


=============================================================================

---- CONFIG MC_StreamOps_TTrace_1791002197 ----
CONSTANTS
    MaxSteps = 2
    DevAvg = FALSE
    DevArr = TRUE
    DevStale = FALSE

INVARIANT
    _inv

CHECK_DEADLOCK
    \* CHECK_DEADLOCK off because of PROPERTY or INVARIANT above.
    FALSE

INIT
    _init

NEXT
    _next

CONSTANT
    _TETrace <- _trace

ALIAS
    _expression
=============================================================================
\* Generated on Sat Oct 03 04:36:38 UTC 2026