----------------------------- MODULE MC_Guards -----------------------------
(***************************************************************************)
(* C04 - guard models.  The five mechanisms that keep lopdf's loader from   *)
(* looping or recursing without bound on hostile files, transcribed one     *)
(* action per loop iteration / call, each with                              *)
(*   - a VARIANT (step / depth bound) checked as an invariant - there is no *)
(*     state constraint, so a cycle cannot hide behind a bound,             *)
(*   - termination as a liveness property under weak fairness,              *)
(*   - a declarative layer (what the mechanism is for) the impl-shaped      *)
(*     layer must refine, and                                               *)
(*   - a DESIGN 2.9 switch GuardOn: with FALSE the guard is removed and TLC *)
(*     must produce a counter-example to the variant (the model is not      *)
(*     vacuous; checks/c04.py asserts exactly that violation).              *)
(*                                                                          *)
(*  "prev"    Reader::read, the Prev loop with `already_seen` (reader.rs)   *)
(*            on every Prev function over <= N cross-reference sections     *)
(*            (Prev absent, any section incl. itself, or out of range).     *)
(*  "len"     Reader::get_object / parser::stream: indirect /Length         *)
(*            resolved re-entrantly with `already_seen`, on every           *)
(*            assignment object -> {integer, stream with direct Length,     *)
(*            stream with Length k 0 R (k any object, itself, or missing)}. *)
(*  "bracket" parser::literal_string / nested_literal_string(depth) with    *)
(*            MAX_BRACKET (MaxB in the model) on every string over ( ) a.   *)
(*  "nest"    parser::array / parser::dictionary with the thread-local       *)
(*            NestingGuard and MAX_NESTING (MaxB in the model; lopdf: 48,    *)
(*            added by fix: 79ece31) on every object over [ ] x.             *)
(*  "lendepth" the same indirect-Length resolution judged for DEPTH: "len"   *)
(*            proves that `already_seen` stops cycles and bounds the        *)
(*            recursion by the number of objects N - a bound that grows     *)
(*            with the file, which is why it never objected to a chain      *)
(*            1 -> 2 -> ... -> N of streams whose Length is the next one    *)
(*            (stack overflow at N = 3000).  Here the variant is a          *)
(*            constant (MaxB + 1 nested objects whatever N is); GuardOn =   *)
(*            TRUE is the design with a depth limit (an object nested       *)
(*            deeper is not resolved: error for that Length only),          *)
(*            GuardOn = FALSE the code as it is - TLC refutes it.           *)
(*  "window"  Reader::get_xref_start: search_substring recurses once per     *)
(*            occurrence of the marker, so its depth is bounded only        *)
(*            because the caller hands it the last Win bytes (512) of the   *)
(*            file; guard removed = the search starts at offset 0.          *)
(*  "search"  Reader::search_substring as used by get_xref_start, incl. the *)
(*            `seek_pos -= index` backtracking and the recursive call for   *)
(*            the last occurrence, on every buffer over a small alphabet.   *)
(***************************************************************************)
EXTENDS Naturals, Integers, Sequences, FiniteSets, TLC

CONSTANTS Model,      \* which mechanism: "prev" | "len" | "bracket" | "nest" | "search" | "window"
          N,          \* sections / objects / maximal input length
          MaxB,       \* the bracket / nesting limit of the model (lopdf: MAX_BRACKET = 100, MAX_NESTING = 48)
          GuardOn     \* FALSE: the guard of the selected mechanism is removed

VARIABLE st           \* one record; its shape depends on Model

\* search: a two-letter alphabet and patterns with and without self-overlap ("%%EOF" overlaps itself in its first two bytes)
Alphabet == {1, 2}
Patterns == { <<1, 1, 2>>, <<1, 2, 1>>, <<1, 1>>, <<2>>, <<1, 1, 2, 1, 1>> }

Nodes == 1..N

-----------------------------------------------------------------------------
(* "prev": reader.rs                                                        *)
(*   let (mut xref, mut trailer) = xref_and_trailer(buffer[xref_start..]);  *)
(*   let mut already_seen = HashSet::new();                                 *)
(*   let mut prev = trailer.remove("Prev");                                 *)
(*   while let Some(p) = prev { if already_seen.contains(p) {break}         *)
(*       already_seen.insert(p); if p out of range {return Err}             *)
(*       (x, t) = xref_and_trailer(buffer[p..]); xref.merge(x);             *)
(*       prev = t.get("Prev") }                                             *)
(* g[s] = 0: section s has no Prev; N+1: Prev beyond the buffer.            *)

PrevInit ==
    \E g \in [Nodes -> 0..(N + 1)], s0 \in Nodes :
        st = [pc |-> "first", g |-> g, s0 |-> s0, cur |-> 0, seen |-> {}, steps |-> 0, vis |-> {}]

PrevFirst ==
    /\ st.pc = "first"
    /\ st' = [st EXCEPT !.pc = "loop", !.cur = st.g[st.s0], !.steps = 1, !.vis = {st.s0}]

PrevIter ==
    /\ st.pc = "loop"
    /\ IF st.cur = 0 THEN st' = [st EXCEPT !.pc = "done"]
       ELSE IF GuardOn /\ st.cur \in st.seen THEN st' = [st EXCEPT !.pc = "done"]
       ELSE IF st.cur = N + 1 THEN st' = [st EXCEPT !.pc = "err", !.seen = @ \cup {st.cur}]
       ELSE st' = [st EXCEPT !.seen = @ \cup {st.cur}, !.steps = @ + 1, !.vis = @ \cup {st.cur}, !.cur = st.g[st.cur]]

\* declarative: the sections that describe the file are those reachable from the newest one along Prev
RECURSIVE ReachFrom(_, _, _)
ReachFrom(g, s, acc) ==
    IF s = 0 \/ s = N + 1 \/ s \in acc THEN acc ELSE ReachFrom(g, g[s], acc \cup {s})
PrevRange(g, s0) ==      \* does the chain run into an out-of-range offset?
    LET RECURSIVE Bad(_, _)
        Bad(s, acc) == IF s = 0 \/ s \in acc THEN FALSE ELSE IF s = N + 1 THEN TRUE ELSE Bad(g[s], acc \cup {s})
    IN Bad(s0, {})

PrevVariant == st.steps <= N + 1 /\ Cardinality(st.seen) <= N + 1
PrevRefines ==
    /\ (st.pc = "done" => st.vis = ReachFrom(st.g, st.s0, {}) /\ ~PrevRange(st.g, st.s0))
    /\ (st.pc = "err" => PrevRange(st.g, st.s0))
PrevDone == st.pc \in {"done", "err"}

-----------------------------------------------------------------------------
(* "len": parser::stream resolves `/Length k 0 R` through                    *)
(*   reader.get_object(k, already_seen) =                                    *)
(*     if already_seen.contains(k) {return Err(ReferenceCycle)}              *)
(*     already_seen.insert(k); offset = get_offset(k)?; read_object(offset)  *)
(* which parses object k - a stream there resolves *its* Length the same    *)
(* way with the same set.  The top-level read_object starts with an empty   *)
(* set and does not insert its own id.                                      *)
(* f[o] = -2: integer object; -1: stream, direct Length; 0: stream, Length  *)
(* refers to an object without xref entry; k >= 1: stream, Length k 0 R.    *)

LenInit ==
    \E f \in [Nodes -> (-2)..N], o0 \in Nodes :
        st = [pc |-> "run", f |-> f, o0 |-> o0, stk |-> <<o0>>, ret |-> "none", seen |-> {}, calls |-> 0,
              maxd |-> 1, resolved |-> FALSE]

LenStep ==
    /\ st.pc = "run"
    /\ IF st.stk = <<>> THEN st' = [st EXCEPT !.pc = "done"]
       ELSE
       LET o == st.stk[Len(st.stk)]
           pop == SubSeq(st.stk, 1, Len(st.stk) - 1)
           k == st.f[o]
       IN IF st.ret # "none" THEN
              \* the callee returned into the stream o that waits for its Length
              st' = [st EXCEPT !.stk = pop, !.ret = "stream",
                               !.resolved = IF Len(st.stk) = 1 THEN st.ret = "int" ELSE @]
          ELSE IF k = -2 THEN st' = [st EXCEPT !.stk = pop, !.ret = "int"]
          ELSE IF k = -1 THEN st' = [st EXCEPT !.stk = pop, !.ret = "stream",
                                               !.resolved = IF Len(st.stk) = 1 THEN TRUE ELSE @]
          ELSE \* Length k 0 R: get_object(k, already_seen)
               IF Model = "lendepth" /\ GuardOn /\ Len(st.stk) > MaxB
               THEN st' = [st EXCEPT !.stk = pop, !.ret = "stream", !.calls = @ + 1]                               \* Err(ReferenceLimit)
               ELSE IF (GuardOn \/ Model = "lendepth") /\ k \in st.seen THEN st' = [st EXCEPT !.stk = pop, !.ret = "stream", !.calls = @ + 1]      \* Err(ReferenceCycle)
               ELSE IF k = 0 THEN st' = [st EXCEPT !.stk = pop, !.ret = "stream", !.calls = @ + 1, !.seen = @ \cup {0}] \* Err(MissingXrefEntry)
               ELSE st' = [st EXCEPT !.stk = Append(@, k), !.calls = @ + 1, !.seen = @ \cup {k},
                                     !.maxd = IF Len(st.stk) + 1 > @ THEN Len(st.stk) + 1 ELSE @]

\* declarative: the Length of the top-level stream is known iff it is direct or names an integer object
LenKnown(f, o) == f[o] = -1 \/ (f[o] >= 1 /\ f[f[o]] = -2)
LenVariant == st.maxd <= N + 1 /\ st.calls <= N + 1 /\ Len(st.stk) <= N + 1
LenRefines == (st.pc = "done" /\ st.f[st.o0] # -2) => (st.resolved = LenKnown(st.f, st.o0))
LenDone == st.pc = "done"
\* depth judged against a constant: however many objects the file has, at most MaxB + 1 are being parsed at once
LenDepthVariant == st.maxd <= MaxB + 1 /\ Len(st.stk) <= MaxB + 1

-----------------------------------------------------------------------------
(* "bracket": literal_string = "(" inner(MAX_BRACKET) ")";                   *)
(*   inner(d) = fold_many0(alt(direct, escape, eol, nested(d)))             *)
(*   nested(d) = if d == 0 {fail} else "(" inner(d-1) ")"                   *)
(* symbols: 1 = "(", 2 = ")", 3 = any direct character.                     *)

BrStrings == UNION {[1..n -> 1..3] : n \in 1..N}

BrInit ==
    \E s \in BrStrings :
        st = [pc |-> "start", s |-> s, pos |-> 1, stk |-> <<>>, maxd |-> 0, steps |-> 0]

BrStep ==
    LET s == st.s
        eof == st.pos > Len(s)
    IN
    \/ /\ st.pc = "start"
       /\ IF s[1] = 1 THEN st' = [st EXCEPT !.pc = "inner", !.pos = 2, !.stk = <<MaxB>>, !.maxd = 1, !.steps = 1]
          ELSE st' = [st EXCEPT !.pc = "reject"]
    \/ /\ st.pc = "inner"
       /\ LET d == st.stk[Len(st.stk)]
              pop == SubSeq(st.stk, 1, Len(st.stk) - 1)
          IN IF eof THEN st' = [st EXCEPT !.pc = "reject"]
             ELSE IF s[st.pos] = 3 THEN st' = [st EXCEPT !.pos = @ + 1, !.steps = @ + 1]
             ELSE IF s[st.pos] = 1 THEN
                  IF GuardOn /\ d = 0 THEN st' = [st EXCEPT !.pc = "reject"]        \* nested(0) fails, then ")" is expected but "(" is there
                  ELSE st' = [st EXCEPT !.pos = @ + 1, !.steps = @ + 1, !.stk = Append(@, IF d = 0 THEN 0 ELSE d - 1),
                                        !.maxd = IF Len(st.stk) + 1 > @ THEN Len(st.stk) + 1 ELSE @]
             ELSE \* ")" closes the current level
                  IF pop = <<>> THEN st' = [st EXCEPT !.pc = "accept", !.pos = @ + 1, !.stk = pop, !.steps = @ + 1]
                  ELSE st' = [st EXCEPT !.pos = @ + 1, !.stk = pop, !.steps = @ + 1]

\* declarative: the string starts with "(", that parenthesis is closed, and no point inside is nested deeper than MaxB + 1
BrProfile(s) ==      \* nesting depth after each symbol, up to the point where it returns to 0
    LET RECURSIVE P(_, _, _)
        P(i, d, mx) == IF i > Len(s) THEN [closed |-> FALSE, mx |-> mx]
                       ELSE IF s[i] = 1 THEN P(i + 1, d + 1, IF d + 1 > mx THEN d + 1 ELSE mx)
                       ELSE IF s[i] = 2 THEN (IF d = 1 THEN [closed |-> TRUE, mx |-> mx] ELSE P(i + 1, d - 1, mx))
                       ELSE P(i + 1, d, mx)
    IN IF s[1] # 1 THEN [closed |-> FALSE, mx |-> 0] ELSE P(2, 1, 1)
BrAccept(s) == BrProfile(s).closed /\ BrProfile(s).mx <= MaxB + 1
BrVariant == st.maxd <= MaxB + 1 /\ Len(st.stk) <= MaxB + 1 /\ st.steps <= Len(st.s)
BrRefines == (st.pc = "accept" => BrAccept(st.s)) /\ (st.pc = "reject" => ~BrAccept(st.s))
BrDone == st.pc \in {"accept", "reject"}

-----------------------------------------------------------------------------
(* "nest": parser/mod.rs                                                     *)
(*   fn array(input) { "[" space;                                            *)
(*       let Some(_level) = NestingGuard::enter() else { return Failure };   *)
(*       many0(_direct_object) "]" }          (dictionary: the same with <<)  *)
(*   NestingGuard::enter: if NESTING >= MAX_NESTING {None} else {NESTING += 1}*)
(*   Drop: NESTING -= 1.    One direct object is parsed from the start.      *)
(* symbols: 1 = "[" (or "<<"), 2 = "]" (or ">>"), 3 = any scalar object.      *)
(* depth = the thread-local counter = the number of parser frames in use.    *)

NsInit ==
    \E s \in BrStrings :
        st = [pc |-> "start", s |-> s, pos |-> 1, depth |-> 0, maxd |-> 0, steps |-> 0]

NsStep ==
    LET s == st.s
        eof == st.pos > Len(s)
        enter == IF GuardOn /\ st.depth >= MaxB
                 THEN [st EXCEPT !.pc = "reject"]                                    \* nom Failure: the whole parse stops
                 ELSE [st EXCEPT !.pc = "inner", !.pos = @ + 1, !.depth = @ + 1, !.steps = @ + 1,
                                 !.maxd = IF st.depth + 1 > @ THEN st.depth + 1 ELSE @]
    IN
    \/ /\ st.pc = "start"
       /\ st' = IF s[1] = 3 THEN [st EXCEPT !.pc = "accept", !.pos = 2, !.steps = 1]
                ELSE IF s[1] = 2 THEN [st EXCEPT !.pc = "reject"]
                ELSE enter
    \/ /\ st.pc = "inner"
       /\ st' = IF eof THEN [st EXCEPT !.pc = "reject"]                               \* the closing bracket is missing
                ELSE IF s[st.pos] = 3 THEN [st EXCEPT !.pos = @ + 1, !.steps = @ + 1]
                ELSE IF s[st.pos] = 1 THEN enter
                ELSE [st EXCEPT !.pos = @ + 1, !.steps = @ + 1, !.depth = @ - 1,     \* "]": the guard is dropped
                                !.pc = IF st.depth = 1 THEN "accept" ELSE "inner"]

\* declarative: the first object is a scalar, or a bracket that is closed and never nested deeper than MaxB
NsAccept(s) == s[1] = 3 \/ (s[1] = 1 /\ BrProfile(s).closed /\ BrProfile(s).mx <= MaxB)
\* the variant is the point of the guard: the recursion depth is bounded by the constant, not by the input
NsVariant == st.depth <= MaxB /\ st.maxd <= MaxB /\ st.steps <= Len(st.s)
NsRefines == (st.pc = "accept" => NsAccept(st.s) /\ st.depth = 0) /\ (st.pc = "reject" => ~NsAccept(st.s))
NsDone == st.pc \in {"accept", "reject"}

-----------------------------------------------------------------------------
(* "search": reader.rs                                                       *)
(*   fn search_substring(buffer, pattern, start_pos) -> Option<usize> {      *)
(*     let mut seek_pos = start_pos; let mut index = 0;                      *)
(*     while seek_pos < buffer.len() && index < pattern.len() {              *)
(*       if buffer[seek_pos] == pattern[index] { index += 1 }                *)
(*       else if index > 0 { seek_pos -= index; index = 0 }                  *)
(*       seek_pos += 1;                                                      *)
(*       if index == pattern.len() { let res = seek_pos - index;             *)
(*         return search_substring(buffer, pattern, res + 1).or(Some(res)) } *)
(*     } None }                                                              *)
(* positions are 0-based as in the code; found = stack of pending `res`.    *)

SsBuffers == UNION {[1..n -> Alphabet] : n \in 0..N}

\* "window": the caller's guard.  get_xref_start starts the search at len - min(len, 512); Win is the model's 512.
Win == MaxB + 1
WinStart(b) == IF Len(b) > Win THEN Len(b) - Win ELSE 0
WinInit ==
    \E b \in SsBuffers, p \in Patterns :
        LET s == IF GuardOn THEN WinStart(b) ELSE 0 IN
        st = [pc |-> "loop", b |-> b, p |-> p, s0 |-> s, seek |-> s, idx |-> 0, found |-> <<>>, steps |-> 0, under |-> FALSE]

SsInit ==
    \E b \in SsBuffers, p \in Patterns, s \in 0..N :
        /\ s <= Len(b)
        /\ st = [pc |-> "loop", b |-> b, p |-> p, s0 |-> s, seek |-> s, idx |-> 0, found |-> <<>>, steps |-> 0, under |-> FALSE]

SsStep ==
    /\ st.pc = "loop"
    /\ LET b == st.b p == st.p IN
       IF st.seek < Len(b) /\ st.idx < Len(p) THEN
           LET hit == b[st.seek + 1] = p[st.idx + 1]
               idx1 == IF hit THEN st.idx + 1 ELSE 0
               back == IF ~hit /\ st.idx > 0 THEN st.idx ELSE 0
               seek1 == st.seek - back + 1
           IN IF idx1 = Len(p)
              THEN LET res == seek1 - idx1 IN                     \* recursive call from res + 1 (or, guard removed, from res)
                   st' = [st EXCEPT !.seek = IF GuardOn \/ Model = "window" THEN res + 1 ELSE res, !.idx = 0, !.found = Append(@, res), !.steps = @ + 1,
                                    !.under = @ \/ back > st.seek]
              ELSE st' = [st EXCEPT !.seek = seek1, !.idx = idx1, !.steps = @ + 1, !.under = @ \/ back > st.seek]
       ELSE st' = [st EXCEPT !.pc = "done"]                        \* None: every pending call returns its own res .or() the inner one

SsResult == IF st.found = <<>> THEN -1 ELSE st.found[Len(st.found)]

\* declarative: the last occurrence of the pattern that starts at or after start_pos (-1: none)
Occ(b, p, i) == i + Len(p) <= Len(b) /\ \A j \in 1..Len(p) : b[i + j] = p[j]        \* occurrence at 0-based i
LastOcc(b, p, s) ==
    LET S == {i \in s..Len(b) : Occ(b, p, i)} IN IF S = {} THEN -1 ELSE CHOOSE i \in S : \A j \in S : j <= i
SsVariant ==
    /\ Len(st.found) <= Len(st.b) + 1                                \* recursion depth
    /\ st.steps <= (Len(st.b) + 1) * (Len(st.p) + 1)                 \* loop iterations, all activations together
    /\ ~st.under                                                     \* `seek_pos -= index` never underflows
SsRefines == st.pc = "done" => SsResult = LastOcc(st.b, st.p, st.s0)
SsDone == st.pc = "done"

\* the recursion depth is at most the number of occurrences inside the searched window, and the window is a constant:
\* the depth does not grow with the file
OccIn(b, p, s) == Cardinality({i \in s..Len(b) : Occ(b, p, i)})
WinVariant == Len(st.found) <= OccIn(st.b, st.p, st.s0) /\ Len(st.found) <= Win /\ ~st.under
\* declarative: the marker found is the last one of the file, provided one lies in the last Win bytes
WinRefines == st.pc = "done" => (SsResult = LastOcc(st.b, st.p, st.s0)
                                /\ (LastOcc(st.b, st.p, WinStart(st.b)) # -1 => SsResult = LastOcc(st.b, st.p, 0)))

-----------------------------------------------------------------------------
Init == IF Model = "prev" THEN PrevInit ELSE IF Model \in {"len", "lendepth"} THEN LenInit
        ELSE IF Model = "bracket" THEN BrInit ELSE IF Model = "nest" THEN NsInit ELSE IF Model = "window" THEN WinInit ELSE SsInit

StepPrevFirst == Model = "prev" /\ PrevFirst
StepPrevIter  == Model = "prev" /\ PrevIter
StepLen       == Model \in {"len", "lendepth"} /\ LenStep
StepBracket   == Model = "bracket" /\ BrStep
StepNest      == Model = "nest" /\ NsStep
StepSearch    == Model \in {"search", "window"} /\ SsStep

Next == StepPrevFirst \/ StepPrevIter \/ StepLen \/ StepBracket \/ StepNest \/ StepSearch

Spec == Init /\ [][Next]_st /\ WF_st(Next)

Variant == IF Model = "prev" THEN PrevVariant ELSE IF Model = "len" THEN LenVariant ELSE IF Model = "lendepth" THEN LenDepthVariant
           ELSE IF Model = "bracket" THEN BrVariant ELSE IF Model = "nest" THEN NsVariant ELSE IF Model = "window" THEN WinVariant ELSE SsVariant
Refines == IF Model = "prev" THEN PrevRefines ELSE IF Model \in {"len", "lendepth"} THEN LenRefines
           ELSE IF Model = "bracket" THEN BrRefines ELSE IF Model = "nest" THEN NsRefines ELSE IF Model = "window" THEN WinRefines ELSE SsRefines
Done == IF Model = "prev" THEN PrevDone ELSE IF Model \in {"len", "lendepth"} THEN LenDone
        ELSE IF Model = "bracket" THEN BrDone ELSE IF Model = "nest" THEN NsDone ELSE SsDone

Terminates == <>Done
=============================================================================
