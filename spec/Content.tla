------------------------------ MODULE Content ------------------------------
(***************************************************************************)
(* Content streams (ISO 32000-1 7.8.2, 8.9.7) on the shared lexer.          *)
(*                                                                          *)
(* A content stream is a sequence of operations                             *)
(*     [op |-> operator bytes, args |-> <<operand values>>]                 *)
(* written in postfix form: the operands (direct objects), then the         *)
(* operator (a keyword).  An inline image  BI <entries> ID <one white-space *)
(* byte> <data> EI  is the single operation [op |-> "BI", args |->          *)
(* <<stream(entries, data)>>] (the shape lopdf gives it), the data length    *)
(* being computed from the entries (Syntax!InlineInfo).                      *)
(*                                                                          *)
(* Declarative layer of C14:                                                *)
(*   ReadOps(bytes)            what a strict reader makes of content bytes   *)
(*   JudgeDecode(opsDoc, bytes) document-side operations (reals carry their  *)
(*                             f32 rounding interval) against the strict     *)
(*                             reading of bytes: same operators, same number *)
(*                             of operands, operands equal (PdfObjects!      *)
(*                             Matches: an integral real may be an integer)  *)
(*   JudgeSame(opsA, opsB)     two document-side operation lists denote the  *)
(*                             same operations (decode(encode(x)) vs x)      *)
(*   Domain(ops)               where encode and decode must agree: core      *)
(*                             (encode succeeds, decode returns x),          *)
(*                             refusable (encode refuses or decode returns x)*)
(*                             or outside the statement                      *)
(***************************************************************************)
EXTENDS Syntax


Operation(op, args) == [op |-> op, args |-> args]

\* group the top-level items of Read(bytes, TRUE) into operations
Ops(bytes, items) ==
    LET bad(acc, msg) == [acc EXCEPT !.err = msg]
        step(acc, it) ==
            IF acc.err # "" THEN acc
            ELSE IF it.it = "val" THEN [acc EXCEPT !.args = Append(@, it.val)]
            ELSE IF it.it = "kw" THEN
                IF it.v = KwID \/ it.v = KwEI THEN bad(acc, "ID or EI outside an inline image")
                ELSE [acc EXCEPT !.ops = Append(@, Operation(it.v, acc.args)), !.args = <<>>]
            ELSE IF it.it = "img" THEN
                IF acc.args # <<>> THEN bad(acc, "operands before BI")
                ELSE [acc EXCEPT !.ops = Append(@, Operation(KwBI, <<OStream(it.d, SubSeq(bytes, it.rs, it.re))>>))]
            ELSE bad(acc, "unexpected item in a content stream")
        r == FoldLeft(step, [ops |-> <<>>, args |-> <<>>, err |-> ""], items)
    IN IF r.err # "" THEN [ok |-> FALSE, err |-> r.err, at |-> 0, ops |-> <<>>]
       ELSE IF r.args # <<>> THEN [ok |-> FALSE, err |-> "operands without an operator at the end", at |-> 0, ops |-> <<>>]
       ELSE [ok |-> TRUE, err |-> "", at |-> 0, ops |-> r.ops]

\* the StrictReader on a content stream: [ok, err, at, ops].  vb = TRUE (classifier only): raw end-of-line
\* markers inside literal strings are kept as written instead of being read as LF (7.3.4.2)
ReadOpsV(bytes, vb) ==
    LET rd == ReadV(bytes, TRUE, vb) IN
    IF ~rd.ok THEN [ok |-> FALSE, err |-> rd.err, at |-> rd.at, ops |-> <<>>]
    ELSE Ops(bytes, rd.items)

ReadOps(bytes) == ReadOpsV(bytes, FALSE)

\* classifier: facts about the first inline image of a content stream, as the StrictReader sees it
InlineFacts(bytes) ==
    LET rd == Read(bytes, TRUE)
        imgs == SelectSeq(rd.items, LAMBDA it : it.it = "img")
    IN IF ~rd.ok \/ imgs = <<>> THEN [n |-> 0]
       ELSE LET it == imgs[1]
                get(ab, full) == IF Has(it.d, ab) THEN it.d[ab] ELSE IF Has(it.d, full) THEN it.d[full] ELSE ONull
                cs == get(InKeyCS, InKeyColorSpace)
                bpc == get(InKeyBPC, InKeyBits)
            IN [n |-> Len(imgs), cs |-> IF cs.k = "name" THEN cs.v ELSE <<>>, bpc |-> IF IntSmall(bpc) THEN IntVal(bpc) ELSE 0,
                len |-> it.re - it.rs + 1, first |-> IF it.re >= it.rs THEN bytes[it.rs] ELSE 0 - 1, idws |-> bytes[it.rs - 1],
                wsbefore |-> {bytes[i] : i \in 1..(it.rs - 1)} \cap {0, 12} # {},
                keys |-> SetToSeq(DOMAIN it.d), mask |-> get(InKeyIM, InKeyImageMask) = OBool(TRUE)]

-----------------------------------------------------------------------------
(* JSON (harness wire format) -> operations: [{op: bytes, args: [obj...]}...] *)
OpsOf(j) == [i \in 1..Len(j) |-> Operation(j[i].op, [n \in 1..Len(j[i].args) |-> ObjOf(j[i].args[n])])]

-----------------------------------------------------------------------------
(* document side against file side *)

\* A document-side real whose f32 is not finite (the harness marks it `nonfinite`) denotes no PDF number.
IsNonFinite(o) == o.k = "real" /\ "nonfinite" \in DOMAIN o
RECURSIVE HasNonFinite(_)
HasNonFinite(o) ==
    IF o.k = "real" THEN IsNonFinite(o)
    ELSE IF o.k = "arr" THEN \E i \in 1..Len(o.v) : HasNonFinite(o.v[i])
    ELSE IF o.k \in {"dict", "stream"} THEN \E key \in DOMAIN o.v : HasNonFinite(o.v[key])
    ELSE FALSE

\* an inline image is held by lopdf as a stream object, whose dictionary carries the Length that
\* Stream::new adds; the image in the content stream has no such entry
ArgMatches(d, f) ==
    IF HasNonFinite(d) THEN FALSE                     \* no token denotes it
    ELSE IF d.k = "stream" THEN f.k = "stream" /\ MatchesDictExcept(d.v, f.v, {NameLength}) /\ d.w = f.w
    ELSE Matches(d, f)

\* document side against document side (both carry rounding intervals, which identify the f32)
RECURSIVE DocSame(_, _)
DocSame(a, b) ==
    IF IsNonFinite(a) \/ (b.k = "real" /\ IsNonFinite(b)) THEN a = b          \* the same infinity / the same NaN bits
    ELSE IF a.k = "real" THEN
        IF b.k = "real" THEN a.lo = b.lo /\ a.hi = b.hi /\ (a.neg = b.neg \/ (a.lo.ip = <<0>> /\ a.lo.fp = <<>>))
        \* an integral real may return as an integer: the integer must denote the same f32
        ELSE IF b.k = "int" THEN RealTokMatches(a, b)
        ELSE FALSE
    ELSE IF a.k # b.k THEN FALSE
    ELSE IF a.k = "arr" THEN Len(a.v) = Len(b.v) /\ \A i \in 1..Len(a.v) : DocSame(a.v[i], b.v[i])
    ELSE IF a.k = "dict" THEN DOMAIN a.v = DOMAIN b.v /\ \A key \in DOMAIN a.v : DocSame(a.v[key], b.v[key])
    ELSE IF a.k = "stream" THEN /\ DOMAIN a.v = DOMAIN b.v /\ \A key \in DOMAIN a.v : DocSame(a.v[key], b.v[key])
                                /\ a.w = b.w
    ELSE a = b

\* first difference between two operation lists under the operand comparison M: a verdict record
Compare(A, B, M(_, _)) ==
    IF Len(A) # Len(B) THEN [v |-> "op-count", want |-> Len(A), got |-> Len(B)]
    ELSE LET same(q) == /\ A[q].op = B[q].op /\ Len(A[q].args) = Len(B[q].args)
                        /\ \A m \in 1..Len(A[q].args) : M(A[q].args[m], B[q].args[m])
             i == SelectInSeq([x \in 1..Len(A) |-> same(x)], LAMBDA ok : ~ok)
         IN IF i = 0 THEN [v |-> "ok"]
            ELSE IF A[i].op # B[i].op THEN [v |-> "operator", i |-> i, want |-> A[i].op, got |-> B[i].op]
            ELSE IF Len(A[i].args) # Len(B[i].args) THEN [v |-> "operand-count", i |-> i, op |-> A[i].op,
                                                          want |-> Len(A[i].args), got |-> Len(B[i].args)]
            ELSE LET n == SelectInSeq([x \in 1..Len(A[i].args) |-> M(A[i].args[x], B[i].args[x])], LAMBDA ok : ~ok)
                 IN [v |-> "operand", i |-> i, n |-> n, op |-> A[i].op, want |-> A[i].args[n].k, got |-> B[i].args[n].k]

\* document-side operations against an already computed strict reading rd = ReadOps(bytes)
JudgeAgainst(opsDoc, rd) ==
    IF ~rd.ok THEN [v |-> "strict-reader-rejects", err |-> rd.err, at |-> rd.at]
    ELSE Compare(opsDoc, rd.ops, ArgMatches)

JudgeDecode(opsDoc, bytes) == JudgeAgainst(opsDoc, ReadOps(bytes))

\* classifier: are the operations what the bytes say when end-of-line markers in literal strings are kept verbatim?
VerbatimEolExplains(opsDoc, bytes) == JudgeAgainst(opsDoc, ReadOpsV(bytes, TRUE)).v = "ok"

JudgeSame(opsA, opsB) == Compare(opsA, opsB, DocSame)

-----------------------------------------------------------------------------
(* The domain on which encode and decode must agree.                                               *)
(*                                                                                                 *)
(* C14 quantifies over every operation whose operator is a non-empty string over the alphabet the   *)
(* parser documents (ASCII letters, star, single and double quote) and whose operands are direct    *)
(* objects nested arbitrarily.  Three kinds of such operations cannot, or need not, be carried by a  *)
(* content stream:                                                                                   *)
(*   - "unwritable" operators: the words null, true and false denote objects (7.3.2, 7.3.9), BI      *)
(*     always opens an inline image and ID / EI only occur inside one (8.9.7): no byte sequence      *)
(*     means "the operator null" or "BI with these operands".                                        *)
(*   - operands that denote no PDF object: a real that is not finite (7.3.3).                         *)
(*   - nesting beyond what the implementation reads: an implementation limit (Annex C) is legitimate *)
(*     above CoreNest levels of arrays / dictionaries.                                                *)
(* Core domain: everything else -- encode must succeed and decode(encode(x)) = x.  On the rest       *)
(* ("refusable") encode and decode must still AGREE: either encode refuses (returns an error) or    *)
(* the bytes it writes decode to x.  Writing bytes that decode to something else, or to nothing, is  *)
(* a violation everywhere.  Operators outside the alphabet (d0, a-b, the empty string) and operands  *)
(* that are not direct objects (references, streams other than the one of an inline image) are       *)
(* outside the statement.                                                                             *)
OpAlphabet == (65..90) \cup (97..122) \cup {42, 39, 34}
IsOperatorString(op) == op # <<>> /\ \A i \in 1..Len(op) : op[i] \in OpAlphabet
CoreNest == 32

IsInlineOp(o) == o.op = KwBI /\ Len(o.args) = 1 /\ o.args[1].k = "stream"
Unwritable(o) == o.op \in {KwNull, KwTrue, KwFalse, KwID, KwEI} \/ (o.op = KwBI /\ ~IsInlineOp(o))

RECURSIVE NestDepth(_)
NestDepth(o) ==
    LET mx(S) == IF S = {} THEN 0 ELSE CHOOSE x \in S : \A y \in S : y <= x IN
    IF o.k = "arr" THEN 1 + mx({NestDepth(o.v[i]) : i \in 1..Len(o.v)})
    ELSE IF o.k = "dict" THEN 1 + mx({NestDepth(o.v[key]) : key \in DOMAIN o.v})
    ELSE IF o.k = "stream" THEN mx({NestDepth(o.v[key]) : key \in DOMAIN o.v})      \* inline image entries are not bracketed
    ELSE 0

RECURSIVE IsDirect(_)
IsDirect(o) ==
    IF o.k = "arr" THEN \A i \in 1..Len(o.v) : IsDirect(o.v[i])
    ELSE IF o.k = "dict" THEN \A key \in DOMAIN o.v : IsDirect(o.v[key])
    ELSE o.k \notin {"ref", "stream"}

\* [cls |-> "core" | "refusable" | "outside", why |-> set of reasons]
Domain(ops) ==
    LET idx == 1..Len(ops)
        args(i) == {ops[i].args[n] : n \in 1..Len(ops[i].args)}
        outside == \E i \in idx : \/ ~IsOperatorString(ops[i].op)
                                   \/ (IF IsInlineOp(ops[i]) THEN \E key \in DOMAIN ops[i].args[1].v : ~IsDirect(ops[i].args[1].v[key])
                                       ELSE \E a \in args(i) : ~IsDirect(a))
        why == (IF \E i \in idx : Unwritable(ops[i]) THEN {"unwritable-operator"} ELSE {})
               \cup (IF \E i \in idx : \E a \in args(i) : HasNonFinite(a) THEN {"nonfinite-real"} ELSE {})
               \cup (IF \E i \in idx : \E a \in args(i) : NestDepth(a) > CoreNest THEN {"nesting-above-core"} ELSE {})
    IN IF outside THEN [cls |-> "outside", why |-> {}]
       ELSE IF why # {} THEN [cls |-> "refusable", why |-> why]
       ELSE [cls |-> "core", why |-> {}]
=============================================================================
