SPECIFICATION Spec
CONSTANTS
  N = 3
  DerefLimit = 6
  Dev_NextCycle = TRUE
  Dev_FirstCycle = TRUE
  Dev_KidsCycle = TRUE
  Dev_DestIndex = TRUE
  Dev_NdUnwrapD = TRUE
  Dev_NdKeyStr = TRUE
  Dev_NdValIndex = TRUE
  Dev_CsIndex = TRUE
  Dev_SizeHint = TRUE
  Dev_RsrcRecursion = TRUE
  Dev_FirstDepth = TRUE
  Dev_KidsDepth = TRUE
  FirstWalkIterative = FALSE
  StackFrames = 9
  OutlineDepthLimit = 5
  NameTreeDepthLimit = 5
  ChainLens = {1, 2, 3, 4, 5, 6, 7, 8, 9, 10, 12, 16, 24}
  Emit = FALSE
  Scen = {"chain", "links", "kids", "dest", "names", "img", "pages"}
INVARIANTS PcOK TotalInv

CHECK_DEADLOCK FALSE
