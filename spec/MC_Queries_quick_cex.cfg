SPECIFICATION Spec
CONSTANTS
  N = 3
  DerefLimit = 6
  Dev_NextCycle = TRUE
  Dev_FirstCycle = TRUE
  Dev_KidsCycle = TRUE
  Dev_DestIndex = TRUE
  Dev_NdUnwrapD = TRUE
  Dev_NdKeyStr = TRUE
  Dev_NdValIndex = TRUE
  Dev_CsIndex = TRUE
  Emit = FALSE
  Scen = {"links", "kids", "dest", "names", "img"}
INVARIANTS PcOK TotalInv

CHECK_DEADLOCK FALSE
