SPECIFICATION Spec
CONSTANTS
  Thorough = FALSE
  Dev_h41 = TRUE
  Emit = FALSE
INVARIANTS CalendarOk RoundTrip FmtRefines ParseRefines FunctionForm Terminates
CHECK_DEADLOCK FALSE
