SPECIFICATION Spec
CONSTANTS
  Thorough = FALSE
  Dev_h41 = TRUE
  Dev_gmt = TRUE
  Dev_y10k = TRUE
  Emit = FALSE
  Tiny = FALSE
INVARIANTS CalendarOk RoundTrip FmtRefines FmtRefinesDone ParseRefines FunctionForm Terminates
CHECK_DEADLOCK FALSE
