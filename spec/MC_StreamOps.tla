--------------------------- MODULE MC_StreamOps ---------------------------
(* All operation sequences up to MaxSteps on a document of two streams (one of them with        *)
(* allows_compression = FALSE), starting from every stream in Starts, with contents from        *)
(* Contents.  The impl-shaped actions of StreamOps (ImplSetContent ..) must satisfy the declarative layer:      *)
(* LengthInv in every state, and SetContentOK / SetPlainOK / CompressOK / DecompressOK for       *)
(* every step (checked through the history variable `last`).                                    *)
(* The deflate compressor is abstract: for a content x it may return any of Candidates(x) - an   *)
(* opaque token much shorter than x, one slightly shorter, or the transparent stored-block        *)
(* stream (longer than x); the ghost field `orc` records "inflates to x".                        *)
(* Deviation switches as in Codecs (DESIGN 2.9): all FALSE = the code as it is since the fix:     *)
(* commits (no counter-example); one switch TRUE = the repaired defect seeded back into the       *)
(* design (counter-example exactly on the class of the former finding: a negative control of the   *)
(* contract invariants).                                                                          *)
EXTENDS StreamOps, Json

CONSTANTS MaxSteps, DevAvg, DevArr, DevStale,
          DevEmpty      \* open finding filter.empty-array (decompress wipes a /Filter [] stream): the code as it
                        \* is = the other switches FALSE and this one TRUE (MC_StreamOps_devEmpty.cfg)

CONSTANTS Disturbs,     \* TRUE: between any two calls the thread may decode arbitrary other streams (action Disturb),
                        \*       among them streams whose decode fails at every possible point; decompress then runs on
                        \*       the thread-aware layer (ImplDecompressT)
          DevDocInd,    \* open findings doc-indirect.*: Document::decompress does not resolve references (TRUE = as the code is)
          DevInd,       \* open findings indirect.*: Stream::decompress guesses when an entry is written as a reference
          DevRows       \* the PNG row buffers survive a failed decode (Codecs, "Thread history"); TLC must refute it

VARIABLES ss, last, steps,
          rows,         \* the thread's scratch state
          dk            \* kind of the disturbance that left `rows` dirty ("none" = clean)
vars == <<ss, last, steps, rows, dk>>

Compressible == [i \in 1..40 |-> IF i % 2 = 0 THEN 7 ELSE 9]
Contents == {<<>>, <<3, 1, 2>>, Compressible}

Candidates(x) ==
    {ZStored(x, 65535)} \cup
    (IF Len(x) >= 30 THEN {<<120, 218, Len(x)>>, <<120, 218>> \o [i \in 1..(Len(x) - 7) |-> 0]} ELSE {})

S0(filters, form, parms, content, allows) ==
    [filters |-> filters, ff |-> IF filters = <<>> THEN "none" ELSE IF Len(filters) = 1 THEN "name" ELSE "array",
     form |-> form, parms |-> parms, length |-> Len(content), content |-> content,
     allows |-> allows, orc |-> NoOracle, ind |-> "none",
     abs |-> [filters |-> filters, fform |-> IF filters = <<>> THEN "none" ELSE IF Len(filters) = 1 THEN "name" ELSE "array",
              form |-> form, parms |-> parms]]
\* a chain of zero filters written as /Filter [] (ff = "array") or /Filter null (ff = "null")
Zero(ff, form, content) == [S0(<<>>, form, <<>>, content, TRUE) EXCEPT !.ff = ff, !.abs.fform = ff]


P12 == [present |-> TRUE, pred |-> 12, colors |-> 1, bpc |-> 8, columns |-> 2, early |-> 1]
P13 == [present |-> TRUE, pred |-> 13, colors |-> 1, bpc |-> 8, columns |-> 2, early |-> 1]
Rows12 == <<1, 2, 4>>
\* an entry written as an indirect reference: /DecodeParms n 0 R on a predictor stream, /Filter n 0 R
IndParms == [S0(<<Flate>>, "dict", <<P12>>, ZStored(PngEncode(<<1, 2>>, 1, 2, <<2>>), 65535), TRUE)
                EXCEPT !.ind = "parms", !.abs = [filters |-> <<Flate>>, fform |-> "name", form |-> "none", parms |-> <<>>]]
IndFilter == [S0(<<A85>>, "none", <<>>, A85Encode(<<3, 1, 2>>, TRUE), TRUE) EXCEPT !.ff = "ref", !.ind = "filter", !.abs = NoAbs]
Starts ==
    {S0(<<>>, "none", <<>>, c, TRUE) : c \in Contents} \cup
    {S0(<<A85>>, "none", <<>>, A85Encode(<<3, 1, 2>>, TRUE), TRUE),
     S0(<<Flate>>, "dict", <<P12>>, ZStored(PngEncode(Rows12 \o Rows12, 1, 2, <<1, 2, 4>>), 65535), TRUE),
     S0(<<Flate>>, "dict", <<P13>>, ZStored(PngEncode(<<1, 2>>, 1, 2, <<3>>), 65535), TRUE),
     S0(<<Flate>>, "array", <<P12>>, ZStored(PngEncode(<<1, 2>>, 1, 2, <<2>>), 65535), TRUE),
     S0(<<A85, Lzw>>, "none", <<>>, A85Encode(LzwEncode(<<3, 1, 2>>, 1, 4094), TRUE), TRUE),
     S0(<<"DCTDecode">>, "none", <<>>, <<255, 216>>, TRUE),
     IndParms, IndFilter,
     Zero("array", "none", <<3, 1, 2>>), Zero("array", "array", Compressible), Zero("null", "none", Compressible),
     S0(<<>>, "dict", <<P12>>, Compressible, TRUE)}          \* no filter, left-over DecodeParms (class compress.stale-decodeparms)

NoOp == [op |-> "init", i |-> 0, pre |-> <<>>, arg |-> <<>>, dk |-> "none"]

\* streams the thread may have decoded in between: a legal predictor stream, and streams whose decode fails -
\* the PNG data PD cut at every offset, a bad filter-type byte in row k, a cut zlib stream, a bad LZW code,
\* a bad ASCII85 group in front of a predictor stage
P3 == [present |-> TRUE, pred |-> 12, colors |-> 1, bpc |-> 8, columns |-> 3, early |-> 1]
PD == PngEncode(<<10, 11, 12, 1, 1, 1>>, 1, 3, <<2, 2>>)
D(kind, s) == [kind |-> kind, s |-> s]
Disturbances ==
    {D("ok", S0(<<Flate>>, "dict", <<P3>>, ZStored(PD, 65535), TRUE))}
    \cup {D("png.cut-row", S0(<<Flate>>, "dict", <<P3>>, ZStored(SubSeq(PD, 1, o), 65535), TRUE)) : o \in 1..(Len(PD) - 1)}
    \cup {D("png.bad-type", S0(<<Flate>>, "dict", <<P3>>, ZStored([PD EXCEPT ![(k - 1) * 4 + 1] = 9], 65535), TRUE)) : k \in 1..2}
    \cup {D("zlib.cut", S0(<<Flate>>, "dict", <<P3>>, SubSeq(ZStored(PD, 5), 1, 18), TRUE)),
          D("lzw.bad-code", S0(<<Lzw>>, "dict", <<P3>>, <<128, 255, 255>>, TRUE)),
          D("a85.bad-group", S0(<<A85, Flate>>, "array", <<DefaultParms, P3>>, <<117, 117, 117, 117, 117, 126, 62>>, TRUE))}

Init ==
    /\ \E a \in Starts : ss = <<a, S0(<<>>, "none", <<>>, Compressible, FALSE)>>
    /\ last = NoOp
    /\ steps = 0
    /\ rows = CleanRows
    /\ dk = "none"

Step(op, i, arg, new) ==
    /\ steps < MaxSteps
    /\ ss' = new
    /\ last' = [op |-> op, i |-> i, pre |-> ss, arg |-> arg, dk |-> dk]
    /\ steps' = steps + 1

Calm == UNCHANGED <<rows, dk>>          \* operations that decode nothing
\* one decompress on this thread: [s, rows]
DecompOne(s, rw) == IF Disturbs THEN ImplDecompressT(s, rw, DevRows)
                    ELSE [s |-> ImplDecompress(s, DevAvg, DevArr, FALSE, DevEmpty, DevInd), rows |-> rw]
After(rw) == /\ rows' = rw
             /\ dk' = IF rw = CleanRows THEN "none" ELSE dk

SetContent == \E i \in 1..2, b \in Contents : Step("set_content", i, b, [ss EXCEPT ![i] = ImplSetContent(ss[i], b)]) /\ Calm
SetPlainContent == \E i \in 1..2, b \in Contents : Step("set_plain_content", i, b, [ss EXCEPT ![i] = ImplSetPlain(ss[i], b)]) /\ Calm
Compress == \E i \in 1..2 : \E c \in Candidates(ss[i].content) :
                Step("compress", i, <<>>, [ss EXCEPT ![i] = ImplCompress(ss[i], c, DevStale)]) /\ Calm
Decompress == \E i \in 1..2 : LET d == DecompOne(ss[i], rows) IN
                Step("decompress", i, <<>>, [ss EXCEPT ![i] = d.s]) /\ After(d.rows)
DocCompress == \E c1 \in Candidates(ss[1].content), c2 \in Candidates(ss[2].content) :
                Step("doc_compress", 0, <<>>, ImplDocCompress(ss, <<c1, c2>>, DevStale)) /\ Calm
DocOne(s, rw) == DecompOne(IF DevDocInd THEN s ELSE Resolved(s), rw)       \* the Document resolves references first
DocDecompress == LET d1 == DocOne(ss[1], rows) d2 == DocOne(ss[2], d1.rows) IN      \* in object order, errors swallowed
                Step("doc_decompress", 0, <<>>, <<d1.s, d2.s>>) /\ After(d2.rows)

\* the thread decodes some other stream (its result is thrown away; only the scratch state can carry over)
Disturb ==
    /\ Disturbs
    /\ \E d \in Disturbances :
          LET r == ImplViewT(d.s, rows, DevRows) IN
          /\ Step("disturb", 0, <<>>, ss)
          /\ rows' = r.rows
          /\ dk' = IF r.rows = CleanRows THEN "none" ELSE d.kind

Next == SetContent \/ SetPlainContent \/ Compress \/ Decompress \/ DocCompress \/ DocDecompress \/ Disturb

Spec == Init /\ [][Next]_vars

-----------------------------------------------------------------------------
\* after every content-changing operation the Length entry equals the content length
LengthInv == \A i \in 1..2 : LengthOK(ss[i])

Touched(i) == last.i = 0 \/ last.i = i

\* every step satisfies the declarative contract of its operation
Good4(i) ==
    IF ~Touched(i) THEN last.op = "init" \/ ss[i] = last.pre[i]
    ELSE CASE last.op = "set_content"       -> SetContentOK(last.pre[i], last.arg, ss[i])
           [] last.op = "set_plain_content" -> SetPlainOK(last.pre[i], last.arg, ss[i])
           [] last.op \in {"compress", "doc_compress"}     -> CompressOK(last.pre[i], ss[i])
           [] last.op = "decompress" -> DecompressOK(last.pre[i], ss[i])
           [] last.op = "doc_decompress" -> DocDecompressOK(last.pre[i], ss[i])
           [] last.op = "disturb" -> ss[i] = last.pre[i]
           [] OTHER -> TRUE
StepOK == \A i \in 1..2 : Good4(i)

\* a repaired defect seeded back (one deviation switch on): the contract is broken - reported as a
\* DEVIATION line - but only on inputs of the class of that former finding
\* (a contract broken while the thread's scratch state was dirty is of class history.<kind of the disturbance>)
ClassesNow(i) == KnownClasses(last.pre[i], last.op) \cup (IF last.dk # "none" THEN {"history." \o last.dk} ELSE {})
StepOKModKnown ==
    \A i \in 1..2 : ~Good4(i) =>
        /\ ClassesNow(i) # {}
        /\ PrintT(<<"DEVIATION", ToJson(SetToSeq(ClassesNow(i)))>>)

\* history independence, stated directly: a decompress gives the same stream whatever the thread decoded before
HistoryFree ==
    (Disturbs /\ last.op = "decompress") =>
        ss[last.i] = ImplDecompressT(last.pre[last.i], CleanRows, FALSE).s

\* one line per operation kind (anti-vacuity: every action was taken)
ActionPrint == steps = 1 => PrintT(<<"ACTION", ToJson(last.op)>>)

\* witnesses (anti-vacuity; always TRUE, the check script requires both lines): a compress that really
\* adds the filter, and a decompress that undoes that compression and returns the original bytes
WitnessPrint ==
    /\ (last.op = "compress" /\ ss[last.i].filters = <<Flate>> /\ last.pre[last.i].filters = <<>>)
          => PrintT(<<"WITNESS", "\"compressed\"">>)
    /\ (last.op = "decompress" /\ last.pre[last.i].orc.has /\ ss[last.i].content = Compressible /\ ss[last.i].filters = <<>>)
          => PrintT(<<"WITNESS", "\"roundtrip\"">>)
=============================================================================
