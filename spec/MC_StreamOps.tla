--------------------------- MODULE MC_StreamOps ---------------------------
(* All operation sequences up to MaxSteps on a document of two streams (one of them with        *)
(* allows_compression = FALSE), starting from every stream in Starts, with contents from        *)
(* Contents.  The impl-shaped actions of StreamOps (ImplSetContent ..) must satisfy the declarative layer:      *)
(* LengthInv in every state, and SetContentOK / SetPlainOK / CompressOK / DecompressOK for       *)
(* every step (checked through the history variable `last`).                                    *)
(* The deflate compressor is abstract: for a content x it may return any of Candidates(x) - an   *)
(* opaque token much shorter than x, one slightly shorter, or the transparent stored-block        *)
(* stream (longer than x); the ghost field `orc` records "inflates to x".                        *)
(* Deviation switches as in Codecs (DESIGN 2.9): all FALSE = the code as it is since the fix:     *)
(* commits (no counter-example); one switch TRUE = the repaired defect seeded back into the       *)
(* design (counter-example exactly on the class of the former finding: a negative control of the   *)
(* contract invariants).                                                                          *)
EXTENDS StreamOps, Json

CONSTANTS MaxSteps, DevAvg, DevArr, DevStale,
          DevEmpty      \* open finding filter.empty-array (decompress wipes a /Filter [] stream): the code as it
                        \* is = the other switches FALSE and this one TRUE (MC_StreamOps_devEmpty.cfg)

VARIABLES ss, last, steps
vars == <<ss, last, steps>>

Compressible == [i \in 1..40 |-> IF i % 2 = 0 THEN 7 ELSE 9]
Contents == {<<>>, <<3, 1, 2>>, Compressible}

Candidates(x) ==
    {ZStored(x, 65535)} \cup
    (IF Len(x) >= 30 THEN {<<120, 218, Len(x)>>, <<120, 218>> \o [i \in 1..(Len(x) - 7) |-> 0]} ELSE {})

S0(filters, form, parms, content, allows) ==
    [filters |-> filters, ff |-> IF filters = <<>> THEN "none" ELSE IF Len(filters) = 1 THEN "name" ELSE "array",
     form |-> form, parms |-> parms, length |-> Len(content), content |-> content,
     allows |-> allows, orc |-> NoOracle]
\* a chain of zero filters written as /Filter [] (ff = "array") or /Filter null (ff = "null")
Zero(ff, form, content) == [S0(<<>>, form, <<>>, content, TRUE) EXCEPT !.ff = ff]

P12 == [present |-> TRUE, pred |-> 12, colors |-> 1, bpc |-> 8, columns |-> 2, early |-> 1]
P13 == [present |-> TRUE, pred |-> 13, colors |-> 1, bpc |-> 8, columns |-> 2, early |-> 1]
Rows12 == <<1, 2, 4>>
Starts ==
    {S0(<<>>, "none", <<>>, c, TRUE) : c \in Contents} \cup
    {S0(<<A85>>, "none", <<>>, A85Encode(<<3, 1, 2>>, TRUE), TRUE),
     S0(<<Flate>>, "dict", <<P12>>, ZStored(PngEncode(Rows12 \o Rows12, 1, 2, <<1, 2, 4>>), 65535), TRUE),
     S0(<<Flate>>, "dict", <<P13>>, ZStored(PngEncode(<<1, 2>>, 1, 2, <<3>>), 65535), TRUE),
     S0(<<Flate>>, "array", <<P12>>, ZStored(PngEncode(<<1, 2>>, 1, 2, <<2>>), 65535), TRUE),
     S0(<<A85, Lzw>>, "none", <<>>, A85Encode(LzwEncode(<<3, 1, 2>>, 1, 4094), TRUE), TRUE),
     S0(<<"DCTDecode">>, "none", <<>>, <<255, 216>>, TRUE),
     Zero("array", "none", <<3, 1, 2>>), Zero("array", "array", Compressible), Zero("null", "none", Compressible),
     S0(<<>>, "dict", <<P12>>, Compressible, TRUE)}          \* no filter, left-over DecodeParms (class compress.stale-decodeparms)

NoOp == [op |-> "init", i |-> 0, pre |-> <<>>, arg |-> <<>>]

Init ==
    /\ \E a \in Starts : ss = <<a, S0(<<>>, "none", <<>>, Compressible, FALSE)>>
    /\ last = NoOp
    /\ steps = 0

Step(op, i, arg, new) ==
    /\ steps < MaxSteps
    /\ ss' = new
    /\ last' = [op |-> op, i |-> i, pre |-> ss, arg |-> arg]
    /\ steps' = steps + 1

SetContent == \E i \in 1..2, b \in Contents : Step("set_content", i, b, [ss EXCEPT ![i] = ImplSetContent(ss[i], b)])
SetPlainContent == \E i \in 1..2, b \in Contents : Step("set_plain_content", i, b, [ss EXCEPT ![i] = ImplSetPlain(ss[i], b)])
Compress == \E i \in 1..2 : \E c \in Candidates(ss[i].content) :
                Step("compress", i, <<>>, [ss EXCEPT ![i] = ImplCompress(ss[i], c, DevStale)])
Decompress == \E i \in 1..2 : Step("decompress", i, <<>>, [ss EXCEPT ![i] = ImplDecompress(ss[i], DevAvg, DevArr, FALSE, DevEmpty)])
DocCompress == \E c1 \in Candidates(ss[1].content), c2 \in Candidates(ss[2].content) :
                Step("doc_compress", 0, <<>>, ImplDocCompress(ss, <<c1, c2>>, DevStale))
DocDecompress == Step("doc_decompress", 0, <<>>, ImplDocDecompress(ss, DevAvg, DevArr, FALSE, DevEmpty))

Next == SetContent \/ SetPlainContent \/ Compress \/ Decompress \/ DocCompress \/ DocDecompress

Spec == Init /\ [][Next]_vars

-----------------------------------------------------------------------------
\* after every content-changing operation the Length entry equals the content length
LengthInv == \A i \in 1..2 : LengthOK(ss[i])

Touched(i) == last.i = 0 \/ last.i = i

\* every step satisfies the declarative contract of its operation
Good4(i) ==
    IF ~Touched(i) THEN last.op = "init" \/ ss[i] = last.pre[i]
    ELSE CASE last.op = "set_content"       -> SetContentOK(last.pre[i], last.arg, ss[i])
           [] last.op = "set_plain_content" -> SetPlainOK(last.pre[i], last.arg, ss[i])
           [] last.op \in {"compress", "doc_compress"}     -> CompressOK(last.pre[i], ss[i])
           [] last.op \in {"decompress", "doc_decompress"} -> DecompressOK(last.pre[i], ss[i])
           [] OTHER -> TRUE
StepOK == \A i \in 1..2 : Good4(i)

\* a repaired defect seeded back (one deviation switch on): the contract is broken - reported as a
\* DEVIATION line - but only on inputs of the class of that former finding
StepOKModKnown ==
    \A i \in 1..2 : ~Good4(i) =>
        /\ KnownClasses(last.pre[i], last.op) # {}
        /\ PrintT(<<"DEVIATION", ToJson(SetToSeq(KnownClasses(last.pre[i], last.op)))>>)

\* one line per operation kind (anti-vacuity: every action was taken)
ActionPrint == steps = 1 => PrintT(<<"ACTION", ToJson(last.op)>>)

\* witnesses (anti-vacuity; always TRUE, the check script requires both lines): a compress that really
\* adds the filter, and a decompress that undoes that compression and returns the original bytes
WitnessPrint ==
    /\ (last.op = "compress" /\ ss[last.i].filters = <<Flate>> /\ last.pre[last.i].filters = <<>>)
          => PrintT(<<"WITNESS", "\"compressed\"">>)
    /\ (last.op = "decompress" /\ last.pre[last.i].orc.has /\ ss[last.i].content = Compressible /\ ss[last.i].filters = <<>>)
          => PrintT(<<"WITNESS", "\"roundtrip\"">>)
=============================================================================
