--------------------------- MODULE Trace_PageTree ---------------------------
(* impl -> spec: every record is one observed call of lopdf's page enumeration on a graph the  *)
(* driver built:  [g |-> graph, pages |-> page_iter() result, nums |-> keys of get_pages()].    *)
(* The declarative layer judges each record; the impl-shaped function only reports drift.     *)
EXTENDS PageTree, Json, IOUtils, TLC

Recs == ndJsonDeserialize(IOEnv.TRACE)

VARIABLE l

GraphOf(j) ==
    [root |-> j.root, extra |-> j.extra,
     typ  |-> [n \in 1..Len(j.nodes) |-> j.nodes[n].typ],
     kids |-> [n \in 1..Len(j.nodes) |-> j.nodes[n].kids]]

Judge(rec) ==
    LET gg == GraphOf(rec.g)
        dl == rec.dl
    IN IF ~OnlyPages(gg, rec.pages) THEN "not-only-pages"
       ELSE IF WellFormed(gg, dl) /\ rec.pages # Dfs(gg) THEN "not-dfs"
       ELSE IF rec.nums # [i \in 1..Len(rec.pages) |-> i] THEN "numbering"
       ELSE IF rec.pages # ImplPages(gg, dl) THEN "ok-drift"
       ELSE IF WellFormed(gg, dl) THEN "ok-wf" ELSE "ok"

Init == l = 1
Next == /\ l <= Len(Recs)
        /\ PrintT(<<"VERDICT", ToJson([i |-> l, v |-> Judge(Recs[l])])>>)
        /\ l' = l + 1
Spec == Init /\ [][Next]_l
Consumed == TLCGet("stats").diameter = Len(Recs) + 1
=============================================================================
