SPECIFICATION Spec
CONSTANTS
  Model = "lendepth"
  N = 4
  MaxB = 2
  GuardOn = TRUE
INVARIANTS Variant Refines
PROPERTIES Terminates
CHECK_DEADLOCK FALSE
