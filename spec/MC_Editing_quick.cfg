SPECIFICATION Spec
CONSTANTS
  Dev <- DevAsIs
  Ops = {"NewObjectId", "AddObject", "Replace", "DeleteObject", "RemoveAnnot", "Prune", "DeletePages", "Renumber", "Compress", "Decompress", "AddPageContents", "ChangePageContent", "ChangeContentStream", "GetOrCreateResources", "AddXObject", "AddGraphicsState", "BuildOutline", "Save", "SaveLoad"}
  ByteStrings <- BytesQuick
  NumSeqs <- NumsQuick
  NewObjs <- MCNewObjs
  MaxDepth = 3
  Starts <- StartsQuick
  Allowed = {"delete.array.dup", "delete.streamdict", "delete.trailer", "resources.shadow", "contents.refToArray"}
  Emit = FALSE
  EmitMod = 1
VIEW View
INVARIANTS Refines StartOk EmitViolations
CHECK_DEADLOCK FALSE
