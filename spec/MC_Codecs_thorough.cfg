SPECIFICATION Spec
CONSTANTS
  AlphA = {0, 1, 133, 255}
  MaxLenA = 6
  AlphZ = {0, 77, 255}
  MaxLenZ = 5
  BlockSizes = {1, 2, 3, 65535}
  AlphH = {0, 16, 62, 171, 255}
  MaxLenH = 4
  AlphL = {65, 66, 67}
  MaxLenL = 6
  NLong = 6
  MaxCols = 3
  ColorSet = {1, 2, 3}
  MaxRows = 3
  NData = 2
  ByteCube = {0, 1, 128, 255}
  Strat = {0, 1, 2, 3, 63, 64, 127, 128, 129, 191, 254, 255}
  StratRow = {0, 1, 2, 127, 128, 254, 255}
  MaxChain = 3
  PaethPlanes = 0
  Emit = TRUE
  DevAvg = FALSE
  DevArr = FALSE
  DevNul = FALSE
  DevInd = FALSE
  DevEncAvg = FALSE
  RowAlph = {0, 1, 127, 128, 255}
  RowAlph3 = {0, 128, 255}
  DevEmpty = FALSE
INVARIANTS DisturbFails RefinesInd RoundTrip EncoderShape Refines DevExplained PaethOK RowOK EmitInv
CHECK_DEADLOCK FALSE
