----------------------------- MODULE Lifecycle -----------------------------
(***************************************************************************)
(* Top level of the specification: in-memory documents, files, and the      *)
(* actions between them (DESIGN 3.6).  This module holds the declarative    *)
(* meaning of Save and Load used by C01 / C03 / C07:                         *)
(*                                                                          *)
(*   Save(doc, fmt)  may produce any byte sequence f such that              *)
(*                   RdFile(f).ok (C03: a strict reader accepts it, every    *)
(*                   byte accounted for) and SavedAs(doc, RdFile(f))         *)
(*   Load(f)         must produce a document d with LoadedFrom(d, RdFile(f)) *)
(*                                                                          *)
(* "Cross-reference bookkeeping" (what C01 lets differ) is fixed here.       *)
(***************************************************************************)
EXTENDS FileStructure


BookKeys == {NameSize, NamePrev, NameXRefStm, NameType, NameW, NameIndex, NameLength, NameFilter, NameDecodeParms}

\* objects that describe the structure of the file a document was loaded from and are not written again: object
\* streams and cross-reference streams, and the (untyped) linearization parameter dictionary.  A plain dictionary
\* that merely has /Type /XRef or /Type /ObjStm is an ordinary object (since /repo writer fix, third round).
IsBookObj(o) ==
    \/ (o.k = "stream" /\ TypeNameOf(o) \in {NameXRef, NameObjStm})
    \/ (o.k = "dict" /\ Has(o.v, NameLinearized) /\ ~Has(o.v, NameType))

\* document-side JSON -> [version, binmark, trailer (map), objs (seq of [num, gen, val])]
DocOf(j) ==
    [version |-> j.version, binmark |-> j.binmark, trailer |-> DictOfPairs(j.trailer), max_id |-> j.max_id,
     objs |-> [i \in 1..Len(j.objects) |-> [num |-> j.objects[i][1], gen |-> j.objects[i][2], val |-> ObjOf(j.objects[i][3])]]]

\* The in-domain restriction of C01 (DESIGN C01 "Not decided"): distinct object numbers (a file has one
\* entry per number), numbers >= 1.  (A max_id below an object number - set_object and direct inserts do not
\* maintain it - is INSIDE the domain since the third round: saving must cover such objects, /repo 793de02.)
InDomain(doc) ==
    /\ \A i, j \in 1..Len(doc.objs) : doc.objs[i].num = doc.objs[j].num => i = j
    /\ \A i \in 1..Len(doc.objs) : doc.objs[i].num >= 1

\* numbers of objects in doc whose value does not match the view, or that are absent from it
BadObjects(doc, rd) ==
    {doc.objs[i].num : i \in {i \in 1..Len(doc.objs) :
        /\ ~IsBookObj(doc.objs[i].val)
        /\ ~(/\ Has(rd.view, doc.objs[i].num)
             /\ rd.view[doc.objs[i].num].gen = doc.objs[i].gen
             /\ Matches(doc.objs[i].val, rd.view[doc.objs[i].num].val))}}

\* numbers in the view that the document does not have (other than the file's own XRef streams)
ExtraInView(doc, rd) ==
    (DOMAIN rd.view \ rd.xrefobjs) \ {doc.objs[i].num : i \in 1..Len(doc.objs)}

\* numbers the document has beyond the view, not counting bookkeeping objects
ExtraInDoc(doc, rd) ==
    {doc.objs[i].num : i \in {i \in 1..Len(doc.objs) : ~IsBookObj(doc.objs[i].val)}} \ DOMAIN rd.view

TrailerMatches(doc, rd) == MatchesDictExcept(doc.trailer, rd.trailer, BookKeys)

\* verdict of a Save: [v |-> "ok" | reason, ...detail]
JudgeSave(doc, fmt, res, bytes) ==
    IF res # "ok" THEN [v |-> "save-failed", res |-> res]
    ELSE LET rd == RdFile(bytes) IN
    IF ~rd.ok THEN [v |-> "file-invalid", err |-> rd.err]
    ELSE IF rd.junk # 0 THEN [v |-> "file-junk-before-header"]
    ELSE IF rd.version # doc.version THEN [v |-> "file-version"]
    ELSE IF rd.binmark # doc.binmark THEN [v |-> "file-binmark"]
    ELSE IF rd.kind # fmt THEN [v |-> "file-xref-kind"]
    ELSE IF BadObjects(doc, rd) # {} THEN [v |-> "file-object-differs", nums |-> BadObjects(doc, rd)]
    ELSE IF ExtraInView(doc, rd) # {} THEN [v |-> "file-extra-object", nums |-> ExtraInView(doc, rd)]
    ELSE IF ~TrailerMatches(doc, rd) THEN [v |-> "file-trailer-differs"]
    ELSE [v |-> "ok"]

\* Classifier: does the loaded document equal the reading of the file with end-of-line normalisation
\* in literal strings switched off (raw CR / CRLF kept verbatim)?
VerbatimEolExplains(doc, bytes) ==
    LET rv == RdFileV(bytes, TRUE) IN
    rv.ok /\ BadObjects(doc, rv) = {} /\ ExtraInView(doc, rv) = {} /\ ExtraInDoc(doc, rv) = {} /\ TrailerMatches(doc, rv)

\* Classifier, per differing object: why does the loaded object differ from the file's view?
\*   "lit-eol"                    it equals the reading with EOL normalisation in literal strings off
\*   "stale.<old>.<new>"          it equals an OLDER definition of the same number (old/new stored plain |
\*                                objstm | objstm-same = same container number)
\*   "other"                      anything else (kinds tells which leaf kinds differ)
WhyObject(o, rd, rv) ==
    LET n == o.num
        h == IF n \in DOMAIN rd.hist THEN rd.hist[n] ELSE <<>>
        olds == {j \in 1..(Len(h) - 1) : Matches(o.val, h[j].val)}
        w(e) == IF e.where = 0 THEN "plain" ELSE "objstm"
    IN IF rv.ok /\ Has(rv.view, n) /\ rv.view[n].gen = o.gen /\ Matches(o.val, rv.view[n].val) THEN "lit-eol"
       ELSE IF olds # {} THEN
            LET j == CHOOSE x \in olds : \A y \in olds : y <= x
                new == h[Len(h)]
            IN "stale." \o w(h[j]) \o "." \o (IF h[j].where # 0 /\ h[j].where = new.where THEN "objstm-same" ELSE w(new))
       ELSE "other"

WhyObjects(doc, rd, bytes) ==
    LET rv == RdFileV(bytes, TRUE) IN
    {[num |-> doc.objs[i].num, why |-> WhyObject(doc.objs[i], rd, rv),
      kinds |-> IF Has(rd.view, doc.objs[i].num) /\ rd.view[doc.objs[i].num].gen = doc.objs[i].gen
                THEN DiffKinds(doc.objs[i].val, rd.view[doc.objs[i].num].val) ELSE {"generation"}]
     : i \in {i \in 1..Len(doc.objs) : doc.objs[i].num \in BadObjects(doc, rd)}}

\* objects (and trailer entries) in which an integer token that fits i64 was loaded as a real (PdfObjects!IntKept)
IntAsReal(doc, rd) ==
    {doc.objs[i].num : i \in {i \in 1..Len(doc.objs) :
        /\ ~IsBookObj(doc.objs[i].val) /\ Has(rd.view, doc.objs[i].num)
        /\ ~IntKept(doc.objs[i].val, rd.view[doc.objs[i].num].val)}}
    \cup (IF \E key \in (DOMAIN doc.trailer \cap DOMAIN rd.trailer) \ BookKeys : ~IntKept(doc.trailer[key], rd.trailer[key]) THEN {0} ELSE {})

\* verdict of a Load of `bytes`, whose strict reading is rd
JudgeLoad(doc, res, rd, bytes) ==
    IF res # "ok" THEN [v |-> "load-failed", res |-> res]
    ELSE IF rd.version # doc.version THEN [v |-> "load-version"]
    ELSE IF ExtraInView(doc, rd) # {} THEN [v |-> "load-object-missing", nums |-> ExtraInView(doc, rd)]
    ELSE IF BadObjects(doc, rd) # {} THEN
        [v |-> "load-object-differs", nums |-> BadObjects(doc, rd), why |-> WhyObjects(doc, rd, bytes)]
    ELSE IF IntAsReal(doc, rd) # {} THEN [v |-> "load-int-as-real", nums |-> IntAsReal(doc, rd)]
    ELSE IF ExtraInDoc(doc, rd) # {} THEN [v |-> "load-extra-object", nums |-> ExtraInDoc(doc, rd)]
    ELSE IF ~TrailerMatches(doc, rd) THEN
        [v |-> "load-trailer-differs", verbatim |-> VerbatimEolExplains(doc, bytes),
         kinds |-> IF DOMAIN doc.trailer \ BookKeys # DOMAIN rd.trailer \ BookKeys THEN {"keys"}
                   ELSE UNION {DiffKinds(doc.trailer[key], rd.trailer[key]) : key \in DOMAIN doc.trailer \ BookKeys}]
    ELSE [v |-> "ok"]

-----------------------------------------------------------------------------
(* C01 proper: the loaded document compared with the document that was saved, without going      *)
(* through the file.  a, b are document-side values (reals carry their rounding interval, which  *)
(* identifies the f32).                                                                          *)

RECURSIVE DocMatches(_, _)
DocMatches(a, b) ==
    IF a.k = "real" THEN
        IF b.k = "real" THEN a.lo = b.lo /\ a.hi = b.hi /\ (a.neg = b.neg \/ (a.lo.ip = <<0>> /\ a.lo.fp = <<>>))
        \* an integral real may come back as the integer of the same value (exactly: RealTokMatches)
        ELSE IF b.k = "int" THEN RealTokMatches(a, b)
        ELSE FALSE
    ELSE IF a.k # b.k THEN FALSE
    ELSE IF a.k = "arr" THEN Len(a.v) = Len(b.v) /\ \A i \in 1..Len(a.v) : DocMatches(a.v[i], b.v[i])
    ELSE IF a.k = "dict" THEN DOMAIN a.v = DOMAIN b.v /\ \A key \in DOMAIN a.v : DocMatches(a.v[key], b.v[key])
    ELSE IF a.k = "stream" THEN /\ DOMAIN a.v = DOMAIN b.v /\ \A key \in DOMAIN a.v : DocMatches(a.v[key], b.v[key])
                                /\ a.w = b.w
    ELSE a = b

UserObjs(doc) == {i \in 1..Len(doc.objs) : ~IsBookObj(doc.objs[i].val)}
IdOf(o) == <<o.num, o.gen>>

\* verdict of Save;Load as a whole: orig is the document given to Save, loaded the result of Load
JudgeRoundTrip(orig, loaded) ==
    LET oids == {IdOf(orig.objs[i]) : i \in UserObjs(orig)}
        lids == {IdOf(loaded.objs[i]) : i \in UserObjs(loaded)}
        bad  == {IdOf(orig.objs[i]) : i \in {i \in UserObjs(orig) :
                    \E j \in UserObjs(loaded) : IdOf(loaded.objs[j]) = IdOf(orig.objs[i])
                                                /\ ~DocMatches(orig.objs[i].val, loaded.objs[j].val)}}
    IN IF loaded.version # orig.version THEN [v |-> "rt-version"]
       ELSE IF oids \ lids # {} THEN [v |-> "rt-object-lost", ids |-> oids \ lids]
       ELSE IF lids \ oids # {} THEN [v |-> "rt-object-appeared", ids |-> lids \ oids]
       ELSE IF bad # {} THEN [v |-> "rt-object-differs", ids |-> bad]
       ELSE IF ~(/\ DOMAIN orig.trailer \ BookKeys = DOMAIN loaded.trailer \ BookKeys
                 /\ \A key \in DOMAIN orig.trailer \ BookKeys : DocMatches(orig.trailer[key], loaded.trailer[key]))
            THEN [v |-> "rt-trailer-differs"]
       ELSE [v |-> "ok"]

-----------------------------------------------------------------------------
(* C07: saving an incremental document.  prevrd / prevbytes: strict reading and bytes of the file   *)
(* the IncrementalDocument was loaded from; newdoc: the projected new_document given to save;       *)
(* bytes: what save produced; prevBefore / prevAfter: projection of get_prev_documents() around it. *)
JudgeSaveInc(newdoc, res, prevrd, prevbytes, bytes, prevBefore, prevAfter) ==
    IF res # "ok" THEN [v |-> "saveinc-failed", res |-> res]
    ELSE IF ~IsPrefixOf(prevbytes, bytes) THEN [v |-> "saveinc-prefix-not-kept"]
    ELSE IF prevBefore # prevAfter THEN [v |-> "saveinc-prev-view-modified"]
    ELSE LET rd == RdFile(bytes) IN
    IF ~rd.ok THEN [v |-> "saveinc-file-invalid", err |-> rd.err]
    ELSE IF rd.nrevs # prevrd.nrevs + 1 THEN [v |-> "saveinc-not-one-new-revision"]
    ELSE LET newnums == {newdoc.objs[i].num : i \in UserObjs(newdoc)}
             \* objects defined by the appended revision: those whose history grew
             grew == {n \in DOMAIN rd.hist : n \notin DOMAIN prevrd.hist \/ Len(rd.hist[n]) > Len(prevrd.hist[n])}
         IN
         IF BadObjects(newdoc, rd) # {} THEN [v |-> "saveinc-object-differs", nums |-> BadObjects(newdoc, rd)]
         ELSE IF (grew \ rd.xrefobjs) # newnums THEN [v |-> "saveinc-tail-not-exactly-new-objects", nums |-> ((grew \ rd.xrefobjs) \ newnums) \cup (newnums \ grew)]
         ELSE IF \E n \in DOMAIN prevrd.view \ newnums : ~Has(rd.view, n) \/ rd.view[n] # prevrd.view[n]
              THEN [v |-> "saveinc-untouched-object-changed"]
         ELSE IF ~TrailerMatches(newdoc, rd) THEN [v |-> "saveinc-trailer-differs"]
         ELSE [v |-> "ok"]
=============================================================================
