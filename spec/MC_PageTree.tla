---------------------------- MODULE MC_PageTree ----------------------------
(* Exhaustive exploration of PageTree: every graph over nodes 1..N whose Kids arrays have at  *)
(* most MaxKids entries (each a node, or 0 = dangling reference), every node type; the iterator *)
(* automaton is run on each and must be Acceptable (C12) and terminate within its variant.      *)
(* With Emit = TRUE every completed behaviour is printed as one JSON line for replay into lopdf. *)
EXTENDS PageTreeIter, TLC, Json

CONSTANTS N, MaxKids, DepthLimit, Emit, RootTypes

VARIABLE bi      \* build phase: next node whose Kids are chosen (N+1 = graph complete)

vars == <<itvars, bi>>

Nodes == 1..N
Targets == 0..N
KidSeqs == UNION {[1..k -> Targets] : k \in 0..MaxKids}

Init ==
    /\ \E t \in [Nodes -> Types] :
          /\ t[1] \in RootTypes
          /\ g = [root |-> 1, typ |-> t, kids |-> [n \in Nodes |-> <<>>], extra |-> 1]
    /\ bi = 1
    /\ cur = NoKids /\ stack = <<>> /\ budget = 0 /\ emitted = <<>> /\ pc = "build" /\ steps = 0

\* choose the Kids of node bi (only nodes whose Kids can ever be read get a non-empty choice)
Build ==
    /\ pc = "build" /\ bi <= N
    /\ IF g.typ[bi] = "Pages" \/ (bi = 1 /\ g.typ[bi] \notin NotDict)
       THEN \E ks \in KidSeqs : g' = [g EXCEPT !.kids[bi] = ks]
       ELSE IF g.typ[bi] = "StrmPages" THEN \E ks \in {<<>>} \cup {<<t>> : t \in Targets} : g' = [g EXCEPT !.kids[bi] = ks]
       ELSE g' = g
    /\ bi' = bi + 1
    /\ UNCHANGED <<cur, stack, budget, emitted, pc, steps>>

Start ==
    /\ pc = "build" /\ bi = N + 1
    /\ cur' = IterKids(g, g.root) /\ budget' = Budget(g) /\ pc' = "run"
    /\ UNCHANGED <<g, stack, emitted, steps, bi>>

TakeS == Take(DepthLimit) /\ UNCHANGED bi
PopS  == Pop /\ UNCHANGED bi

Next == Build \/ Start \/ TakeS \/ PopS

Spec == Init /\ [][Next]_vars

-----------------------------------------------------------------------------
Refines == pc = "done" => Acceptable(g, emitted, DepthLimit)

\* variant: every Take consumes budget or finishes, every Pop consumes a pushed remainder or finishes
Terminates == steps <= 2 * Budget(g) + 2

FunctionForm == pc = "done" => emitted = ImplPages(g, DepthLimit)

\* witnesses (must be *violated*): well-formed trees with >= 2 leaves at depth 2 are reached
WitnessDeep == ~(pc = "done" /\ WellFormed(g, DepthLimit) /\ Len(emitted) >= 2
                 /\ \E n \in Nodes : g.typ[n] = "Pages" /\ n # 1 /\ n \in Reach(g))

GraphJson(gg) ==
    [root |-> gg.root, extra |-> gg.extra,
     nodes |-> [n \in 1..Cardinality(NodesOf(gg)) |-> [id |-> n, typ |-> gg.typ[n], kids |-> gg.kids[n]]]]

EmitInv ==
    (Emit /\ pc = "done") =>
        PrintT(<<"REPLAY", ToJson([g |-> GraphJson(g),
                                   wf |-> WellFormed(g, DepthLimit),
                                   dfs |-> Dfs(g),
                                   impl |-> emitted,
                                   dl |-> DepthLimit])>>)
=============================================================================
