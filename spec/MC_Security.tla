---------------------------- MODULE MC_Security ----------------------------
(* Exhaustive exploration of SecuritySys for small constants:                                   *)
(*  - documents of 3 objects each (DocOf): strings nested in arrays / dictionaries, a binary     *)
(*    stream, a Metadata stream, an empty string / stream, strings inside a STREAM DICTIONARY,   *)
(*    streams with a Crypt override (Name, Identity, no Name, no DecodeParms, array form), an    *)
(*    XRef stream, non-stream dictionaries typed /Metadata;                                      *)
(*  - configurations (CfgSet): V1, V2 x key lengths, V4 x {RC4, AES128, Identity}^2 x            *)
(*    EncryptMetadata x (Identity with / without CF entry), R5, V5;                              *)
(*  - password pairs and offered passwords as tokens with their canonical forms (C4 / C6):       *)
(*    empty, ASCII, non-Latin, > 32 bytes, > 127 bytes, owner = user;                            *)
(*  - every call sequence up to MaxDepth.                                                        *)
(* Invariants: the declarative verdict of every call is ok (configuration "as the code is": all  *)
(* Dev_* FALSE since the five C05 fix: commits 44ea712 .. 9164604) resp. ok or one of the         *)
(* KnownTags (configuration "seeded": the repaired defects switched back on).  With Emit = TRUE   *)
(* every reached state prints the call sequence that led to it (hist is hidden from the         *)
(* fingerprint by VIEW, so TLC keeps one shortest sequence per state) for replay into lopdf.     *)
EXTENDS SecuritySys, TLC, Json

CONSTANTS Prune, DocIds, V2Lens, V4Stm, V4Str, EMs, IdCfs, V5Kinds, V5Flt, Pairs, Attempts, MaxDepth, Emit, KnownTags

VARIABLE hist

vars == <<svars, hist>>
View == svars

-----------------------------------------------------------------------------
(* password tokens and the canonical forms the algorithms induce                                 *)
(*   E ""    A "user"   B "owner"   W "nope"   N / N2 non-Latin (no PDFDocEncoding code)          *)
(*   L1 / L2: 32 x "a" + different tails (37 bytes)      S32: 32 x "a"                            *)
(*   H1 / H2: 127 x "b" + different tails (130 bytes)    T127: 127 x "b"                          *)
(*   M "пароль-1" (mixed)   M2 "-1" (what is left of M without the characters PDFDocEncoding lacks)   J an emoji       *)
\* the canonical forms of the PROPERTY: a character PDFDocEncoding lacks stays what it is (N, N2, M, J are themselves)
C4(t) == CASE t = "E" -> ""
           [] t \in {"L1", "L2", "S32"} -> "a32"
           [] t \in {"H1", "H2", "T127"} -> "b32"
           [] OTHER -> t
C6(t) == CASE t = "E" -> ""
           [] t \in {"H1", "H2", "T127"} -> "b127"
           [] OTHER -> t
\* ... and what lopdf makes of a revision 2-4 password today (the characters without a code are dropped)
D4(t) == CASE t \in {"E", "N", "N2", "J"} -> ""
           [] t \in {"M", "M2"} -> "-1"
           [] OTHER -> C4(t)
\* representable: revisions 2-4 every character has a PDFDocEncoding code; revisions 5-6 SASLprep accepts the text
Repr(R, t) == IF R <= 4 THEN t \notin {"N", "N2", "M", "J"} ELSE t # "J"
Len6(t) == CASE t = "E" -> 0 [] t \in {"H1", "H2"} -> 130 [] t = "T127" -> 127 [] t \in {"L1", "L2"} -> 37
             [] t = "S32" -> 32 [] t = "N" -> 12 [] t = "N2" -> 6 [] t = "M" -> 14 [] t = "M2" -> 2 [] OTHER -> 4
Canon(R, t) == IF R <= 4 THEN C4(t) ELSE C6(t)
Rel1(R, t, ref) == IF t = ref THEN "same" ELSE IF Canon(R, t) = Canon(R, ref) THEN "equiv" ELSE "diff"
\* Revisions 2-4: an empty owner password means "no owner password"; Algorithm 3 (a) then uses the user password in its
\* place (ISO 32000-1 7.6.3.4; lopdf since the fix: commit for C06:O.R234.owner-absent) - for lopdf today also an owner
\* password of which nothing is left after the drop
OwnerEff(R, u, o) == IF R <= 4 /\ o = "E" THEN u ELSE o
OwnerEffD(R, u, o) == IF R <= 4 /\ D4(o) = "" THEN u ELSE o
AuthD(R, t, ref) == IF R <= 4 THEN D4(t) = D4(ref) ELSE Repr(R, t) /\ C6(t) = C6(ref)
RelFor(R, t, u, o) == [u |-> Rel1(R, t, u), o |-> Rel1(R, t, OwnerEff(R, u, o)),
                       ud |-> AuthD(R, t, u), od |-> AuthD(R, t, OwnerEffD(R, u, o)), rep |-> Repr(R, t)]
RelOf(t) == RelFor(cfg.R, t, cfg.user, cfg.owner)

-----------------------------------------------------------------------------
(* configurations *)
Base(name, v, r, klen, em, cf, stmf, strf) ==
    [name |-> name, V |-> v, R |-> r, klen |-> klen, em |-> em, cf |-> cf, stmf |-> stmf, strf |-> strf]

\* How an Identity default filter is given (IdCfs): "none" - StmF / StrF name the standard filter /Identity, CF has no
\* entry for it; "entry" - the same with an entry /Identity in CF; "custom" - the crypt filter map holds an Identity
\* filter under a CUSTOM name (F1 / F2) that StmF / StrF name
IdEntry(idcf) == IF idcf = "entry" THEN << <<"Identity", "Identity">> >> ELSE <<>>
Nm(m, f, idcf) == IF m = "Identity" /\ idcf # "custom" THEN "Identity" ELSE f
Real(m, dflt, idcf) == IF m = "Identity" THEN (IF idcf = "custom" THEN "Identity" ELSE dflt) ELSE m

CfgV4 == {Base("V4", 4, 4, 128, em, << <<"F1", Real(sm, "AES128", ic)>>, <<"F2", Real(tm, "AES128", ic)>> >> \o IdEntry(ic), Nm(sm, "F1", ic), Nm(tm, "F2", ic)) :
            sm \in V4Stm, tm \in V4Str, em \in EMs, ic \in IdCfs}
CfgV5 == {Base(k, 5, IF k = "R5" THEN 5 ELSE 6, 256, em, << <<"F1", Real(sm, "AES256", ic)>>, <<"F2", Real(tm, "AES256", ic)>> >> \o IdEntry(ic), Nm(sm, "F1", ic), Nm(tm, "F2", ic)) :
            k \in V5Kinds, sm \in V5Flt, tm \in V5Flt, em \in EMs, ic \in IdCfs}
CfgV12 == {Base("V1", 1, 2, 40, TRUE, <<>>, "", "")} \cup {Base("V2", 2, 3, n, TRUE, <<>>, "", "") : n \in V2Lens}
\* an Identity entry in CF only matters when some default filter is Identity
\* (an Identity entry, or the choice "custom", only matters when some default filter is Identity: CfgSet is a set, the
\* configurations that come out equal are one)
Redundant(c) == \E i \in 1..Len(c.cf) : c.cf[i][1] = "Identity" /\ c.stmf # "Identity" /\ c.strf # "Identity"
CfgSet == {c \in CfgV12 \cup CfgV4 \cup CfgV5 : ~Redundant(c)}

NoAlt == [V |-> 0]
\* alt: the configuration a Rekey switches to (NoAlt: none)
\* (c0 / alt0: the configuration and alternative the behaviour began with, for the emission)
FullCfg(b, u, o, d, n, alt, c0, alt0) ==
    [name |-> b.name, V |-> b.V, R |-> b.R, klen |-> b.klen, em |-> b.em, cf |-> b.cf, stmf |-> b.stmf, strf |-> b.strf,
     user |-> u, owner |-> o, dn |-> d, nobj0 |-> n, ulen |-> Len6(u), olen |-> Len6(o),
     urep |-> Repr(b.R, u), orep |-> Repr(b.R, o), e |-> RelFor(b.R, "E", u, o), alt |-> alt, c0 |-> c0, alt0 |-> alt0]

-----------------------------------------------------------------------------
(* documents *)
Str(pid, n) == [k |-> "str", pl |-> Plain(pid, n)]
Arr(v) == [k |-> "arr", v |-> v]
Dict(typ, v) == [k |-> "dict", typ |-> typ, v |-> v]
Stream(typ, crypt, d, pid, n) == [k |-> "stream", typ |-> typ, crypt |-> crypt, d |-> d, pl |-> Plain(pid, n), mem |-> <<>>]
\* what load_mem leaves of a file with object streams and a cross-reference stream: the container (mem = positions of
\* the objects unpacked from it, made ghost copies by AttachMembers) and the XRef stream object (its dictionary has /ID)
ObjStm(pid, n, mem) == [k |-> "stream", typ |-> "ObjStm", crypt |-> NoCrypt, d |-> <<>>, pl |-> Plain(pid, n), mem |-> mem]
XRefStm(pid, n) == Stream("XRef", NoCrypt, << Arr(<< Str("i0", 16), Str("i1", 16) >>) >>, pid, n)
Other == [k |-> "other"]
Cr(f, n) == [f |-> f, n |-> n, ind |-> FALSE]

DocOf(d) ==
    CASE d = "D1" -> << Dict("-", << Str("s1", 20), Arr(<< Str("s2", 5), Dict("-", << Str("s3", 16) >>) >>), Str("e", 0), Other >>),
                        Stream("-", NoCrypt, << Str("s4", 24), Arr(<< Str("s5", 17) >>) >>, "t1", 40),
                        Stream("Metadata", NoCrypt, << Str("s6", 18) >>, "t2", 30) >>
      [] d = "D2" -> << Stream("-", Cr("name", "F2"), <<>>, "t3", 33),
                        Stream("-", Cr("name", "Identity"), << Str("s14", 19) >>, "t4", 20),
                        Stream("-", Cr("arr", "F2"), <<>>, "t5", 48) >>
      [] d = "D3" -> << Stream("-", Cr("nodp", ""), << Str("s15", 17) >>, "t6", 20),
                        Stream("-", Cr("noname", ""), << Arr(<< Str("s16", 16) >>) >>, "t7", 21),
                        Stream("XRef", NoCrypt, << Str("s7", 18) >>, "t8", 22) >>
      [] d = "D4" -> << Stream("-", NoCrypt, <<>>, "e", 0),
                        Dict("Metadata", << Str("s8", 19) >>),
                        Arr(<< Dict("-", << Dict("Metadata", << Str("s9", 21) >>), Str("s10", 32) >>), Str("s11", 1) >>) >>
      \* loaded from a file with an object stream (objects 1, 2 unpacked from container 4) and an xref stream (5)
      [] d = "D5" -> AttachMembers(<< Dict("-", << Str("m1", 20), Arr(<< Str("m2", 5) >>) >>),
                                      Dict("-", << Str("m3", 17) >>),
                                      Stream("-", NoCrypt, << Str("s12", 18) >>, "t9", 25),
                                      ObjStm("c1", 60, <<1, 2>>),
                                      XRefStm("x1", 42) >>)
      \* a Crypt override whose decode parameters are the indirect object that follows the stream
      [] d = "D7" -> << Stream("-", [f |-> "name", n |-> "F2", ind |-> TRUE], <<>>, "t11", 34), Other >>
      \* Identity overrides through a name CF does not have, and in the array form, with strings in the dictionaries
      [] d = "D8" -> << Stream("-", Cr("name", "Zz"), << Str("s17", 18) >>, "t12", 23),
                        Stream("-", Cr("arr", "Identity"), << Str("s18", 20) >>, "t13", 32),
                        Dict("-", << Str("s19", 16) >>) >>
      \* a stream whose /Length is a reference to the integer object that follows it (il: read by the harness only)
      [] d = "D9" -> << [Stream("-", NoCrypt, <<>>, "t15", 100) EXCEPT !.mem = <<>>] @@ [il |-> TRUE], Other,
                        [Stream("-", Cr("name", "F2"), << Str("s20", 16) >>, "t16", 33) EXCEPT !.mem = <<>>] @@ [il |-> TRUE], Other >>
      \* loaded from a file with an xref stream, no object streams
      [] d = "D6" -> << Dict("-", << Str("m4", 22) >>),
                        Stream("-", NoCrypt, << Str("s13", 16) >>, "t10", 19),
                        XRefStm("x2", 28) >>

RECURSIVE ObjJson(_)
ObjJson(o) ==
    CASE o.k = "str"    -> [k |-> "str", pid |-> o.pl.pid, len |-> o.pl.n0]
      [] o.k = "arr"    -> [k |-> "arr", v |-> [i \in DOMAIN o.v |-> ObjJson(o.v[i])]]
      [] o.k = "dict"   -> [k |-> "dict", typ |-> o.typ, v |-> [i \in DOMAIN o.v |-> ObjJson(o.v[i])]]
      [] o.k = "stream" -> [k |-> "stream", typ |-> o.typ, crypt |-> o.crypt, d |-> [i \in DOMAIN o.d |-> ObjJson(o.d[i])],
                            pid |-> o.pl.pid, len |-> o.pl.n0, mem |-> [x \in DOMAIN o.mem |-> o.mem[x].pos],
                            il |-> IF "il" \in DOMAIN o THEN o.il ELSE FALSE]
      [] OTHER          -> [k |-> "other"]

ASSUME \A d \in DocIds : PrintT(<<"DOC", ToJson([dn |-> d, objs |-> [i \in DOMAIN DocOf(d) |-> ObjJson(DocOf(d)[i])]])>>)

\* password pairs <<user, owner>> and offered tokens used by the configurations
PairsQuick == {<<"A", "B">>, <<"E", "B">>, <<"A", "E">>, <<"A", "A">>, <<"N", "B">>, <<"H1", "B">>, <<"A", "N">>, <<"M", "B">>}
PairsFull  == PairsQuick \cup {<<"E", "E">>, <<"L1", "B">>, <<"A", "L1">>, <<"A", "H1">>, <<"N", "N2">>, <<"B", "N">>, <<"H1", "H1">>,
                               <<"J", "B">>, <<"A", "J">>, <<"N", "N">>, <<"M2", "M">>}
AttemptsQuick == {"W", "E"}
AttemptsFull  == {"W", "E", "L2", "S32", "H2", "T127"}   \* (offers with characters PDFDocEncoding lacks: see Toks)
AllKnown == {"owner.R234.key", "streamdict.string", "pw.gt127.R56", "crypt.dparray", "metadata.nonstream", "restored.objstm.member",
             "pw.unencodable.R234", "crypt.belowV4", "metadata.streamdict",
             "objstm.member.resurrected", "crypt.indirect"}
\* documents in the state a loader leaves them in; the caller may edit these objects of them (each once) while unencrypted
FileDocs == {"D5", "D6"}
\* (documents explored with one configuration per revision class only)
FewCfgDocs == FileDocs \cup {"D9"}
EditPos(d) == IF d = "D5" THEN {1, 3} ELSE IF d = "D6" THEN {1} ELSE {}

-----------------------------------------------------------------------------
\* Prune = TRUE: not the full product - every configuration x every document with the pair <<"A","B">>, and every
\* password pair on document D1 with one configuration per revision class (passwords do not interact with the walk)
\* (the loaded-from-file documents, whose edits multiply the states, also with one configuration per revision class)
Rep(b) == b.em /\ b.stmf # "Identity" /\ b.strf # "Identity" /\ b.klen \in {40, 128, 256} /\ (b.V = 4 => b.cf[1][2] = b.cf[2][2]) /\ (b.cf # <<>> => b.cf[1][2] # "Identity")
Combo(b, p, d) ==
    Prune => \/ p = <<"A", "B">> /\ (d \in FewCfgDocs => Rep(b))
             \/ d = "D1" /\ Rep(b)

\* a document protected with V 4 / 5 (per-stream overrides: D2), decrypted, and protected again with V 2
AltOf(b, p, d) == IF d = "D2" /\ b.V >= 4 /\ p = <<"A", "B">> THEN Base("V2", 2, 3, 128, TRUE, <<>>, "", "") ELSE NoAlt

Init ==
    /\ \E b \in CfgSet, p \in Pairs, d \in DocIds : Combo(b, p, d) /\ SysInit(FullCfg(b, p[1], p[2], d, NObj(DocOf(d)), AltOf(b, p, d), b, AltOf(b, p, d)), DocOf(d))
    /\ hist = <<>>

\* with a password that has characters PDFDocEncoding lacks: also offers that differ from it in such characters only
Toks == {cfg.user, cfg.owner} \cup Attempts \cup (IF {cfg.user, cfg.owner} \cap {"N", "N2", "M", "J"} # {} THEN {"N2", "M2"} ELSE {})

\* the step just made, as the harness will see it: call, offered password, what the model predicts, what the judge says
Entry ==
    [call |-> lastCall'.call, tok |-> lastCall'.tok, rel |-> lastCall'.rel,
     ok |-> verdict'.ok, tags |-> verdict'.tags,
     res |-> IF lastResult'.ok THEN "Ok" ELSE "Err", pos |-> lastCall'.pos]

Rec == hist' = Append(hist, Entry)

\* calls that cannot change anything are not explored: a second MakeState, authentication of a document without /Encrypt
MakeStateH == encState = NoSt /\ MakeState /\ Rec
EncryptH   == Encrypt /\ Rec
SaveH      == Save /\ Rec
LoadH      == Load /\ Rec
DecryptH   == \E t \in Toks : Decrypt(RelOf(t), t) /\ Rec
AuthUserH  == trailerEncrypt # 0 /\ \E t \in Toks : AuthUser(RelOf(t), t) /\ Rec
AuthOwnerH == trailerEncrypt # 0 /\ \E t \in Toks : AuthOwner(RelOf(t), t) /\ Rec
AuthH      == trailerEncrypt # 0 /\ \E t \in Toks : Auth(RelOf(t), t) /\ Rec
\* an edit of a loaded document (each object at most once, to keep the state space finite)
RECURSIVE Edited(_)
Edited(o) == CASE o.k = "str" -> o.pl.ed > 0
               [] o.k \in {"arr", "dict"} -> \E i \in DOMAIN o.v : Edited(o.v[i])
               [] o.k = "stream" -> o.pl.ed > 0
               [] OTHER -> FALSE
\* the caller deletes an object the loader unpacked from an object stream (D5: object 2), once
DeleteH    == cfg.dn = "D5" /\ doc[2].k # "gone" /\ Delete(2) /\ Rec
RekeyH     == cfg.alt.V # 0 /\ Rekey(FullCfg(cfg.alt, cfg.user, cfg.owner, cfg.dn, cfg.nobj0, NoAlt, cfg.c0, cfg.alt0)) /\ Rec
EditH      == \E pos \in EditPos(cfg.dn) : ~Edited(doc[pos]) /\ Edit(pos) /\ Rec

Next == MakeStateH \/ EncryptH \/ SaveH \/ LoadH \/ DecryptH \/ AuthUserH \/ AuthOwnerH \/ AuthH \/ EditH \/ RekeyH \/ DeleteH

Spec == Init /\ [][Next]_vars

Bound == Len(hist) <= MaxDepth

-----------------------------------------------------------------------------
\* every call is judged ok by the declarative layer (expected for the design as the code is, all deviations repaired)
AsSpecified == verdict.ok
\* ... or fails only in the listed narrow classes (expected with the repaired defects seeded back)
OnlyKnown == verdict.ok \/ verdict.tags \subseteq KnownTags

\* the judge's idea of the document agrees with the impl-shaped state where both are defined
JudgeTracks ==
    /\ j.mem = "plain" => trailerEncrypt = 0 /\ \A i \in DOMAIN Items(doc) : Items(doc)[i].eq \/ Items(doc)[i].gone
    /\ j.mem = "enc" => trailerEncrypt # 0
    /\ j.disk = "none" <=> disk = NoDisk

CfgJson == LET i == FullCfg(cfg.c0, cfg.user, cfg.owner, cfg.dn, cfg.nobj0, cfg.alt0, cfg.c0, cfg.alt0) IN
           [name |-> i.name, V |-> i.V, R |-> i.R, klen |-> i.klen, em |-> i.em, cf |-> i.cf, stmf |-> i.stmf,
            strf |-> i.strf, user |-> i.user, owner |-> i.owner, dn |-> i.dn, e |-> i.e, ulen |-> i.ulen, olen |-> i.olen,
            urep |-> i.urep, orep |-> i.orep, alt |-> i.alt0]

EmitInv == (Emit /\ hist # <<>> /\ Len(hist) <= MaxDepth) => PrintT(<<"REPLAY", ToJson([cfg |-> CfgJson, calls |-> hist])>>)
=============================================================================
