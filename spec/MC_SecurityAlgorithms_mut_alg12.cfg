SPECIFICATION Spec
CONSTANTS
  Thorough = FALSE
  Mut = "alg12noU"
  Dev_h12 = FALSE
  Dev_h13 = FALSE
  Dev_ownerAbsent = FALSE
  Dev_length = FALSE
  Dev_tableCache = FALSE
  Dev_identity = TRUE
  Dev_emBelowV4 = TRUE
  Dev_encDirect = TRUE
  Dev_sig = TRUE
  Dev_cryptNoParams = TRUE
  Emit = FALSE
INVARIANTS AuthUserSound AuthUserComplete AuthOwnerSound AuthOwnerComplete KeyAgreement NoKeyWithoutAuth Plaintext Shapes ImplDictRefines ImplKeyRefines ImplItemRefines ImplOpens ImplRejects LengthAgreement ImplLengthRefines ImplItemClasses FormAgreement ImplFormRefines ImplPrepRefines PrepMatters PrepIsFunction EmitInv
CHECK_DEADLOCK FALSE
