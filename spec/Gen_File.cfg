SPECIFICATION Spec
CONSTANTS
  Emit = TRUE
  SepMode = "all"
INVARIANTS RoundTrip EmitInv
CHECK_DEADLOCK FALSE
