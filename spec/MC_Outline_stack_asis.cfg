SPECIFICATION Spec
CONSTANTS
  MaxB = 3
  NPs = {1}
  MaxPost = 0
  Reserve = TRUE
  Titles <- TitleClasses
  Stack = 2
  WorkList = FALSE
  DestSpellings = {"none"}
  FollowRefs = FALSE
  IdLimits = {1000000}
  CheckedIds = FALSE
  Emit = FALSE
INVARIANTS NoAbort
CHECK_DEADLOCK FALSE
