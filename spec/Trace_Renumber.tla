--------------------------- MODULE Trace_Renumber ---------------------------
(* impl -> spec: every record is one observed call of lopdf's renumbering                        *)
(*   [start |-> starting_id, before |-> pi(doc) before, after |-> pi(doc) after]                  *)
(* (pi = objects, trailer, max_id, bookmark targets, page_iter() sequence), logged by             *)
(* `c10 record` on random reference graphs and by `c10 replay` on the documents TLC generated.     *)
(* Each record is judged by the declarative layer only: the witness renaming is computed by        *)
(* Match from the two logged graphs, nothing about the particular numbering lopdf chose is         *)
(* assumed.  The impl-shaped layer refines the signature of a failing bookmark clause              *)
(* (Classify) and reports drift ("ok-drift": acceptable, but not what the transcription predicts). *)
EXTENDS Renumber, Json, IOUtils

Recs == ndJsonDeserialize(IOEnv.TRACE)

VARIABLE l

\* rec.limit > 0: the record is told in a number space whose largest object number is rec.limit (see c10.rs)
Judge(rec) ==
    LET b   == DocOfJson(rec.before)
        a   == DocOfJson(rec.after)
        ctx == [CodeDev EXCEPT !.limit = rec.limit]                             \* the code as it is (Renumber!CodeDev)
        fs  == ClassifyX(b, a, rec.start, ctx)
    IN IF Acceptable(b, a, rec.start) # (Fails(b, a, rec.start) = {}) THEN "spec-inconsistent"
       ELSE IF fs # {} THEN VerdictOf(fs)
       ELSE LET r == ImplRunX(b, rec.start, ctx)
                m == IF r.panic THEN [r EXCEPT !.max_id = 0] ELSE r             \* new_id.saturating_sub(1)
            IN
            IF ~m.panicfit /\ m.objs = a.objs /\ m.trailer = a.trailer /\ m.bms = a.bms /\ m.max_id = a.max_id
            THEN "ok" ELSE "ok-drift"

Init == l = 1
Next == /\ l <= Len(Recs)
        /\ PrintT(<<"VERDICT", ToJson([i |-> l, v |-> Judge(Recs[l])])>>)
        /\ l' = l + 1
Spec == Init /\ [][Next]_l
Consumed == TLCGet("stats").diameter = Len(Recs) + 1
=============================================================================
