----------------------- MODULE MC_SecurityAlgorithms -----------------------
(* Model checking of the standard security handler PROTOCOL on the symbolic term algebra of        *)
(* SecurityAlgorithms (C06).                                                                       *)
(*                                                                                                *)
(* One behaviour:  Configure (revision, V, key length, EncryptMetadata, string/stream method,      *)
(* owner password absent?)  ->  WriteDict (the encrypting side computes O, U [, OE, UE, Perms] and   *)
(* its file key for a pair of password classes: Algorithms 2-5 / 8-10)  ->  Attempt (the opening     *)
(* side tries a password: Algorithms 6, 7 / 11, 12, 2.A, 13)  ->  DecryptItem* (Algorithm 1 / 1.A     *)
(* for every kind of string / stream, written by one side and read by the other) | Reject.          *)
(*                                                                                                *)
(* DECLARATIVE layer (the property): AuthSound/AuthComplete -- a password authenticates as user     *)
(* (owner) iff it is canonically equal to the user (owner, or user when there is none) password;     *)
(* KeyAgreement -- every authenticated password yields the encrypting side's file key, Perms         *)
(* validates; Plaintext -- what the ISO reader decrypts from what the ISO writer wrote is the         *)
(* plaintext, for every kind of item.  Mut # "none" breaks one step of the reader (Algorithm 7 with   *)
(* the 20 RC4 passes in forward order; Algorithm 12 without the U string) and must be refuted.        *)
(*                                                                                                *)
(* IMPL-SHAPED layer (what lopdf does, src/encryption.rs, src/encryption/algorithms.rs).  The three   *)
(* switches re-create deviations that were confirmed and then repaired (fix: c09ccb6, 44ea712,        *)
(* 48a6296); FALSE = the code as it is, TRUE (cfg *_seeded) = the old defect:                          *)
(*  - EncryptionVersion always passed Some(owner password) to Algorithm 3 (Dev_ownerAbsent),          *)
(*  - decrypt_raw derived the file key of revisions 2-4 from the supplied password itself, also when   *)
(*    it authenticated as the owner password (Dev_h12),                                              *)
(*  - encrypt_object / decrypt_object did not descend into stream dictionaries (Dev_h13).             *)
(*  - an Identity / absent StmF, StrF falls back to RC4 (Dev_identity); EncryptMetadata false is honoured below V 4   *)
(*    (Dev_emBelowV4); an Encrypt dictionary written directly in the trailer is not seen (Dev_encDirect); a signature  *)
(*    dictionary's Contents is run through the cipher (Dev_sig); a Crypt filter without decode parameters is not       *)
(*    Identity (Dev_cryptNoParams),                                                                                   *)
(*  - PasswordAlgorithm::try_from rejects a Length entry when V < 2 or outside 40..128 (so /Length 256 with   *)
(*    V 5 and /Length 40 with V 1) and takes 40 bits for revisions 3-4 when there is none (so V 4 without      *)
(*    Length) (Dev_length).                                                                              *)
(* ImplRefines: lopdf-shaped writer + ISO reader and ISO writer + lopdf-shaped reader agree with the  *)
(* declarative layer EXCEPT exactly in the cases named by the switches that are on.                  *)
(*                                                                                                *)
(* Anti-vacuity: TLC's -coverage needs > 8 GB of heap on this module (it keeps cost counters for every     *)
(* evaluation of the recursive term constructors), so the check derives "every action fired" from the     *)
(* emission instead: a TERMS line is printed in a Configure successor; a CASE line needs WriteDict and     *)
(* Attempt; items = 9 needs nine DecryptItem steps and Finish; items = 0 with no expectation needs Reject.  *)
(*                                                                                                *)
(* Emission: a TERMS line per configuration (the term DAG of every observable, with named inputs      *)
(* and refs) and a CASE line per (configuration, passwords, attempted password) with the verdicts     *)
(* of the declarative layer.                                                                        *)
EXTENDS SecurityAlgorithms, TLC, Json

CONSTANTS Thorough, Mut, Dev_h12, Dev_h13, Dev_ownerAbsent, Dev_length, Dev_tableCache,
          Dev_identity, Dev_emBelowV4, Dev_encDirect, Dev_sig, Dev_cryptNoParams, Emit

VARIABLES pc, cfg, absent, pws, w, try, res, todo, chk,
          hist,   \* the one-byte encodings the process converted text to before any judged computation, in call order
          prep    \* password preparation of revisions 2-4: the text, its bytes per the standard (d), lopdf-shaped (l)
pvars == <<hist, prep>>
vars == <<pc, cfg, absent, pws, w, try, res, todo, chk, hist, prep>>

-----------------------------------------------------------------------------
(* configurations *)
C(R, V, bits, meta, stmf, strf) == [R |-> R, V |-> V, bits |-> bits, meta |-> meta, stmf |-> stmf, strf |-> strf]
Cfgs ==
    {C(2, 1, 40, TRUE, "V2", "V2")}
    \cup {C(3, 2, b, TRUE, "V2", "V2") : b \in (IF Thorough THEN {40 + 8 * i : i \in 0..11} ELSE {40, 64, 128})}
    \cup {C(4, 4, 128, m, sm, sr) : m \in BOOLEAN, sm \in {"V2", "AESV2"}, sr \in {"V2", "AESV2"}}
    \cup {C(r, 5, 256, m, "AESV3", "AESV3") : r \in {5, 6}, m \in BOOLEAN}
    \* the standard crypt filter Identity as stream and / or string filter (explored with few password classes)
    \cup {C(4, 4, 128, m, sm, sr) : m \in (IF Thorough THEN BOOLEAN ELSE {TRUE}),
                                   <<sm, sr>> \in {<<"Identity", "AESV2">>, <<"AESV2", "Identity">>, <<"Identity", "V2">>, <<"Identity", "Identity">>}}
    \cup {C(r, 5, 256, m, sm, sr) : r \in {5, 6}, m \in (IF Thorough THEN BOOLEAN ELSE {TRUE}), <<sm, sr>> \in {<<"Identity", "AESV3">>, <<"AESV3", "Identity">>}}
IsIdCfg(c) == "Identity" \in {c.stmf, c.strf}

(* password classes: segments = bytes [0,32), [32,127), [127,..) of the prepared password *)
K32 == Seg("K", 32)
N95 == Seg("N", 95)
PwE    == Pw(<<>>)                        \* empty
PwU    == Pw(<<Seg("u", 4)>>)
PwO    == Pw(<<Seg("o", 5)>>)
PwW    == Pw(<<Seg("w", 6)>>)
PwLat  == Pw(<<Seg("lat", 3)>>)           \* Latin-1 letters (harness: PDFDocEncoding resp. UTF-8)
PwX32  == Pw(<<K32>>)                     \* exactly 32 bytes
PwL    == Pw(<<K32, Seg("m", 9)>>)        \* 41 bytes: equals PwX32 for revisions 2-4
PwL127 == Pw(<<K32, N95>>)                \* exactly 127 bytes
PwXL   == Pw(<<K32, N95, Seg("t", 6)>>)   \* 133 bytes: equals PwL127 for revisions 5-6

(* Revisions 5-6 only: passwords whose UTF-8 form has a k-byte character (k = 2, 3, 4) at the 127-byte cut of     *)
(* Algorithm 2.A (b).  The truncation is a truncation of the BYTE string (AtMost127 keeps the first two segments):  *)
(* the 95-byte segment H(k,j) ends with the first j bytes of the character, the tail T(k,j,_) starts with its     *)
(* remaining k-j bytes.  U(k,j) is the tail of a sibling character with the same first j bytes (a different       *)
(* password with the same first 127 bytes); C(k,j) is H(k,j) without the j bytes (the password cut at the          *)
(* character boundary - NOT the same password).  F(k) ends with a whole k-byte character at byte 127; G(k) is F(k)  *)
(* without it.  (Harness: U+00E9 / U+00E3, U+20AC / U+20A9, U+20000 / U+2000B - SASLprep maps them to themselves.) *)
KJ == {<<2, 1>>, <<3, 1>>, <<3, 2>>, <<4, 1>>, <<4, 2>>, <<4, 3>>}
SId(c, k, j) == c \o ToString(k) \o ToString(j)
HSeg(k, j) == Seg(SId("H", k, j), 95)
TSeg(k, j, extra) == Seg(SId("T", k, j), (k - j) + extra)
USeg(k, j) == Seg(SId("U", k, j), (k - j) + 3)
CSeg(k, j) == Seg(SId("C", k, j), 95 - j)
FSeg(k) == Seg("F" \o ToString(k), 95)
GSeg(k) == Seg("G" \o ToString(k), 95 - k)
PwS(k, j)   == Pw(<<K32, HSeg(k, j), TSeg(k, j, 5)>>)     \* > 127 bytes, the character straddles the cut
PwE128(k)   == Pw(<<K32, HSeg(k, k - 1), TSeg(k, k - 1, 0)>>)  \* exactly 128 bytes ending in the character
PwF(k)      == Pw(<<K32, FSeg(k)>>)                       \* exactly 127 bytes ending in the character
PwSV(k, j)  == Pw(<<K32, HSeg(k, j), USeg(k, j)>>)        \* same first 127 bytes, sibling character
PwCut(k, j) == Pw(<<K32, CSeg(k, j)>>)                    \* cut at the character boundary: 127 - j bytes
PwFT(k)     == Pw(<<K32, FSeg(k), Seg("t", 6)>>)          \* PwF plus a tail
PwFCut(k)   == Pw(<<K32, GSeg(k)>>)                       \* PwF without its last character
Straddle == {PwS(kj[1], kj[2]) : kj \in KJ} \cup {PwE128(k) : k \in 2..4} \cup {PwF(k) : k \in 2..4}
SplitSegs == {HSeg(kj[1], kj[2]) : kj \in KJ}
\* the other passwords worth trying against a password of the straddle family
Near(pw) == UNION ({IF pw \in {PwS(kj[1], kj[2]), PwE128(kj[1])} /\ (pw = PwS(kj[1], kj[2]) \/ kj[2] = kj[1] - 1)
                       THEN {PwSV(kj[1], kj[2]), PwCut(kj[1], kj[2])} ELSE {} : kj \in KJ}
                  \cup {IF pw = PwF(k) THEN {PwFT(k), PwFCut(k)} ELSE {} : k \in 2..4})

\* revisions 2-4: passwords with characters on which the predefined one-byte encodings differ (PrepR234 = PDFDocEncoding)
LatText == <<"a", "eacute", "udieresis">>            \* the text of PwLat
Texts == {<<"a", "euro">>, <<"bullet", "a", "dagger">>, <<"eacute", "a">>, <<"euro">>}
TextPws == {PrepR234(t) : t \in Texts}
TextOf(seg) == IF seg = Seg("lat", 3) THEN LatText
               ELSE IF \E t \in Texts : PrepR234(t).a[1] = seg THEN CHOOSE t \in Texts : PrepR234(t).a[1] = seg ELSE <<>>

Users(R)  == {PwE, PwU, PwLat, PwL, PwXL} \cup (IF R >= 5 THEN Straddle ELSE TextPws)
Owners(R, u) == IF u \in Straddle THEN {PwO, u}
                ELSE IF u \in TextPws THEN {PwE, PwO, u}
                ELSE {PwE, PwO, u, PwX32, PwL127} \cup (IF R >= 5 /\ u = PwU THEN Straddle ELSE {})
                                                 \cup (IF R <= 4 /\ u = PwU THEN {PrepR234(<<"bullet", "a", "dagger">>), PrepR234(<<"euro">>)} ELSE {})
UsersC(c) == IF IsIdCfg(c) THEN {PwE, PwU} ELSE Users(c.R)
OwnersC(c, u) == IF IsIdCfg(c) THEN {PwE, PwO, u} ELSE Owners(c.R, u)
Attempts(p) == {p.user, p.owner, PwW, PwE, PwX32, PwL127} \cup Near(p.user) \cup Near(p.owner)
               \cup (IF {p.user, p.owner} \cap TextPws # {} THEN TextPws ELSE {})

ItemSeq == <<"str.dict", "str.nested", "str.top", "str.streamdict", "stream", "stream.meta",
             "stream.xref", "str.encdict", "str.id", "str.sigcontents", "stream.cryptid">>

(* symbolic inputs *)
sP   == Num("P")
sId0 == In("id0", 16)
sArb == In("uarb", 16)
sFek == In("fek", 32)
sIv  == In("iv", 16)
sPt  == In("pt", -1)
sNum == Num("num")
sGen == Num("gen")

None == Empty

-----------------------------------------------------------------------------
(* the encrypting side, ISO *)
OwnerEff(R, p) == IF R <= 4 /\ p.owner = PwE THEN p.user ELSE p.owner     \* Algorithm 3 (a)

WriteR234(c, opw, upw) ==
    LET okey == OwnerKeyR234(c.R, c.bits, opw)
        O    == OValueR234(c.R, okey, upw)
        fk   == FileKeyR234(c.R, c.bits, c.meta, upw, O, sP, sId0)
    IN [O |-> O, U |-> UValueR234(c.R, fk, sId0, sArb), OE |-> None, UE |-> None, Perms |-> None, fk |-> fk]

WriteR56(c, opw, upw) ==
    LET U == UValueR56(c.R, upw, In("uvs", 8), In("uks", 8))
    IN [O |-> OValueR56(c.R, opw, In("ovs", 8), In("oks", 8), U), U |-> U,
        OE |-> OEValue(c.R, opw, In("oks", 8), U, sFek), UE |-> UEValue(c.R, upw, In("uks", 8), sFek),
        Perms |-> PermsValue(sFek, sP, c.meta, In("rnd", 4)), fk |-> sFek]

IsoWrite(c, p) == IF c.R <= 4 THEN WriteR234(c, OwnerEff(c.R, p), p.user) ELSE WriteR56(c, p.owner, p.user)
\* lopdf: EncryptionVersion::V1/V2/V4 pass Some(owner) to Algorithm 3 even when it is empty
LopdfWrite(c, p) == IF c.R <= 4 THEN WriteR234(c, IF Dev_ownerAbsent THEN p.owner ELSE OwnerEff(c.R, p), p.user)
                    ELSE WriteR56(c, p.owner, p.user)

-----------------------------------------------------------------------------
(* the opening side *)
Order == IF Mut = "alg7fwd" THEN "forward" ELSE "reverse"
WithU == Mut # "alg12noU"

OpenR234(c, d, pw) ==
    LET isUser  == SymTrue(AuthUserR234(c.R, c.bits, c.meta, pw, d.O, d.U, sP, sId0))
        rec     == RecoverUserR234(c.R, c.bits, pw, d.O, Order)
        isOwner == SymTrue(AuthUserR234(c.R, c.bits, c.meta, rec, d.O, d.U, sP, sId0))
        kUser   == FileKeyR234(c.R, c.bits, c.meta, pw, d.O, sP, sId0)
        kOwner  == FileKeyR234(c.R, c.bits, c.meta, rec, d.O, sP, sId0)
        fk      == IF isUser THEN kUser ELSE IF isOwner THEN kOwner ELSE None     \* Algorithm 6 / 7 (c)
        \* lopdf: authenticate_raw_password (owner or user), then compute_file_encryption_key_r4(doc, password)
        lfk     == IF ~(isUser \/ isOwner) THEN None ELSE IF Dev_h12 THEN kUser ELSE fk
    IN [isUser |-> isUser, isOwner |-> isOwner, fk |-> fk, lfk |-> lfk, permsOk |-> TRUE]

OpenR56(c, d, pw) ==
    LET isOwner == SymTrue(AuthOwnerR56(c.R, pw, d.O, d.U, WithU))
        isUser  == SymTrue(AuthUserR56(c.R, pw, d.U))
        fk      == IF isOwner THEN FileKeyFromOE(c.R, pw, d.O, d.U, d.OE)
                   ELSE IF isUser THEN FileKeyFromUE(c.R, pw, d.U, d.UE) ELSE None
    IN [isUser |-> isUser, isOwner |-> isOwner, fk |-> fk, lfk |-> fk,
        permsOk |-> (isOwner \/ isUser) => SymTrue(PermsValid(fk, d.Perms, sP, c.meta))]

Open(c, d, pw) == IF c.R <= 4 THEN OpenR234(c, d, pw) ELSE OpenR56(c, d, pw)

-----------------------------------------------------------------------------
(* strings and streams *)
KeyOf(c, fk, k) == ObjKey(fk, KeyBytes(c.R, c.bits), sNum, sGen, MethodOf(c, k))
IsoPayload(c, fk, k)   == IF Subject(c, k) THEN Ct(MethodOf(c, k), KeyOf(c, fk, k), sIv, sPt) ELSE sPt
IsoRead(c, fk, k, x)   == IF Subject(c, k) THEN Pt(MethodOf(c, k), KeyOf(c, fk, k), x) ELSE x
\* lopdf-shaped: get_stream_filter / get_string_filter fall back to RC4 for a name that is not in CF - Identity and
\* "" (no StmF / StrF) never are (Dev_identity); the dictionary walk has no exception for a signature's Contents
\* (Dev_sig); the Identity default of a Crypt filter is only reached when a parameter dictionary exists
\* (Dev_cryptNoParams); no descent into stream dictionaries (Dev_h13)
LopdfMethodOf(c, k) == IF Dev_identity /\ MethodOf(c, k) = "Identity" THEN "V2" ELSE MethodOf(c, k)
LopdfSubject(c, k) ==
    CASE k = "str.sigcontents" -> Dev_sig
      [] k = "stream.cryptid" -> c.V < 4 \/ Dev_cryptNoParams
      [] OTHER -> IsoSubject(k, c.meta) /\ ~(Dev_h13 /\ k = "str.streamdict")
LopdfKeyOf(c, fk, k)   == ObjKey(fk, KeyBytes(c.R, c.bits), sNum, sGen, LopdfMethodOf(c, k))
LopdfPayload(c, fk, k) == IF LopdfSubject(c, k) THEN Ct(LopdfMethodOf(c, k), LopdfKeyOf(c, fk, k), sIv, sPt) ELSE sPt
LopdfRead(c, fk, k, x) == IF LopdfSubject(c, k) THEN Pt(LopdfMethodOf(c, k), LopdfKeyOf(c, fk, k), x) ELSE x
\* the transformation each side applies to an item of kind k
IEff(c, k) == IF Subject(c, k) THEN MethodOf(c, k) ELSE "Identity"
LEff(c, k) == IF LopdfSubject(c, k) THEN LopdfMethodOf(c, k) ELSE "Identity"

-----------------------------------------------------------------------------
NoChk == [k |-> "none", isoiso |-> TRUE, g |-> TRUE, v |-> TRUE]
NoRes == [isUser |-> FALSE, isOwner |-> FALSE, fk |-> None, lfk |-> None, permsOk |-> TRUE]
NoW   == [O |-> None, U |-> None, OE |-> None, UE |-> None, Perms |-> None, fk |-> None]

NoPrep == [txt |-> <<>>, d |-> PwE, l |-> PwE]
Init ==
    /\ pc = "idle" /\ cfg = C(2, 1, 40, TRUE, "V2", "V2") /\ absent = FALSE
    /\ pws = [user |-> PwE, owner |-> PwE] /\ w = [iso |-> NoW, lopdf |-> NoW]
    /\ try = PwE /\ res = [iso |-> NoRes, v |-> NoRes] /\ todo = <<>> /\ chk = NoChk
    /\ hist = <<>> /\ prep = NoPrep

Configure ==
    /\ pc = "idle"
    /\ \E c \in Cfgs, ab \in BOOLEAN :
          /\ ValidCfg(c) /\ (ab => c.R <= 4)
          /\ cfg' = c /\ absent' = ab
    /\ pc' = "cfg"
    /\ UNCHANGED <<pws, w, try, res, todo, chk>>

WriteDict ==
    /\ pc = "cfg"
    /\ \E u \in UsersC(cfg) : \E o \in OwnersC(cfg, u) :
          /\ cfg.R <= 4 => ((o = PwE) <=> absent)
          /\ pws' = [user |-> u, owner |-> o]
          /\ w' = [iso |-> IsoWrite(cfg, pws'), lopdf |-> LopdfWrite(cfg, pws')]
    /\ pc' = "written"
    /\ UNCHANGED <<cfg, absent, try, res, todo, chk>>

\* res.iso: ISO reader on the ISO writer's dictionary (the lopdf-shaped key lfk rides along: direction G);
\* res.v:   ISO reader on the lopdf-shaped writer's dictionary (direction V)
Attempt ==
    /\ pc = "written"
    /\ \E pw \in Attempts(pws) :
          /\ try' = pw
          /\ res' = [iso |-> Open(cfg, w.iso, pw), v |-> Open(cfg, w.lopdf, pw)]
    /\ pc' = "opened"
    /\ todo' = ItemSeq
    /\ UNCHANGED <<cfg, absent, pws, w, chk>>

DecryptItem ==
    /\ pc = "opened" /\ (res.iso.isUser \/ res.iso.isOwner) /\ todo # <<>>
    /\ LET k == Head(todo)
       IN chk' = [k |-> k,
                  isoiso |-> IsoRead(cfg, res.iso.fk, k, IsoPayload(cfg, w.iso.fk, k)) = sPt,
                  g      |-> LopdfRead(cfg, res.iso.lfk, k, IsoPayload(cfg, w.iso.fk, k)) = sPt,
                  v      |-> IF res.v.isUser \/ res.v.isOwner
                             THEN IsoRead(cfg, res.v.fk, k, LopdfPayload(cfg, w.lopdf.fk, k)) = sPt
                             ELSE FALSE]
    /\ todo' = Tail(todo)
    /\ UNCHANGED <<pc, cfg, absent, pws, w, try, res>>

Reject ==
    /\ pc = "opened" /\ ~(res.iso.isUser \/ res.iso.isOwner)
    /\ pc' = "done"
    /\ UNCHANGED <<cfg, absent, pws, w, try, res, todo, chk>>

Finish ==
    /\ pc = "opened" /\ (res.iso.isUser \/ res.iso.isOwner) /\ todo = <<>>
    /\ pc' = "done"
    /\ UNCHANGED <<cfg, absent, pws, w, try, res, todo, chk>>

(* History: before any judged computation the process may have called the public text-encoding entry points      *)
(* (Document::encode_text, replace_text, ...) with any of the predefined encodings.  Prepare is Algorithm 2 (a)'s     *)
(* conversion of a password text.  The standard's conversion (d) does not look at the history; lopdf-shaped (l):       *)
(* string_to_bytes(encoding, text) scans the table it is given - unless Dev_tableCache: the conversion table is        *)
(* built on the first call and kept for the process, whatever encoding later calls name.                              *)
Disturb ==
    /\ pc = "idle" /\ Len(hist) < 2
    /\ \E e \in OneByteEncodings : hist' = Append(hist, e)
    /\ UNCHANGED <<pc, cfg, absent, pws, w, try, res, todo, chk, prep>>
LopdfTable == IF Dev_tableCache /\ Len(hist) > 0 THEN hist[1] ELSE "PDFDoc"
Prepare ==
    /\ pc = "idle"
    /\ \E t \in Texts \cup {LatText} : prep' = [txt |-> t, d |-> PrepR234(t), l |-> PrepText(LopdfTable, t)]
    /\ pc' = "prepared"
    /\ UNCHANGED <<cfg, absent, pws, w, try, res, todo, chk, hist>>
\* the protocol itself is explored from the empty history (everything after Prepare is a function of the prepared bytes)
Protocol == /\ hist = <<>>
            /\ Configure \/ WriteDict \/ Attempt \/ DecryptItem \/ Reject \/ Finish
            /\ UNCHANGED pvars

Next == Disturb \/ Prepare \/ Protocol
Spec == Init /\ [][Next]_vars

-----------------------------------------------------------------------------
(* declarative layer *)
Opened == pc \in {"opened", "done"}
ShouldUser  == Canon(cfg.R, try) = Canon(cfg.R, pws.user)
ShouldOwner == Canon(cfg.R, try) = Canon(cfg.R, OwnerEff(cfg.R, pws))

AuthUserSound     == Opened /\ res.iso.isUser => ShouldUser
AuthUserComplete  == Opened /\ ShouldUser => res.iso.isUser
AuthOwnerSound    == Opened /\ res.iso.isOwner => ShouldOwner
AuthOwnerComplete == Opened /\ ShouldOwner => res.iso.isOwner
KeyAgreement      == Opened /\ (res.iso.isUser \/ res.iso.isOwner) => res.iso.fk = w.iso.fk /\ res.iso.permsOk
NoKeyWithoutAuth  == Opened /\ ~(res.iso.isUser \/ res.iso.isOwner) => res.iso.fk = None
Plaintext         == chk.isoiso
\* the dictionary entries have the lengths the standard states
Shapes == pc \in {"written", "opened", "done"} =>
            /\ TLen(w.iso.O) = (IF cfg.R <= 4 THEN 32 ELSE 48) /\ TLen(w.iso.U) = TLen(w.iso.O)
            /\ TLen(w.iso.fk) = KeyBytes(cfg.R, cfg.bits)
            /\ cfg.R >= 5 => TLen(w.iso.OE) = 32 /\ TLen(w.iso.UE) = 32 /\ TLen(w.iso.Perms) = 16
            /\ cfg.stmf # "Identity" => TLen(KeyOf(cfg, w.iso.fk, "stream")) = (IF cfg.R >= 5 THEN 32 ELSE Min(KeyBytes(cfg.R, cfg.bits) + 5, 16))

(* password preparation is a function of the text alone *)
PrepIsFunction == pc = "prepared" => prep.l = prep.d
DevTableHere == Dev_tableCache /\ Len(hist) > 0 /\ TableSensitive(hist[1], prep.txt)
ImplPrepRefines == pc = "prepared" => ((prep.l = prep.d) <=> ~DevTableHere)
\* ... and a different preparation is a different password for every algorithm downstream
PrepMatters == pc = "prepared" /\ prep.l # prep.d =>
                  /\ Canon(3, prep.l) # Canon(3, prep.d)
                  /\ OwnerKeyR234(3, 128, prep.l) # OwnerKeyR234(3, 128, prep.d)
                  /\ FileKeyR234(3, 128, TRUE, prep.l, In("O", 32), sP, sId0) # FileKeyR234(3, 128, TRUE, prep.d, In("O", 32), sP, sId0)

(* the Length entry: every legal form gives the reader the writer's key length (declarative) *)
LengthAgreement == pc = "cfg" => /\ CanonLength(cfg) \in LegalLengths(cfg)
                                 /\ \A len \in LegalLengths(cfg) : ReaderBits(cfg.V, len) = cfg.bits
\* lopdf (PasswordAlgorithm::try_from, compute_file_encryption_key_r4): -1 = InvalidKeyLength
LopdfBits(c, len) ==
    IF ~Dev_length THEN ReaderBits(c.V, len)
    ELSE IF len # -1 /\ (c.V < 2 \/ len % 8 # 0 \/ len < 40 \/ len > 128) THEN -1
    ELSE IF c.R >= 5 THEN 256 ELSE IF c.R = 2 THEN 40 ELSE IF len = -1 THEN 40 ELSE len
DevLengthClasses == {"V1.40", "V4.absent", "V5.256"}
DevLengthHere(c, len) == Dev_length /\ LenClass(c, len) \in DevLengthClasses
ImplLengthRefines == pc = "cfg" => \A len \in LegalLengths(cfg) : (LopdfBits(cfg, len) = cfg.bits) <=> ~DevLengthHere(cfg, len)

(* impl-shaped refines declarative, except exactly the confirmed deviations *)
\* the input classes of the two deviations (whatever the switches say): used for anti-vacuity of the emitted cases
ClsOwnerAbsentHere == cfg.R <= 4 /\ pws.owner = PwE /\ Canon(cfg.R, pws.user) # Canon(cfg.R, PwE)
ClsH12Here         == cfg.R <= 4 /\ res.iso.isOwner /\ ~res.iso.isUser
DevOwnerAbsentHere == Dev_ownerAbsent /\ ClsOwnerAbsentHere
DevH12Here         == Dev_h12 /\ ClsH12Here
DevH13Here(k)      == Dev_h13 /\ k = "str.streamdict"

ImplDictRefines == pc \in {"written", "opened", "done"} =>
    /\ (w.lopdf.O = w.iso.O) <=> ~DevOwnerAbsentHere
    /\ ~DevOwnerAbsentHere => w.lopdf = w.iso
ImplKeyRefines == Opened /\ (res.iso.isUser \/ res.iso.isOwner) => ((res.iso.lfk = w.iso.fk) <=> ~DevH12Here)
\* ISO writer + lopdf-shaped reader (direction G), lopdf-shaped writer + ISO reader (direction V)
ImplItemRefines == chk.k # "none" =>
    /\ chk.g <=> ~((DevH12Here /\ LEff(cfg, chk.k) # "Identity") \/ LEff(cfg, chk.k) # IEff(cfg, chk.k))
    /\ (res.v.isUser \/ res.v.isOwner) => (chk.v <=> LEff(cfg, chk.k) = IEff(cfg, chk.k))
\* the two sides treat a kind of item differently exactly in the classes the switches name
DevIdentityHere(c, k)  == Dev_identity /\ Subject(c, k) /\ MethodOf(c, k) = "Identity" /\ LopdfSubject(c, k)
DevH13Cls(c, k)        == Dev_h13 /\ k = "str.streamdict" /\ MethodOf(c, k) # "Identity"
DevSigHere(c, k)       == Dev_sig /\ k = "str.sigcontents" /\ LopdfMethodOf(c, k) # "Identity"
DevCryptHere(c, k)     == Dev_cryptNoParams /\ k = "stream.cryptid" /\ c.V >= 4 /\ LopdfMethodOf(c, k) # "Identity"
ImplItemClasses == pc = "cfg" => \A k \in ItemKinds :
    (LEff(cfg, k) # IEff(cfg, k)) <=> (DevH13Cls(cfg, k) \/ DevIdentityHere(cfg, k) \/ DevSigHere(cfg, k) \/ DevCryptHere(cfg, k))

(* the forms of the encryption dictionary: every legal form means the configuration (declarative); lopdf-shaped:     *)
(* Document::get_encrypted sees only a referenced dictionary (Dev_encDirect), EncryptMetadata is taken at its word    *)
(* whatever V is (Dev_emBelowV4), an Identity / absent filter name falls back to RC4 (Dev_identity)                  *)
CfgView(c) == [seen |-> TRUE, meta |-> c.meta, stmf |-> c.stmf, strf |-> c.strf]
FormAgreement == pc = "cfg" => \A f \in Forms(cfg) : IsoView(cfg.V, Entries(cfg, f)) = CfgView(cfg)
LopdfView(V, e) ==
    LET iso == IsoView(V, e)
        m(x) == IF Dev_identity /\ x = "Identity" THEN "V2" ELSE x
    IN [seen |-> ~(Dev_encDirect /\ e.enc = "direct"),
        meta |-> IF Dev_emBelowV4 THEN e.em # "false" ELSE iso.meta,
        stmf |-> m(iso.stmf), strf |-> m(iso.strf)]
DevFormHere(c, f) == \/ Dev_encDirect /\ f = "enc.direct"
                     \/ Dev_emBelowV4 /\ f = "em.false"
                     \/ Dev_identity /\ c.V >= 4 /\ IsIdCfg(c)
ImplFormRefines == pc = "cfg" => \A f \in Forms(cfg) : (LopdfView(cfg.V, Entries(cfg, f)) = IsoView(cfg.V, Entries(cfg, f))) <=> ~DevFormHere(cfg, f)
\* a document lopdf wrote opens in the ISO reader with the passwords it was written with
ImplOpens == Opened /\ try \in {pws.user, OwnerEff(cfg.R, pws)}
               => (res.v.isUser \/ res.v.isOwner) /\ res.v.fk = w.lopdf.fk /\ res.v.permsOk
\* ... and with no other password, except: with Some("") as owner password the empty password is an owner password
ImplRejects == /\ Opened /\ (res.v.isUser \/ res.v.isOwner) /\ ~(ShouldUser \/ ShouldOwner)
                    => DevOwnerAbsentHere /\ Canon(cfg.R, try) = Canon(cfg.R, PwE)
               /\ Opened /\ DevOwnerAbsentHere /\ try = PwE => res.v.isOwner /\ ~ShouldOwner

-----------------------------------------------------------------------------
(* emission *)
D(name, t) == [n |-> name, t |-> t]

ItemDefs(c, n, fk) ==
    LET oks == Ref("objkey.str", IF c.R >= 5 THEN 32 ELSE ObjKeyLen(n))
        okm == Ref("objkey.stm", IF c.R >= 5 THEN 32 ELSE ObjKeyLen(n))
    IN <<D("objkey.str", ObjKey(fk, n, sNum, sGen, c.strf)),
         D("objkey.stm", ObjKey(fk, n, sNum, sGen, c.stmf)),
         D("ct.str", Ct(c.strf, oks, sIv, sPt)), D("ct.stm", Ct(c.stmf, okm, sIv, sPt)),
         D("pt.str", Pt(c.strf, oks, In("ct", -1))), D("pt.stm", Pt(c.stmf, okm, In("ct", -1)))>>

Defs(c, ab) ==
    LET R == c.R
        n == KeyBytes(R, c.bits)
        upw == In("upw", -1)
        opw == IF ab THEN In("upw", -1) ELSE In("opw", -1)
        pw  == In("pw", -1)
        id0 == In("id0", -1)
        fk  == Ref("fk", n)
    IN IF R <= 4
       THEN LET O == Ref("O", 32)
                U == Ref("U", 32)
            IN <<D("okey", OwnerKeyR234(R, c.bits, opw)),
                 D("O", OValueR234(R, Ref("okey", n), upw)),
                 D("fk", FileKeyR234(R, c.bits, c.meta, upw, O, sP, id0)),
                 D("U", UValueR234(R, fk, id0, In("uarb", 16))),
                 D("r.upw", RecoverUserR234(R, c.bits, pw, O, "reverse")),
                 D("r.fk.user", FileKeyR234(R, c.bits, c.meta, pw, O, sP, id0)),
                 D("r.fk.owner", FileKeyR234(R, c.bits, c.meta, Ref("r.upw", 32), O, sP, id0)),
                 D("r.auth.user", AuthUserKeyed(R, Ref("r.fk.user", n), id0, U)),
                 D("r.auth.owner", AuthUserKeyed(R, Ref("r.fk.owner", n), id0, U))>> \o ItemDefs(c, n, fk)
       ELSE LET O == Ref("O", 48)
                U == Ref("U", 48)
            IN <<D("fk", In("fek", 32)),
                 D("U", UValueR56(R, upw, In("uvs", 8), In("uks", 8))),
                 D("UE", UEValue(R, upw, In("uks", 8), fk)),
                 D("O", OValueR56(R, opw, In("ovs", 8), In("oks", 8), U)),
                 D("OE", OEValue(R, opw, In("oks", 8), U, fk)),
                 D("Perms", PermsValue(fk, sP, c.meta, In("rnd", 4))),
                 D("r.auth.user", AuthUserR56(R, pw, U)),
                 D("r.auth.owner", AuthOwnerR56(R, pw, O, U, TRUE)),
                 D("r.fk.user", FileKeyFromUE(R, pw, U, Ref("UE", 32))),
                 D("r.fk.owner", FileKeyFromOE(R, pw, O, U, Ref("OE", 32))),
                 D("r.perms", PermsDecrypted(fk, Ref("Perms", 16))),
                 D("r.perms.ok", PermsValid(fk, Ref("Perms", 16), sP, c.meta))>> \o ItemDefs(c, n, fk)

\* split = 1: the segment ends inside a multi-byte character
FormSeq == <<"canon", "enc.direct", "em.false", "stmf.absent", "strf.absent">>
\* the legal Length entries in ascending order
SetToSeqLen(S) == LET lo == CHOOSE x \in S : \A y \in S : x <= y
                  IN IF Cardinality(S) = 1 THEN <<lo>> ELSE <<lo, CHOOSE x \in S : x # lo>>
\* txt: the characters of a segment that is the PDFDocEncoding of a text with non-ASCII characters (else <<>>)
SegsJson(p) == [i \in 1..Len(p.a) |-> [id |-> p.a[i].s, len |-> p.a[i].n[1],
                                       split |-> IF p.a[i] \in SplitSegs THEN 1 ELSE 0, txt |-> TextOf(p.a[i])]]

EmitInv ==
    /\ (Emit /\ pc = "cfg") =>
          PrintT(<<"TERMS", ToJson([cfg |-> cfg, absent |-> absent, ucmp |-> UCmpLen(cfg.R),
                                    subjects |-> [k \in ItemKinds |-> Subject(cfg, k)],
                                    forms |-> LET fs == SelectSeq(FormSeq, LAMBDA f : f \in Forms(cfg))
                                              IN [i \in 1..Len(fs) |-> [f |-> fs[i], cls |-> FormClass(cfg, fs[i]), dev |-> DevFormHere(cfg, fs[i])]],
                                    devItems |-> [k \in ItemKinds |-> LEff(cfg, k) # IEff(cfg, k)],
                                    lengths |-> SetToSeqLen(LegalLengths(cfg)), canonLength |-> CanonLength(cfg),
                                    lengthModel |-> [i \in 1..Cardinality(LegalLengths(cfg)) |->
                                                       LET len == SetToSeqLen(LegalLengths(cfg))[i]
                                                       IN [len |-> len, cls |-> LenClass(cfg, len), dev |-> DevLengthHere(cfg, len)]],
                                    defs |-> Defs(cfg, absent)])>>)
    /\ (Emit /\ pc = "prepared") =>
          PrintT(<<"PREP", ToJson([hist |-> hist, txt |-> prep.txt, d |-> SegsJson(prep.d),
                                   sensitive |-> [e \in OneByteEncodings |-> TableSensitive(e, prep.txt)],
                                   dev |-> DevTableHere])>>)
    /\ (Emit /\ pc = "done") =>
          PrintT(<<"CASE", ToJson([cfg |-> cfg, absent |-> absent,
                                   user |-> SegsJson(pws.user), owner |-> SegsJson(pws.owner), try |-> SegsJson(try),
                                   expUser |-> ShouldUser, expOwner |-> ShouldOwner,
                                   items |-> Len(ItemSeq) - Len(todo),      \* DecryptItem steps of this behaviour
                                   model |-> [h12 |-> DevH12Here, ownerAbsent |-> DevOwnerAbsentHere],
                                   cls   |-> [h12 |-> ClsH12Here, ownerAbsent |-> ClsOwnerAbsentHere]])>>)
=============================================================================
