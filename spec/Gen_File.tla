------------------------------ MODULE Gen_File ------------------------------
(* spec -> impl generator for C02 (and the Producer's consistency check at file level): abstract *)
(* documents are read from IOEnv.DOCS (ndjson, file-side values), every lexical and structural   *)
(* knob is chosen nondeterministically, the Producer lays the file out, the StrictReader must     *)
(* read it back as the document (RoundTrip), and each complete file is printed for lopdf to load. *)
EXTENDS SyntaxProducer, Revisions, TLC, Json, IOUtils

\* TLC orders record fields by first mention while parsing (root module first): the kind field `k` must come
\* before the payload fields so that object values of different kinds are unequal without their payloads
\* ever being compared (a function-valued `v` against a sequence-valued one is a TLC evaluation error).
KindFirst_Gen_File(o) == <<o.k, o.neg, o.v, o.w>>

Docs == ndJsonDeserialize(IOEnv.DOCS)

CONSTANTS Emit,
          Ghosts      \* TRUE: object streams may carry an unreferenced duplicate member (C08 file set only)

VARIABLES di,     \* index of the document being produced
          fin     \* set by the single-successor Finish step (one REPLAY line per behaviour)

vars == <<pvars, di, fin>>

ObjsOf(js) == [i \in 1..Len(js) |-> [num |-> js[i][1], gen |-> js[i][2], val |-> ObjOf(js[i][3])]]
FileDoc(j) ==
    [version |-> j.version, binmark |-> j.binmark,
     revs |-> [r \in 1..Len(j.revs) |->
                 [objs |-> ObjsOf(j.revs[r].objects),
                  trailer |-> DictOfPairs(j.revs[r].trailer),
                  comp |-> [c \in 1..Len(j.revs[r].comp) |->
                              [cnum |-> j.revs[r].comp[c].cnum,
                               members |-> [m \in 1..Len(j.revs[r].comp[c].members) |->
                                              [num |-> j.revs[r].comp[c].members[m][1], val |-> ObjOf(j.revs[r].comp[c].members[m][2])]]]]]]]

JunkChoices == { <<>>, <<106, 117, 110, 107, 10>>, <<0, 255, 37, 80, 68, 13, 10, 32>> }
WChoices == { <<1, 2, 1>>, <<1, 4, 2>>, <<1, 3, 0>>, <<0, 2, 2>>, <<2, 8, 2>> }

MaxGen(doc) == FoldLeft(LAMBDA acc, r : FoldLeft(LAMBDA a2, o : IF o.gen > a2 THEN o.gen ELSE a2, acc, doc.revs[r].objs), 0, [r \in 1..Len(doc.revs) |-> r])

Init ==
    /\ di \in 1..Len(Docs)
    /\ plan = [none |-> TRUE] /\ todo = <<[w |-> "plan", next |-> "xref"]>>
    /\ out = <<>> /\ offs = EmptyMap /\ outer = <<>> /\ moffs = <<>> /\ fin = FALSE

\* The structural knobs are chosen one small step at a time (a single step choosing all of them would make
\* TLC enumerate their whole product as successors).  plan.k grows until PlanDone lays the file out.
PlanStep(name) == todo # <<>> /\ todo[1].w = "plan" /\ todo[1].next = name
PlanNext(name) == todo' = <<[w |-> "plan", next |-> name]>>
TheDoc == FileDoc(Docs[di])
HasComp(doc) == \E r \in 1..Len(doc.revs) : doc.revs[r].comp # <<>>

PlanXref ==
    /\ PlanStep("xref")
    /\ \E xref \in {"table1", "tableN", "stream1", "streamN"}, order \in {"asc", "desc"} :
          /\ (Len(TheDoc.revs) > 1 => xref \in {"tableN", "streamN"})          \* updates list only what changed
          /\ plan' = [k |-> [xref |-> xref, order |-> order]]
    /\ PlanNext("w") /\ UNCHANGED <<out, offs, outer, moffs>>

PlanW ==
    /\ PlanStep("w")
    /\ \E w \in WChoices, noindex \in BOOLEAN, selfgap \in BOOLEAN :
          /\ (selfgap => plan.k.xref \in {"stream1", "streamN"} /\ FreeBelow(TheDoc) # {})
          /\ (w[3] = 0 => MaxGen(TheDoc) = 0) /\ (w[3] = 1 => MaxGen(TheDoc) <= 255)   \* generations must fit field 3
          /\ (w[1] = 0 => plan.k.xref # "stream1")
          /\ ((w[1] = 0 \/ w[3] = 0) => ~HasComp(TheDoc))                                \* type-2 entries need fields 1 and 3
          /\ (plan.k.xref \in {"table1", "tableN"} => w = <<1, 2, 1>> /\ ~noindex)      \* irrelevant for tables
          /\ plan' = [k |-> plan.k @@ [w |-> w, noindex |-> noindex, selfgap |-> selfgap]]
    /\ PlanNext("misc") /\ UNCHANGED <<out, offs, outer, moffs>>

PlanMisc ==
    /\ PlanStep("misc")
    /\ \E junk \in JunkChoices, bin \in BOOLEAN, slack \in {0, 2}, gh \in BOOLEAN :
          /\ (gh => Ghosts /\ UseComp(plan.k) /\ HasComp(TheDoc))
          \* the ghost number lies above every number of the file (incl. the XRef stream objects) and below Size
          /\ plan' = [k |-> plan.k @@ [junk |-> Len(junk), junkbytes |-> junk, bin |-> bin,
                                       slack |-> IF gh THEN 2 ELSE slack,
                                       ghost |-> IF gh THEN MaxAll(TheDoc) + Len(TheDoc.revs) + 1 ELSE 0]]
    /\ PlanNext("filter") /\ UNCHANGED <<out, offs, outer, moffs>>

\* (two steps, so that "no filter", "flate" and "predictor" are equally likely in simulation)
PlanFilter ==
    /\ PlanStep("filter")
    /\ \E sfilter \in {"none", "flate", "pred"} :
          /\ (plan.k.xref \in {"table1", "tableN"} => sfilter = "none")
          /\ plan' = [k |-> plan.k @@ [sfilter |-> sfilter]]
    /\ PlanNext("fparams") /\ UNCHANGED <<out, offs, outer, moffs>>

PlanFilterParams ==
    /\ PlanStep("fparams")
    /\ \E pngft \in 0..6, zblock \in {7, 65535}, crow \in {1, 5} :
          /\ (plan.k.sfilter # "pred" => pngft = 0 /\ crow = 1) /\ (plan.k.sfilter = "none" => zblock = 7)      \* unused knobs fixed
          /\ LET k == plan.k @@ [pngft |-> pngft, zblock |-> zblock, crow |-> crow]
             IN plan' = InitPlan(TheDoc, k) /\ todo' = FilePlan(TheDoc, k)
    /\ UNCHANGED <<out, offs, outer, moffs>>

Plan == PlanXref \/ PlanW \/ PlanMisc \/ PlanFilter \/ PlanFilterParams

Finish == todo = <<>> /\ ~fin /\ fin' = TRUE /\ UNCHANGED <<pvars, di>>

Next == ((FileNext \/ Plan) /\ UNCHANGED <<di, fin>>) \/ Finish

Spec == Init /\ [][Next]_vars

Done == fin

\* what the file defines: Revisions!View of the history (streams with the Length the Producer wrote);
\* in cross-reference-stream files additionally the XRef streams and the object-stream containers
ExpectedVal(v) == IF v.k = "stream" THEN OStream(StreamDictWritten([val |-> v], 0), v.w) ELSE v

BookKeysF == {NameSize, NameType, NameW, NameIndex, NameLength, NamePrev, NameFilter, NameDecodeParms}

ContainerNums == IF UseComp(K) THEN UNION {{Doc.revs[r].comp[c].cnum : c \in 1..Len(Doc.revs[r].comp)} : r \in 1..Len(Doc.revs)} ELSE {}

RoundTrip ==
    Done => LET rd == RdFile(out)
                vw == View(Doc.revs)
            IN
            /\ rd.ok
            /\ rd.version = Doc.version
            /\ rd.junk = K.junk
            /\ rd.nrevs = Len(Doc.revs)
            /\ \A n \in DOMAIN vw :
                  /\ Has(rd.view, n)
                  /\ rd.view[n].gen = vw[n].gen
                  /\ rd.view[n].val = ExpectedVal(vw[n].val)
            /\ (DOMAIN rd.view \ rd.xrefobjs) \ ContainerNums = DOMAIN vw
            /\ MapDel(rd.trailer, BookKeysF) = MapDel(Doc.revs[Len(Doc.revs)].trailer, BookKeysF)

EmitInv ==
    (Emit /\ Done) => PrintT(<<"REPLAY", ToJson([doc |-> di, bytes |-> out, xref |-> K.xref, w |-> K.w, order |-> K.order,
                                                  junk |-> K.junk, bin |-> K.bin, sfilter |-> K.sfilter, pngft |-> K.pngft, ghost |-> K.ghost, selfgap |-> K.selfgap, nrevs |-> Len(Doc.revs), cuts |-> plan.cuts,
                                                  ncomp |-> IF UseComp(K) THEN Cardinality(ContainerNums) ELSE 0,
                                                  redefined |-> Cardinality(Redefined(Doc.revs))])>>)
=============================================================================
