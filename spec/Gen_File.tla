------------------------------ MODULE Gen_File ------------------------------
(* spec -> impl generator for C02 (and the Producer's consistency check at file level): abstract *)
(* documents are read from IOEnv.DOCS (ndjson, file-side values), every lexical and structural   *)
(* knob is chosen nondeterministically, the Producer lays the file out, the StrictReader must     *)
(* read it back as the document (RoundTrip), and each complete file is printed for lopdf to load. *)
EXTENDS SyntaxProducer, Revisions, TLC, Json, IOUtils

\* TLC orders record fields by first mention while parsing (root module first): the kind field `k` must come
\* before the payload fields so that object values of different kinds are unequal without their payloads
\* ever being compared (a function-valued `v` against a sequence-valued one is a TLC evaluation error).
KindFirst_Gen_File(o) == <<o.k, o.neg, o.v, o.w>>

Docs == ndJsonDeserialize(IOEnv.DOCS)

CONSTANTS Emit,
          Ghosts      \* TRUE: object streams may carry an unreferenced duplicate member (C08 file set only)

\* Which of the features beyond the statement of C02 the Producer may use.  A definition, not a constant: the
\* configurations of the listed properties leave it alone ("off": no knob below exists, every file is what it
\* always was); Gen_File_free.cfg / Gen_File_hybrid.cfg / Gen_File_beyond.cfg replace it (Beyond <- BeyondFree ...).
Beyond == "off"
BeyondFree == "free"          \* free-list styles for documents whose updates delete objects
BeyondHybrid == "hybrid"      \* hybrid-reference sections (table + XRefStm)
BeyondBoth == "freehybrid"

VARIABLES di,     \* index of the document being produced
          fin     \* set by the single-successor Finish step (one REPLAY line per behaviour)

vars == <<pvars, di, fin>>

ObjsOf(js) == [i \in 1..Len(js) |-> [num |-> js[i][1], gen |-> js[i][2], val |-> ObjOf(js[i][3])]]
FileDoc(j) ==
    [version |-> j.version, binmark |-> j.binmark,
     revs |-> [r \in 1..Len(j.revs) |->
                 [objs |-> ObjsOf(j.revs[r].objects),
                  trailer |-> DictOfPairs(j.revs[r].trailer),
                  free |-> IF "free" \in DOMAIN j.revs[r] THEN [i \in 1..Len(j.revs[r].free) |-> [num |-> j.revs[r].free[i][1], gen |-> j.revs[r].free[i][2]]] ELSE <<>>,
                  comp |-> [c \in 1..Len(j.revs[r].comp) |->
                              [cnum |-> j.revs[r].comp[c].cnum,
                               nref |-> IF "nref" \in DOMAIN j.revs[r].comp[c] THEN j.revs[r].comp[c].nref ELSE 0,
                               fref |-> IF "fref" \in DOMAIN j.revs[r].comp[c] THEN j.revs[r].comp[c].fref ELSE 0,
                               fval |-> IF "fval" \in DOMAIN j.revs[r].comp[c] THEN j.revs[r].comp[c].fval ELSE 0,
                               members |-> [m \in 1..Len(j.revs[r].comp[c].members) |->
                                              [num |-> j.revs[r].comp[c].members[m][1], val |-> ObjOf(j.revs[r].comp[c].members[m][2])]]]]]]]

JunkChoices == { <<>>, <<106, 117, 110, 107, 10>>, <<0, 255, 37, 80, 68, 13, 10, 32>> }
WChoices == { <<1, 2, 1>>, <<1, 4, 2>>, <<1, 3, 0>>, <<0, 2, 2>>, <<2, 8, 2>> }

MaxGen(doc) == FoldLeft(LAMBDA acc, r : FoldLeft(LAMBDA a2, o : IF o.gen > a2 THEN o.gen ELSE a2, acc, doc.revs[r].objs \o doc.revs[r].free), 0, [r \in 1..Len(doc.revs) |-> r])
HasFree(doc) == \E r \in 1..Len(doc.revs) : doc.revs[r].free # <<>>

Init ==
    /\ di \in 1..Len(Docs)
    /\ plan = [none |-> TRUE] /\ todo = <<[w |-> "plan", next |-> "xref"]>>
    /\ out = <<>> /\ offs = EmptyMap /\ outer = <<>> /\ moffs = <<>> /\ fin = FALSE

\* The structural knobs are chosen one small step at a time (a single step choosing all of them would make
\* TLC enumerate their whole product as successors).  plan.k grows until PlanDone lays the file out.
PlanStep(name) == todo # <<>> /\ todo[1].w = "plan" /\ todo[1].next = name
PlanNext(name) == todo' = <<[w |-> "plan", next |-> name]>>
TheDoc == FileDoc(Docs[di])
HasComp(doc) == \E r \in 1..Len(doc.revs) : doc.revs[r].comp # <<>>

PlanXref ==
    /\ PlanStep("xref")
    /\ \E xref \in {"table1", "tableN", "stream1", "streamN"}, order \in {"asc", "desc"} :
          /\ (Len(TheDoc.revs) > 1 => xref \in {"tableN", "streamN"})          \* updates list only what changed
          /\ plan' = [k |-> [xref |-> xref, order |-> order] @@ PlainKnobs]
    /\ PlanNext(IF Beyond = "off" THEN "w" ELSE "beyond") /\ UNCHANGED <<out, offs, outer, moffs>>

\* (only when Beyond # "off") free-list style; which revisions are hybrid-reference sections and how they hide
HybridChoices(doc) ==
    LET can == {r \in 1..Len(doc.revs) : doc.revs[r].comp # <<>>}
        newest == IF can = {} THEN {} ELSE {CHOOSE r \in can : \A q \in can : q <= r}
        oldest == IF can = {} THEN {} ELSE {CHOOSE r \in can : \A q \in can : r <= q}
    IN {{}, can, newest, oldest}
PlanBeyond ==
    /\ PlanStep("beyond")
    /\ \E hybrid \in HybridChoices(TheDoc), hycont \in {"stm", "intable"}, hyself \in {"stm", "intable"}, hymark \in {"free", "unlisted"},
          flink \in {"zero", "chain"} :
          /\ (hybrid # {} => Beyond \in {"hybrid", "freehybrid"} /\ plan.k.xref \in {"table1", "tableN"})
          /\ (Beyond = "hybrid" /\ plan.k.xref \in {"table1", "tableN"} /\ HasComp(TheDoc) => hybrid # {})
          /\ (hybrid = {} => hycont = "stm" /\ hyself = "stm" /\ hymark = "free")                   \* unused knobs fixed
          /\ (flink = "chain" => Beyond \in {"free", "freehybrid"} /\ HasFree(TheDoc))
          /\ plan' = [k |-> [hybrid |-> hybrid, hycont |-> hycont, hyself |-> hyself, hymark |-> hymark, flink |-> flink] @@ plan.k]
    /\ PlanNext("w") /\ UNCHANGED <<out, offs, outer, moffs>>

PlanW ==
    /\ PlanStep("w")
    /\ \E w \in WChoices, noindex \in BOOLEAN, selfgap \in BOOLEAN :
          /\ (selfgap => plan.k.xref \in {"stream1", "streamN"} /\ FreeBelow(TheDoc) # {})
          /\ (w[3] = 0 => MaxGen(TheDoc) = 0) /\ (w[3] = 1 => MaxGen(TheDoc) <= 255)   \* generations must fit field 3
          /\ (w[1] = 0 => plan.k.xref # "stream1" /\ ~HasFree(TheDoc))                   \* free entries need the type field
          /\ ((w[1] = 0 \/ w[3] = 0) => ~HasComp(TheDoc))                                \* type-2 entries need fields 1 and 3
          /\ (plan.k.xref \in {"table1", "tableN"} => (plan.k.hybrid = {} => w = <<1, 2, 1>>) /\ ~noindex)   \* irrelevant for tables without XRefStm
          /\ plan' = [k |-> plan.k @@ [w |-> w, noindex |-> noindex, selfgap |-> selfgap]]
    /\ PlanNext("misc") /\ UNCHANGED <<out, offs, outer, moffs>>

PlanMisc ==
    /\ PlanStep("misc")
    /\ \E junk \in JunkChoices, bin \in BOOLEAN, slack \in {0, 2}, gh \in BOOLEAN :
          /\ (gh => Ghosts /\ UseComp(plan.k) /\ HasComp(TheDoc))
          \* the ghost number lies above every number of the file (incl. the XRef stream objects) and below Size
          /\ plan' = [k |-> plan.k @@ [junk |-> Len(junk), junkbytes |-> junk, bin |-> bin,
                                       slack |-> IF gh THEN 2 ELSE slack,
                                       ghost |-> IF gh THEN MaxAll(TheDoc) + Len(TheDoc.revs) + 1 ELSE 0]]
    /\ PlanNext("filter") /\ UNCHANGED <<out, offs, outer, moffs>>

\* (two steps, so that "no filter", "flate" and "predictor" are equally likely in simulation)
PlanFilter ==
    /\ PlanStep("filter")
    /\ \E sfilter \in {"none", "flate", "pred", "other"} :
          /\ (plan.k.xref \in {"table1", "tableN"} /\ plan.k.hybrid = {} => sfilter = "none")
          /\ plan' = [k |-> plan.k @@ [sfilter |-> sfilter]]
    /\ PlanNext("fparams") /\ UNCHANGED <<out, offs, outer, moffs>>

PlanFilterParams ==
    /\ PlanStep("fparams")
    /\ \E pngft \in 0..6, zblock \in {7, 65535}, crow \in {1, 5}, sfx \in OtherFilters \cup {""},
          hexstyle \in {"upper", "lower", "ws", "odd", "noeod"}, rlseg \in {1, 2, 3, 128} :
          /\ (plan.k.sfilter \notin {"pred", "other"} => pngft = 0 /\ crow = 1) /\ (plan.k.sfilter = "none" => zblock = 7)      \* unused knobs fixed
          /\ (plan.k.sfilter = "other") = (sfx # "")
          /\ (sfx \notin {"a85pred", "lzwpred", "sub1", "sub2", "sub4", "sub16"} /\ plan.k.sfilter = "other" => pngft = 0)
          /\ (sfx \notin {"ahx", "ahxfl", "a85", "rl"} => hexstyle = "upper") /\ (sfx # "rl" => rlseg = 3)
          /\ (sfx = "a85" => hexstyle \in {"upper", "lower"}) /\ (sfx = "rl" => hexstyle \in {"upper", "noeod"})
          /\ LET k == [sfx |-> sfx, hexstyle |-> hexstyle, rlseg |-> rlseg] @@ plan.k @@ [pngft |-> pngft, zblock |-> zblock, crow |-> crow]
             IN plan' = InitPlan(TheDoc, k) /\ todo' = FilePlan(TheDoc, k)
    /\ UNCHANGED <<out, offs, outer, moffs>>

Plan == PlanXref \/ PlanW \/ PlanMisc \/ PlanFilter \/ PlanFilterParams \/ PlanBeyond

Finish == todo = <<>> /\ ~fin /\ fin' = TRUE /\ UNCHANGED <<pvars, di>>

Next == ((FileNext \/ Plan) /\ UNCHANGED <<di, fin>>) \/ Finish

Spec == Init /\ [][Next]_vars

Done == fin

\* what the file defines: Revisions!View of the history (streams with the Length the Producer wrote);
\* in cross-reference-stream files additionally the XRef streams and the object-stream containers
ExpectedVal(v) == IF v.k = "stream" THEN OStream(StreamDictWritten([val |-> v], 0), v.w) ELSE v

BookKeysF == {NameSize, NameType, NameW, NameIndex, NameLength, NamePrev, NameFilter, NameDecodeParms, NameXRefStm}

\* revisions whose comp members live in real object streams
CompRevs == IF UseComp(K) THEN 1..Len(Doc.revs) ELSE K.hybrid
ContainerNumsUpTo(j) == UNION {{Doc.revs[r].comp[c].cnum : c \in 1..Len(Doc.revs[r].comp)} : r \in CompRevs \cap 1..j}
ContainerNums == ContainerNumsUpTo(Len(Doc.revs))

\* numbers that are in use only through the XRefStm stream of hybrid-reference revision r (without that stream itself)
HiddenOfRev(r) ==
    IF r \notin K.hybrid THEN {}
    ELSE (IF K.hycont = "stm" THEN {Doc.revs[r].comp[c].cnum : c \in 1..Len(Doc.revs[r].comp)} ELSE {})
         \cup UNION {{Doc.revs[r].comp[c].members[m].num : m \in 1..Len(Doc.revs[r].comp[c].members)} : c \in 1..Len(Doc.revs[r].comp)}
\* ... that are still the newest definition of their number after revision j
HiddenUpTo(j) ==
    FoldLeft(LAMBDA acc, r : ((acc \ DefNumsOf(Doc.revs[r])) \ FreeNumsOf(Doc.revs[r])) \cup HiddenOfRev(r), {}, [r \in 1..j |-> r])

RoundTrip ==
    Done => LET rd == RdFile(out)
                vw == View(Doc.revs)
            IN
            /\ rd.ok
            /\ rd.version = Doc.version
            /\ rd.junk = K.junk
            /\ rd.nrevs = Len(Doc.revs)
            /\ \A n \in DOMAIN vw :
                  /\ Has(rd.view, n)
                  /\ rd.view[n].gen = vw[n].gen
                  /\ rd.view[n].val = ExpectedVal(vw[n].val)
            /\ (DOMAIN rd.view \ rd.xrefobjs) \ ContainerNums = DOMAIN vw
            /\ MapDel(rd.trailer, BookKeysF) = MapDel(Doc.revs[Len(Doc.revs)].trailer, BookKeysF)
            \* free entries: the deleted numbers with the generation of their next use; the linked list when the Producer chained it
            /\ HistoryOk(Doc.revs)
            /\ Freed(rd) = NextGenUpTo(Doc.revs, Len(Doc.revs))
            /\ (K.flink = "chain" => LET l == FreeList(rd) IN
                                        l.closed /\ l.list = SortSeq(SetToSeq(Deleted(Doc.revs)), LAMBDA a, b : a < b))
            \* hybrid-reference sections: which they are, and which objects only their XRefStm stream makes visible
            /\ HybridRevs(rd) = K.hybrid
            /\ Hidden(rd) = HiddenUpTo(Len(Doc.revs))

-----------------------------------------------------------------------------
(* Impl-shaped layer for the features beyond C02's statement: how lopdf's Reader::read resolves object       *)
(* numbers through the cross-reference sections of such a file (reader.rs: `xref.merge` never replaces an     *)
(* entry, so the order in which sections are merged is the lookup order), with one switch per deviation from  *)
(* 7.5.4 / 7.5.8.4 read off the code:                                                                         *)
(*   "needsprev"    XRefStm is looked at inside the loop over Prev only: never in a file whose newest         *)
(*                  trailer has no Prev                                                                       *)
(*   "afterprev"    the stream XRefStm names is merged after the section Prev names, not before it             *)
(*   "newestonly"   only the newest trailer's XRefStm is used; the XRefStm of older sections never            *)
(*   "freeignored"  `f` entries of tables and type-0 rows of streams are not recorded, so they hide nothing   *)
(* With every switch off the model is the lookup order of the standard and must give Revisions!View           *)
(* (invariant ImplRefines); with all of them on it predicts what lopdf returns for the file and for each of   *)
(* its prefixes; with one switch on it tells which deviation a difference is owed to.                         *)

LopdfDevs == {"needsprev", "afterprev", "newestonly", "freeignored"}
\* the deviations of the tree under test: all four on the pinned tree; the first three were repaired by /repo e756b84
\* (hybrid-reference histories are inside C07's statement and are judged there); free entries are still ignored
LopdfAsIs == {"freeignored"}
OnlyFreeIgnored == {"freeignored"}

PlainNumsOf(r) == {Doc.revs[r].objs[i].num : i \in 1..Len(Doc.revs[r].objs)}
MemberNumsOf(r) == UNION {{Doc.revs[r].comp[c].members[m].num : m \in 1..Len(Doc.revs[r].comp[c].members)} : c \in 1..Len(Doc.revs[r].comp)}
ContNumsOf(r) == {Doc.revs[r].comp[c].cnum : c \in 1..Len(Doc.revs[r].comp)}
GroupOf(r, cnum) == Doc.revs[r].comp[CHOOSE c \in 1..Len(Doc.revs[r].comp) : Doc.revs[r].comp[c].cnum = cnum]
ContOfMember(r, n) == Doc.revs[r].comp[CHOOSE c \in 1..Len(Doc.revs[r].comp) :
                                          \E m \in 1..Len(Doc.revs[r].comp[c].members) : Doc.revs[r].comp[c].members[m].num = n].cnum
HiddenPlainOf(r) ==
    IF r \notin K.hybrid THEN {}
    ELSE (IF K.hycont = "stm" THEN ContNumsOf(r) ELSE {}) \cup (IF K.hyself = "stm" THEN {SelfNum(Doc, r)} ELSE {})

\* one section as a map  number -> [kind ("n" directly stored | "c" in object stream cont | "f" free), rev, cont]
SecEntries(normal, comp, r) ==
    [n \in normal \cup comp |-> IF n \in normal THEN [kind |-> "n", rev |-> r, inobj |-> 0]
                                ELSE [kind |-> "c", rev |-> r, inobj |-> ContOfMember(r, n)]]
\* the table (or the XRef stream of a cross-reference-stream file) of revision r
MainSec(r) ==
    SecEntries(PlainNumsOf(r)
               \cup (IF r \in CompRevs THEN {} ELSE MemberNumsOf(r))
               \cup (IF UseComp(K) THEN ContNumsOf(r) \cup {SelfNum(Doc, r)}
                     ELSE IF r \in K.hybrid THEN (ContNumsOf(r) \cup {SelfNum(Doc, r)}) \ HiddenPlainOf(r) ELSE {}),
               IF UseComp(K) THEN MemberNumsOf(r) ELSE {}, r)
\* the stream its trailer's XRefStm names
StmSec(r) == SecEntries(HiddenPlainOf(r), MemberNumsOf(r), r)
FreeSec(r) == [n \in FreeNumsOf(Doc.revs[r]) |-> [kind |-> "f", rev |-> r, inobj |-> 0]]

\* the sections in the order in which they are searched when the file ends after revision j
SecOrder(j, dev) ==
    LET newestStm == IF j \notin K.hybrid \/ (j = 1 /\ "needsprev" \in dev) THEN <<>> ELSE <<StmSec(j)>>
        olderStm(r) == IF r \notin K.hybrid \/ "newestonly" \in dev THEN <<>> ELSE <<StmSec(r)>>
        fr(r) == IF "freeignored" \in dev THEN <<>> ELSE <<FreeSec(r)>>
        older(r) == <<MainSec(r)>> \o olderStm(r) \o fr(r)
    IN IF j = 1 THEN <<MainSec(1)>> \o newestStm \o fr(1)
       ELSE IF "afterprev" \in dev
            THEN <<MainSec(j)>> \o fr(j) \o older(j - 1) \o newestStm \o Concat([i \in 1..(j - 2) |-> older(j - 1 - i)])
            ELSE <<MainSec(j)>> \o newestStm \o fr(j) \o Concat([i \in 1..(j - 1) |-> older(j - i)])

NoEntry == [kind |-> "none", rev |-> 0, inobj |-> 0]

\* what the loader ends up with: user objects  number -> [gen, val]  and the object streams it holds
LopdfObjs(j, dev) ==
    LET order == SecOrder(j, dev)
        nums == UNION {DOMAIN order[i] : i \in 1..Len(order)}
        sel == [n \in nums |-> order[SelectInSeq(order, LAMBDA sec : n \in DOMAIN sec)][n]]
        entryOf(n) == IF n \in nums THEN sel[n] ELSE NoEntry
        direct == {n \in nums : sel[n].kind = "n"}
        conts == {c \in direct : sel[c].rev \in CompRevs /\ c \in ContNumsOf(sel[c].rev)}
        user == {n \in direct : n \in PlainNumsOf(sel[n].rev) \/ (sel[n].rev \notin CompRevs /\ n \in MemberNumsOf(sel[n].rev))}
        directObjs == [n \in user |-> RevDefs(Doc.revs[sel[n].rev])[n]]
        \* Reader::read: blocks sorted by container number; a member is skipped when its entry names another
        \* container or a directly stored object, and never replaces an object that is already there
        addMembers(acc, c) ==
            FoldLeft(LAMBDA a, m : LET en == entryOf(m.num) IN
                                   IF (en.kind = "c" /\ en.inobj # c) \/ en.kind \in {"n", "f"} \/ m.num \in DOMAIN a THEN a
                                   ELSE MapPut(a, m.num, [gen |-> 0, val |-> m.val]),
                     acc, GroupOf(sel[c].rev, c).members)
    IN [objs |-> FoldLeft(addMembers, directObjs, SortSeq(SetToSeq(conts), LAMBDA a, b : a < b)), conts |-> conts]

SortedSet(S) == SortSeq(SetToSeq(S), LAMBDA a, b : a < b)

\* the difference to the declared view after revision j: numbers (and object streams) the loader lacks, numbers it
\* holds with another definition, numbers it holds although they are deleted, and streams whose indirect Length
\* it resolves differently (their data may or may not come out differently)
Prediction(j, dev) ==
    LET vw == ViewUpTo(Doc.revs, j)
        P == LopdfObjs(j, dev)
        wrong == {n \in DOMAIN P.objs \cap DOMAIN vw : P.objs[n] # vw[n]}
        lenref(n) == IF P.objs[n].val.k = "stream" /\ Has(P.objs[n].val.v, NameLength) /\ P.objs[n].val.v[NameLength].k = "ref"
                     THEN {P.objs[n].val.v[NameLength].v} ELSE {}
    IN [missing |-> (DOMAIN vw \ DOMAIN P.objs) \cup (ContainerNumsUpTo(j) \ P.conts),
        stale |-> wrong,
        extra |-> DOMAIN P.objs \ DOMAIN vw,
        maybe |-> {n \in DOMAIN P.objs : \E m \in lenref(n) : m \notin DOMAIN P.objs \/ m \notin DOMAIN vw \/ P.objs[m] # vw[m]}]
NoDifference(p) == p.missing = {} /\ p.stale = {} /\ p.extra = {}

\* the lookup order of the standard, written section by section like the loader's, defines the same objects as Revisions!View
ImplRefines ==
    (Done /\ Beyond # "off") => \A j \in 1..Len(Doc.revs) : NoDifference(Prediction(j, {}))

PredictionJson(j) ==
    LET p == Prediction(j, LopdfAsIs)
    IN [missing |-> SortedSet(p.missing), stale |-> SortedSet(p.stale), extra |-> SortedSet(p.extra), maybe |-> SortedSet(p.maybe),
        owedto |-> {d \in LopdfAsIs : ~NoDifference(Prediction(j, {d}))},
        deleted |-> SortedSet(DeletedUpTo(Doc.revs, j)), hidden |-> SortedSet(HiddenUpTo(j))]

EmitInv ==
    (Emit /\ Done) => PrintT(<<"REPLAY", ToJson([doc |-> di, bytes |-> out, xref |-> K.xref, w |-> K.w, order |-> K.order,
                                                  junk |-> K.junk, bin |-> K.bin, sfilter |-> K.sfilter, sfx |-> K.sfx, pngft |-> K.pngft, ghost |-> K.ghost, selfgap |-> K.selfgap, nrevs |-> Len(Doc.revs), cuts |-> plan.cuts,
                                                  ncomp |-> IF CompRevs # {} THEN Cardinality(ContainerNums) ELSE 0,
                                                  redefined |-> Cardinality(Redefined(Doc.revs))]
                                                 @@ (IF Beyond = "off" THEN <<>>
                                                     ELSE [beyond |-> Beyond, hybrid |-> SortedSet(K.hybrid), hycont |-> K.hycont, hyself |-> K.hyself,
                                                           hymark |-> K.hymark, flink |-> K.flink,
                                                           nfree |-> Cardinality(UNION {FreeNumsOf(Doc.revs[r]) : r \in 1..Len(Doc.revs)}),
                                                           reused |-> Cardinality({n \in DOMAIN View(Doc.revs) : \E r \in 1..Len(Doc.revs) : n \in FreeNumsOf(Doc.revs[r])}),
                                                           pred |-> [j \in 1..Len(Doc.revs) |-> PredictionJson(j)]]))>>)
=============================================================================
