------------------------------ MODULE Gen_File ------------------------------
(* spec -> impl generator for C02 (and the Producer's consistency check at file level): abstract *)
(* documents are read from IOEnv.DOCS (ndjson, file-side values), every lexical and structural   *)
(* knob is chosen nondeterministically, the Producer lays the file out, the StrictReader must     *)
(* read it back as the document (RoundTrip), and each complete file is printed for lopdf to load. *)
EXTENDS SyntaxProducer, TLC, Json, IOUtils

Docs == ndJsonDeserialize(IOEnv.DOCS)

CONSTANT Emit

VARIABLES di,     \* index of the document being produced
          fin     \* set by the single-successor Finish step (one REPLAY line per behaviour)

vars == <<pvars, di, fin>>

FileDoc(j) ==
    [version |-> j.version, binmark |-> j.binmark, trailer |-> DictOfPairs(j.trailer),
     objs |-> [i \in 1..Len(j.objects) |-> [num |-> j.objects[i][1], gen |-> j.objects[i][2], val |-> ObjOf(j.objects[i][3])]]]

JunkChoices == { <<>>, <<106, 117, 110, 107, 10>>, <<0, 255, 37, 80, 68, 13, 10, 32>> }
WChoices == { <<1, 2, 1>>, <<1, 4, 2>>, <<1, 3, 0>>, <<0, 2, 2>>, <<2, 8, 2>> }

MaxGen(doc) == FoldLeft(LAMBDA acc, o : IF o.gen > acc THEN o.gen ELSE acc, 0, doc.objs)

Init ==
    /\ di \in 1..Len(Docs)
    /\ \E order \in {"asc", "desc"}, xref \in {"table1", "tableN", "stream1", "streamN"}, w \in WChoices,
          junk \in JunkChoices, bin \in BOOLEAN, slack \in {0, 2}, noindex \in BOOLEAN :
          LET doc == FileDoc(Docs[di])
              k == [order |-> order, xref |-> xref, w |-> w, junk |-> Len(junk), junkbytes |-> junk, bin |-> bin,
                    slack |-> slack, noindex |-> noindex]
          IN \* generation numbers must fit field 3 of the chosen W
             /\ (w[3] = 0 => MaxGen(doc) = 0) /\ (w[3] = 1 => MaxGen(doc) <= 255)
             /\ (w[1] = 0 => xref # "stream1")
             /\ (xref \in {"table1", "tableN"} => w = <<1, 2, 1>> /\ ~noindex)       \* W irrelevant for tables
             /\ plan = [doc |-> doc, k |-> k, xrefoff |-> 0]
             /\ todo = FilePlan(doc, k)
    /\ out = <<>> /\ offs = EmptyMap /\ fin = FALSE

Finish == todo = <<>> /\ ~fin /\ fin' = TRUE /\ UNCHANGED <<pvars, di>>

Next == (FileNext /\ UNCHANGED <<di, fin>>) \/ Finish

Spec == Init /\ [][Next]_vars

Done == fin

\* what the file defines: the document's objects (streams with the Length the Producer wrote), plus,
\* in cross-reference-stream files, the XRef stream object itself
Expected(o) == IF o.val.k = "stream" THEN OStream(StreamDictWritten(o, 0), o.val.w) ELSE o.val

BookKeysF == {NameSize, NameType, NameW, NameIndex, NameLength}

RoundTrip ==
    Done => LET rd == RdFile(out) IN
            /\ rd.ok
            /\ rd.version = Doc.version
            /\ rd.junk = K.junk
            /\ \A i \in 1..Len(Doc.objs) :
                  /\ Has(rd.view, Doc.objs[i].num)
                  /\ rd.view[Doc.objs[i].num].gen = Doc.objs[i].gen
                  /\ rd.view[Doc.objs[i].num].val = Expected(Doc.objs[i])
            /\ DOMAIN rd.view \ rd.xrefobjs = Nums
            /\ MapDel(rd.trailer, BookKeysF) = MapDel(Doc.trailer, BookKeysF)

EmitInv ==
    (Emit /\ Done) => PrintT(<<"REPLAY", ToJson([doc |-> di, bytes |-> out, xref |-> K.xref, w |-> K.w, order |-> K.order,
                                                  junk |-> K.junk, bin |-> K.bin])>>)
=============================================================================
