SPECIFICATION Spec
CONSTANTS
  Thorough = FALSE
  Dev_h41 = FALSE
  Dev_gmt = FALSE
  Dev_y10k = FALSE
  Emit = TRUE
  Tiny = FALSE
INVARIANTS CalendarOk RoundTrip FmtRefines FmtRefinesDone ParseRefines FunctionForm Terminates EmitInv
CHECK_DEADLOCK FALSE
