--------------------------- MODULE Trace_SaveSink ---------------------------
(* impl -> spec: the log written by harness/src/bin/c19.rs record.                                *)
(*   ref     one configuration (document x xref format x plain/incremental): W = lengths of the    *)
(*           write_all buffers as a healthy sink saw them (the writer's program), n = length of    *)
(*           the complete output, cross-reference entries checked against the bytes                *)
(*   run     one save of a fresh clone through the instrumented sink: skip / suf = number of       *)
(*           leading / trailing calls identical to the reference's (accepted in full), tail = the  *)
(*           inner write(len) -> res calls in between, result, dlen, dpre (delivered is a prefix   *)
(*           of the reference: byte comparison done by the harness), later = the later healthy save *)
(*   devfull Document::save to a full device                                                      *)
(*   twice   two saves of one document object to two sinks with different chunkings               *)
(*   limit   a document whose highest object number is 2^32 - 2, saved in a supervised worker      *)
(*   skip    configuration whose reference could not be produced (outside the domain)              *)
(* The state carried along the trace is the current configuration (ctx).  For every run the sink's *)
(* answers are bound from the log (Accept(k) / Interrupted / Ok0 / Err), the writer's position is  *)
(* inferred by running the write_all loop model (LRun) from the reference program, and the         *)
(* declarative layer (Verdict) judges the observation.  Disagreement with the loop model that      *)
(* still satisfies C19 is "ok-drift".  Verdicts starting with "tool:" mean the log itself is       *)
(* inconsistent (harness trouble, never a finding).                                                *)
EXTENDS SaveSink, Json, IOUtils, TLC

Recs == ndJsonDeserialize(IOEnv.TRACE)

VARIABLES l, ctx, tally      \* tally: number of records judged ok-failed / ok-chunk / ok-intr (not printed one by one)

Quiet == {"ok-failed", "ok-chunk", "ok-intr"}

NoCtx == [id |-> 0, W |-> <<>>, P |-> <<0>>, n |-> 0]

JudgeRef(r) ==
    IF Sum(r.W) # r.n \/ \E k \in 1..Len(r.W) : r.W[k] <= 0 THEN "tool:reference-log"
    ELSE IF r.load # "ok" THEN "tool:reference-load"
    ELSE IF r.xbad > 0 \/ ~r.sx THEN "offsets-reference"
    ELSE "ok-ref"

CtxOf(r) == [id |-> r.cfg, W |-> r.W, P |-> PrefixSums(r.W), n |-> r.n]

\* r.skip leading and r.suf trailing calls of the log are the reference program's own (accepted in full; the
\* harness compared them), r.tail is what lies between.  The loop model is run over the tail from the
\* position after the skipped calls and must arrive exactly where the trailing calls take over.
JudgeRun(c, r) ==
    IF r.cfg # c.id \/ r.skip + r.suf > Len(c.W) THEN "tool:context"
    ELSE
    LET nW   == Len(c.W)
        s    == LRun(c.W, r.skip, c.P[r.skip + 1], r.tail)
        sufb == c.P[nW + 1] - c.P[nW - r.suf + 1]              \* bytes accepted by the trailing calls
        pos  == IF s.stopped THEN 0                             \* index of the buffer the next call starts
                ELSE IF s.rest = 0 THEN NextBuf(c.W, s.i)
                ELSE IF s.i <= nW /\ s.rest = c.W[s.i] THEN s.i ELSE 0
        joins == r.suf = 0 \/ pos = nW - r.suf + 1
        complete == IF r.suf = 0 THEN LComplete(s) ELSE joins
        o == [failed |-> s.failed, nintr |-> s.nintr, result |-> r.result, dlen |-> r.dlen,
              isprefix |-> r.dpre, n |-> c.n]
        v == Verdict(o, r.later)
    IN  IF s.bad \/ s.dlen + sufb # r.dlen \/ r.skip + Len(r.tail) + r.suf # r.ncalls THEN "tool:log-inconsistent"
        ELSE IF v # "ok" THEN v
        ELSE IF s.drift \/ ~joins \/ (r.result = "ok" /\ ~complete) \/ (r.result = "err" /\ ~s.stopped) \/ r.zcalls > 0
             THEN "ok-drift"
        ELSE IF s.failed THEN "ok-failed" ELSE IF s.nintr > 0 THEN "ok-intr" ELSE "ok-chunk"

JudgeDevFull(r) ==
    IF r.result = "err" THEN "ok-devfull" ELSE IF r.result = "panic" THEN "panic" ELSE "err-not-surfaced"

JudgeTwice(c, r) ==
    IF r.cfg # c.id THEN "tool:context"
    ELSE LET v == TwiceVerdict(r) IN IF v = "ok" THEN "ok-twice" ELSE v

JudgeLimit(r) == LET v == LimitVerdict(r) IN
    IF v # "ok" THEN v ELSE IF r.ref = "err" THEN "ok-limit-refused" ELSE "ok-limit-written"

Judge(c, r) ==
    CASE r.ev = "ref" -> JudgeRef(r)
      [] r.ev = "twice" -> JudgeTwice(c, r)
      [] r.ev = "limit" -> JudgeLimit(r)
      [] r.ev = "run" -> JudgeRun(c, r)
      [] r.ev = "devfull" -> JudgeDevFull(r)
      [] r.ev = "skip" -> "ok-skip"
      [] OTHER -> "tool:unknown-event"

Init == l = 1 /\ ctx = NoCtx /\ tally = [v \in Quiet |-> 0]
Next == /\ l <= Len(Recs)
        /\ LET r == Recs[l] v == Judge(ctx, r) IN
           /\ IF v \in Quiet THEN tally' = [tally EXCEPT ![v] = @ + 1]
              ELSE PrintT(<<"VERDICT", ToJson([i |-> l, v |-> v])>>) /\ tally' = tally
           /\ ctx' = IF r.ev = "ref" THEN CtxOf(r) ELSE ctx
           /\ IF l < Len(Recs) THEN TRUE ELSE PrintT(<<"TALLY", ToJson(tally')>>)
        /\ l' = l + 1
Spec == Init /\ [][Next]_<<l, ctx, tally>>
Consumed == TLCGet("stats").diameter = Len(Recs) + 1
=============================================================================
