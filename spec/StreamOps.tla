------------------------------ MODULE StreamOps ------------------------------
(***************************************************************************)
(* Content-changing operations on a stream object (property C09):          *)
(*   set_content, set_plain_content, compress, decompress                   *)
(*   and Document::compress / Document::decompress over all streams.        *)
(*                                                                          *)
(* A stream state is the projection pi(Stream) the harness logs:            *)
(*   [filters |-> Seq(name),                                                *)
(*    ff      |-> how the Filter entry is written: "none" (no entry) |       *)
(*                "name" | "array" | "null" | "other"; filters = <<>> with    *)
(*                ff = "array" is /Filter [], a chain of zero filters,        *)
(*    form    |-> "none"|"dict"|"array"|"other",                            *)
(*    ind     |-> which entry is written as an indirect reference ("none" |  *)
(*                "filter" | "filter-elem" | "parms" | "parms-elem" |         *)
(*                "value"); filters / form / parms are the *resolved* ones,   *)
(*    abs     |-> [filters, fform, form, parms] of the same dictionary with   *)
(*                the entries written as references taken away (ghost, only   *)
(*                to name the class of a deviation),                         *)
(*    parms   |-> Seq(parameter record)   (the DecodeParms entry as written: *)
(*                one record for a dictionary, one per element of an array), *)
(*    length  |-> the Length entry (-1 = missing), content |-> Seq(Byte),    *)
(*    allows  |-> allows_compression,                                       *)
(*    orc     |-> oracle for real deflate data in the first stage (ghost)]  *)
(*                                                                          *)
(* Declarative layer (decides): LengthOK, View (what a conforming reader     *)
(* obtains from the stream), SetContentOK, SetPlainOK, CompressOK,           *)
(* DecompressOK, DecodeAgrees.                                              *)
(* Impl-shaped layer (explains): ImplSetContent, ImplSetPlain, ImplCompress, *)
(* ImplDecompress transcribed from src/object.rs and src/processor.rs.       *)
(***************************************************************************)
EXTENDS Codecs

Known == {Flate, Lzw, A85, AHx, RL}

\* parameter record of stage i (ISO 32000-1 Table 5): a dictionary belongs to the only filter,
\* an array is parallel to the filters; a missing / null entry means defaults
ParmFor(s, i) ==
    IF s.form = "dict" /\ i = 1 /\ Len(s.parms) = 1 THEN s.parms[1]
    ELSE IF s.form = "array" /\ i <= Len(s.parms) THEN s.parms[i]
    ELSE DefaultParms

Chain(s) == [i \in 1..Len(s.filters) |-> Stage(s.filters[i], ParmFor(s, i))]

LegalParms(p) ==
    ~p.present \/ (p.pred \in {1, 2} \cup 10..15 /\ p.colors >= 1 /\ p.bpc \in {1, 2, 4, 8, 16} /\ p.columns >= 1 /\ p.early \in {0, 1})

\* the domain of the decode clause of C09
InDomain(s) ==
    /\ s.filters # <<>>
    /\ \A i \in 1..Len(s.filters) : s.filters[i] \in Known /\ LegalParms(ParmFor(s, i))
    /\ \/ s.form = "none"
       \/ s.form = "dict" /\ Len(s.filters) = 1
       \/ s.form = "array" /\ Len(s.parms) = Len(s.filters)

-----------------------------------------------------------------------------
(* Declarative layer *)

LengthOK(s) == s.length = Len(s.content)

\* what a conforming reader obtains: the content itself without filters, else the decoded data
View(s) == IF s.filters = <<>> THEN Good(s.content) ELSE DecodeO(s.content, Chain(s), s.orc)

Decodable(s) == s.filters = <<>> \/ (InDomain(s) /\ View(s).ok)

SetContentOK(pre, b, post) == post.content = b /\ LengthOK(post)

SetPlainOK(pre, b, post) == post.content = b /\ LengthOK(post) /\ View(post) = Good(b)

\* "compressing a stream and decoding it again returns the original bytes and never makes the
\*  stream longer"
CompressOK(pre, post) ==
    /\ LengthOK(post)
    /\ Len(post.content) <= Len(pre.content)
    /\ Decodable(pre) => View(post) = View(pre)

\* decompress replaces the content by the decoded data ("decodes as specified")
DecompressOK(pre, post) ==
    /\ LengthOK(post)
    /\ Decodable(pre) => View(post) = View(pre)
    /\ (pre.filters # <<>> /\ Decodable(pre)) => ((post.filters = <<>> /\ post.content = View(pre).data)
                                                    \/ (pre.ind # "none" /\ post = pre))         \* refused: nothing touched

\* Document level.  A call that holds the Document (Document::decompress, Document::get_page_content, ...) has every
\* referenced object at hand: the references are resolved, then the Stream contract applies - refusing is no longer
\* acceptable there, and an undecoded stream handed out as content is a wrong decode.
Resolved(s) == [s EXCEPT !.ind = "none"]
DocDecompressOK(pre, post) == DecompressOK(Resolved(pre), post)
\* a logged result [ok, data] of a Document-level read of the stream's data (get_page_content: one separator byte
\* may follow): Ok means the decoded data
DocReadAgrees(s, r) ==
    (s.filters # <<>> /\ Decodable(s) /\ r.ok) => (r.data = View(s).data \/ (r.data # <<>> /\ SubSeq(r.data, 1, Len(r.data) - 1) = View(s).data))

\* a logged decode result [ok, data] of the stream (decompressed_content / get_plain_content)
\* (for a chain of zero filters decompressed_content has a result only in the spelling /Filter []; it is
\*  the content: ISO 32000-1 Table 5 "an array of zero, one or several names")
\* (an entry written as an indirect reference cannot be resolved by a method of Stream - there is no Document:
\*  such a call may refuse; what it must not do is guess, i.e. answer Ok with other bytes)
DecodeAgrees(s, r) ==
    /\ (s.filters # <<>> /\ Decodable(s)) => IF s.ind = "none" THEN r.ok /\ r.data = View(s).data
                                               ELSE r.ok => r.data = View(s).data
    /\ (s.filters = <<>> /\ s.ff = "array") => (r.ok /\ r.data = s.content)

-----------------------------------------------------------------------------
(* Impl-shaped layer *)

NoAbs == [filters |-> <<>>, fform |-> "none", form |-> "none", parms |-> <<>>]
SelfAbs(s) == [filters |-> s.filters, fform |-> s.ff, form |-> s.form, parms |-> s.parms]
Plain(s) == [s EXCEPT !.filters = <<>>, !.ff = "none", !.form = "none", !.parms = <<>>, !.ind = "none", !.abs = NoAbs]
\* the stream as it looks when the entries written as references are treated as absent
AbsOf(s) == [s EXCEPT !.filters = s.abs.filters, !.ff = s.abs.fform, !.form = s.abs.form, !.parms = s.abs.parms, !.ind = "none"]

ImplSetContent(s, b) == [s EXCEPT !.content = b, !.length = Len(b), !.orc = NoOracle]

ImplSetPlain(s, b) == [Plain(s) EXCEPT !.content = b, !.length = Len(b), !.orc = NoOracle]

\* c = what the deflate compressor returned for s.content (its inflation is s.content: orc).
\* A DecodeParms entry left over on a filter-less stream is dropped when the filter is added
\* (fix: e6ae879); devStale = TRUE re-creates the repaired defect compress.stale-decodeparms (entry kept).
ImplCompress(s, c, devStale) ==
    IF s.ff = "none" /\ Len(c) + 19 < Len(s.content)          \* only when the dictionary has no Filter entry at all
    THEN LET t == IF devStale THEN s ELSE [s EXCEPT !.form = "none", !.parms = <<>>]
             u == [t EXCEPT !.filters = <<Flate>>, !.ff = "name", !.content = c, !.length = Len(c), !.orc = [has |-> TRUE, data |-> s.content]]
         IN IF devStale THEN u ELSE [u EXCEPT !.ind = "none", !.abs = SelfAbs(u)]
    ELSE s

ImplView(s, devAvg, devArr, devNul) == ImplDecodeO(s.content, Chain(s), s.form, s.orc, devAvg, devArr, devNul)

\* devEmpty (open finding filter.empty-array): for /Filter [] the loop over the filters never runs and the
\* *empty* output buffer becomes the content; repaired = the content is kept
\* devInd (open findings indirect.*): an entry written as a reference is treated as absent - the stream is decoded
\* with default parameters and overwritten; repaired = the call is refused
ImplDecompress(s, devAvg, devArr, devNul, devEmpty, devInd) ==
    LET d == ImplView(s, devAvg, devArr, devNul)
    IN IF s.ind # "none"
       THEN (IF ~devInd \/ s.abs.filters = <<>> THEN s
             ELSE LET a == AbsOf(s) da == ImplView(a, devAvg, devArr, devNul)
                  IN IF (\A i \in 1..Len(a.filters) : a.filters[i] \in Known) /\ da.ok
                     THEN [Plain(s) EXCEPT !.content = da.data, !.length = Len(da.data), !.orc = NoOracle] ELSE s)
       ELSE IF s.filters = <<>> /\ s.ff = "array"
       THEN LET c == IF devEmpty THEN <<>> ELSE s.content
            IN [Plain(s) EXCEPT !.content = c, !.length = Len(c), !.orc = NoOracle]
       ELSE IF s.filters # <<>> /\ (\A i \in 1..Len(s.filters) : s.filters[i] \in Known) /\ d.ok
       THEN [Plain(s) EXCEPT !.content = d.data, !.length = Len(d.data), !.orc = NoOracle]
       ELSE s

\* the same with the thread's scratch state (Codecs, "Thread history"); returns [s, rows]
ImplViewT(s, rows, devRows) == ImplDecodeT(s.content, Chain(s), s.form, s.orc, rows, devRows)
ImplDecompressT(s, rows, devRows) ==
    IF s.ind # "none" THEN [s |-> s, rows |-> rows]          \* refused before anything is decoded
    ELSE IF s.filters = <<>>
    THEN [s |-> IF s.ff = "array" THEN [Plain(s) EXCEPT !.length = Len(s.content), !.orc = NoOracle] ELSE s, rows |-> rows]
    ELSE LET d == ImplViewT(s, rows, devRows)
         IN [s |-> IF (\A i \in 1..Len(s.filters) : s.filters[i] \in Known) /\ d.ok
                   THEN [Plain(s) EXCEPT !.content = d.data, !.length = Len(d.data), !.orc = NoOracle] ELSE s,
             rows |-> d.rows]

\* Document::compress honours allows_compression, Stream::compress does not
ImplDocCompress(ss, cs, devStale) == [i \in 1..Len(ss) |-> IF ss[i].allows THEN ImplCompress(ss[i], cs[i], devStale) ELSE ss[i]]
\* Document::decompress resolves the references first (devDocInd = TRUE, open finding doc-indirect.*: it does not -
\* Stream::decompress refuses, the error is discarded and the stream stays encoded)
ImplDocDecompress(ss, devAvg, devArr, devNul, devEmpty, devInd, devDocInd) ==
    [i \in 1..Len(ss) |-> ImplDecompress(IF devDocInd THEN ss[i] ELSE Resolved(ss[i]), devAvg, devArr, devNul, devEmpty, devInd)]

-----------------------------------------------------------------------------
(* Classes of input on which the code deviated before the fix: commits (narrow signatures of  *)
(* the findings png.avg, decodeparms.array, compress.stale-decodeparms, DESIGN 2.9; all        *)
(* repaired, none is a known finding any more).  They only name a regression: a call that      *)
(* breaks the contract on an input of class k exactly as the old defect did gets the verdict k  *)
(* (reported as a VIOLATION with that signature).  s is the state the operation (or query)      *)
(* starts from.                                                                                *)

\* data handed to the predictor of the first stage
PredictorInput(s) ==
    IF s.filters[1] = Flate THEN Inflate(s.content, s.orc) ELSE LzwDecode(s.content, ParmFor(s, 1).early)

HasAvgRow(z, L) == \E r \in 1..(Len(z) \div (L + 1)) : z[(r - 1) * (L + 1) + 1] = 3

\* a state may belong to several classes
KnownClasses(s, op) ==
    (IF op \in {"compress", "doc_compress"} /\ s.filters = <<>> /\ s.form # "none" THEN {"compress.stale-decodeparms"} ELSE {})
    \cup (IF s.filters # <<>> /\ s.form = "array" /\ \E i \in 1..Min2(Len(s.parms), Len(s.filters)) :
                s.parms[i].present /\ s.filters[i] \in {Flate, Lzw}
                /\ (UsesPng(s.parms[i]) \/ (s.filters[i] = Lzw /\ s.parms[i].early = 0))
          THEN {"decodeparms.array"} ELSE {})
    \cup (IF s.filters # <<>> /\ s.filters[1] \in {Flate, Lzw} /\ InDomain(s)
             /\ UsesPng(ParmFor(s, 1)) /\ RowLen(ParmFor(s, 1)) > Bpp(ParmFor(s, 1))
             /\ PredictorInput(s).ok /\ HasAvgRow(PredictorInput(s).data, RowLen(ParmFor(s, 1)))
          THEN {"png.avg"} ELSE {})
    \cup (IF s.filters = <<>> /\ s.ff = "array" /\ s.content # <<>> THEN {"filter.empty-array"} ELSE {})
    \cup (IF s.ind # "none" THEN {IF op \in {"doc_decompress", "doc_read"} THEN "doc-indirect." \o s.ind ELSE "indirect." \o s.ind} ELSE {})

\* the switches that reproduce class k in the impl-shaped layer
IndirectClasses == {"indirect.filter", "indirect.filter-elem", "indirect.parms", "indirect.parms-elem", "indirect.value"}
ImplViewFor(s, k) == IF k = "filter.empty-array" THEN Good(<<>>)
                     ELSE IF k \in IndirectClasses THEN View(AbsOf(s)) ELSE ImplView(s, k = "png.avg", k = "decodeparms.array", FALSE)

-----------------------------------------------------------------------------
(* Summarised contents.  Losslessness and decode correctness must not depend on the size or   *)
(* the compressibility of the data (64 KiB of one value deflates about 1000:1).  For large      *)
(* contents the harness logs, instead of the bytes, a summary                                   *)
(*     [len, dig (SHA-256), runs (the first runs as <<byte, count>>), nruns]                    *)
(* and the declarative contract is stated on summaries: two byte strings are the same iff       *)
(* their summaries are.  A summarised stream state is                                            *)
(*     [filters, form, length, c (summary of the content), allows,                              *)
(*      orc |-> [has, s]  what independent decoders (Python zlib / base64.a85decode, run by the  *)
(*                        check script on the logged encoded bytes) obtain from the content]     *)

SameBytes(a, b) == a.len = b.len /\ a.dig = b.dig /\ a.runs = b.runs /\ a.nruns = b.nruns

LengthOKS(s) == s.length = s.c.len

\* only filters without parameters occur in summarised states
DecodableS(s) == s.filters = <<>> \/ (s.form = "none" /\ (\A i \in 1..Len(s.filters) : s.filters[i] \in Known) /\ s.orc.has)

\* summary of what a conforming reader obtains (meaningful when DecodableS)
ViewS(s) == IF s.filters = <<>> THEN s.c ELSE s.orc.s

SetPlainOKS(pre, b, post) == SameBytes(post.c, b) /\ LengthOKS(post) /\ post.filters = <<>>

CompressOKS(pre, post) ==
    /\ LengthOKS(post)
    /\ post.c.len <= pre.c.len
    /\ DecodableS(pre) => (DecodableS(post) /\ SameBytes(ViewS(post), ViewS(pre)))

DecompressOKS(pre, post) ==
    /\ LengthOKS(post)
    /\ DecodableS(pre) => (DecodableS(post) /\ SameBytes(ViewS(post), ViewS(pre)))
    /\ (pre.filters # <<>> /\ DecodableS(pre)) => (post.filters = <<>> /\ SameBytes(post.c, ViewS(pre)))

\* a logged decode result [ok, s] of the stream (decompressed_content / get_plain_content)
DecodeAgreesS(s, r) == (s.filters # <<>> /\ DecodableS(s)) => (r.ok /\ SameBytes(r.s, ViewS(s)))

\* impl-shaped: the filter is added iff the compressed form is more than 19 bytes shorter
ImplCompressAddsS(pre, post) == pre.filters = <<>> /\ post.c.len + 19 < pre.c.len
=============================================================================
