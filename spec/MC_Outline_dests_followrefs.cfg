SPECIFICATION Spec
CONSTANTS
  MaxB = 2
  NPs = {1}
  MaxPost = 0
  Reserve = TRUE
  Titles <- TitleClasses
  Stack = 64
  WorkList = FALSE
  DestSpellings = {"none", "tree-direct", "kids-ref", "names-ref", "d-ref", "value-array-ref", "old-direct", "old-names-key", "old-refs"}
  FollowRefs = TRUE
  IdLimits = {1000000}
  CheckedIds = FALSE
  Emit = TRUE
INVARIANTS RefinesForest RefinesAdjust RefinesFresh RefinesLinks RefinesCarries RefinesToc Verdict NoAbort RefusedOk EmitInv
PROPERTIES Reserved
CHECK_DEADLOCK FALSE
