------------------------------ MODULE Renumber ------------------------------
(***************************************************************************)
(* Renumbering objects (property C10).                                      *)
(*                                                                          *)
(* Values are the projection pi of harness/src/wire.rs, as TLC's Json       *)
(* module reads it: an object is a record with a kind field k               *)
(*    [k |-> "ref", n |-> 3, g |-> 0]            reference                  *)
(*    [k |-> "arr", v |-> <<obj, ...>>]                                     *)
(*    [k |-> "dict", v |-> << <<keybytes, obj>>, ... >>]   sorted by key    *)
(*    [k |-> "stream", d |-> <<pairs>>, c |-> bytes]                        *)
(*    anything else ("int","name","str","bool","null","real") is a leaf.    *)
(* A document is                                                            *)
(*    [objs |-> [Id -> obj], trailer |-> pairs, max_id |-> Nat,             *)
(*     bms |-> Seq(Id)  (targets of ALL entries of bookmark_table, in id    *)
(*                       order, whatever the shape of the outline forest),   *)
(*     pages |-> Seq(Id) (the observed page sequence)]    Id = <<n, g>>.    *)
(*                                                                          *)
(* Two layers (DESIGN 2.9):                                                 *)
(*  - declarative: Acceptable(before, after, start) -- the statement of C10 *)
(*    with the witness renaming computed by the lock-step traversal Match.  *)
(*    Fails(...) is the same predicate clause by clause (for signatures).   *)
(*    Only this layer decides.                                              *)
(*  - impl-shaped: renumber_objects_with of src/processor.rs transcribed    *)
(*    (page-order pass, dense pass, traverse_objects, bookmark table        *)
(*    renamed through the whole map).  Step operators are used one per      *)
(*    action by RenumberSys and folded by ImplRenumber.  Two switches        *)
(*    re-create the deviations that were confirmed and then repaired in     *)
(*    lopdf (fix: 15b16d5; c3b4cbb, 056314e):                               *)
(*      devChain = TRUE : bookmark targets are rewritten pair by pair       *)
(*      devDang  = TRUE : a reference to a non-existent object is left      *)
(*                        alone (and may be captured by the new numbering)  *)
(*    and three switches transcribe deviations that are present at HEAD     *)
(*    (known findings pageorder.dupkids, pageorder.numclash,                *)
(*    bookmark.dangling.capture):                                           *)
(*      dup      = TRUE : a page listed twice takes part in the page-order  *)
(*                        pass twice (and is re-keyed over another page)    *)
(*      clash    = TRUE : the page-order pass re-keys a page to <<number of *)
(*                        another page, own generation>>                    *)
(*      bmdang   = TRUE : a bookmark target naming no object is left alone  *)
(*    (record Dev; CodeDev = the code as it is, NoDev = all repaired).      *)
(***************************************************************************)
EXTENDS Integers, Sequences, FiniteSets, TLC, SequencesExt

PT == INSTANCE PageTree      \* Dfs / ImplPages (PageTree!Acceptable would clash with ours)

-----------------------------------------------------------------------------
(* Values *)

IdOf(o)   == <<o.n, o.g>>
MkRef(id) == [k |-> "ref", n |-> id[1], g |-> id[2]]
NoId      == <<0, 70000>>                 \* never an object id (generations are < 65536)
Tomb      == <<0, 65535>>                 \* head of the free list: where renumber sends dangling references (DANGLING in processor.rs)
None      == [k |-> "none"]

IdLess(a, b) == a[1] < b[1] \/ (a[1] = b[1] /\ a[2] < b[2])

Ids(d)        == DOMAIN d.objs
TrailerObj(d) == [k |-> "dict", v |-> d.trailer]

MinOf(a, b) == IF a < b THEN a ELSE b

DictGet(pairs, key) ==
    IF \E i \in 1..Len(pairs) : pairs[i][1] = key
    THEN pairs[CHOOSE i \in 1..Len(pairs) : pairs[i][1] = key][2]
    ELSE None

\* byte strings of the names the page tree needs
KType    == <<84, 121, 112, 101>>
KKids    == <<75, 105, 100, 115>>
KPages   == <<80, 97, 103, 101, 115>>
KPage    == <<80, 97, 103, 101>>
KRoot    == <<82, 111, 111, 116>>
KCatalog == <<67, 97, 116, 97, 108, 111, 103>>
KParent  == <<80, 97, 114, 101, 110, 116>>
KCount   == <<67, 111, 117, 110, 116>>
KInfo    == <<73, 110, 102, 111>>
KA       == <<65>>
KB       == <<66>>

\* same value up to the targets of references
RECURSIVE ShapeEq(_, _), PairsShapeEq(_, _)
ShapeEq(x, y) ==
    /\ x.k = y.k
    /\ CASE x.k = "ref"    -> TRUE
         [] x.k = "arr"    -> Len(x.v) = Len(y.v) /\ \A i \in 1..Len(x.v) : ShapeEq(x.v[i], y.v[i])
         [] x.k = "dict"   -> PairsShapeEq(x.v, y.v)
         [] x.k = "stream" -> x.c = y.c /\ PairsShapeEq(x.d, y.d)
         [] OTHER          -> x = y
PairsShapeEq(p, q) ==
    /\ Len(p) = Len(q)
    /\ \A i \in 1..Len(p) : p[i][1] = q[i][1] /\ ShapeEq(p[i][2], q[i][2])

\* pairs <<id in x, id in y>> of references standing at corresponding positions
RECURSIVE RefPairs(_, _), PairsRefPairs(_, _)
RefPairs(x, y) ==
    IF x.k # y.k THEN {}
    ELSE CASE x.k = "ref"    -> {<<IdOf(x), IdOf(y)>>}
           [] x.k = "arr"    -> UNION {RefPairs(x.v[i], y.v[i]) : i \in 1..MinOf(Len(x.v), Len(y.v))}
           [] x.k = "dict"   -> PairsRefPairs(x.v, y.v)
           [] x.k = "stream" -> PairsRefPairs(x.d, y.d)
           [] OTHER          -> {}
PairsRefPairs(p, q) == UNION {RefPairs(p[i][2], q[i][2]) : i \in 1..MinOf(Len(p), Len(q))}

RECURSIVE RefsOf(_), PairsRefsOf(_)
RefsOf(x) ==
    CASE x.k = "ref"    -> {IdOf(x)}
      [] x.k = "arr"    -> UNION {RefsOf(x.v[i]) : i \in 1..Len(x.v)}
      [] x.k = "dict"   -> PairsRefsOf(x.v)
      [] x.k = "stream" -> PairsRefsOf(x.d)
      [] OTHER          -> {}
PairsRefsOf(p) == UNION {RefsOf(p[i][2]) : i \in 1..Len(p)}

-----------------------------------------------------------------------------
(* Page tree of a document (shared with C12 through PageTree) *)

ObjTyp(o) ==
    IF o.k # "dict" THEN "NonDict"
    ELSE LET t == DictGet(o.v, KType) IN
         IF t.k # "name" THEN "NoType"
         ELSE IF t.v = KPage THEN "Page" ELSE IF t.v = KPages THEN "Pages" ELSE "Other"

ObjKids(o) ==
    IF o.k # "dict" THEN <<>>
    ELSE LET a == DictGet(o.v, KKids) IN
         IF a.k = "arr" THEN [i \in 1..Len(a.v) |-> IF a.v[i].k = "ref" THEN IdOf(a.v[i]) ELSE NoId]
         ELSE <<>>

\* trailer.Root -> catalog.Pages (both as references, as Document::catalog / PageTreeIter::new read them)
PageRoot(objs, trailer) ==
    LET r == DictGet(trailer, KRoot) IN
    IF r.k = "ref" /\ IdOf(r) \in DOMAIN objs /\ objs[IdOf(r)].k = "dict"
    THEN LET p == DictGet(objs[IdOf(r)].v, KPages) IN IF p.k = "ref" THEN IdOf(p) ELSE NoId
    ELSE NoId

PageGraph(objs, trailer) ==
    [root  |-> PageRoot(objs, trailer),
     typ   |-> [id \in DOMAIN objs |-> ObjTyp(objs[id])],
     kids  |-> [id \in DOMAIN objs |-> ObjKids(objs[id])],
     extra |-> 0]

DeclPages(objs, trailer) == PT!Dfs(PageGraph(objs, trailer))              \* declarative page sequence
IterPages(objs, trailer) == PT!ImplPages(PageGraph(objs, trailer), 256)    \* what page_iter() yields

-----------------------------------------------------------------------------
(* Declarative layer *)

\* Lock-step traversal of the two graphs from the two trailers: the least set of pairs
\* <<old id, new id>> containing the references at corresponding positions of the trailers and
\* closed under "both resolve => the references at corresponding positions of the two objects".
Closure(b, a, seeds) ==
    LET RECURSIVE Close(_, _)
        Close(todo, done) ==
            IF todo = {} THEN done
            ELSE LET p   == CHOOSE q \in todo : TRUE
                     new == IF p[1] \in Ids(b) /\ p[2] \in Ids(a)
                            THEN RefPairs(b.objs[p[1]], a.objs[p[2]]) ELSE {}
                 IN Close((todo \cup new) \ (done \cup {p}), done \cup {p})
    IN Close(seeds, {})

Match(b, a) == Closure(b, a, RefPairs(TrailerObj(b), TrailerObj(a)))

\* The pairs `new` (judged inside the relation `all`) belong to a consistent renaming: an existing object is
\* paired with an existing object of the same shape, nothing with something, and between existing objects
\* the pairing is functional and one-to-one.
PairsOk(b, a, new, all) ==
    /\ \A p \in new : IF p[1] \in Ids(b) THEN p[2] \in Ids(a) /\ ShapeEq(b.objs[p[1]], a.objs[p[2]])
                       ELSE p[2] \notin Ids(a)
    /\ \A p \in new : \A q \in all : (p[1] \in Ids(b) /\ q[1] \in Ids(b)) => ((p[1] = q[1]) <=> (p[2] = q[2]))

\* y equals x with references renamed by f; a reference that resolved to nothing resolves to nothing
RECURSIVE EqRenamed(_, _, _, _, _), PairsEqRenamed(_, _, _, _, _)
EqRenamed(x, y, f, b, a) ==
    /\ x.k = y.k
    /\ CASE x.k = "ref"    -> IF IdOf(x) \in DOMAIN f THEN IdOf(y) = f[IdOf(x)]
                              ELSE IdOf(x) \notin Ids(b) /\ IdOf(y) \notin Ids(a)
         [] x.k = "arr"    -> Len(x.v) = Len(y.v) /\ \A i \in 1..Len(x.v) : EqRenamed(x.v[i], y.v[i], f, b, a)
         [] x.k = "dict"   -> PairsEqRenamed(x.v, y.v, f, b, a)
         [] x.k = "stream" -> x.c = y.c /\ PairsEqRenamed(x.d, y.d, f, b, a)
         [] OTHER          -> x = y
PairsEqRenamed(p, q, f, b, a) ==
    /\ Len(p) = Len(q)
    /\ \A i \in 1..Len(p) : p[i][1] = q[i][1] /\ EqRenamed(p[i][2], q[i][2], f, b, a)

\* bookmark i follows the renaming ("every bookmark target equals the original with references renamed").
\* A target the trailer reaches is renamed like every reachable object.  A target the trailer does not reach
\* is a root of its own: the lock-step traversal continued from <<old target, new target>> must extend the
\* renaming consistently (same shapes, its references renamed, dangling stays dangling, still functional and
\* one-to-one together with what the trailer reaches).  A target that names no object (the conventional
\* (0,0) of a parent bookmark) must still name none.
BookmarkOk(b, a, rel, i) ==
    LET x == b.bms[i]  y == a.bms[i]
        reach == {p[1] : p \in rel} \cap Ids(b)
    IN IF x \in reach THEN <<x, y>> \in rel
       ELSE IF x \in Ids(b) THEN LET relX == Closure(b, a, rel \cup {<<x, y>>}) IN PairsOk(b, a, relX \ rel, relX)
       ELSE y \notin Ids(a)

\* all bookmark targets together extend the renaming consistently
BookmarksJointlyOk(b, a, rel) ==
    LET n    == MinOf(Len(a.bms), Len(b.bms))
        relB == Closure(b, a, rel \cup {<<b.bms[i], a.bms[i]>> : i \in {j \in 1..n : b.bms[j] \in Ids(b)}})
    IN PairsOk(b, a, relB \ rel, relB)

\* The statement of C10.
Acceptable(b, a, start) ==
    LET rel   == Match(b, a)
        reach == {p[1] : p \in rel} \cap Ids(b)                    \* reachable, existing old ids
        n     == Cardinality(Ids(a))
    IN
    /\ Cardinality(Ids(b)) = n                                     \* identifiers only: nothing added or lost
    /\ {id[1] : id \in Ids(a)} = start..(start + n - 1)            \* numbers consecutive from start
    /\ n > 0 => a.max_id = start + n - 1                           \* max id = the last one
    /\ \A p, q \in rel : (p[1] = q[1] /\ p[1] \in Ids(b)) => p[2] = q[2]      \* a renaming (functional)
    /\ LET f == [x \in reach |-> (CHOOSE p \in rel : p[1] = x)[2]] IN
       /\ \A x, y \in reach : f[x] = f[y] => x = y                            \* one-to-one
       /\ EqRenamed(TrailerObj(b), TrailerObj(a), f, b, a)
       /\ \A x \in reach : f[x] \in Ids(a) /\ EqRenamed(b.objs[x], a.objs[f[x]], f, b, a)
       /\ Len(a.pages) = Len(b.pages)                                         \* page order unchanged
       /\ \A i \in 1..Len(b.pages) : b.pages[i] \in reach /\ a.pages[i] = f[b.pages[i]]
    /\ Len(a.bms) = Len(b.bms)
    /\ \A i \in 1..Len(b.bms) : BookmarkOk(b, a, rel, i)
    /\ BookmarksJointlyOk(b, a, rel)

\* The same predicate clause by clause: the set of clauses that fail (narrow signatures).
Fails(b, a, start) ==
    LET rel  == Match(b, a)
        n    == Cardinality(Ids(a))
        live == {p \in rel : p[1] \in Ids(b) /\ p[2] \in Ids(a)}
        capt0 == {p \in rel : p[1] \notin Ids(b) /\ p[2] \in Ids(a)}
        \* renumbering from 0 hands out object number 0: a capture by the object that received it is a class
        \* of its own ("start0.capture": the always-free object 0 is where "no object" is sent)
        zero == {p \in capt0 : start = 0 /\ p[2][1] = 0}
        capt == capt0 \ zero
    IN
       (IF Cardinality(Ids(b)) # n THEN {"count"} ELSE {})
    \cup (IF {id[1] : id \in Ids(a)} # start..(start + n - 1) THEN {"numbers"} ELSE {})
    \cup (IF n > 0 /\ a.max_id # start + n - 1 THEN {"max_id"} ELSE {})
    \cup (IF ~ShapeEq(TrailerObj(b), TrailerObj(a)) THEN {"trailer"} ELSE {})
    \cup (IF \E p \in rel : p[1] \in Ids(b) /\ p[2] \notin Ids(a) THEN {"lost"} ELSE {})
         \* a reference that resolved to nothing now resolves: "capture" when the reference itself
         \* is unchanged and the new numbering put an object under its id
    \cup (IF \E p \in capt : p[1] = p[2] THEN {"dangling.capture"} ELSE {})
         \* ... "capture.pageorder" when the reference carries the number of a page of a tree whose
         \* pages are not in id order (the page-order pass re-keys pages to <<number of another page,
         \* own generation>>, which may be exactly the dangling id)
    \cup (LET moved == {p \in capt : p[1] # p[2]}
              pnums == {b.pages[i][1] : i \in 1..Len(b.pages)} IN
          IF moved = {} THEN {}
          ELSE IF b.pages # SortSeq(b.pages, IdLess) /\ \A p \in moved : p[1][1] \in pnums
               THEN {"dangling.capture.pageorder"} ELSE {"dangling.resolves"})
    \cup (IF \E p \in live : ~ShapeEq(b.objs[p[1]], a.objs[p[2]]) THEN {"content"} ELSE {})
    \cup (IF \E p, q \in rel : p[1] = q[1] /\ p[1] \in Ids(b) /\ p[2] # q[2] THEN {"split"} ELSE {})
    \cup (IF \E p, q \in live : p[2] = q[2] /\ p[1] # q[1] THEN {"merge"} ELSE {})
    \cup (IF Len(a.pages) # Len(b.pages)
             \/ \E i \in 1..MinOf(Len(a.pages), Len(b.pages)) :
                   b.pages[i] \notin Ids(b) \/ <<b.pages[i], a.pages[i]>> \notin rel
          THEN {"pages"} ELSE {})
         \* Bookmarks.  "bookmark.dangling.capture": the target named no object and was left as it is, while
         \* the new numbering put an object under that id; "bookmark.target.unreachable": the target is an
         \* object the trailer does not reach, the bookmark followed it to an object of the same shape that
         \* nothing else was renamed to, but the target's own references were not renamed consistently;
         \* "start0.capture": a target that named no object names the object that got number 0 (start 0);
         \* any other bookmark failure: "bookmark"
    \cup (LET nb   == MinOf(Len(a.bms), Len(b.bms))
              reach == {p[1] : p \in rel} \cap Ids(b)
              bad  == {i \in 1..nb : ~BookmarkOk(b, a, rel, i)}
              zb   == {i \in bad : b.bms[i] \notin Ids(b) /\ start = 0 /\ a.bms[i][1] = 0}
              capb == {i \in bad \ zb : b.bms[i] \notin Ids(b) /\ a.bms[i] = b.bms[i]}
              unr  == {i \in bad : /\ b.bms[i] \in Ids(b) \ reach /\ a.bms[i] \in Ids(a)
                                   /\ ShapeEq(b.objs[b.bms[i]], a.objs[a.bms[i]])
                                   /\ \A p \in rel : p[1] \in Ids(b) => p[2] # a.bms[i]}
          IN
          (IF Len(a.bms) # Len(b.bms) \/ bad \ (capb \cup unr \cup zb) # {}
              \/ (bad = {} /\ ~BookmarksJointlyOk(b, a, rel)) THEN {"bookmark"} ELSE {})
          \cup (IF capb # {} THEN {"bookmark.dangling.capture"} ELSE {})
          \cup (IF unr # {} THEN {"bookmark.target.unreachable"} ELSE {})
          \cup (IF zb # {} \/ zero # {} THEN {"start0.capture"} ELSE {}))

TagOrder == <<"count", "numbers", "max_id", "trailer", "lost", "dangling.capture", "dangling.capture.pageorder", "dangling.resolves",
              "content", "split", "merge", "pages", "bookmark", "bookmark.chain", "bookmark.dangling.capture",
              "bookmark.target.unreachable", "start0.capture", "max_id.exactfit", "pageorder.dupkids", "pageorder.numclash">>

\* "ok" or the failing clauses joined by "+"
VerdictOf(fails) ==
    IF fails = {} THEN "ok"
    ELSE FoldLeft(LAMBDA acc, t : IF t \in fails THEN (IF acc = "" THEN t ELSE acc \o "+" \o t) ELSE acc,
                  "", TagOrder)

-----------------------------------------------------------------------------
(* Impl-shaped layer: Document::renumber_objects_with(starting_id), src/processor.rs *)

MapRemove(m, key) == [x \in DOMAIN m \ {key} |-> m[x]]
MapPut(m, key, val) == (key :> val) @@ m                     \* BTreeMap::insert (overwrites)

\* the `action` closure of both passes; with devDang = FALSE (repaired) a reference that is neither
\* replaced nor names an object that existed when the pass began is sent to the free-list head
RECURSIVE Rename1(_, _, _, _, _)
Rename1(o, rep, liveIds, devDang, sink) ==
    CASE o.k = "ref"    -> IF IdOf(o) \in DOMAIN rep THEN MkRef(rep[IdOf(o)])
                           ELSE IF ~devDang /\ IdOf(o) \notin liveIds THEN MkRef(sink) ELSE o
      [] o.k = "arr"    -> [o EXCEPT !.v = [i \in 1..Len(o.v) |-> Rename1(o.v[i], rep, liveIds, devDang, sink)]]
      [] o.k = "dict"   -> [o EXCEPT !.v = [i \in 1..Len(o.v) |->
                                              <<o.v[i][1], Rename1(o.v[i][2], rep, liveIds, devDang, sink)>>]]
      [] o.k = "stream" -> [o EXCEPT !.d = [i \in 1..Len(o.d) |->
                                              <<o.d[i][1], Rename1(o.d[i][2], rep, liveIds, devDang, sink)>>]]
      [] OTHER          -> o

\* Document::traverse_objects(action): the action is applied to the trailer and then once to every
\* object found under an id collected so far (ids are collected *after* the action renamed them,
\* and looked up in the already re-keyed object map).
\* opt.reach = TRUE (the deviation): only what the trailer reaches is rewritten (traverse_objects); FALSE: the
\* trailer and every object, each once (rewrite_every_object).  opt.sink: where dangling ids are sent.
Traverse(objs, trailer, rep, liveIds, devDang, opt) ==
    LET ren(o) == Rename1(o, rep, liveIds, devDang, opt.sink)
        tr2    == ren([k |-> "dict", v |-> trailer]).v
        RECURSIVE Visit(_, _)
        Visit(todo, seen) ==
            IF todo = {} THEN seen
            ELSE LET x   == CHOOSE y \in todo : TRUE
                     new == IF x \in DOMAIN objs THEN RefsOf(ren(objs[x])) ELSE {}
                 IN Visit((todo \cup new) \ (seen \cup {x}), seen \cup {x})
        visited == Visit(PairsRefsOf(tr2), {})
    IN [objs    |-> [id \in DOMAIN objs |-> IF ~opt.reach \/ id \in visited THEN ren(objs[id]) ELSE objs[id]],
        trailer |-> tr2]

\* update_bookmark_pages for one (old, new) pair
BmUpdate(bms, old, new) == [i \in 1..Len(bms) |-> IF bms[i] = old THEN new ELSE bms[i]]
\* repaired: all targets renamed at once
\* (bmdang = TRUE, the deviation: a target that names no object is left as it is; FALSE: it is sent to
\* the free-list head unless it already has number 0, the conventional "no page")
\* opt.zeroUse: this pass hands out object number 0 itself, so the (0, _) targets are sent to the sink too
BmMap(bms, rep, liveIds, bmdang, opt) ==
    [i \in 1..Len(bms) |-> IF bms[i] \in DOMAIN rep THEN rep[bms[i]]
                           ELSE IF ~bmdang /\ (bms[i][1] # 0 \/ opt.zeroUse) /\ bms[i] \notin liveIds THEN opt.sink
                           ELSE bms[i]]

\* options of a pass.  Page-order pass: never hands out number 0, sink = (0,65535).  Dense pass: with
\* dv.zero = TRUE (the deviation) the same; FALSE: renumbering a non-empty document from 0 is noticed
\* (zeroUse) and the sink avoids the generation of the object that receives number 0.
PageOpt(dv) == [reach |-> dv.reach, zeroUse |-> FALSE, sink |-> Tomb]
DenseOpt(dv, start, liveIds) ==
    LET zu    == ~dv.zero /\ start = 0 /\ liveIds # {}
        first == CHOOSE x \in liveIds : \A y \in liveIds : x = y \/ IdLess(x, y)
    IN [reach |-> dv.reach, zeroUse |-> zu, sink |-> IF zu /\ first[2] = 65535 THEN <<0, 65534>> ELSE Tomb]

\* running state of the call
ImplInit(d) ==
    [objs |-> d.objs, trailer |-> d.trailer, max_id |-> d.max_id, bms |-> d.bms,
     temp |-> <<>>, replace |-> <<>>, panic |-> FALSE, panicfit |-> FALSE]

\* page-order pass ---------------------------------------------------------
\* page_iter(), in page order.  dup = TRUE (the deviation): a page listed twice in the tree takes part in
\* the ordering twice; FALSE: once, at its first position.
FirstOnly(pg) ==
    LET D[i \in 0..Len(pg)] == IF i = 0 THEN <<>>
                               ELSE IF \E j \in 1..(i - 1) : pg[j] = pg[i] THEN D[i - 1] ELSE Append(D[i - 1], pg[i])
    IN D[Len(pg)]
PageOrderOf(s, dup) == IF dup THEN IterPages(s.objs, s.trailer) ELSE FirstOnly(IterPages(s.objs, s.trailer))
SortedPages(pg) == SortSeq(pg, IdLess)                            \* page_order.sort_by(id)
NeedsOrdering(pg) == pg # SortedPages(pg)

\* one iteration of `for (old, new) in pages.iter().zip(page_order)`
\* clash = TRUE (the deviation): the page is re-keyed to <<number of the sorted slot, own generation>>,
\* which may be the id of another object; FALSE: to the id of the slot (pages permuted over their own ids)
PagePairStep(s, old, sortedId, devChain, clash) ==
    LET new == IF clash THEN <<sortedId[1], old[2]>> ELSE sortedId
        has == old \in DOMAIN s.objs
    IN [s EXCEPT !.objs    = IF has THEN MapRemove(@, old) ELSE @,
                 !.temp    = IF has THEN MapPut(@, new, s.objs[old]) ELSE @,
                 !.replace = IF has THEN MapPut(@, old, new) ELSE @,
                 !.bms     = IF devChain /\ old # sortedId THEN BmUpdate(@, old, new) ELSE @]

\* re-insert, traverse-and-replace, clear (also used by the dense pass without the clear)
FinishPass(s, liveIds, devChain, devDang, bmdang, opt) ==
    LET objs1 == s.temp @@ s.objs
        t     == Traverse(objs1, s.trailer, s.replace, liveIds, devDang, opt)
    IN [s EXCEPT !.objs = t.objs, !.trailer = t.trailer,
                 !.bms = IF devChain THEN @ ELSE BmMap(@, s.replace, liveIds, bmdang, opt),
                 !.temp = <<>>, !.replace = <<>>]

\* dense pass --------------------------------------------------------------
SortedIds(objs) == SetToSortSeq(DOMAIN objs, IdLess)

DenseReplace(objs, start) ==
    LET ids == SortedIds(objs)
        idx == {i \in 1..Len(ids) : ids[i][1] # start + i - 1}
    IN [x \in {ids[i] : i \in idx} |-> <<start + (CHOOSE i \in idx : ids[i] = x) - 1, x[2]>>]

\* one iteration of `for (old, new) in &replace`
DensePairStep(s, old, devChain) ==
    LET new == s.replace[old]
        has == old \in DOMAIN s.objs
    IN [s EXCEPT !.objs = IF has THEN MapRemove(@, old) ELSE @,
                 !.temp = IF has THEN MapPut(@, new, s.objs[old]) ELSE @,
                 !.bms  = IF devChain /\ old # new THEN BmUpdate(@, old, new) ELSE @]

\* the repaired defect `self.max_id = new_id - 1` on u32 (start = 0 on an empty document panics); the code as it is
\* saturates (max_id 0), which the users of SetMaxId model by overriding a panic result
\* dv.fit / dv.limit: the exact-fit start value, where the last object gets the largest number `limit`
\* (u32::MAX in lopdf; any stand-in in the model).  "panic" (the deviation, builds with overflow checks):
\* `new_id += 1` after the last object overflows; "wrap" (the deviation, builds without): the counter wraps to
\* 0 and max_id = 0.saturating_sub(1) = 0; "none": the last number handed out is remembered.
SetMaxId(s, start, n, dv) ==
    IF start + n = 0 THEN [s EXCEPT !.panic = TRUE]
    ELSE IF n > 0 /\ dv.limit > 0 /\ start + n - 1 = dv.limit /\ dv.fit = "panic" THEN [s EXCEPT !.panicfit = TRUE]
    ELSE IF n > 0 /\ dv.limit > 0 /\ start + n - 1 = dv.limit /\ dv.fit = "wrap" THEN [s EXCEPT !.max_id = 0]
    ELSE [s EXCEPT !.max_id = start + n - 1]

\* The switches as one record.  CodeDev = the code as it is at HEAD of /repo: the seven deviations repaired by
\* fix: commits are FALSE; reach, zero, fit are the open findings bookmark.target.unreachable,
\* start0.capture, panic.exactfit / max_id.exactfit -- set them FALSE / "none" when their fixes are in.
\* NoDev = every deviation repaired.  limit = 0: no largest number in sight.
Dev(chain, dang, dup, clash, bmdang) ==
    [chain |-> chain, dang |-> dang, dup |-> dup, clash |-> clash, bmdang |-> bmdang,
     reach |-> FALSE, zero |-> FALSE, fit |-> "none", limit |-> 0]
NoDev   == Dev(FALSE, FALSE, FALSE, FALSE, FALSE)
CodeDev == NoDev      \* every deviation repaired (latest: b512058, 61058a9, 7670f23)

ImplRunX(d, start, dv) ==
    LET s0   == ImplInit(d)
        pg   == PageOrderOf(s0, dv.dup)
        srt  == SortedPages(pg)
        P[i \in 0..Len(pg)] == IF i = 0 THEN s0 ELSE PagePairStep(P[i - 1], pg[i], srt[i], dv.chain, dv.clash)
        s1   == IF NeedsOrdering(pg) THEN FinishPass(P[Len(pg)], DOMAIN d.objs, dv.chain, dv.dang, dv.bmdang, PageOpt(dv)) ELSE s0
        live == DOMAIN s1.objs
        n    == Cardinality(live)
        s2   == [s1 EXCEPT !.replace = DenseReplace(s1.objs, start)]
        ord  == SetToSortSeq(DOMAIN s2.replace, IdLess)
        D[i \in 0..Len(ord)] == IF i = 0 THEN s2 ELSE DensePairStep(D[i - 1], ord[i], dv.chain)
        s3   == FinishPass(D[Len(ord)], live, dv.chain, dv.dang, dv.bmdang, DenseOpt(dv, start, live))
    IN SetMaxId(s3, start, n, dv)

\* the first two switches explicit, the others as the code is
ImplRun(d, start, devChain, devDang) == ImplRunX(d, start, [CodeDev EXCEPT !.chain = devChain, !.dang = devDang])

\* the resulting document (pages as the declarative layer defines them)
DocOfState(s) ==
    [objs |-> s.objs, trailer |-> s.trailer, max_id |-> s.max_id, bms |-> s.bms,
     pages |-> DeclPages(s.objs, s.trailer)]

ImplRenumber(d, start, devChain, devDang) == DocOfState(ImplRun(d, start, devChain, devDang))

\* Signature refinement of a failing "bookmark" clause: it is the confirmed pair-by-pair chain
\* exactly when the observed targets are the ones the pair-by-pair transcription predicts.
\* ctx = the switches of the algorithm the observation comes from (CodeDev for observations of lopdf,
\* the run's own switches in MC_Renumber): a defect is always judged "seeded into that algorithm".
ClassifyChain(b, a, start, ctx) ==
    LET fs == Fails(b, a, start) IN
    IF "bookmark" \in fs /\ a.bms = ImplRunX(b, start, [ctx EXCEPT !.chain = TRUE]).bms
                         /\ a.bms # ImplRunX(b, start, [ctx EXCEPT !.chain = FALSE]).bms
    THEN (fs \ {"bookmark"}) \cup {"bookmark.chain"} ELSE fs

\* Input classes of the two page-order findings (computed from the document alone):
\*  DupKids  -- a page is listed more than once in the page tree and the page-order pass runs;
\*  NumClash -- the pass runs and would re-key some page to <<number of the sorted slot, own generation>>
\*              where that id belongs to an object that is not one of the pages, or where two different
\*              pages get the same such id (both need two live objects under one object number).
DupKids(b)  == /\ b.pages # SortSeq(b.pages, IdLess)
               /\ \E i, j \in 1..Len(b.pages) : i # j /\ b.pages[i] = b.pages[j]
NumClash(b) == LET pg   == FirstOnly(b.pages)           \* the class is about distinct pages (duplicates: DupKids)
                   srt  == SortSeq(pg, IdLess)
                   K(i) == <<srt[i][1], pg[i][2]>>
               IN
               /\ pg # srt
               /\ \/ \E i \in 1..Len(pg) : K(i) \in Ids(b) /\ \A j \in 1..Len(pg) : pg[j] # K(i)
                  \/ \E i, j \in 1..Len(pg) : i # j /\ K(i) = K(j)

\* clauses whose tag already names a narrow class by itself
SelfClassified == {"dangling.capture", "dangling.capture.pageorder", "bookmark.chain", "bookmark.dangling.capture",
                   "bookmark.target.unreachable", "start0.capture", "max_id.exactfit"}

\* "max_id" fails and it is the exact-fit start value (last object gets ctx.limit) with max_id left at 0
ClassifyFit(b, a, start, ctx) ==
    LET fs == ClassifyChain(b, a, start, ctx) IN
    IF "max_id" \in fs /\ ctx.limit > 0 /\ start + Cardinality(Ids(a)) - 1 = ctx.limit /\ a.max_id = 0
    THEN (fs \ {"max_id"}) \cup {"max_id.exactfit"} ELSE fs

\* The remaining failing clauses are attributed to pageorder.dupkids / pageorder.numclash exactly when the
\* document is in the class, the observed result is the one the transcription *with* the deviation (one of
\* the two, or both) predicts, and the transcription *without* them fails none of those clauses on this
\* document (self-classified clauses that fail without them as well are kept next to the attribution).
SameResult(r, a) == ~r.panicfit /\ r.objs = a.objs /\ r.trailer = a.trailer /\ r.bms = a.bms /\ r.max_id = a.max_id

ClassifyX(b, a, start, ctx) ==
    LET fs   == ClassifyFit(b, a, start, ctx)
        rest == fs \ SelfClassified
    IN IF rest = {} \/ ~(DupKids(b) \/ NumClash(b)) THEN fs
       ELSE LET cands   == << [dup |-> FALSE, clash |-> TRUE], [dup |-> TRUE, clash |-> FALSE], [dup |-> TRUE, clash |-> TRUE] >>
                run(c)  == ImplRunX(b, start, [ctx EXCEPT !.dup = c.dup, !.clash = c.clash])
                hits    == {i \in 1..3 : SameResult(run(cands[i]), a)}
                ctx0    == [ctx EXCEPT !.dup = FALSE, !.clash = FALSE]
                without == ImplRunX(b, start, ctx0)
                \* what still fails without the two deviations has another cause and is kept
                keep    == IF without.panic \/ without.panicfit THEN {}
                           ELSE fs \cap ClassifyFit(b, DocOfState(without), start, ctx0)
            IN IF hits = {} \/ keep \cap rest # {} THEN fs
               ELSE LET c    == cands[CHOOSE i \in hits : \A j \in hits : i <= j]
                        tags == (IF c.dup /\ DupKids(b) THEN {"pageorder.dupkids"} ELSE {})
                                \cup (IF c.clash /\ NumClash(b) THEN {"pageorder.numclash"} ELSE {})
                    IN IF tags = {} THEN fs ELSE keep \cup tags

Classify(b, a, start) == ClassifyX(b, a, start, CodeDev)

-----------------------------------------------------------------------------
(* wire <-> document *)

\* document from the JSON projection [objects: <<n, g, obj>>..., trailer, max_id, bms: <<n,g>>.., pages]
DocOfJson(j) ==
    LET ids == {<<j.objects[i][1], j.objects[i][2]>> : i \in 1..Len(j.objects)} IN
    [objs    |-> [id \in ids |-> j.objects[CHOOSE i \in 1..Len(j.objects) :
                                              <<j.objects[i][1], j.objects[i][2]>> = id][3]],
     trailer |-> j.trailer, max_id |-> j.max_id,
     bms     |-> [i \in 1..Len(j.bms) |-> <<j.bms[i][1], j.bms[i][2]>>],
     pages   |-> [i \in 1..Len(j.pages) |-> <<j.pages[i][1], j.pages[i][2]>>]]

JsonOfDoc(d) ==
    LET ids == SortedIds(d.objs) IN
    [objects |-> [i \in 1..Len(ids) |-> <<ids[i][1], ids[i][2], d.objs[ids[i]]>>],
     trailer |-> d.trailer, max_id |-> d.max_id, bms |-> d.bms, pages |-> d.pages]
=============================================================================
