SPECIFICATION Spec
CONSTANTS
  Model = "bracket"
  N = 7
  MaxB = 2
  GuardOn = FALSE
INVARIANTS Variant Refines
CHECK_DEADLOCK FALSE
