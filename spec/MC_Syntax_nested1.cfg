SPECIFICATION Spec
CONSTANTS
  Universe = "nested1"
  Emit = FALSE
  SepMode = "few"
INVARIANTS RoundTrip EmitInv
CHECK_DEADLOCK FALSE
