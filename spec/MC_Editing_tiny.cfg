SPECIFICATION Spec
CONSTANTS
  Devs <- DevAll
  Ops <- AllOps
  ByteStrings <- BytesQuick
  NumSeqs <- NumsQuick
  NewObjs <- MCNewObjs
  InheritBound <- MCInheritBound
  MaxDepth = 2
  Starts <- StartsTiny
  Allowed = {"resources.shadow.incremental"}
  Emit = TRUE
  EmitMod = 50
  EmitModV = 1
VIEW View
INVARIANTS Refines StartOk GhostSync EmitViolations
CHECK_DEADLOCK FALSE
