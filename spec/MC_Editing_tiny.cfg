SPECIFICATION Spec
CONSTANTS
  Devs <- DevBoth
  Ops <- AllOps
  ByteStrings <- BytesQuick
  NumSeqs <- NumsQuick
  NewObjs <- MCNewObjs
  MaxDepth = 2
  Starts <- StartsTiny
  Allowed = {}
  Emit = TRUE
  EmitMod = 50
  EmitModV = 1
VIEW View
INVARIANTS Refines StartOk GhostSync EmitViolations
CHECK_DEADLOCK FALSE
