SPECIFICATION Spec
CONSTANTS
  Devs <- DevAll
  Ops <- AllOps
  ByteStrings <- BytesQuick
  NumSeqs <- NumsQuick
  NewObjs <- MCNewObjs
  MaxDepth = 2
  Starts <- StartsTiny
  Allowed = {"content.sharedStream", "resources.nameCollision"}
  Emit = TRUE
  EmitMod = 50
  EmitModV = 1
VIEW View
INVARIANTS Refines StartOk GhostSync EmitViolations
CHECK_DEADLOCK FALSE
