SPECIFICATION Spec
CONSTANTS
  Dev <- DevAsIs
  Ops = {"NewObjectId", "AddObject", "Replace", "DeleteObject", "RemoveAnnot", "Prune", "DeletePages", "Renumber", "Compress", "Decompress", "AddPageContents", "ChangePageContent", "ChangeContentStream", "GetOrCreateResources", "AddXObject", "AddGraphicsState", "BuildOutline", "Save", "SaveLoad"}
  ByteStrings <- BytesQuick
  NumSeqs <- NumsQuick
  NewObjs <- MCNewObjs
  MaxDepth = 2
  Starts <- StartsTiny
  Allowed = {}
  Emit = FALSE
  EmitMod = 1
VIEW View
INVARIANTS Refines StartOk GhostSync
CHECK_DEADLOCK FALSE
