----------------------------- MODULE CodecsExt -----------------------------
(***************************************************************************)
(* Further stream codecs of ISO 32000-1 7.4, as reference encoder/decoder  *)
(* pairs over byte sequences: ASCIIHexDecode (7.4.2), RunLengthDecode      *)
(* (7.4.5) and the TIFF predictor (Predictor 2, 7.4.4.4) for 8-bit         *)
(* components.  (Codecs.tla has ASCII85, LZW, stored-block zlib and the    *)
(* PNG predictors.)  Used by the Producer to write, and by the strict      *)
(* reader to read, filtered cross-reference and object streams.            *)
(* A result is [ok, data] as in Codecs.                                     *)
(***************************************************************************)
EXTENDS Naturals, Sequences, SequencesExt

LOCAL Good(x) == [ok |-> TRUE, data |-> x]
LOCAL Fail(x) == [ok |-> FALSE, data |-> x]
LOCAL WS == {0, 9, 10, 12, 13, 32}

-----------------------------------------------------------------------------
(* ASCIIHexDecode *)

LOCAL HexDigit(n, upper) == IF n < 10 THEN 48 + n ELSE (IF upper THEN 55 ELSE 87) + n
LOCAL HexValue(b) == IF b >= 48 /\ b <= 57 THEN b - 48
                     ELSE IF b >= 65 /\ b <= 70 THEN b - 55
                     ELSE IF b >= 97 /\ b <= 102 THEN b - 87 ELSE 99

\* style: "upper" | "lower" | "ws" (white-space of every kind between the digits, also inside a pair) |
\*        "odd" (the final digit is left out when it is 0) | "noeod" (no `>`: the data ends with the stream)
AHxEncode(data, style) ==
    LET up1(i) == style = "upper" \/ (style \notin {"upper", "lower"} /\ i % 2 = 0)        \* mixed case in the other styles
        pair(i) == <<HexDigit(data[i] \div 16, up1(i)), HexDigit(data[i] % 16, style # "lower")>>
        sepOf(i) == IF style = "ws" THEN <<(<<32>>), (<<10>>), (<<13, 10>>), (<<9>>), (<<0>>), (<<12>>), (<<>>)>>[(i % 7) + 1] ELSE <<>>
        body == FoldLeft(LAMBDA acc, i : acc \o <<pair(i)[1]>> \o (IF style = "ws" /\ i % 3 = 0 THEN <<32>> ELSE <<>>) \o <<pair(i)[2]>> \o sepOf(i),
                         <<>>, [i \in 1..Len(data) |-> i])
        cut == IF style = "odd" /\ data # <<>> /\ data[Len(data)] % 16 = 0 THEN SubSeq(body, 1, Len(body) - 1) ELSE body
    IN IF style = "noeod" THEN cut ELSE cut \o <<62>>

AHxDecode(enc) ==
    LET step(a, b) ==
            IF a.done \/ ~a.ok THEN a
            ELSE IF b = 62 THEN [a EXCEPT !.done = TRUE]
            ELSE IF b \in WS THEN a
            ELSE IF HexValue(b) = 99 THEN [a EXCEPT !.ok = FALSE]
            ELSE IF a.hi = 99 THEN [a EXCEPT !.hi = HexValue(b)]
            ELSE [a EXCEPT !.out = Append(@, a.hi * 16 + HexValue(b)), !.hi = 99]
        z == FoldLeft(step, [out |-> <<>>, hi |-> 99, done |-> FALSE, ok |-> TRUE], enc)
    IN IF ~z.ok THEN Fail(<<>>)
       ELSE Good(IF z.hi = 99 THEN z.out ELSE Append(z.out, z.hi * 16))

-----------------------------------------------------------------------------
(* RunLengthDecode: length byte n, then n+1 literal bytes (n < 128) or one byte repeated 257-n times (n > 128); 128 = EOD *)

\* the data is cut into pieces of `seg` bytes (1..128); a piece of >= 2 equal bytes is written as a run, any other as literals
RLEncode(data, seg, eod) ==
    LET n == Len(data)
        np == (n + seg - 1) \div seg
        piece(p) == SubSeq(data, (p - 1) * seg + 1, IF p * seg < n THEN p * seg ELSE n)
        enc(pc) == IF Len(pc) >= 2 /\ \A i \in 1..Len(pc) : pc[i] = pc[1] THEN <<257 - Len(pc), pc[1]>>
                   ELSE <<Len(pc) - 1>> \o pc
    IN FoldLeft(LAMBDA acc, p : acc \o enc(piece(p)), <<>>, [p \in 1..np |-> p]) \o (IF eod THEN <<128>> ELSE <<>>)

RLDecode(enc) ==
    LET step(a, b) ==
            IF a.done THEN a
            ELSE IF a.m = "len" THEN
                 (IF b = 128 THEN [a EXCEPT !.done = TRUE]
                  ELSE IF b < 128 THEN [a EXCEPT !.m = "lit", !.n = b + 1]
                  ELSE [a EXCEPT !.m = "rep", !.n = 257 - b])
            ELSE IF a.m = "lit" THEN [a EXCEPT !.out = Append(@, b), !.n = a.n - 1, !.m = IF a.n = 1 THEN "len" ELSE "lit"]
            ELSE [a EXCEPT !.out = @ \o [i \in 1..a.n |-> b], !.m = "len"]
        z == FoldLeft(step, [out |-> <<>>, m |-> "len", n |-> 0, done |-> FALSE], enc)
    IN \* data that ends inside a literal run or before the byte to repeat is truncated: not well-formed
       IF ~z.done /\ z.m # "len" THEN Fail(z.out) ELSE Good(z.out)

-----------------------------------------------------------------------------
(* TIFF predictor 2, 8 bits per component: every component is replaced by its difference to the same component of *)
(* the sample to its left; every row starts afresh.  rowlen = Columns * Colors bytes.                                *)

LOCAL Rows(data, rowlen) ==
    LET nr == (Len(data) + rowlen - 1) \div rowlen
    IN [r \in 1..nr |-> SubSeq(data, (r - 1) * rowlen + 1, IF r * rowlen < Len(data) THEN r * rowlen ELSE Len(data))]

TiffEncode(data, colors, rowlen) ==
    LET encRow(row) == [i \in 1..Len(row) |-> IF i <= colors THEN row[i] ELSE (row[i] + 256 - row[i - colors]) % 256]
    IN FoldLeft(LAMBDA acc, row : acc \o encRow(row), <<>>, Rows(data, rowlen))

TiffDecode(enc, colors, rowlen) ==
    LET decRow(row) == FoldLeft(LAMBDA acc, i : Append(acc, IF i <= colors THEN row[i] ELSE (row[i] + acc[i - colors]) % 256),
                                <<>>, [i \in 1..Len(row) |-> i])
    IN IF rowlen < 1 \/ colors < 1 THEN Fail(<<>>)
       ELSE Good(FoldLeft(LAMBDA acc, row : acc \o decRow(row), <<>>, Rows(enc, rowlen)))

-----------------------------------------------------------------------------
(* TIFF predictor 2 for every component width (ISO 32000-1 7.4.4.4, TIFF 6.0 section 14): BitsPerComponent 1, 2, 4, *)
(* 8 or 16.  A row holds Columns * Colors components packed most significant bits first (16 bit: big endian) and is  *)
(* padded to a whole number of bytes, rowlen = ceil(Columns * Colors * bpc / 8); arithmetic is modulo 2^bpc per      *)
(* component.  The padding bits of a row, and the bytes of a short last row that do not make a whole component,      *)
(* are not components: they pass through unchanged.                                                                 *)

LOCAL Pw2(k) == 2 ^ k
TiffRowLen(colors, bpc, columns) == (columns * colors * bpc + 7) \div 8

\* the components of a (possibly short) row, and the row with its components replaced
LOCAL NComp(row, colors, bpc, columns) ==
    LET whole == IF bpc = 16 THEN Len(row) \div 2 ELSE Len(row) * (8 \div bpc)
    IN IF columns * colors < whole THEN columns * colors ELSE whole
LOCAL Comp(row, bpc, i) ==                                    \* i-th component, 1-based
    IF bpc = 16 THEN row[2 * i - 1] * 256 + row[2 * i]
    ELSE IF bpc = 8 THEN row[i]
    ELSE LET per == 8 \div bpc  b == row[(i - 1) \div per + 1]  sh == 8 - bpc * (((i - 1) % per) + 1)
         IN (b \div Pw2(sh)) % Pw2(bpc)
LOCAL WithComps(row, bpc, cs) ==                              \* cs = new values of the first Len(cs) components
    IF bpc = 16 THEN [k \in 1..Len(row) |-> IF (k + 1) \div 2 <= Len(cs)
                                             THEN (IF k % 2 = 1 THEN cs[(k + 1) \div 2] \div 256 ELSE cs[k \div 2] % 256) ELSE row[k]]
    ELSE IF bpc = 8 THEN [k \in 1..Len(row) |-> IF k <= Len(cs) THEN cs[k] ELSE row[k]]
    ELSE LET per == 8 \div bpc
             slot(k, j) == (k - 1) * per + j                  \* component index of slot j (1..per) of byte k
             val(k, j) == IF slot(k, j) <= Len(cs) THEN cs[slot(k, j)]
                          ELSE (row[k] \div Pw2(8 - bpc * j)) % Pw2(bpc)
         IN [k \in 1..Len(row) |-> FoldLeft(LAMBDA acc, j : acc * Pw2(bpc) + val(k, j), 0, [j \in 1..per |-> j])]

TiffEncodeB(data, colors, bpc, columns) ==
    LET L == TiffRowLen(colors, bpc, columns)
        encRow(row) == LET n == NComp(row, colors, bpc, columns)
                       IN WithComps(row, bpc, [i \in 1..n |-> IF i <= colors THEN Comp(row, bpc, i)
                                                               ELSE (Comp(row, bpc, i) + Pw2(bpc) - Comp(row, bpc, i - colors)) % Pw2(bpc)])
    IN FoldLeft(LAMBDA acc, row : acc \o encRow(row), <<>>, Rows(data, L))

TiffDecodeB(enc, colors, bpc, columns) ==
    LET L == TiffRowLen(colors, bpc, columns)
        decRow(row) == LET n == NComp(row, colors, bpc, columns)
                       IN WithComps(row, bpc, FoldLeft(LAMBDA acc, i : Append(acc, IF i <= colors THEN Comp(row, bpc, i)
                                                                                    ELSE (Comp(row, bpc, i) + acc[i - colors]) % Pw2(bpc)),
                                                       <<>>, [i \in 1..n |-> i]))
    IN IF colors < 1 \/ columns < 1 \/ bpc \notin {1, 2, 4, 8, 16} THEN Fail(<<>>)
       ELSE Good(FoldLeft(LAMBDA acc, row : acc \o decRow(row), <<>>, Rows(enc, L)))
=============================================================================
