SPECIFICATION Spec
CONSTANTS
  Variant = "asis"
  MaxIntr = 2
  KeepHist = FALSE
  MaxCalls = 5
  MinBuf = 0
  MaxBuf = 3
  RawChoices = {FALSE, TRUE}
  Emit = FALSE
INVARIANTS TypeOK Prefix ChunkFree ErrSurfaces NoSpurious Later Refines CounterInv
PROPERTIES Retry RetrySink
CHECK_DEADLOCK FALSE
