SPECIFICATION Spec
CONSTANTS
  Variant = "asis"
  MaxIntr = 2
  KeepHist = FALSE
  MaxCalls = 5
  MinBuf = 0
  MaxBuf = 3
  RawChoices = {FALSE, TRUE}
  DevIgnoredWrite = FALSE
  DevMutatesDoc = FALSE
  Emit = FALSE
INVARIANTS TypeOK Accounting Prefix ChunkFree ErrSurfaces NoSpurious Later Refines CounterInv
PROPERTIES DocUnchanged Accounted Retry RetrySink
CHECK_DEADLOCK FALSE
