SPECIFICATION Spec
CONSTANTS
  MaxB = 2
  NPs = {1}
  MaxPost = 0
  Reserve = TRUE
  Titles <- TitleClasses
  Stack = 64
  WorkList = FALSE
  DestSpellings = {"none"}
  FollowRefs = FALSE
  IdLimits = {7, 8, 9, 10}
  CheckedIds = FALSE
  Emit = FALSE
INVARIANTS RefinesFresh RefusedOk
CHECK_DEADLOCK FALSE
