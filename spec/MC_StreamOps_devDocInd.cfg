SPECIFICATION Spec
CONSTANTS
  MaxSteps = 2
  DevAvg = FALSE
  DevArr = FALSE
  DevStale = FALSE
  DevEmpty = FALSE
  Disturbs = FALSE
  DevRows = FALSE
  DevInd = FALSE
  DevDocInd = TRUE
INVARIANTS LengthInv StepOKModKnown
CHECK_DEADLOCK FALSE
