SPECIFICATION Spec
CONSTANTS
  Universe = "inlot"
  Emit = FALSE
  SepMode = "min"
INVARIANTS RoundTrip EmitInv
CHECK_DEADLOCK FALSE
