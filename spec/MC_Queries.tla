----------------------------- MODULE MC_Queries -----------------------------
(* Exhaustive exploration of the walker models of Queries over typed-chaos documents.         *)
(* Every scenario is a finite universe of documents (<= 4 objects) in which the keys one       *)
(* walker reads are bound to a value of every kind class (null, bool, int neg/0/pos, real,     *)
(* name expected/other, string, empty array, short array, array of refs, dict, stream, ref to  *)
(* each object incl. self, dangling ref) while the rest of the document is a fixed skeleton    *)
(* that lets the real query reach that walker.  One behaviour = one walker run on one document;*)
(* TLC checks that every run reaches a Final pc within its variant (Bounded, Terminates) and,  *)
(* with the Dev_ switches off ("as the code is" since the nine C13 fix: commits), that the      *)
(* outcome is Total.  With the switches on (the repaired defects seeded back: cfg *_cex, a      *)
(* negative control) the non-Total outcomes are the former findings; every finished run is      *)
(* printed as a REPLAY line (document, walker, predicted outcome and class) for the harness.   *)
(* Scenario "chain" is the depth dimension: the long acyclic chain families of Queries!ChainDoc *)
(* for every length in ChainLens, with the machine stack StackFrames and the walkers' budgets    *)
(* scaled down with them.  TLC checks there that the automata agree with the closed forms        *)
(* ChainOutcome / ChainMaxDepth (ChainOK) and never use more stack than there is (StackOK); a    *)
(* walker without a budget is refuted (TotalInv) by a behaviour whose stack grows with the chain.*)
EXTENDS Queries, TLC, Json

CONSTANTS N,          \* objects per document in the link scenarios (3 or 4)
          Scen,       \* scenarios explored
          Emit,       \* print REPLAY lines
          ChainLens   \* lengths of the long acyclic chains of scenario "chain" (around and beyond every limit)

VARIABLES doc, sc, w, arg, s, steps,
          fam, len,   \* scenario "chain": the family and the length of the chain ("" / 0 otherwise)
          md          \* greatest recursion depth reached so far (frames beyond the walker's first)
vars == <<doc, sc, w, arg, s, steps, fam, len, md>>

-----------------------------------------------------------------------------
(* kind classes *)
RefsTo(S) == {Ref(i) : i \in S}
Scalars   == {Null, BoolV, IntV(-1), IntV(0), IntV(2), RealV, Name("Other"), Str("t")}
Dest2     == Arr(<<Ref(1), Name("Fit")>>)                       \* a well-formed explicit destination
Arrs(n)   == {Arr(<<>>), Arr(<<IntV(1)>>), Arr(<<IntV(1), IntV(2)>>), Arr(<<Ref(0)>>), Arr(<<Ref(n), Name("Fit")>>)}
                \cup {Arr(<<Ref(i)>>) : i \in 1..n}
AllVals(n, names) == Scalars \cup {Name(x) : x \in names} \cup Arrs(n)
                        \cup {Dict(<<>>), Stream(<<>>, "")} \cup RefsTo(0..n)

\* a dictionary from key/value pairs; a pair whose value is None (absent) is left out
Bind(pairs) == SelectSeq(pairs, LAMBDA p : p[2] # None)
DictB(pairs) == Dict(Bind(pairs))

Seqs(n, S) == [1..n -> S]

-----------------------------------------------------------------------------
(* scenarios *)

\* S1: reference chains and cycles between objects
U_deref == {[objs |-> o, root |-> Ref(1)] : o \in Seqs(N, RefsTo(0..N) \cup {IntV(7)})}

\* S2: /Contents of a page bound to every kind; the other objects are what a chain can pass through
U_cont ==
    LET others == {Stream(<<>>, "text"), IntV(7), Arr(<<Ref(3)>>), Dict(<<>>)} \cup RefsTo(0..3)
    IN {[objs |-> <<DictB(<<<<"Type", Name("Page")>>, <<"Contents", c>>>>), o2, o3>>, root |-> Ref(1)] :
            c \in AllVals(3, {}) \cup {None}, o2 \in others, o3 \in others}

\* S3: Parent / Resources chains
U_rsrc ==
    LET node == {DictB(<<<<"Parent", p>>, <<"Resources", r>>>>) :
                    p \in {None, IntV(1), Dict(<<>>)} \cup RefsTo(0..3), r \in {None, Ref(3)}}
                \cup {IntV(7), Ref(3), DictB(<<<<"Parent", Ref(1)>>, <<"Resources", Dict(<<>>)>>>>)}
    IN {[objs |-> o, root |-> Ref(1)] : o \in Seqs(3, node)}

\* S4: outline items linked by First / Next in every way
Links(n) == {None} \cup RefsTo(0..n) \cup (IF n <= 3 THEN {IntV(1), Dict(<<>>)} ELSE {})
Item(f, x) == DictB(<<<<"First", f>>, <<"Next", x>>, <<"Dest", Dest2>>, <<"Title", Str("t")>>>>)
U_links ==
    LET items == {Item(f, x) : f \in Links(N), x \in Links(N)}
        last  == items \cup {IntV(7), Ref(2)}
    IN {[objs |-> <<DictB(<<<<"Outlines", Ref(2)>>>>)>> \o o \o <<l>>, root |-> Ref(1)] :
            o \in Seqs(N - 2, items), l \in last}

\* S5: one outline item whose Dest / A / Title / S / D are bound to every kind
U_dest ==
    LET cat    == DictB(<<<<"Outlines", Ref(2)>>>>)
        titles == {None, Str("t"), IntV(1), Ref(3), Ref(0)}
        o3a    == {Arr(<<>>), Arr(<<IntV(1)>>), Dest2, Str("t"), IntV(7), Ref(3)}
        famA   == {[objs |-> <<cat, DictB(<<<<"Dest", d>>, <<"Title", t>>>>), o3>>, root |-> Ref(1)] :
                      d \in AllVals(3, {}) \cup {None}, t \in titles, o3 \in o3a}
        acts   == {Ref(3), IntV(1), DictB(<<<<"S", Name("GoTo")>>, <<"D", Arr(<<>>)>>>>)}
        svals  == {None, Name("GoTo"), Name("GoToR"), Name("Other"), IntV(1)}
        dvals  == {None, Arr(<<>>), Arr(<<IntV(1)>>), Dest2, Str("t"), IntV(1), Ref(3)}
        famB   == {[objs |-> <<cat, DictB(<<<<"A", a>>, <<"Title", t>>, <<"Dest", Dest2>>>>),
                               DictB(<<<<"S", sv>>, <<"D", dv>>>>)>>, root |-> Ref(1)] :
                      a \in acts, t \in titles, sv \in svals, dv \in dvals}
    IN famA \cup famB

\* S6: name-tree nodes linked by Kids in every way (reached through Dests and through Names/Dests)
KidVals(n) == {None, IntV(1), Arr(<<>>)} \cup {Arr(<<Ref(a)>>) : a \in 0..n}
                 \cup {Arr(<<Ref(a), Ref(b)>>) : a \in 1..n, b \in 1..n}
U_kids ==
    \* the name tree is Names/Dests (PDF 1.2); a catalog /Dests is a PDF 1.1 dictionary of destinations (total reader)
    LET cats == {DictB(<<<<"Outlines", Dict(<<>>)>>, <<"Names", DictB(<<<<"Dests", Ref(2)>>>>)>>>>)} \cup
                (IF N <= 3 THEN {DictB(<<<<"Outlines", Dict(<<>>)>>, <<"Dests", Ref(2)>>>>)} ELSE {})
        node == {DictB(<<<<"Kids", k>>>>) : k \in KidVals(N)} \cup {IntV(7)}
    IN {[objs |-> <<c>> \o o, root |-> Ref(1)] : c \in cats, o \in Seqs(N - 1, node)}

\* S7: the Names array of a name tree: keys and values of every kind
U_names ==
    LET cat   == DictB(<<<<"Outlines", Dict(<<>>)>>, <<"Names", DictB(<<<<"Dests", Ref(2)>>>>)>>>>)
        keys  == {Str("t"), Name("Other"), IntV(1)}
        vals  == {Ref(3), Ref(0), IntV(1), Dict(<<>>), DictB(<<<<"D", Dest2>>>>), DictB(<<<<"D", Arr(<<IntV(1)>>)>>>>),
                  DictB(<<<<"D", IntV(1)>>>>)}
        nms   == {IntV(1), Arr(<<>>)} \cup {Arr(<<k>>) : k \in keys} \cup {Arr(<<k, v>>) : k \in keys, v \in vals}
                    \cup {Arr(<<Str("t"), DictB(<<<<"D", Dest2>>>>), k, v>>) : k \in keys, v \in vals}
        o3s   == {DictB(<<<<"D", d>>>>) : d \in {None, IntV(1), Arr(<<>>), Arr(<<IntV(1)>>), Dest2}}
                    \cup {Arr(<<>>), Arr(<<IntV(1)>>), Dest2, IntV(7)}
    IN {[objs |-> <<cat, DictB(<<<<"Names", nm>>>>), o3>>, root |-> Ref(1)] : nm \in nms, o3 \in o3s}

\* S8: an image XObject whose entries are bound to every kind
U_img ==
    LET page(xv) == DictB(<<<<"Type", Name("Page")>>,
                            <<"Resources", DictB(<<<<"XObject", DictB(<<<<"Im1", xv>>>>)>>>>)>>>>)
        img(sub, wd, cs, fl, b) == Stream(Bind(<<<<"Subtype", sub>>, <<"Width", wd>>, <<"Height", IntV(2)>>,
                                                 <<"ColorSpace", cs>>, <<"Filter", fl>>, <<"BitsPerComponent", b>>>>), "")
        good == img(Name("Image"), IntV(2), Name("DeviceRGB"), None, IntV(8))
        famX == {[objs |-> <<page(xv), o2>>, root |-> Ref(1)] :
                    xv \in {Ref(2), Ref(0), Ref(1), IntV(1), Dict(<<>>)}, o2 \in {good, Dict(<<>>), IntV(7), Ref(2)}}
        famI == {[objs |-> <<page(Ref(2)), img(sub, wd, cs, fl, b)>>, root |-> Ref(1)] :
                    sub \in {Name("Image"), Name("Other"), None, IntV(1)}, wd \in {IntV(2), RealV, None},
                    cs \in AllVals(2, {"DeviceRGB"}) \cup {None, Arr(<<Name("Indexed")>>)},
                    fl \in {None, Arr(<<IntV(1)>>)}, b \in {None, RealV}}
    IN famX \cup famI

\* S9: table of contents: titles of every byte-order-mark / parity class on a document with a real page
Titles == {"", "a", "ab", "BE", "BE+1", "BE+2", "LE", "LE+1", "LE+2"}
U_toc ==
    LET cat  == DictB(<<<<"Outlines", Ref(2)>>, <<"Pages", Ref(3)>>>>)
        pgs  == DictB(<<<<"Type", Name("Pages")>>, <<"Kids", Arr(<<Ref(4)>>)>>, <<"Count", IntV(1)>>>>)
        pg   == DictB(<<<<"Type", Name("Page")>>, <<"Parent", Ref(3)>>>>)
        item(t, p) == DictB(<<<<"Dest", Arr(<<p, Name("Fit")>>)>>, <<"Title", t>>>>)
    IN {[objs |-> <<cat, item(t, p), pgs, pg>>, root |-> Ref(1)] :
            t \in {Str(x) : x \in Titles} \cup {IntV(1), Ref(4)}, p \in {Ref(4), IntV(1), Ref(0)}}

\* S10: page tree whose /Count entries are bound to every kind, incl. integers near i64::MAX
U_pages ==
    LET cat  == DictB(<<<<"Type", Name("Catalog")>>, <<"Pages", Ref(2)>>>>)
        cnts == AllVals(4, {}) \cup {None, IntV(Huge), IntV(300)}
        pg   == DictB(<<<<"Type", Name("Page")>>, <<"Parent", Ref(2)>>>>)
        pgs(c) == DictB(<<<<"Type", Name("Pages")>>, <<"Kids", Arr(<<>>)>>, <<"Count", c>>, <<"Parent", Ref(2)>>>>)
        kid  == {pg} \cup {pgs(c) : c \in cnts}
        root(ks) == DictB(<<<<"Type", Name("Pages")>>, <<"Kids", Arr(ks)>>, <<"Count", IntV(2)>>>>)
        kss  == {<<Ref(3), Ref(4)>>, <<Ref(3), Ref(3), Ref(4), Ref(3)>>, <<Ref(4), Ref(3), Ref(4)>>}
    IN {[objs |-> <<cat, root(ks), k3, k4>>, root |-> Ref(1)] : ks \in kss, k3 \in kid, k4 \in kid}

Universe(x) ==
    CASE x = "deref" -> U_deref [] x = "cont" -> U_cont [] x = "rsrc" -> U_rsrc [] x = "links" -> U_links
      [] x = "dest" -> U_dest [] x = "kids" -> U_kids [] x = "names" -> U_names [] x = "img" -> U_img
      [] x = "toc" -> U_toc [] x = "pages" -> U_pages

\* the walker runs made on every document of a scenario: <<walker, argument>>
Runs(x) ==
    CASE x = "deref" -> {<<"deref", i>> : i \in 0..N}
      [] x = "cont"  -> {<<"cont", 1>>, <<"cont", 2>>}
      [] x = "rsrc"  -> {<<"rsrc", 1>>}
      [] x = "links" -> IF N <= 3 THEN {<<"outl", 0>>, <<"toc", 0>>} ELSE {<<"outl", 0>>}
      [] x = "dest"  -> {<<"outl", 0>>, <<"toc", 0>>}
      [] x = "kids"  -> {<<"nd", i>> : i \in 2..N} \cup {<<"outl", 0>>}      \* object 1 (the catalog) has no Kids
      [] x = "names" -> {<<"nd", i>> : i \in 1..3} \cup {<<"outl", 0>>}
      [] x = "img"   -> {<<"img", 1>>}
      [] x = "toc"   -> {<<"toc", 0>>}
      [] x = "pages" -> {<<"pages", 0>>}

WInit(ww, d, a) ==
    CASE ww = "deref" -> DerefInit(Ref(a))
      [] ww = "cont"  -> ContInit(d, a)
      [] ww = "rsrc"  -> RsrcInit(d, a)
      [] ww = "nd"    -> NdInit(GetDictionary(d, a))
      [] ww = "outl"  -> OutInit(d)
      [] ww = "toc"   -> OutInit(d)
      [] ww = "img"   -> ImgInit(d, a)
      [] ww = "pages" -> PgInit(d)

\* the runs made on a chain document: the walker that follows the chain, started on the page / the document,
\* on the head and in the middle of the chain
ChainRuns(f, L) ==
    LET mid == ChainHead + (L \div 2) IN
    CASE f = "parent"   -> {<<"rsrc", 3>>, <<"rsrc", ChainHead>>, <<"rsrc", mid>>, <<"pages", 0>>}
      [] f = "first"    -> {<<"outl", 0>>, <<"toc", 0>>}
      [] f = "next"     -> {<<"outl", 0>>, <<"toc", 0>>}
      [] f = "kids"     -> {<<"nd", ChainHead>>, <<"nd", mid>>, <<"outl", 0>>, <<"toc", 0>>}
      [] f = "kidswide" -> {<<"nd", ChainHead>>, <<"outl", 0>>}
      [] f = "pagekids" -> {<<"pages", 0>>, <<"nd", 2>>, <<"nd", ChainHead>>}
      [] f = "contents" -> {<<"cont", 3>>}
      [] f = "refchain" -> {<<"deref", ChainHead>>, <<"cont", 3>>, <<"rsrc", 3>>, <<"outl", 0>>}

\* recursion depth of the walker state: frames beyond its first
Depth(ww, st) ==
    LET below(q) == IF Len(q) = 0 THEN 0 ELSE Len(q) - 1 IN
    CASE ww = "rsrc" -> st.depth
      [] ww = "nd"   -> below(st.stack)
      [] ww \in {"outl", "toc"} -> IF st.pc = "nd" THEN below(st.nd.stack)
                                   ELSE IF FirstWalkIterative THEN 0 ELSE below(st.stack)
      [] OTHER -> 0

Init ==
    \/ \E x \in Scen \ {"chain"} : \E d \in Universe(x) : \E r \in Runs(x) :
        /\ sc = x /\ doc = d /\ w = r[1] /\ arg = r[2]
        /\ s = WInit(r[1], d, r[2])
        /\ steps = 0 /\ fam = "" /\ len = 0 /\ md = 0
    \/ /\ "chain" \in Scen
       /\ \E f \in ChainFams : \E L \in ChainLens : \E r \in ChainRuns(f, L) :
            /\ sc = "chain" /\ doc = ChainDoc(f, L) /\ w = r[1] /\ arg = r[2]
            /\ s = WInit(r[1], ChainDoc(f, L), r[2])
            /\ steps = 0 /\ fam = f /\ len = L /\ md = 0

Running(ww) == w = ww /\ s.pc \notin Final
Advance     == /\ steps' = steps + 1 /\ UNCHANGED <<doc, sc, w, arg, fam, len>>
               /\ md' = IF Depth(w, s') > md THEN Depth(w, s') ELSE md

\* one action per walker (top-level disjuncts of Next, so that TLC's coverage names them)
StepDeref == /\ Running("deref") /\ s' = DerefStep(doc, s) /\ Advance
StepCont  == /\ Running("cont")  /\ s' = ContStep(doc, s)  /\ Advance
StepRsrc  == /\ Running("rsrc")  /\ s' = RsrcStep(doc, s)  /\ Advance
StepNd    == /\ Running("nd")    /\ s' = NdStep(doc, s)    /\ Advance
StepOut   == /\ Running("outl")  /\ s' = OutStep(doc, s)   /\ Advance
StepToc   == /\ Running("toc")   /\ s' = TocStep(doc, s)   /\ Advance
StepImg   == /\ Running("img")   /\ s' = ImgStep(doc, s)   /\ Advance
StepPg    == /\ Running("pages") /\ s' = PgStep(doc, s)    /\ Advance

Next == StepDeref \/ StepCont \/ StepRsrc \/ StepNd \/ StepOut \/ StepToc \/ StepImg \/ StepPg

Spec == Init /\ [][Next]_vars /\ WF_vars(Next)

-----------------------------------------------------------------------------
(* what TLC checks *)

PcOK == s.pc \in Final \cup {"run", "nd", "post", "decode"}

\* C13 on the design: every finished run returned a value or an error
TotalInv == s.pc \in Final => Total(s.pc)

\* termination variants (a violated variant is a walker that can run away)
Bound ==
    CASE w = "deref" -> DerefLimit + 2
      [] w = "cont"  -> DerefLimit + 1
      [] w = "rsrc"  -> NObj(doc) + 2
      [] w = "img"   -> SizeDoc(doc)
      [] w = "pages" -> 2 * NObj(doc) + 2
      [] OTHER       -> 8 * SizeDoc(doc) + 8
Bounded == steps <= Bound

\* recursion depth of the guarded recursion (already_seen) never exceeds the number of objects
RsrcDepth == w = "rsrc" => s.depth <= NObj(doc)

\* the depth dimension: no walker uses more frames than the machine stack has ...
StackOK == md + 1 <= StackFrames \/ (w = "rsrc" /\ md <= StackFrames)
\* ... and on the chain families outcome and greatest depth are the closed forms of Queries (which Trace_Queries
\* evaluates for the recorded chains of up to 100 000 links)
ChainOK ==
    (sc = "chain" /\ s.pc \in Final) =>
        /\ [pc |-> s.pc, cls |-> s.cls] = ChainOutcome(fam, len, w, arg)
        /\ md = ChainMaxDepth(fam, len, w, arg)
        /\ (w = "rsrc" /\ arg = 3 /\ s.pc = "ok") => Len(s.ids) = ChainRsrcN(fam, len)
        /\ (w = "cont" /\ arg = 3 /\ s.pc = "ok") => Len(s.out) = ChainContN(fam, len)

\* liveness: every run finishes
Terminates == <>(s.pc \in Final)

Result == CASE w = "cont" -> s.out [] w = "rsrc" -> s.ids [] w = "pages" -> s.out [] OTHER -> <<>>

EmitInv ==
    (Emit /\ s.pc \in Final) =>
        PrintT(<<"REPLAY", ToJson([sc |-> sc, doc |-> doc, w |-> w, arg |-> arg, pc |-> s.pc, cls |-> s.cls,
                                   res |-> Result, steps |-> steps, fam |-> fam, len |-> len, md |-> md,
                                   scaled |-> (DerefLimit # 128)])>>)      \* limits scaled down: chain outcomes are the scale model's
=============================================================================
