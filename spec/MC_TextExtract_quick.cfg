SPECIFICATION Spec
CONSTANTS
  N = 3
  FmIds = {"domain", "plain", "broken", "partial"}
  EmitIds = {"domain", "plain", "broken"}
INVARIANTS FunctionForm A B C Domain BrokenFails EmitInv
CHECK_DEADLOCK FALSE
