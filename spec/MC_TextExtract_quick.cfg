SPECIFICATION Spec
CONSTANTS
  N = 3
  NPre = 2
  FmIds = {"domain", "plain", "broken", "partial"}
  EmitIds = {"domain", "plain", "broken"}
  Rep <- AsCode
INVARIANTS FunctionForm A B C Domain Classified EmitInv
CHECK_DEADLOCK FALSE
