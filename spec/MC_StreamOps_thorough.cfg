SPECIFICATION Spec
CONSTANTS
  MaxSteps = 6
  DevAvg = FALSE
  DevArr = FALSE
  DevStale = FALSE
INVARIANTS LengthInv StepOK WitnessPrint ActionPrint
CHECK_DEADLOCK FALSE
