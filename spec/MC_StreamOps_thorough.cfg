SPECIFICATION Spec
CONSTANTS
  MaxSteps = 6
  DevAvg = FALSE
  DevArr = FALSE
  DevStale = FALSE
  DevEmpty = FALSE
  Disturbs = FALSE
  DevRows = FALSE
  DevInd = FALSE
  DevDocInd = FALSE
INVARIANTS LengthInv StepOK WitnessPrint ActionPrint
CHECK_DEADLOCK FALSE
