SPECIFICATION Spec
CONSTANTS
  Lens = {2}
  NCodes = 2
  MaxDefs = 2
  Dev_h34 = FALSE
  Dev_h35 = FALSE
  Emit = TRUE
  KnownClasses = {}
  Rich = FALSE
  SingleRangeStr = FALSE
  Styles <- GramStyles
  Dev_gram <- GramAsIs
  BaseVal <- BaseMid
INVARIANTS RefinesExceptKnown AcceptsExceptKnown SegmentationOK MapsOK DomainOK BuildForm EmitInv
CHECK_DEADLOCK FALSE
