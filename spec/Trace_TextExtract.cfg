SPECIFICATION Spec
POSTCONDITION Consumed
CHECK_DEADLOCK FALSE
