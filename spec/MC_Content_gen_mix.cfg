SPECIFICATION Spec
CONSTANTS
  Universe = "mix"
  Emit = TRUE
  SepMode = "content"
INVARIANTS RoundTrip EmitInv
CHECK_DEADLOCK FALSE
