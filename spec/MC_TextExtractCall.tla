------------------------- MODULE MC_TextExtractCall -------------------------
(* The call level of TextExtract: extract_text_chunks(page_numbers) on documents of NP pages whose   *)
(* font resource names collide (every page binds /F1 -- to a WinAnsi font, a MacRoman font, a font    *)
(* with a ToUnicode CMap, a broken one, a failing one, or not at all), for every list of at most      *)
(* MaxNums page numbers over 1..NP+1 (any order, repeats, NP+1 names no page).  One action per step   *)
(* of the loop: PageBegin (look the page up, build its encodings), OpStep (one content operation,     *)
(* TextExtract!Step), PageEnd (flush), UnknownPage, CallEnd.                                          *)
(* Dev = {}: as the code is -- the result must be the concatenation of the one-page results (clause   *)
(* (e)), inside C16's domain the shown text of every requested page comes back in the order given.    *)
(* Dev = {"carry"}: one name -> encoding map for the whole call.  TLC must refute clause (e) for it,   *)
(* and every refutation must be a later page whose binding of a name differs from (or lacks) what an   *)
(* earlier page of the call bound (CarryExplained).                                                    *)
EXTENDS TextExtract, Json

CONSTANTS NP, MaxNums, Dev, Emit

VARIABLES spec, nums, k, j, st, carried, out, pc
vars == <<spec, nums, k, j, st, carried, out, pc>>

NoDev == {}
CarryDev == {"carry"}

\* codes 65 (A) and 233: WinAnsi e-acute, MacRoman E-grave -- a code on which the tables differ
W == [kind |-> "table", pre |-> TRUE, cell |-> (65 :> <<65>>) @@ (233 :> <<233>>)]
M == [kind |-> "table", pre |-> TRUE, cell |-> (65 :> <<65>>) @@ (233 :> <<200>>)]
U == [kind |-> "table", pre |-> FALSE, cell |-> (65 :> <<102, 105>>) @@ (233 :> <<233>>)]
FmIds == <<"W", "M", "U", "B", "X", "E", "MW">>
Fm(id) == CASE id = "W"  -> ("F1" :> W)
            [] id = "M"  -> ("F1" :> M)
            [] id = "U"  -> ("F1" :> U)
            [] id = "B"  -> ("F1" :> [kind |-> "broken"])
            [] id = "X"  -> ("F1" :> [kind |-> "failing"])
            [] id = "E"  -> <<>>
            [] id = "MW" -> ("F1" :> M) @@ ("F2" :> W)

FontsJson == [id \in {FmIds[i] : i \in 1..Len(FmIds)} |->
                 [n \in DOMAIN Fm(id) |-> IF Fm(id)[n].kind = "table"
                                          THEN [kind |-> "table", cells |-> [c \in {65, 233} |-> CellOf(Fm(id)[n], c)]]
                                          ELSE [kind |-> Fm(id)[n].kind, cells |-> <<>>]]]
ASSUME PrintT(<<"FONTS", ToJson(FontsJson)>>)

Nm(n) == [k |-> "name", v |-> n]
S(cs) == [k |-> "str", v |-> cs]
I(n) == [k |-> "int", v |-> n]
Op(o, as) == [op |-> o, args |-> as]
TfOp(n) == Op("Tf", <<Nm(n), I(12)>>)

OpSeqs == <<
    <<TfOp("F1"), Op("Tj", <<S(<<233, 65>>)>>)>>,
    <<Op("Tj", <<S(<<65>>)>>), TfOp("F1"), Op("Tj", <<S(<<233>>)>>), Op("ET", <<>>)>>,      \* text before any Tf of the page
    <<TfOp("F2"), Op("Tj", <<S(<<233>>)>>), TfOp("F1"), Op("Tj", <<S(<<233>>)>>)>> >>

\* page specification i = (font map, operation sequence)
NSpecs == Len(FmIds) * Len(OpSeqs)
SpecFm(i) == FmIds[((i - 1) \div Len(OpSeqs)) + 1]
SpecOps(i) == OpSeqs[((i - 1) % Len(OpSeqs)) + 1]
Doc == [p \in 1..NP |-> [fm |-> Fm(SpecFm(spec[p])), ops |-> SpecOps(spec[p])]]

Init == /\ spec \in [1..NP -> 1..NSpecs]
        /\ nums \in UNION {[1..n -> 1..(NP + 1)] : n \in 0..MaxNums}
        /\ k = 1 /\ j = 0 /\ st = Start(<<>>) /\ carried = <<>> /\ out = <<>> /\ pc = "call"

PageBegin == /\ pc = "call" /\ k <= Len(nums) /\ nums[k] \in 1..NP
             /\ st' = Start(EffectiveFm(carried, Doc[nums[k]].fm, Dev))
             /\ j' = 0 /\ pc' = "page"
             /\ UNCHANGED <<spec, nums, k, carried, out>>

UnknownPage == /\ pc = "call" /\ k <= Len(nums) /\ nums[k] \notin 1..NP
               /\ out' = Append(out, ErrChunk) /\ k' = k + 1
               /\ UNCHANGED <<spec, nums, j, st, carried, pc>>

OpStep == /\ pc = "page" /\ j < Len(Doc[nums[k]].ops)
          /\ st' = Step(EffectiveFm(carried, Doc[nums[k]].fm, Dev), st, Doc[nums[k]].ops[j + 1])
          /\ j' = j + 1
          /\ UNCHANGED <<spec, nums, k, carried, out, pc>>

PageEnd == /\ pc = "page" /\ j = Len(Doc[nums[k]].ops)
           /\ out' = out \o Finish(st)
           /\ carried' = CarryAfter(carried, Doc[nums[k]].fm, Dev)
           /\ k' = k + 1 /\ pc' = "call"
           /\ UNCHANGED <<spec, nums, j, st>>

CallEnd == /\ pc = "call" /\ k > Len(nums) /\ pc' = "done"
           /\ UNCHANGED <<spec, nums, k, j, st, carried, out>>

Next == PageBegin \/ UnknownPage \/ OpStep \/ PageEnd \/ CallEnd
Spec == Init /\ [][Next]_vars

-----------------------------------------------------------------------------
Done == pc = "done"
ET == ExtractText(out)

FunctionForm == Done => out = CallRun(Doc, nums, Dev)
\* (e) per-page independence
E == Done => out = CallChunks(Doc, nums)
C == Done => ClauseC(out, ET)
Domain == Done => (CallInDomain(Doc, nums) => CallReturnsShown(Doc, nums, ET))

\* a carried map can only hurt where a later page's binding of a name differs from, or lacks, what an
\* earlier page of the same call bound
Collision == \E a, b \in 1..Len(nums) :
                 /\ a < b /\ nums[a] \in 1..NP /\ nums[b] \in 1..NP
                 /\ \E n \in Known(Doc[nums[a]].fm) : n \notin DOMAIN Doc[nums[b]].fm \/ Doc[nums[b]].fm[n] # Doc[nums[a]].fm[n]
CarryExplained == Done => (out # CallChunks(Doc, nums) => Collision)

EmitInv ==
    (Emit /\ Done) =>
        PrintT(<<"REPLAY", ToJson([pages |-> [p \in 1..NP |-> [fm |-> SpecFm(spec[p]), ops |-> SpecOps(spec[p])]],
                                   nums |-> nums, chunks |-> out, et |-> ET,
                                   indomain |-> CallInDomain(Doc, nums), shown |-> CallShown(Doc, nums),
                                   collision |-> Collision])>>)
=============================================================================
