SPECIFICATION Spec
CONSTANTS
  Variant = "MUTANT_NAME"
  MaxIntr = 1
  KeepHist = FALSE
  MaxCalls = 3
  MinBuf = 0
  MaxBuf = 2
  RawChoices = {FALSE, TRUE}
  Emit = FALSE
INVARIANTS TypeOK Prefix ChunkFree ErrSurfaces NoSpurious Later Refines
PROPERTIES Retry RetrySink
CHECK_DEADLOCK FALSE
