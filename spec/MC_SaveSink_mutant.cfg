SPECIFICATION Spec
CONSTANTS
  Variant = "MUTANT_NAME"
  MaxIntr = 1
  KeepHist = FALSE
  MaxCalls = 3
  MinBuf = 0
  MaxBuf = 2
  RawChoices = {FALSE, TRUE}
  DevIgnoredWrite = FALSE
  DevMutatesDoc = FALSE
  Emit = FALSE
INVARIANTS TypeOK Accounting Prefix ChunkFree ErrSurfaces NoSpurious Later Refines
PROPERTIES DocUnchanged Accounted Retry RetrySink
CHECK_DEADLOCK FALSE
