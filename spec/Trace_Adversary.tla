-------------------------- MODULE Trace_Adversary --------------------------
(***************************************************************************)
(* C04 - impl -> spec.  Every record is one adversarial input together with *)
(* what the supervisor of the isolated worker observed when lopdf was given *)
(* it:                                                                      *)
(*   [id, group (entry-point group), ep, kind, loc, mcl, refused, len,      *)
(*    peak (live bytes at the peak), dict (final stream dictionary), bytes  *)
(*    (final bytes, only where the                                          *)
(*    classifier needs them), nest (kinds of deep nesting in the input),    *)
(*    rep (the shape that costs depth or time: "repeat.<token>" repeated    *)
(*    >= 10^4 times, "chain.<kind>" of >= 100 objects, "decoy.<word>"; or ""),*)
(*    insx (the inserted key whose integer value equals the refused size),  *)
(*    insb (the first inserted key with a huge integer value), or "",       *)
(*    wzero (xref stream with three zero widths)]                           *)
(* kind: ok | err (the call returned) | panic | stackoverflow | allocabort  *)
(*       (an allocation failed and the process aborted) | abort | hang.     *)
(* refused: the largest single allocation request the worker's allocator    *)
(*       refused, as decimal digits (<<>>: none).                           *)
(*                                                                          *)
(* The declarative layer is the property: Acceptable(rec) - the call        *)
(* returned a value or an error, asked for no single allocation beyond      *)
(* Bound(len) = 64 MiB + 4096 x len (requests above 2^46 bytes cannot be    *)
(* granted by any machine; handling their refusal is what the property      *)
(* asks) and never held more than 64 MiB + 8192 x len at once.  Everything else here only NAMES a violation: Class(rec) is the   *)
(* narrow signature (entry-point group, failure kind, and where: the panic  *)
(* location class / the number that was asked for / the nesting that blew   *)
(* the stack).                                                              *)
(***************************************************************************)
EXTENDS Bytes, Json, IOUtils, TLC

Recs == ndJsonDeserialize(IOEnv.TRACE)

VARIABLE l

-----------------------------------------------------------------------------
(* The resource bound of the property *)

MinNat(a, b) == IF a < b THEN a ELSE b
\* THE BUDGETS.  Memory: M(n) = 64 MiB + min(4096 n, 1 GiB) + 32 n bytes, for a single request and for the live total
\* (one deflate stage may expand 1032 times and its output vector is held about three times over while it grows -
\* hence 4096 n for small inputs; beyond 1 GiB of such credit 32 bytes per input byte, several times what the legal
\* corpus keeps per byte when loaded).  Time: T(n) = 1.5 s + 0.25 us x n, measured in the worker, re-measured alone
\* before it counts ("slow"); the legal corpus loads at under 0.1 us per byte.
M(len) == 67108864 + MinNat(4096 * MinNat(len, 300000), 1073741824) + 32 * MinNat(len, 20000000)
BoundDigits(len) == NatDigits(M(len))
TwoTo46 == <<7, 0, 3, 6, 8, 7, 4, 4, 1, 7, 7, 6, 6, 4>>

\* a refused request that an ordinary machine would have granted and that is out of proportion to the input
BigRequest(rec) ==
    /\ rec.refused # <<>>
    /\ ~DigitsLE(rec.refused, BoundDigits(rec.len))
    /\ DigitsLE(rec.refused, TwoTo46)

\* live memory at its peak, out of proportion to the input (many small requests add up)
PeakBoundDigits(len) == NatDigits(M(len))
BigPeak(rec) == rec.peak # <<>> /\ ~DigitsLE(rec.peak, PeakBoundDigits(rec.len))

\* capped: the worker's allocator had to refuse a request because the live total would have passed M(len)
Acceptable(rec) == rec.kind \in {"ok", "err"} /\ ~BigRequest(rec) /\ ~BigPeak(rec) /\ ~rec.capped

-----------------------------------------------------------------------------
(* Naming a violation *)

KnownNames ==
    << <<NameW, "W">>, <<NameSize, "Size">>, <<NameIndex, "Index">>, <<NameLength, "Length">>, <<NamePrev, "Prev">>,
       <<NameN, "N">>, <<NameFirst, "First">>,
       <<<<67, 111, 108, 117, 109, 110, 115>>, "Columns">>, <<<<67, 111, 108, 111, 114, 115>>, "Colors">>,
       <<<<80, 114, 101, 100, 105, 99, 116, 111, 114>>, "Predictor">>,
       <<<<66, 105, 116, 115, 80, 101, 114, 67, 111, 109, 112, 111, 110, 101, 110, 116>>, "BitsPerComponent">>,
       <<<<80, 112, 114>>, "Ppr">>, <<<<66, 112, 112>>, "Bpp">>,
       <<<<87, 105, 100, 116, 104>>, "Width">>, <<<<72>>, "H">>, <<<<72, 101, 105, 103, 104, 116>>, "Height">>, <<<<66, 80, 67>>, "BPC">> >>
NameString(bs) ==
    LET i == SelectInSeq(KnownNames, LAMBDA p : p[1] = bs) IN IF i = 0 THEN "other" ELSE KnownNames[i][2]

\* integers of a dictionary value (TLA-flavoured pairs) with the key they stand under: <<[name, digits]>>
RECURSIVE IntsOf(_, _)
IntsOf(v, key) ==
    IF v.k = "int" THEN (IF v.neg THEN <<>> ELSE <<[name |-> key, digits |-> v.v]>>)
    ELSE IF v.k = "arr" THEN FoldLeft(LAMBDA acc, x : acc \o IntsOf(x, key), <<>>, v.v)
    ELSE IF v.k = "dict" THEN FoldLeft(LAMBDA acc, p : acc \o IntsOf(p[2], p[1]), <<>>, v.v)
    ELSE <<>>
DictInts(d) == FoldLeft(LAMBDA acc, p : acc \o IntsOf(p[2], p[1]), <<>>, d)

\* the names a number spelled in the bytes stands under: for every occurrence the nearest "/Name" before it
NameBeforeAt(bytes, pos) ==
    LET lo == IF pos > 80 THEN pos - 80 ELSE 1
        win == SubSeq(bytes, lo, pos - 1)
        sl == SelectLastInSeq(win, LAMBDA b : b = 47)
    IN IF sl = 0 THEN <<>>
       ELSE LET rest == SubSeq(win, sl + 1, Len(win))
                stop == SelectInSeq(rest, LAMBDA b : ~IsRegular(b))
            IN IF stop = 0 THEN rest ELSE SubSeq(rest, 1, stop - 1)
\* start positions of the huge numbers spelled in the bytes: digit runs of 10 to 19 digits
BigNumberStarts(bytes) ==
    LET r == FoldLeft(LAMBDA acc, i :
                 IF IsDigit(bytes[i]) THEN (IF acc.st = 0 THEN [acc EXCEPT !.st = i] ELSE acc)
                 ELSE (IF acc.st # 0 /\ i - acc.st >= 10 /\ i - acc.st <= 19 THEN [out |-> acc.out \cup {acc.st}, st |-> 0]
                       ELSE [acc EXCEPT !.st = 0]),
               [out |-> {}, st |-> 0], [i \in 1..Len(bytes) |-> i])
    IN r.out
NamesOfBigNumbers(bytes) == {NameBeforeAt(bytes, i) : i \in BigNumberStarts(bytes)} \ {<<>>}

\* #XX escapes of a name as spelled in a file
Unescape(raw) ==
    FoldLeft(LAMBDA acc, b :
                IF acc.h = 1 THEN [acc EXCEPT !.h = 2, !.v = (HexVal(b) % 16)]
                ELSE IF acc.h = 2 THEN [o |-> Append(acc.o, (acc.v * 16) + (HexVal(b) % 16)), h |-> 0, v |-> 0]
                ELSE IF b = 35 THEN [acc EXCEPT !.h = 1]
                ELSE [acc EXCEPT !.o = Append(@, b)],
             [o |-> <<>>, h |-> 0, v |-> 0], raw).o

\* which number of the input was asked for as an allocation size.
\* Entry points that take a stream dictionary: the huge integers of the final dictionary (ten digits or more, inside the
\* i64 range - beyond it lopdf reads a real) are the candidates; one is named by a fixed priority so that the signature
\* does not depend on which other entries were also mutated: the widths of a cross-reference stream are allocated
\* without a check (abort), the predictor geometry with one (handled refusal).
\* Whole files: the huge numbers spelled in the bytes, named by the keys they stand under, same priority.
I64Max == <<9, 2, 2, 3, 3, 7, 2, 0, 3, 6, 8, 5, 4, 7, 7, 5, 8, 0, 7>>
Predictors == <<"Columns", "Colors", "BitsPerComponent", "Ppr", "Bpp">>
Others == <<"Size", "Index", "N", "First", "Length", "Prev", "Predictor", "Width", "Height", "H", "BPC", "other">>
Priority(kind) == IF kind = "allocabort" THEN <<"W">> \o Predictors \o Others ELSE Predictors \o <<"W">> \o Others
AskedFor(rec) ==
    LET names == IF rec.dict # <<>>
                 THEN LET ints == DictInts(rec.dict) IN
                      {NameString(ints[i].name) : i \in {j \in 1..Len(ints) : Len(ints[j].digits) >= 10 /\ DigitsLE(ints[j].digits, I64Max)}}
                 ELSE IF rec.bytes # <<>> THEN {NameString(Unescape(n)) : n \in NamesOfBigNumbers(rec.bytes)}
                 ELSE {}
        pr == Priority(rec.kind)
        hit == SelectInSeq(pr, LAMBDA n : n \in names)
        \* an inserted key explains the request when its value is the size asked for, or when nothing else does
    IN IF rec.insx # "" THEN "insert." \o rec.insx
       ELSE IF hit = 0 \/ pr[hit] = "other" THEN (IF rec.insb # "" THEN "insert." \o rec.insb ELSE IF hit = 0 THEN "derived" ELSE "other")
       ELSE pr[hit]

JoinKinds(ks) == FoldLeft(LAMBDA acc, k : IF acc = "" THEN k ELSE acc \o "+" \o k, "", ks)

Where(rec) ==
    IF rec.kind = "panic" THEN rec.loc \o ":" \o rec.mcl
    ELSE IF rec.kind = "stackoverflow" THEN (IF rec.nest # <<>> THEN "nest." \o JoinKinds(rec.nest)
                                             ELSE IF rec.rep # "" THEN rec.rep ELSE "unclassified")
    ELSE IF rec.kind = "allocabort" THEN
         (IF rec.refused = <<>> \/ DigitsLE(rec.refused, BoundDigits(rec.len))                      \* the total, not one request
          THEN (IF rec.wzero THEN "exhausted.W000" ELSE IF rec.rep # "" THEN "exhausted." \o rec.rep ELSE "exhausted")
          ELSE AskedFor(rec))
    ELSE IF rec.kind = "hang" THEN (IF rec.wzero THEN "W000" ELSE IF rec.nest # <<>> THEN "nest." \o JoinKinds(rec.nest)
                                    ELSE IF rec.rep # "" THEN rec.rep ELSE "unclassified")
    ELSE IF rec.kind \in {"ok", "err"} /\ BigRequest(rec) THEN AskedFor(rec)                         \* a refused big request, handled
    ELSE IF rec.kind \in {"ok", "err"} THEN (IF rec.wzero THEN "W000" ELSE IF rec.rep # "" THEN rec.rep ELSE AskedFor(rec))   \* memory piled up
    ELSE IF rec.kind = "slow" THEN (IF rec.rep # "" THEN rec.rep ELSE "unclassified")                 \* over the time budget, twice
    ELSE "unclassified"

\* an input of a named amplification shape (rep) that goes over the memory budget in whatever way - a refused request
\* that was handled, the live total, an abort when the budget was reached - is one class: memory:<shape>
MemoryShape(rec) == rec.rep # "" /\ ~rec.wzero /\ rec.kind \in {"ok", "err", "allocabort"}
Class(rec) ==
    IF MemoryShape(rec) THEN "C04:" \o rec.group \o ":memory:" \o rec.rep
    ELSE
    "C04:" \o rec.group \o ":" \o (IF rec.kind \in {"ok", "err"} THEN (IF BigRequest(rec) THEN "bigalloc" ELSE "memory") ELSE rec.kind)
           \o ":" \o Where(rec)

Judge(rec) ==
    IF Acceptable(rec) THEN [v |-> "ok", sig |-> ""]
    ELSE [v |-> "bad", sig |-> Class(rec)]

Init == l = 1
Next == /\ l <= Len(Recs)
        /\ PrintT(<<"VERDICT", ToJson([i |-> l, id |-> Recs[l].id] @@ Judge(Recs[l]))>>)
        /\ l' = l + 1
Spec == Init /\ [][Next]_l
Consumed == TLCGet("stats").diameter = Len(Recs) + 1
=============================================================================
