---------------------------- MODULE ParallelLoad ----------------------------
(***************************************************************************)
(* The parallel object-loading phase of Reader::read (src/reader.rs) as a   *)
(* state machine (property C08).  The cross-reference table has already     *)
(* been merged (newest entry wins); its Normal entries are parsed by a pool *)
(* of workers in any order.  A worker that parsed an object stream expands  *)
(* it and hands the block of its members in under a mutex (AppendBlock);    *)
(* everything else goes into the order-insensitive BTreeMap collect.  After *)
(* the join the blocks are merged into the document (Merge).                *)
(*                                                                          *)
(* A file is abstracted to                                                  *)
(*   xref    : [Nums -> 0 (absent) | 999 (stored directly) | container number]             *)
(*   members : [Containers -> SUBSET Nums]    what each object stream holds *)
(* An object value is <<where, n>>: where = 0 for the directly stored copy, *)
(* = c for the copy inside container c, so different copies are different.  *)
(*                                                                          *)
(* DevFirstWins = TRUE models the loader as it was before the repair of     *)
(* finding C07/C08 h15 (blocks merged in completion order, first wins, the  *)
(* xref entry not consulted); FALSE the loader as it is (blocks sorted by   *)
(* container number, compressed objects taken only from the container the   *)
(* xref entry names).                                                       *)
(***************************************************************************)
EXTENDS Naturals, Sequences, FiniteSets, SequencesExt

CONSTANTS Workers, Containers, Nums, DevFirstWins

Absent == 0
Normal == 999

VARIABLES xref, members,      \* the file (chosen in Init, then constant)
          pending,            \* Normal entries not yet taken: containers and directly stored numbers
          busy,               \* [Workers -> entry being parsed, or 0]
          direct,             \* directly stored objects parsed so far (set of numbers)
          blocks,             \* container numbers in the order their blocks were handed in
          result, pc

plvars == <<xref, members, pending, busy, direct, blocks, result, pc>>

Entries == Containers \cup {n \in Nums : xref[n] = Normal}

PLInit ==
    /\ xref \in [Nums -> {Absent, Normal} \cup Containers]
    /\ members \in [Containers -> SUBSET Nums]
    /\ pending = Containers \cup {n \in Nums : xref[n] = Normal}
    /\ busy = [w \in Workers |-> 0]
    /\ direct = {} /\ blocks = <<>> /\ result = <<>> /\ pc = "load"

Take(w, e) ==
    /\ pc = "load" /\ busy[w] = 0 /\ e \in pending
    /\ busy' = [busy EXCEPT ![w] = e] /\ pending' = pending \ {e}
    /\ UNCHANGED <<xref, members, direct, blocks, result, pc>>

\* the worker finished parsing: a container hands its block in (under the mutex), anything else is collected
Finish(w) ==
    /\ pc = "load" /\ busy[w] # 0
    /\ IF busy[w] \in Containers
       THEN blocks' = Append(blocks, busy[w]) /\ UNCHANGED direct
       ELSE direct' = direct \cup {busy[w]} /\ UNCHANGED blocks
    /\ busy' = [busy EXCEPT ![w] = 0]
    /\ UNCHANGED <<xref, members, pending, result, pc>>

\* merge of the blocks in a given order into the map num -> <<where, num>> that already holds the direct objects
MergeBlocks(order, dir, xr, mem, firstWins) ==
    LET start == [n \in dir |-> <<0, n>>]
        ord == IF firstWins THEN order ELSE SortSeq(order, LAMBDA a, b : a < b)
        accept(c, n) == firstWins \/ xr[n] = Absent \/ xr[n] = c
        addBlock(acc, c) ==
            LET new == {n \in mem[c] : n \notin DOMAIN acc /\ accept(c, n)}
            IN [n \in DOMAIN acc \cup new |-> IF n \in DOMAIN acc THEN acc[n] ELSE <<c, n>>]
    IN FoldLeft(addBlock, start, ord)

Merge ==
    /\ pc = "load" /\ pending = {} /\ \A w \in Workers : busy[w] = 0
    /\ result' = MergeBlocks(blocks, direct, xref, members, DevFirstWins)
    /\ pc' = "done"
    /\ UNCHANGED <<xref, members, pending, busy, direct, blocks>>

PLNext == (\E w \in Workers, e \in Entries : Take(w, e)) \/ (\E w \in Workers : Finish(w)) \/ Merge

-----------------------------------------------------------------------------
(* Declarative layer *)

\* the outcome of the single-worker run that parses the entries in ascending order
SeqResult == MergeBlocks(SortSeq(SetToSeq(Containers), LAMBDA a, b : a < b), {n \in Nums : xref[n] = Normal}, xref, members, DevFirstWins)

Deterministic == pc = "done" => result = SeqResult

\* C07's clause on this level: a compressed object comes from the container its xref entry names
LatestWins == pc = "done" => \A n \in DOMAIN result :
                 (xref[n] \in Containers /\ n \in members[xref[n]]) => result[n] = <<xref[n], n>>
=============================================================================
