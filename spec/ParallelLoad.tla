---------------------------- MODULE ParallelLoad ----------------------------
(***************************************************************************)
(* The parallel object-loading phase of Reader::read (src/reader.rs) as a   *)
(* state machine (property C08).  The cross-reference table has already     *)
(* been merged (newest entry wins); its Normal entries are parsed by a pool *)
(* of workers in any order.  A worker that parsed an object stream expands  *)
(* it and hands the block of its members in under a mutex (AppendBlock);    *)
(* everything else goes into the order-insensitive BTreeMap collect.  After *)
(* the join the blocks are merged into the document (Merge).                *)
(*                                                                          *)
(* A file is abstracted to                                                  *)
(*   xref    : [Nums -> 0 (absent) | 999 (stored directly) | container number]             *)
(*   members : [Containers -> SUBSET Nums]    what each object stream holds *)
(* An object value is <<where, n>>: where = 0 for the directly stored copy, *)
(* = c for the copy inside container c, so different copies are different.  *)
(*                                                                          *)
(* DevFirstWins = TRUE models the loader as it was before the repair of     *)
(* finding C07/C08 h15 (blocks merged in completion order, first wins, the  *)
(* xref entry not consulted); FALSE the loader as it is (blocks sorted by   *)
(* container number, compressed objects taken only from the container the   *)
(* xref entry names).                                                       *)
(*                                                                          *)
(* Filtered loading (Document::load_filtered / Reader::read(Some(f))): the  *)
(* caller's filter sees every parsed object and may drop it.  drop is the   *)
(* set of numbers the filter drops (a pure function of the object, so the   *)
(* same in every run): a dropped directly stored object is not collected, a *)
(* dropped object stream is neither collected nor expanded (its members are *)
(* never seen), a dropped member is removed from its block before the block *)
(* is handed in.  drop = {} is the plain load.                              *)
(*                                                                          *)
(* Deferred streams: a directly stored stream whose content could not be    *)
(* read during parsing (its Length is itself a compressed object) is pushed *)
(* on a list under a mutex - in completion order - and filled in after the  *)
(* merge, each on its own; a stream whose late read fails stays empty.      *)
(* defer[n] says what a directly stored number is: "no" (not deferred),     *)
(* "ok" (filled in late) or "bad" (the late read fails).                    *)
(* Header numbers: the loader keys a block by the number in the object      *)
(* stream's HEADER, which need not be the number of the cross-reference     *)
(* entry that led to it (hdr[c]; the identity in a well-formed file) - two  *)
(* entries may lead to streams that claim the same number.  As the code is, *)
(* blocks are ordered by (header number, entry); DevTieByCompletion = TRUE  *)
(* models the loader before /repo ca537a5: a stable sort by header number   *)
(* only, which leaves equal numbers in completion order.                    *)
(*                                                                          *)
(* DevStopAtFirstFailure = TRUE models a loader that stops filling in at    *)
(* the first failure (a seeded change): which streams stay empty then       *)
(* depends on the completion order.                                         *)
(***************************************************************************)
EXTENDS Naturals, Sequences, FiniteSets, SequencesExt

CONSTANTS Workers, Containers, Nums, DevFirstWins,
          HdrChoices,          \* header numbers: a set of functions [Containers -> Nat]; {identity} = well-formed files only
          DevTieByCompletion,
          DeferU,              \* directly stored numbers that may be deferred streams; {} = none
          DevStopAtFirstFailure,
          DropU                \* numbers a filter may drop (SUBSET (Nums \cup Containers)); {} = plain loads only

Absent == 0
Normal == 999

VARIABLES xref, members,      \* the file (chosen in Init, then constant)
          drop,               \* what the caller's filter drops (chosen in Init, then constant)
          hdr,                \* [Containers -> Nat]: the number in each object stream's header (chosen in Init)
          defer,              \* [Nums -> {"no", "ok", "bad"}] (chosen in Init, then constant)
          late,               \* deferred streams in the order the workers pushed them
          filled,             \* streams whose content was filled in after the merge
          pending,            \* Normal entries not yet taken: containers and directly stored numbers
          busy,               \* [Workers -> entry being parsed, or 0]
          direct,             \* directly stored objects parsed so far (set of numbers)
          blocks,             \* container numbers in the order their blocks were handed in
          result, pc

plvars == <<xref, members, drop, hdr, defer, late, filled, pending, busy, direct, blocks, result, pc>>

Entries == Containers \cup {n \in Nums : xref[n] = Normal}

PLInit ==
    /\ xref \in [Nums -> {Absent, Normal} \cup Containers]
    /\ members \in [Containers -> SUBSET Nums]
    /\ drop \in SUBSET DropU
    /\ hdr \in HdrChoices
    /\ defer \in [Nums -> {"no", "ok", "bad"}]
    /\ \A n \in Nums : defer[n] # "no" => (n \in DeferU /\ xref[n] = Normal)
    /\ late = <<>> /\ filled = {}
    /\ pending = Containers \cup {n \in Nums : xref[n] = Normal}
    /\ busy = [w \in Workers |-> 0]
    /\ direct = {} /\ blocks = <<>> /\ result = <<>> /\ pc = "load"

Take(w, e) ==
    /\ pc = "load" /\ busy[w] = 0 /\ e \in pending
    /\ busy' = [busy EXCEPT ![w] = e] /\ pending' = pending \ {e}
    /\ UNCHANGED <<xref, members, drop, hdr, defer, late, filled, direct, blocks, result, pc>>

\* the worker finished parsing: a container hands its block in (under the mutex), anything else is collected
Finish(w) ==
    /\ pc = "load" /\ busy[w] # 0
    /\ IF busy[w] \in drop
       THEN UNCHANGED <<direct, blocks, late>>                   \* filter_func(..)? : neither collected nor expanded
       ELSE IF busy[w] \in Containers
       THEN blocks' = Append(blocks, busy[w]) /\ UNCHANGED <<direct, late>>
       ELSE /\ direct' = direct \cup {busy[w]} /\ UNCHANGED blocks
            /\ late' = IF defer[busy[w]] # "no" THEN Append(late, busy[w]) ELSE late
    /\ busy' = [busy EXCEPT ![w] = 0]
    /\ UNCHANGED <<xref, members, drop, hdr, defer, filled, pending, result, pc>>

\* merge of the blocks in a given order into the map num -> <<where, num>> that already holds the direct objects
MergeBlocksH(order, dir, xr, mem, firstWins, hd, tie) ==
    LET start == [n \in dir |-> <<0, n>>]
        pos(c) == CHOOSE i \in 1..Len(order) : order[i] = c
        before(a, b) == hd[a] < hd[b] \/ (hd[a] = hd[b] /\ (IF tie THEN pos(a) < pos(b) ELSE a < b))
        ord == IF firstWins THEN order ELSE SortSeq(order, before)
        accept(c, n) == firstWins \/ xr[n] = Absent \/ xr[n] = hd[c]
        addBlock(acc, c) ==
            LET new == {n \in mem[c] : n \notin DOMAIN acc /\ accept(c, n)}
            IN [n \in DOMAIN acc \cup new |-> IF n \in DOMAIN acc THEN acc[n] ELSE <<c, n>>]
    IN FoldLeft(addBlock, start, ord)
MergeBlocks(order, dir, xr, mem, firstWins) == MergeBlocksH(order, dir, xr, mem, firstWins, hdr, DevTieByCompletion)

\* the blocks as the workers hand them in: members the filter dropped are gone
Kept(mem, dr) == [c \in DOMAIN mem |-> mem[c] \ dr]

\* the late reads, in the order given: each on its own (as the code is), or stopping at the first failure
FillIn(order, df, stop) ==
    LET bad == SelectInSeq(order, LAMBDA n : df[n] = "bad")
        upto == IF stop /\ bad # 0 THEN bad - 1 ELSE Len(order)
    IN {order[i] : i \in {j \in 1..upto : df[order[j]] = "ok"}}

Merge ==
    /\ pc = "load" /\ pending = {} /\ \A w \in Workers : busy[w] = 0
    /\ result' = MergeBlocks(blocks, direct, xref, Kept(members, drop), DevFirstWins)
    /\ filled' = FillIn(late, defer, DevStopAtFirstFailure)
    /\ pc' = "done"
    /\ UNCHANGED <<xref, members, drop, hdr, defer, late, pending, busy, direct, blocks>>

PLNext == (\E w \in Workers, e \in Entries : Take(w, e)) \/ (\E w \in Workers : Finish(w)) \/ Merge

-----------------------------------------------------------------------------
(* Declarative layer *)

\* the outcome of the single-worker run that parses the entries in ascending order
SeqResult == MergeBlocks(SortSeq(SetToSeq(Containers \ drop), LAMBDA a, b : a < b), {n \in Nums : xref[n] = Normal} \ drop,
                         xref, Kept(members, drop), DevFirstWins)

\* the plain load of the same file
PlainResult == MergeBlocks(SortSeq(SetToSeq(Containers), LAMBDA a, b : a < b), {n \in Nums : xref[n] = Normal}, xref, members, DevFirstWins)

SeqFilled == FillIn(SortSeq(SetToSeq({n \in Nums : defer[n] # "no"} \ drop), LAMBDA a, b : a < b), defer, DevStopAtFirstFailure)

Deterministic == pc = "done" => (result = SeqResult /\ filled = SeqFilled)

\* every deferred stream whose late read can succeed is filled in, whatever the other ones do
AllFilled == pc = "done" => filled = {n \in Nums : defer[n] = "ok"} \ drop

\* C07's clause on this level: a compressed object comes from the container its xref entry names
LatestWins == (pc = "done" /\ \A c \in Containers : hdr[c] = c) => \A n \in DOMAIN result :
                 (xref[n] \in Containers /\ n \in members[xref[n]]) => result[n] = <<xref[n], n>>

\* Filtered loading is the plain load restricted: an object the file's cross-reference table lists is loaded
\* exactly when the plain load has it and the filter drops neither it nor the object stream that holds it,
\* and it is the same copy.  (Members no xref entry lists are taken from whichever kept stream comes first
\* and are only required to be schedule-independent, by Deterministic.)
FilterRestricts == (pc = "done" /\ ~DevFirstWins) => \A n \in Nums : xref[n] # Absent =>
    LET src == IF n \in DOMAIN PlainResult THEN PlainResult[n][1] ELSE 0
        exp == n \in DOMAIN PlainResult /\ n \notin drop /\ src \notin drop
    IN (n \in DOMAIN result <=> exp) /\ (exp => result[n] = PlainResult[n])
=============================================================================
