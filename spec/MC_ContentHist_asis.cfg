SPECIFICATION Spec
CONSTANTS
  MaxNest = 3
  Threads = {1, 2}
  Leak = FALSE
  MaxDisturb = 2
  Emit = TRUE
INVARIANTS Functional EmitInv
CHECK_DEADLOCK FALSE
