------------------------------ MODULE MC_CMap ------------------------------
(* Exhaustive exploration of CMap: every sequence of at most MaxDefs definitions over NCodes      *)
(* codes for each code length in Lens - bfchar with a one-unit or multi-unit target, bfrange of   *)
(* every extent with an incrementing one-unit target, an incrementing multi-unit target or an     *)
(* array target; two distinct values of each form, chosen so that EQUAL values on touching ranges *)
(* occur (65/66 give equal UTF16CodePoint offsets on neighbouring codes).  One action per         *)
(* ToUnicodeCMap::put / put_char.                                                                 *)
(*                                                                                                *)
(* Dev_h34 / Dev_h35 = FALSE: the interval maps as the code is (since fix: 3c7db25), Refines       *)
(* holds.  TRUE: the repaired defects seeded back (cfg *_cex, a negative control): Refines then    *)
(* has the former counter-examples and RefinesExceptKnown asserts that every counter-example lies  *)
(* in one of the KnownClasses.  With Emit every state is printed as one                            *)
(* replay case: program text, code bytes, the text the declarative layer defines (per code and   *)
(* for the whole string), the impl-shaped prediction (m; o = the prediction with the repaired      *)
(* defects switched on, used to name a regression) and the input class of every code.              *)
(*                                                                                                *)
(* Second dimension: every state carries one STYLE (CMap!sty, chosen in Init from Styles): the     *)
(* separator written at every gap of one class, white space at one position inside hexadecimal    *)
(* strings, a zero-entry section, further CMap dictionary entries, or the /Encoding form next to    *)
(* /ToUnicode in the font dictionary.  Accepts = the impl-shaped grammar / get_font_encoding get to *)
(* the CMap (switches Dev_gram: GramAsIs / GramRepaired); AcceptsExceptKnown asserts that a refused *)
(* style is of a listed class.  Emitted with every case: f font form, s style, sc its class, ma     *)
(* the impl-shaped prediction.                                                                    *)
EXTENDS CMap, Json

CONSTANTS Lens, NCodes, MaxDefs, Dev_h34, Dev_h35, Emit, KnownClasses, BaseVal, Rich,
          Styles,          \* the styles (CMap!Program) explored as a dimension: every state carries one, chosen in Init
          Dev_gram,        \* grammar and font-dictionary switches: GramAsIs or GramRepaired
          SingleRangeStr   \* allow bfrange lo = hi with a string target (so that NCodes = 1 has every entry form)

VARIABLES defs, maps, sty
vars == <<defs, maps, sty>>

dev == [h34 |-> Dev_h34, h35 |-> Dev_h35]
\* grammar and font-dictionary switches (CMap!ImplAccepts), TRUE = the defect is in the code.  GramAsIs is the code
\* as it is: when a fix: commit repairs a class, its switch goes to FALSE here and its entry in known_findings to "fixed".
\*   g2 C15:grammar.sep.bf   g6 C15:grammar.sep.hdr   g3 C15:grammar.hex-ws   g4 C15:grammar.ff-nul
\*   g5 C15:grammar.empty-section   g7 C15:grammar.hdr-key   f1 C15:font.enc.base, C15:font.enc.cmapname
GramAsIs     == [g2 |-> FALSE, g3 |-> FALSE, g4 |-> FALSE, g5 |-> FALSE, g6 |-> FALSE, g7 |-> FALSE, f1 |-> FALSE]     \* all repaired: 72f099a cca7710 c0049ff 2ef923d be2ac33 f484824
GramRepaired == [g2 |-> FALSE, g3 |-> FALSE, g4 |-> FALSE, g5 |-> FALSE, g6 |-> FALSE, g7 |-> FALSE, f1 |-> FALSE]
gdev == Dev_gram
ASSUME Dev_h35 => Dev_h34             \* a value without a base can only be read from the range start
ASSUME Lens \subseteq 1..3 /\ NCodes \in 1..8

\* first code of the model's code space per length: boundaries 00 / FFFF (edge) or mid-table
BaseEdge == [l \in 1..3 |-> CASE l = 1 -> 0  [] l = 2 -> 65536 - NCodes [] l = 3 -> 8388608]     \* 00, FFFx, 800000
BaseMid  == [l \in 1..3 |-> CASE l = 1 -> 65 [] l = 2 -> 33088          [] l = 3 -> 14712960]    \* 41, 8140, E08080
Codes(l) == BaseVal[l]..(BaseVal[l] + NCodes - 1)

SingleVals == {<<65>>, <<66>>}
MultiVals  == IF Rich THEN {<<102, 105>>, <<55357, 56832>>}      \* "fi", U+1F600 as a surrogate pair
              ELSE {<<55357, 56832>>}
ArrForms   == IF Rich THEN {1, 2} ELSE {2}
ArrA(n) == [i \in 1..n |-> <<97 + i>>]
ArrB(n) == [i \in 1..n |-> IF i % 2 = 1 THEN <<102, 108 + i>> ELSE <<55357, 56840 + i>>]

\* ---- the style dimension
GapSeps == {<<>>, <<"sp">>, <<"tab">>, <<"lf">>, <<"cr">>, <<"crlf">>, <<"ff">>, <<"nul">>, <<"cmt">>,
            <<"sp", "lf", "tab">>, <<"cmt", "sp">>, <<"lf", "ff">>}
HexSeps == {<<"sp">>, <<"lf">>, <<"crlf">>, <<"ff">>, <<"nul">>, <<"tab", "sp">>}
GapStyles   == {[k |-> "gap", a |-> g, b |-> "", s |-> q] : g \in BfGaps \cup HdrGaps, q \in GapSeps}
HexStyles   == {[k |-> "hex", a |-> "src", b |-> p, s |-> q] : p \in {"lead", "nib", "byte", "trail"}, q \in HexSeps}
               \cup {[k |-> "hex", a |-> "tgt", b |-> p, s |-> q] : p \in {"lead", "nib", "byte", "unit", "trail"}, q \in HexSeps}
EmptyStyles == {[k |-> "empty", a |-> w, b |-> "", s |-> <<>>] : w \in {"char.first", "range.first", "char.last", "range.last"}}
HeadStyles  == {[k |-> "head", a |-> h, b |-> "", s |-> <<>>] : h \in {"dictdup", "order"} \cup ExtraKeyHeads}
FontStyles  == {[k |-> "font", a |-> f, b |-> "", s |-> <<>>] : f \in FontForms}
CanonOnly   == {Canon}
AllStyles   == CanonOnly \cup GapStyles \cup HexStyles \cup EmptyStyles \cup HeadStyles \cup FontStyles
\* a font with one of the four base encodings is a simple font: its codes are single bytes
GramStyles  == {st \in AllStyles : ~(st.k = "font" /\ st.a \in BaseForms)}
FontOnly    == CanonOnly \cup FontStyles

Init == defs = <<>> /\ maps = EmptyMaps /\ sty \in Styles

\* one call of put_char / put
AddChar ==
    /\ Len(defs) < MaxDefs
    /\ \E l \in Lens : \E c \in Codes(l) : \E u \in SingleVals \cup MultiVals :
          LET d == MkDef("char", l, c, c, Str(u)) IN
          defs' = Append(defs, d) /\ maps' = Put(dev, maps, d) /\ UNCHANGED sty

AddRangeStr ==
    /\ Len(defs) < MaxDefs
    /\ \E l \in Lens : \E lo \in Codes(l) : \E hi \in Codes(l) : \E u \in SingleVals \cup MultiVals :
          LET d == MkDef("range", l, lo, hi, Str(u)) IN
          (lo < hi \/ (SingleRangeStr /\ lo = hi)) /\ defs' = Append(defs, d) /\ maps' = Put(dev, maps, d) /\ UNCHANGED sty

AddRangeArr ==
    /\ Len(defs) < MaxDefs
    /\ \E l \in Lens : \E lo \in Codes(l) : \E hi \in Codes(l) : \E f \in ArrForms :
          LET d == MkDef("range", l, lo, hi, Arr(IF f = 1 THEN ArrA(hi - lo + 1) ELSE ArrB(hi - lo + 1))) IN
          lo <= hi /\ defs' = Append(defs, d) /\ maps' = Put(dev, maps, d) /\ UNCHANGED sty

Next == AddChar \/ AddRangeStr \/ AddRangeArr
Spec == Init /\ [][Next]_vars

-----------------------------------------------------------------------------
LenSeq   == SetToSortSeq(Lens, LAMBDA a, b : a < b)
AllCodes == FoldLeft(LAMBDA acc, l : acc \o [i \in 1..NCodes |-> <<l, BaseVal[l] + i - 1>>], <<>>, LenSeq)
CovSeq   == SelectSeq(AllCodes, LAMBDA c : Covered(defs, c[1], c[2]))
BytesSeq(cs) == FoldLeft(LAMBDA acc, c : acc \o BytesOf(c[1], c[2]), <<>>, cs)

Hash == FoldLeft(LAMBDA h, d : (h * 7 + (d.lo - BaseVal[d.len]) * 3 + (d.hi - BaseVal[d.len]) + d.len + Len(d.t.u) + Len(d.t.a)) % 9973,
                 Len(defs), defs)
\* tolerated variation (what lopdf's grammar takes everywhere as the code is), chosen from the definitions
TvOf(n) == [lower |-> n % 2 = 1,
            sp    |-> CASE n % 3 = 0 -> <<"sp">> [] n % 3 = 1 -> <<>> [] OTHER -> <<"tab", "sp">>,
            nl    |-> CASE n % 4 = 0 -> <<"lf">> [] n % 4 = 1 -> <<"crlf">> [] n % 4 = 2 -> <<"sp", "lf">> [] OTHER -> <<"cr">>,
            usp   |-> n % 5 = 0,
            head  |-> ((n \div 2) % 2) + 1]
CodeSpace == [i \in 1..Len(LenSeq) |-> <<LenSeq[i], BaseVal[LenSeq[i]], BaseVal[LenSeq[i]] + NCodes - 1>>]
FontForm  == IF sty.k = "font" THEN sty.a ELSE <<"absent", "Identity-H", "Identity-V", "dict.diff">>[(Hash % 4) + 1]
Accepts   == ImplAccepts(gdev, defs, CodeSpace, TvOf(Hash), sty, FontForm)

Got(c)      == ImplGet(dev, maps, c[1], c[2])
Mismatch(c) == Got(c) # Lookup(defs, c[1], c[2])

\* impl-shaped refines declarative: per code, unmapped codes stay unmapped, and whole strings
Refines ==
    /\ \A i \in 1..Len(AllCodes) : LET c == AllCodes[i] IN
          IF Covered(defs, c[1], c[2]) THEN ~Mismatch(c) ELSE Got(c) = <<>>
    /\ ImplDecodeUnits(dev, maps, BytesSeq(CovSeq)) = Units(defs, CovSeq)
    /\ Accepts                               \* every legal spelling and every font dictionary leads to the CMap

\* every counter-example to Refines is one of the listed classes (none as the code is; the four former
\* classes with the deviations seeded back)
RefinesExceptKnown ==
    \A i \in 1..Len(AllCodes) : LET c == AllCodes[i] IN
          IF Covered(defs, c[1], c[2]) THEN (Mismatch(c) => CaseClass(defs, c[1], c[2]) \in KnownClasses)
          ELSE Got(c) = <<>>

\* ... and a rejected spelling / font dictionary is one of the listed classes
AcceptsExceptKnown == Accepts \/ StyleClassIn(sty, KnownClasses)

\* strict refinement that reports its counter-example (used with the repaired defects seeded back: must be
\* violated, and the reported classes must be the former findings)
RefinesCex ==
    Refines \/ LET cs == SelectSeq(CovSeq, Mismatch) IN
               PrintT(<<"CEX", ToJson([d |-> defs, k |-> [i \in 1..Len(cs) |-> CaseClass(defs, cs[i][1], cs[i][2])]])>>) /\ FALSE

\* the segmentation loop returns the concatenation of the per-code results (prefix-free codes)
SegmentationOK ==
    LET cs == CovSeq IN
    ImplDecodeUnits(dev, maps, BytesSeq(cs)) =
        (IF \E i \in 1..Len(cs) : Got(cs[i]) = Panic THEN Panic
         ELSE FoldLeft(LAMBDA acc, c : acc \o Got(c), <<>>, cs))

MapsOK    == \A l \in 1..4 : MapInv(maps[l])
DomainOK  == /\ WellFormed(defs) /\ PrefixFree(defs) /\ StyleLegal(sty)
             /\ (sty.k = "font" /\ sty.a \in BaseForms => \A i \in 1..Len(defs) : defs[i].len = 1)          \* the generator stays inside the property's domain
BuildForm == maps = BuildMaps(dev, defs)                    \* function form = action form

-----------------------------------------------------------------------------
ImplChars(c) == LET g == Got(c) IN IF g = Panic THEN Panic ELSE Text(g)
\* what the interval maps with the repaired defects (h34, h35) would answer
devOld == [h34 |-> TRUE, h35 |-> TRUE]
OldChars(c) == LET g == ImplGet(devOld, BuildMaps(devOld, defs), c[1], c[2]) IN IF g = Panic THEN Panic ELSE Text(g)

EmitInv ==
    (Emit /\ Len(defs) >= 1) =>
        LET cs == CovSeq IN
        PrintT(<<"REPLAY", ToJson([
            d |-> defs,
            t |-> Program(defs, CodeSpace, TvOf(Hash), sty),
            f |-> FontForm, s |-> sty, sc |-> StyleClass(sty), ma |-> Accepts,
            c |-> [i \in 1..Len(cs) |-> BytesOf(cs[i][1], cs[i][2])],
            e |-> [i \in 1..Len(cs) |-> Text(Lookup(defs, cs[i][1], cs[i][2]))],
            m |-> [i \in 1..Len(cs) |-> ImplChars(cs[i])],
            o |-> [i \in 1..Len(cs) |-> OldChars(cs[i])],
            k |-> [i \in 1..Len(cs) |-> CaseClass(defs, cs[i][1], cs[i][2])],
            w |-> Decode(defs, cs)])>>)
=============================================================================
